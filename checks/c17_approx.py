"""C17 - SolveNewmark and coupled-damping-as-force (SolveCDF / cd_as_force): documented recurrences,
convergence, stability, massless DOF, diagonal-damping identity."""
import numpy as np
import scipy.linalg as la
from hypothesis import strategies as st

from refs import newmark_doc, ode_exact
from vlib import util
from vlib import defaults
from vlib.core import Part

PROPERTY = "C17"
RULE = ("newmark: random (m, b, k) diagonal or full SPD, optionally singular mass (massless DOF with "
        "non-singular K), rf partitions, h from 1e-4 T_min to 1e3 T_max, nt 2..60, d0/v0, 0..2 nonlinear "
        "terms (cubic spring, gap spring, velocity term) with transforms; oracle = literal dense transcription "
        "of the documented recurrence incl. start-up, extrapolated last step and z outputs.  cdf: diagonal "
        "M, K with full SPD damping; oracle = dense solution of the documented equations (1)-(2) per step with "
        "per-mode coefficients from the exact one-mode transition (40-digit).  convergence: sinusoidally "
        "forced systems (forcing carried as an auxiliary exact oscillator) solved on h, h/2, h/4, h/8; "
        "observed order of the error against the exact solution.  stability: free decay of damped systems "
        "with arbitrary h stays bounded.  identity: SolveCDF == SolveUnc bit for bit with diagonal damping.  "
        "Non-trivial: nt >= 5 and (coupled matrices or singular mass or a nonlinear term).")
ASSUME = ["numpy dense solves for the transcription", "mpmath exact one-step maps (refs/ode_exact)"]
KNOWN = {}
EPS = util.EPS
CTOL = 200.0


def spd(rng, n, lo=0.5, hi=3.0):
    X = rng.standard_normal((n, n))
    Q, _ = np.linalg.qr(X)
    return Q @ np.diag(rng.uniform(lo, hi, n)) @ Q.T


# ---------------------------------------------------------------- Newmark transcription

def nl_functions(spec, n):
    """-> (pyyeti_callable, reference_fn, T)"""
    kind, dofs, coef = spec["kind"], spec["dofs"], spec["coef"]
    dofs = [i % n for i in dofs]

    if kind == "cubic":
        def ref(uj, ujm1, h):
            return -coef * uj[dofs] ** 3
    elif kind == "gap":
        xp = [-2.0, -0.5, 0.5, 2.0]
        fp = [1.5 * coef, 0.0, 0.0, -1.5 * coef]

        def ref(uj, ujm1, h):
            return np.interp(uj[dofs], xp, fp)
    else:
        def ref(uj, ujm1, h):
            return -coef * (uj[dofs] - ujm1[dofs]) / h

    def fn(d, j, h, scale=1.0):
        return scale * ref(d[:, j], d[:, j - 1], h)
    T = np.zeros((n, len(dofs)))
    for c, i in enumerate(dofs):
        T[i, c] = 1.0
    return fn, ref, T


def oracle_newmark(case, R):
    from pyyeti import ode
    n, nt, h = case["n"], case["nt"], case["h"]
    rng = util.rng_of(case["seed"])
    form = case["form"]
    if form == "diag":
        mv = rng.uniform(0.5, 2.0, n)
        kv = mv * (2 * np.pi * rng.uniform(0.3, 3.0, n)) ** 2
        bv = 2 * rng.choice([0.0, 0.02, 0.3, 1.5], n) * np.sqrt(kv * mv)
        M, B, K = np.diag(mv), np.diag(bv), np.diag(kv)
    else:
        M = spd(rng, n)
        K = spd(rng, n, 5.0, 200.0)
        B = spd(rng, n, 0.01, 2.0) if case["damped"] else np.zeros((n, n))
    massless = [i % n for i in case["massless"]] if n > 1 else []
    massless = sorted(set(massless))[:n - 1]
    if massless:
        if form == "diag":
            M[massless, massless] = 0.0
        else:
            keep = np.ones(n)
            keep[massless] = 0.0
            M = np.diag(keep) @ M @ np.diag(keep)
    rf = sorted(set(i % n for i in case["rf"])) if form == "diag" else []
    rf = [i for i in rf if i not in massless][:max(0, n - 1)]
    nonlin = case["nonlin"] if not rf else []
    # any units (linear problems only: forces and initial conditions times one factor)
    usc = float(case.get("uscale", 1.0)) if not nonlin else 1.0
    R.label("uscale=1" if usc == 1.0 else "uscale:other")
    F = rng.integers(-4, 5, (n, nt)).astype(float) * usc
    d0 = rng.integers(-2, 3, n).astype(float) * case["icscale"] * usc if case["ic"] else None
    v0 = rng.integers(-2, 3, n).astype(float) * case["icscale"] * usc if case["ic"] else None
    mform = case["mform"]
    if form == "diag" and not massless:
        M_in = None if (mform == "none") else (np.diag(M).copy() if mform == "vec" else M)
        if M_in is None:
            M = np.eye(n)
    else:
        M_in = np.diag(M).copy() if (form == "diag" and mform == "vec") else M
    B_in = np.diag(B).copy() if form == "diag" and case["bvec"] else B
    K_in = np.diag(K).copy() if form == "diag" and case["kvec"] else K
    ts = ode.SolveNewmark(M_in, B_in, K_in, h, rf=rf or None)
    refnl = []
    dct = {}
    dyn = [i for i in range(n) if i not in rf]
    for q, spec in enumerate(nonlin):
        fn, ref, T = nl_functions(spec, n)
        scale = spec.get("scale", 1.0)
        dct[f"nl{q}"] = (fn, T, {"scale": scale}) if spec.get("kwargs") else (lambda d, j, h, _f=fn, _s=scale: _f(d, j, h, _s), T)
        refnl.append(((lambda uj, ujm1, hh, _r=ref, _s=scale: _s * _r(uj, ujm1, hh)), T[dyn]))
    if dct:
        ts.def_nonlin(dct)
    Fh, lab_ = util.repack(F, case.get("fpack", "same"))
    R.label("force:" + lab_)
    sol = ts.tsolve(Fh, d0, v0)
    R.check(np.array_equal(np.asarray(Fh, dtype=float), F), "tsolve_modifies_force", lab_)
    if case.get("reuse"):
        # the same instance solves the same load case again: identical histories (no state left behind by the
        # first solve, nonlinear terms included)
        with np.errstate(all="ignore"):
            sol2 = ts.tsolve(F, d0, v0)
        same_ = all(np.array_equal(getattr(sol, q_), getattr(sol2, q_), equal_nan=True) for q_ in "dva")
        R.check(same_, "newmark_second_solve_differs")
        R.label("reuse")
    with np.errstate(all="ignore"):
        dr, vr, ar, zs = newmark_doc.newmark(M, B, K, h, F, d0, v0, rf, refnl)
    if not (np.all(np.isfinite(dr)) and np.all(np.isfinite(ar)) and np.abs(dr).max() < 1e100):
        R.label("out_of_domain:explicit_nonlinear_term_diverges")
        return
    ix = np.ix_(dyn, dyn)
    A = M[ix] / h ** 2 + B[ix] / (2 * h) + K[ix] / 3
    cnd = np.linalg.cond(A)
    R.label(f"form={form}", "massless" if massless else "regular_mass", "rf" if rf else "norf",
            f"nonlin={len(nonlin)}", "ic" if case["ic"] else "noic", "unc" if ts.unc else "coupled")
    R.nontrivial(nt >= 5 and (form == "full" or bool(massless) or bool(nonlin)))
    # growth of rounding errors through the recurrence: bounded by the amplification of the scheme
    amp = max(1.0, np.abs(dr).max() / max(np.abs(dr[:, :2]).max(), np.abs(F).max() / np.abs(A).max(), 1e-300))
    tol = CTOL * EPS * cnd * nt * min(amp, 1e6)
    if nt > 1000:
        # long histories: the recurrence is a double summation - a rounding error made at one step comes back as an
        # oscillation of amplitude error / sin(theta), theta ~ w h the phase advance per step of the slowest mode
        # (no stiffness: it grows linearly).  Measured on the unchanged tree: 2.2x the short-history bound at
        # nt = 4097, h = 1e-4 (one undamped mode)
        try:
            ev = la.eigvals(np.atleast_2d(K), np.atleast_2d(M))
            ev = ev[np.isfinite(ev)].real
            wmin = float(np.sqrt(ev[ev > 0].min())) if np.any(ev > 0) else 0.0
        except Exception:
            wmin = 0.0
        tol *= max(1.0, min(float(nt), 1.0 / max(wmin * h, 1.0 / nt)) / 50.0)
    if nonlin:
        tol *= 100.0      # explicit nonlinear feedback amplifies rounding differences (problem dependent)
    sd = max(np.abs(dr).max(), 1e-300)
    for q, got, ref, sc in (("d", sol.d, dr, sd), ("v", sol.v, vr, max(np.abs(vr).max(), sd / h)),
                            ("a", sol.a, ar, max(np.abs(ar).max(), sd / h ** 2))):
        e = np.abs(got - ref).max() / sc
        if not np.isfinite(e):
            e = np.inf
        R.metric(f"newmark_{q}/tol", e / tol)
        R.check(e <= tol, f"newmark_{q}_vs_documented_recurrence",
                f"form={form} n={n} nt={nt} h={h:.3g} massless={massless} rf={rf} nonlin={[s['kind'] for s in nonlin]} "
                f"relerr={e:.3e} tol={tol:.3e} cond={cnd:.2e}")
    if nonlin:
        ok = hasattr(sol, "z") and set(sol.z.keys()) == set(dct.keys())
        R.check(ok, "newmark_z_keys")
        if ok:
            for q in range(len(nonlin)):
                zr = zs[q]
                zg = sol.z[f"nl{q}"]
                # z = f(u): its error is the displacement error times the Lipschitz constant of f
                spec = nonlin[q]
                dd = [i % n for i in spec["dofs"]]
                umax = max(np.abs(dr[dd]).max(), 1e-300)
                lip = {"cubic": 3 * spec["coef"] * umax ** 2, "gap": spec["coef"],
                       "velo": 2 * spec["coef"] / h}[spec["kind"]] * spec.get("scale", 1.0)
                ztol = 10 * lip * tol * sd + 100 * EPS * max(np.abs(zr).max(), 1e-300)
                e = np.abs(zg - zr).max() if zg.shape == zr.shape else np.inf
                R.check(e <= ztol, "newmark_z_outputs", f"term {q}: abs err={e:.2e} tol={ztol:.2e}")
    else:
        R.check(not hasattr(sol, "z"), "newmark_unexpected_z")
    R.check(np.allclose(sol.t, h * np.arange(nt)), "newmark_time_vector")


@st.composite
def newmark_cases(draw):
    n = draw(st.integers(1, 5))
    form = draw(st.sampled_from(["diag", "full", "full"]))
    nl = []
    for _ in range(draw(st.integers(0, 2))):
        nl.append({"kind": draw(st.sampled_from(["cubic", "gap", "velo"])),
                   "dofs": draw(st.lists(st.integers(0, 4), min_size=1, max_size=2, unique=True)),
                   "coef": draw(st.sampled_from([0.5, 5.0, 50.0])), "scale": draw(st.sampled_from([1.0, 0.5])),
                   "kwargs": draw(st.booleans())})
    return {"n": n, "form": form, "nt": draw(st.integers(2, 60)), "h": 10.0 ** draw(st.floats(-4, 0.5)),
            "seed": draw(st.integers(0, 2 ** 31)), "damped": draw(st.booleans()),
            "massless": draw(st.lists(st.integers(0, 4), max_size=2)) if draw(st.booleans()) else [],
            "rf": draw(st.lists(st.integers(0, 4), max_size=2)) if draw(st.integers(0, 3)) == 0 else [],
            "ic": draw(st.booleans()), "icscale": draw(st.sampled_from([1.0, 0.01])),
            "mform": draw(st.sampled_from(["none", "vec", "mat"])), "bvec": draw(st.booleans()),
            "kvec": draw(st.booleans()), "nonlin": nl, "fpack": draw(st.sampled_from(util.PACKS)), "reuse": draw(st.integers(0, 2)) == 0,
            "uscale": draw(st.sampled_from([1.0, 1.0, 1e-10, 2.0 ** -30, 1e9]))}


# ---------------------------------------------------------------- CDF recurrence

def mode_coefs(m, b, k, h):
    import mpmath
    E, P1, P2, Mi, MiB, MiK = ode_exact.step_maps(np.array([[m]]), np.array([[b]]), np.array([[k]]), h, 1)
    f = lambda x: float(x)          # noqa: E731
    return dict(F=f(E[0, 0]), G=f(E[0, 1]), A=f(P1[0, 0] - P2[0, 0]), B=f(P2[0, 0]),
                Fp=f(E[1, 0]), Gp=f(E[1, 1]), Ap=f(P1[1, 0] - P2[1, 0]), Bp=f(P2[1, 0]))


def oracle_cdf(case, R):
    from pyyeti import ode
    n, nt, h, order = case["n"], case["nt"], case["h"], case["order"]
    rng = util.rng_of(case["seed"])
    mv = rng.choice([1.0, 0.5, 2.0], n)
    wh = 10.0 ** rng.uniform(-1.2, 0.6, n)
    kv = mv * (wh / h) ** 2
    nrb = case["nrb"] if n > 1 else 0
    kv[:nrb] = 0.0
    zeta = rng.choice([0.01, 0.05, 0.3, 1.0, 2.0], n)
    bd = 2 * zeta * np.sqrt(np.where(kv > 0, kv, (1.0 / h) ** 2 * mv) * mv)
    bd[:nrb] = 0.0
    Cod = np.zeros((n, n))
    el = list(range(nrb, n))
    if len(el) >= 2:
        P = spd(rng, len(el), 0.1, 1.0)
        P = P - np.diag(np.diag(P))
        P *= case["ratio"] * np.sqrt(np.outer(bd[el], bd[el])) / max(np.abs(P).max(), 1e-300)
        Cod[np.ix_(el, el)] = P
    Bfull = np.diag(bd) + Cod
    usc = float(case.get("uscale", 1.0))
    R.label("uscale=1" if usc == 1.0 else "uscale:other")
    F = rng.integers(-4, 5, (n, nt)).astype(float) * usc
    d0 = rng.integers(-2, 3, n).astype(float) * usc if case["ic"] else np.zeros(n)
    v0 = rng.integers(-2, 3, n).astype(float) / h * usc if case["ic"] else np.zeros(n)
    rbpos = list(range(nrb))
    if case.get("perm") and n > 1:
        # any mode order: rigid-body equations interleaved with elastic ones (non-contiguous partitions)
        pm = util.rng_of(case["seed"] + 3).permutation(n)
        mv, kv, bd, F, d0, v0 = mv[pm], kv[pm], bd[pm], F[pm], d0[pm], v0[pm]
        Cod = Cod[np.ix_(pm, pm)]
        Bfull = Bfull[np.ix_(pm, pm)]
        rbpos = sorted(int(np.nonzero(pm == i)[0][0]) for i in range(nrb))
        R.label("rb_interleaved" if nrb and rbpos != list(range(nrb)) and rbpos != list(range(n - nrb, n)) else "rb_contiguous")
    M_in = None if case["mform"] == "none" else (mv if case["mform"] == "vec" else np.diag(mv))
    if M_in is None:
        kv = kv / mv
        Bfull = Bfull / mv[:, None]      # keep the same physical system with unit mass
        Cod = Cod / mv[:, None]
        bd = bd / mv
        F = F / mv[:, None]
        mv = np.ones(n)
    cls = ode.SolveCDF if case["cls"] == "SolveCDF" else (lambda *a, **k: ode.SolveUnc(*a, cd_as_force=True, **k))
    ts = cls(M_in, Bfull, kv, h, rb=rbpos if case["rb_given"] else None, order=order)
    Fh, lab_ = util.repack(F, case.get("fpack", "same"))
    R.label("force:" + lab_)
    sol = ts.tsolve(Fh, d0 if case["ic"] else None, v0 if case["ic"] else None)
    R.check(np.array_equal(np.asarray(Fh, dtype=float), F), "tsolve_modifies_force", lab_)
    if case.get("reuse"):
        ts.tsolve(F[:, ::-1] * 0.5 + 1.0)                        # another load case in between
        sol2 = ts.tsolve(F, d0 if case["ic"] else None, v0 if case["ic"] else None)
        R.check(all(np.array_equal(getattr(sol, q_), getattr(sol2, q_)) for q_ in "dva"), "cdf_second_solve_differs")
        R.label("reuse")
    R.label(f"order={order}", f"cls={case['cls']}", "cdforces" if ts.cdforces else "plain",
            "rb" if nrb else "norb", "offdiag" if np.any(Cod) else "diagonal")
    R.nontrivial(nt >= 5 and np.any(Cod))
    co = [mode_coefs(mv[i], bd[i], kv[i], h) for i in range(n)]
    g = lambda key: np.array([c[key] for c in co])        # noqa: E731
    Fc, G, A, B, Fp, Gp, Ap, Bp = (g(x) for x in ("F", "G", "A", "B", "Fp", "Gp", "Ap", "Bp"))
    Z = np.eye(n) + Bp[:, None] * Cod
    cnd = np.linalg.cond(Z)
    d = np.zeros((n, nt))
    v = np.zeros((n, nt))
    d[:, 0], v[:, 0] = d0, v0
    for i in range(nt - 1):
        P0 = F[:, i]
        P1 = F[:, i + 1] if order == 1 else F[:, i]
        Q0 = Cod @ v[:, i]
        rhs = Fp * d[:, i] + Gp * v[:, i] + Ap * (P0 - Q0) + Bp * P1
        v[:, i + 1] = np.linalg.solve(Z, rhs)
        d[:, i + 1] = Fc * d[:, i] + G * v[:, i] + A * (P0 - Q0) + B * (P1 - Cod @ v[:, i + 1])
    a = (F - Bfull @ v - kv[:, None] * d) / mv[:, None]
    # coefficient conditioning of the uncoupled formulas (see C01): c/x^3 with x ~ pole spacing * h
    xs = []
    for i in range(n):
        if kv[i] > 0:
            w = np.sqrt(kv[i] / mv[i]) * h
            z = bd[i] / (2 * np.sqrt(kv[i] * mv[i]))
            rat = abs(1 - z * z)
            xs.append(w * (np.sqrt(rat) if rat > 1e-8 else 1.0) if z <= 1 else min(w * z - w * np.sqrt(rat), w * np.sqrt(rat)))
    kap = max([1.0] + [6.0 / x ** 3 for x in xs])
    tol = CTOL * EPS * nt * cnd * kap
    sd = max(np.abs(d).max(), 1e-300)
    term_a = (np.abs(F) + np.abs(Bfull) @ np.abs(v) + np.abs(kv)[:, None] * np.abs(d)).max() / mv.min()
    for q, got, ref, sc in (("d", sol.d, d, max(sd, h * h * term_a * 1e-3, 1e-300)),
                            ("v", sol.v, v, max(np.abs(v).max(), h * term_a, 1e-300)),
                            ("a", sol.a, a, max(np.abs(a).max(), term_a, 1e-300))):
        e = np.abs(got - ref).max() / sc
        R.metric(f"cdf_{q}/tol", e / tol)
        R.check(e <= tol, f"cdf_{q}_vs_documented_equations",
                f"order={order} n={n} nt={nt} h={h:.3g} relerr={e:.3e} tol={tol:.3e} cond={cnd:.2e} kap={kap:.2e}")
    if not np.any(Cod):
        su = ode.SolveUnc(M_in, Bfull if case["bmat"] else np.diag(Bfull).copy(), kv, h,
                          rb=rbpos if case["rb_given"] else None, order=order)
        s2 = su.tsolve(Fh, d0 if case["ic"] else None, v0 if case["ic"] else None)
        R.check(np.array_equal(sol.d, s2.d) and np.array_equal(sol.v, s2.v) and np.array_equal(sol.a, s2.a),
                "cdf_diagonal_damping_not_identical_to_SolveUnc")


@st.composite
def cdf_cases(draw):
    n = draw(st.integers(1, 5))
    return {"n": n, "nt": draw(st.integers(2, 40)), "h": 10.0 ** draw(st.floats(-3, -0.5)),
            "order": draw(st.sampled_from([0, 1])), "seed": draw(st.integers(0, 2 ** 31)),
            "nrb": draw(st.integers(0, 2)), "ratio": draw(st.sampled_from([0.0, 0.0, 0.05, 0.2, 0.5])),
            "ic": draw(st.booleans()), "mform": draw(st.sampled_from(["none", "vec", "mat"])),
            "cls": draw(st.sampled_from(["SolveCDF", "SolveUnc"])), "rb_given": draw(st.booleans()),
            "bmat": draw(st.booleans()), "perm": draw(st.booleans()), "fpack": draw(st.sampled_from(util.PACKS)),
            "reuse": draw(st.integers(0, 2)) == 0, "uscale": draw(st.sampled_from([1.0, 1.0, 1e-10, 2.0 ** -30, 1e9]))}


# ---------------------------------------------------------------- convergence and stability

def oracle_convergence(case, R):
    from pyyeti import ode
    n = case["n"]
    rng = util.rng_of(case["seed"])
    solver = case["solver"]
    fmax = 3.0
    mv = rng.uniform(0.5, 2.0, n)
    fr = rng.uniform(0.5, fmax, n)
    kv = mv * (2 * np.pi * fr) ** 2
    zeta = rng.uniform(0.01, 0.2, n)
    bd = 2 * zeta * np.sqrt(kv * mv)
    if solver == "newmark" and case["full"]:
        Q, _ = np.linalg.qr(rng.standard_normal((n, n)))
        M, B, K = Q @ np.diag(mv) @ Q.T, Q @ np.diag(bd) @ Q.T, Q @ np.diag(kv) @ Q.T
    else:
        M, K = np.diag(mv), np.diag(kv)
        B = np.diag(bd)
        if solver == "cdf" and n >= 2:
            P = spd(rng, n, 0.1, 1.0)
            P = P - np.diag(np.diag(P))
            B = B + 0.3 * P * np.sqrt(np.outer(bd, bd)) / max(np.abs(P).max(), 1e-300)
    ff = case["ff"]                  # forcing frequency (Hz)
    wf = 2 * np.pi * ff
    phase = 0.0 if case["consistent"] else case["phase"]
    g = rng.integers(1, 4, n).astype(float)
    T = 1.0
    h0 = 1.0 / (case["ppc"] * max(fmax, ff))
    errs = []
    for lev in range(4):
        nt = int(round(T / h0)) * 2 ** lev + 1
        h = T / (nt - 1)
        t = h * np.arange(nt)
        F = g[:, None] * np.sin(wf * t + phase)[None, :]
        # exact: forcing carried by an auxiliary undamped oscillator s'' + wf^2 s = 0, s = sin(wf t + phase)
        Ma = la.block_diag(M, [[1.0]])
        Ba = la.block_diag(B, [[0.0]])
        Ka = la.block_diag(K, [[wf * wf]])
        Ka[:n, n] = -g
        d0a = np.r_[np.zeros(n), np.sin(phase)]
        v0a = np.r_[np.zeros(n), wf * np.cos(phase)]
        if lev == 0:
            # exact solution on the coarsest grid (no external force: the oscillator state forces the system)
            de, ve, ae = ode_exact.exact_history(Ma, Ba, Ka, np.zeros((n + 1, nt)), d0a, v0a, h, 1)
            dex = de[:n]
        if solver == "newmark":
            sol = ode.SolveNewmark(M, B, K, h).tsolve(F)
        else:
            sol = ode.SolveCDF(np.diag(M).copy(), B, np.diag(K).copy(), h).tsolve(F)
        # max-norm error over the whole history, sampled at the coarse-grid times
        errs.append(np.abs(sol.d[:, ::2 ** lev] - dex).max() / max(np.abs(dex).max(), 1e-300))
    errs = np.array(errs)
    orders = np.log2(errs[:-1] / errs[1:])
    overall = np.log2(errs[0] / errs[-1]) / 3
    R.label(f"solver={solver}", "consistent_start" if case["consistent"] else "inconsistent_start")
    R.nontrivial(True)
    R.metric(f"{solver}_last_error", errs[-1])
    # asymptotic order from the finest pair (the coarse pairs are pre-asymptotic for inconsistent starts)
    want = 1.8 if (solver == "cdf" or case["consistent"]) else 0.9
    R.metric(f"{solver}_order_deficit", want - orders[-1])
    R.check(bool(np.all(np.diff(errs) < 0)) and orders[-1] >= want, f"{solver}_convergence_order",
            f"errors={errs.tolist()} orders={orders.round(2).tolist()} overall={overall:.2f} want>={want} "
            f"consistent={case['consistent']} ppc={case['ppc']}")


@st.composite
def conv_cases(draw):
    return {"n": draw(st.integers(1, 4)), "seed": draw(st.integers(0, 2 ** 31)),
            "solver": draw(st.sampled_from(["newmark", "newmark", "cdf"])), "full": draw(st.booleans()),
            "ff": draw(st.sampled_from([0.7, 1.3, 2.1])), "consistent": draw(st.booleans()),
            "phase": draw(st.sampled_from([0.5, 1.0, 1.5708])), "ppc": draw(st.sampled_from([25, 40, 60]))}


def oracle_stability(case, R):
    from pyyeti import ode
    n = case["n"]
    rng = util.rng_of(case["seed"])
    M = spd(rng, n)
    K = spd(rng, n, 5.0, 200.0)
    B = spd(rng, n, 0.05, 2.0)
    lam = la.eigvalsh(K, M)
    Tmin, Tmax = 2 * np.pi / np.sqrt(lam.max()), 2 * np.pi / np.sqrt(lam.min())
    h = case["hfac"] * (Tmin if case["hfac"] < 1 else Tmax)
    nt = case["nt"]
    d0 = rng.integers(-3, 4, n).astype(float)
    v0 = rng.integers(-3, 4, n).astype(float) / Tmax
    sol = ode.SolveNewmark(M, B, K, h).tsolve(np.zeros((n, nt)), d0, v0)
    # energy-like bound: the damped free response never exceeds the initial energy level
    e0 = 0.5 * d0 @ K @ d0 + 0.5 * v0 @ M @ v0
    bound = np.sqrt(2 * e0 / la.eigvalsh(K).min()) * 3.0 + 1e-300
    mx = np.abs(sol.d).max()
    first = np.abs(sol.d[:, :nt // 2]).max()
    second = np.abs(sol.d[:, nt // 2:]).max()
    R.label("h<Tmin" if case["hfac"] < 1 else "h>Tmax")
    R.nontrivial(True)
    R.metric("stability_max/bound", mx / bound)
    R.check(np.all(np.isfinite(sol.d)) and mx <= bound, "newmark_unbounded",
            f"h={h:.3g} (Tmin={Tmin:.3g} Tmax={Tmax:.3g}) max|d|={mx:.3e} energy bound={bound:.3e}")
    # a "second half <= first half" comparison of sampled maxima is unsound for coarse steps (aliasing of
    # the sampled peaks); boundedness by the initial energy level is what the property states
    _ = (first, second)


@st.composite
def stab_cases(draw):
    return {"n": draw(st.integers(1, 5)), "seed": draw(st.integers(0, 2 ** 31)), "nt": draw(st.integers(20, 200)),
            "hfac": draw(st.sampled_from([1e-4, 1e-2, 0.3, 1.5, 10.0, 1e3]))}


# histories longer than any plausible internal block (4096 / 8192 steps): one call = the documented recurrence
LONG_NT = [4097, 5000, 8193, 12289]


@st.composite
def cdf_long_cases(draw):
    c = draw(cdf_cases())
    c.update(nt=draw(st.sampled_from(LONG_NT)), n=min(c["n"], 3), reuse=False)
    return c


@st.composite
def newmark_long_cases(draw):
    c = draw(newmark_cases())
    # (linear only: thousands of steps through a gap / cubic spring amplify round-off without bound)
    c.update(nt=draw(st.sampled_from(LONG_NT)), n=min(c["n"], 3), reuse=False, nonlin=[])
    return c


PARTS = [
    Part("newmark", oracle_newmark, strategy=newmark_cases, quick=(6, 150), thorough=(16, 2000)),
    Part("cdf", oracle_cdf, strategy=cdf_cases, quick=(4, 100), thorough=(16, 1200)),
    Part("cdf_long", oracle_cdf, strategy=cdf_long_cases, quick=(4, 10), thorough=(8, 40)),
    Part("newmark_long", oracle_newmark, strategy=newmark_long_cases, quick=(4, 6), thorough=(8, 25)),
    Part("convergence", oracle_convergence, strategy=conv_cases, quick=(3, 25), thorough=(16, 100)),
    Part("stability", oracle_stability, strategy=stab_cases, quick=(2, 80), thorough=(8, 600)),
    # documented defaults: leaving a keyword out = passing its documented value (vlib/defaults.py)
    Part("defaults", defaults.make_oracle("C17"), enum=defaults.make_enum(), quick=(1, None), thorough=(1, None),
         exhaustive=True),
]
