"""C08 - step-wise generator interface == batch solution, over send histories."""
import numpy as np
import scipy.linalg as la
from hypothesis import strategies as st

from vlib import util
from vlib import defaults
from vlib.core import Part

PROPERTY = "C08"
RULE = ("model-based history test: a system (contiguous rb|el|rf blocks in any block order, m None/1-D/2-D, "
        "order 0/1, zero/random/static initial conditions) and a history of sends generated against a model "
        "of the interface state (`last` = highest valid step): advance send(last+1,f), redo send(last,f), "
        "jump back send(i,f) with 1<=i<last (then last=i), add-on send(-1,f), and get_f2x probes; the history "
        "is completed to nt-1 and finalised.  Families: SolveUnc real-uncoupled, SolveUnc complex-eigen "
        "(non-proportional damping), SolveUnc cd_as_force, SolveCDF, SolveExp2.  Oracle after EVERY send: the "
        "caller-visible d[:, :last+1], v[:, :last+1] and ts._force equal a fresh batch tsolve on the force "
        "history currently in effect; at finalize d, v, a (and force); get_f2x column j equals the change a "
        "unit add-on phi.T e_j produces in step `last` (zero for order 0).  Non-trivial: history has a redo or "
        "jump-back and an add-on followed by a later advance.")
ASSUME = ["the batch solvers are decided separately (C01/C17); here the generator must reproduce them",
          "bit-equality is not demanded (sums are associated differently): tolerance C*eps*nt*scale"]
KNOWN = {}
EPS = util.EPS
CTOL = 500.0


def build(case):
    h = case["h"]
    blocks = case["blocks"]          # list of ("rb"|"el"|"rf", [modes])
    m, b, k, kind = [], [], [], []
    for bname, modes in blocks:
        for md in modes:
            mm = md["m"]
            if bname == "rb":
                m.append(mm); b.append(0.0); k.append(0.0)
            else:
                w = md["wh"] / h
                m.append(mm); b.append(2 * md["zeta"] * w * mm); k.append(mm * w * w)
            kind.append(bname)
    m, b, k = np.array(m), np.array(b), np.array(k)
    n = len(m)
    idx = {nm: [i for i in range(n) if kind[i] == nm] for nm in ("rb", "el", "rf")}
    B = np.diag(b)
    rng = util.rng_of(case["seed"])
    if case["family"] in ("eig", "cdf_su", "cdf") and len(idx["el"]) >= 2:
        el = idx["el"]
        X = rng.standard_normal((len(el), len(el)))
        P = X @ X.T
        P *= case["cpl"] * np.sqrt(np.outer(b[el] + 1e-3, b[el] + 1e-3)) / np.abs(P).max()
        B[np.ix_(el, el)] += P
    return dict(n=n, m=m, b=b, k=k, B=B, idx=idx)


def make_solver(case, S):
    from pyyeti import ode
    fam = case["family"]
    mform = case["mform"]
    M = None if mform == "none" else (S["m"] if mform == "vec" else np.diag(S["m"]))
    diagB = bool(np.all(S["B"] == np.diag(np.diag(S["B"]))))
    Bm = np.diag(S["B"]).copy() if diagB and case["bvec"] else S["B"]
    K = S["k"] if case["kvec"] else np.diag(S["k"])
    rb = S["idx"]["rb"] if case["rb_given"] else None
    rf = S["idx"]["rf"] or None
    rb, _l1 = util.partition_form(rb, S["n"], case.get("ppack", "list"), case["seed"] + 31)
    rf, _l2 = util.partition_form(rf, S["n"], case.get("ppack", "list"), case["seed"] + 32)
    kw = dict(rb=rb, rf=rf, order=case["order"])
    h = case["h"]
    if fam == "se2" and case.get("mfull", "no") != "no" and not S["idx"]["rb"] and not S["idx"]["rf"] and S["n"] >= 2:
        # SolveExp2 takes any non-singular mass matrix: fully populated, symmetric or not (the reference is the
        # batch solution of the same solver, and get_f2x against a unit add-on)
        rngm = util.rng_of(case["seed"] + 55)
        N_ = rngm.standard_normal((S["n"], S["n"]))
        if case["mfull"] == "sym":
            N_ = (N_ + N_.T) / 2
        np.fill_diagonal(N_, 0.0)
        M = np.diag(S["m"]) + 0.25 * np.sqrt(np.outer(S["m"], S["m"])) * N_ / max(np.abs(N_).sum(axis=1).max(), 1e-300)
        return lambda: ode.SolveExp2(M, S["B"], np.diag(S["k"]), h, rb=None if rb is None else [], rf=None,
                                     order=case["order"])
    if fam in ("unc", "eig"):
        return lambda: ode.SolveUnc(M, Bm, K, h, **kw)
    if fam == "cdf_su":
        return lambda: ode.SolveUnc(M, Bm, K, h, cd_as_force=True, **kw)
    if fam == "cdf":
        return lambda: ode.SolveCDF(M, Bm, K, h, **kw)
    return lambda: ode.SolveExp2(M, Bm, K, h, **kw)


def oracle(case, R):
    S = build(case)
    n, h, nt, order = S["n"], case["h"], case["nt"], case["order"]
    mk = make_solver(case, S)
    rng = util.rng_of(case["seed"] + 1)
    ic = case["ic"]
    d0 = v0 = None
    if ic == "random":
        d0 = rng.integers(-3, 4, n).astype(float)
        v0 = rng.integers(-3, 4, n).astype(float) / h
    # the problem may be posed in any units: every force and initial condition times one factor (the problem is
    # linear, every tolerance below is relative to the magnitudes actually present)
    fsc = float(case.get("fscale", 1.0))
    if d0 is not None:
        d0, v0 = d0 * fsc, v0 * fsc
    # "if None, zero ic's are used": None and an explicit zero vector are the same request
    icf = case.get("icform", "asis")
    if ic == "zero" and icf in ("zeros_d0", "zeros_both"):
        d0 = np.zeros(n)
    if ic == "zero" and icf in ("zeros_v0", "zeros_both"):
        v0 = np.zeros(n)
    R.label("icform:" + icf)
    static_ic = ic == "static"
    F0 = np.array(case["f0"], float) * fsc
    R.label("fscale=1" if fsc == 1.0 else ("fscale<1e-8" if fsc < 1e-8 else "fscale:other"))
    ts = mk()
    R.label(f"family={case['family']}", f"order={order}", f"ic={ic}", f"m={case['mform']}",
            "blocks=" + "|".join(bn for bn, _ in case["blocks"]),
            "unc" if ts.unc else "coupled")
    gen, d, v = ts.generator(nt, F0, d0, v0, static_ic=static_ic)
    force = np.zeros((n, nt))
    force[:, 0] = F0
    # magnitude of everything that was ever added to a force column: add-ons that cancel (1 - 3 + 2) leave a
    # zero model force but a response of round-off size, whose natural scale is that of the add-ons
    fabs = np.zeros((n, nt))
    fabs[:, 0] = np.abs(F0)
    last = 0
    # eigen path (complex modes): generator and batch share the eigensolution but sum in a different order,
    # which costs eps * cond(V) (V = unit-norm eigenvectors of the elastic state matrix; measured 1.2 eps nt cond(V))
    kapV = 1.0
    el_ = S["idx"].get("el") or []
    if not ts.unc and el_:
        ix_ = np.ix_(el_, el_)
        Mm_ = np.diag(S["m"])[ix_]
        A_ = np.block([[-np.linalg.solve(Mm_, S["B"][ix_]), -np.linalg.solve(Mm_, np.diag(S["k"])[ix_])],
                       [np.eye(len(el_)), np.zeros((len(el_), len(el_)))]])
        V_ = np.linalg.eig(A_)[1]
        kapV = max(1.0, float(np.linalg.cond(V_ / np.linalg.norm(V_, axis=0))) / 100.0)
    R.metric("cond(V)/100", kapV)
    # natural magnitudes (see C01): acceleration terms, velocity and displacement changes per step
    Mo = np.diag(S["m"])
    iM = 1.0 / S["m"]

    def scales(sol_d, sol_v, Fh):
        Fh = np.maximum(np.abs(Fh), fabs[:, :Fh.shape[1]])
        term_a = (iM[:, None] * (np.abs(Fh) + np.abs(S["B"]) @ np.abs(sol_v)
                                 + np.abs(S["k"])[:, None] * np.abs(sol_d))).max()
        nsteps = Fh.shape[1]
        sd = max(np.abs(sol_d).max(), (h * nsteps) ** 2 * term_a * 1e-3, 1e-300)
        sv = max(np.abs(sol_v).max(), h * term_a, 1e-300)
        sa = max(term_a, 1e-300)
        return sd, sv, sa

    def check_state(tag):
        ref = mk().tsolve(force[:, :last + 1], d0, v0, static_ic=static_ic)
        sd, sv, sa = scales(ref.d, ref.v, force[:, :last + 1])
        tol = CTOL * EPS * (last + 1) * kapV
        ed = np.abs(d[:, :last + 1] - ref.d).max() / sd
        ev = np.abs(v[:, :last + 1] - ref.v).max() / sv
        R.metric("state_d/tol", ed / tol)
        R.metric("state_v/tol", ev / tol)
        R.check(ed <= tol, "visible_d_vs_batch", f"{tag} last={last} relerr={ed:.3e} tol={tol:.3e}")
        R.check(ev <= tol, "visible_v_vs_batch", f"{tag} last={last} relerr={ev:.3e} tol={tol:.3e}")
        R.check(np.array_equal(ts._force[:, :last + 1], force[:, :last + 1]), "force_record",
                f"{tag} last={last}")
        R.check(ts._d is d and ts._v is v, "arrays_identity", tag)

    nontriv_redo = nontriv_addon = False
    pending_addon = False
    nops = 0
    def hand(fv):
        """the force vector of a send in the caller's container (int array / list / read-only ...)"""
        obj, _lab = util.repack(fv, case.get("fpack", "same"))
        return obj

    R.label("force:" + case.get("fpack", "same"))
    if getattr(ts, "m", None) is not None and np.ndim(ts.m) == 2 and not np.array_equal(ts.m, np.diag(np.diag(ts.m))):
        R.label("mass:full_" + ("sym" if np.array_equal(ts.m, ts.m.T) else "nonsym"),
                "mass:full+f2x" if any(op[0] == "f2x" for op in case["ops"]) and order == 1 else "mass:full,no f2x")
    for op in case["ops"]:
        kind = op[0]
        nops += 1
        if kind == "adv":
            f = np.array(op[1], float) * fsc
            last += 1
            force[:, last] = f
            fabs[:, last] = np.abs(f)
            gen.send((last, hand(f)))
            if pending_addon:
                nontriv_addon = True
        elif kind == "redo":
            f = np.array(op[1], float) * fsc
            force[:, last] = f
            fabs[:, last] = np.abs(f)
            gen.send((last, f))
            nontriv_redo = True
            pending_addon = False
        elif kind == "back":
            i = op[1]
            f = np.array(op[2], float) * fsc
            last = i
            force[:, last] = f
            force[:, last + 1:] = 0.0
            fabs[:, last] = np.abs(f)
            fabs[:, last + 1:] = 0.0
            gen.send((last, f))
            nontriv_redo = True
            pending_addon = False
        elif kind == "addon":
            f = np.array(op[1], float) * fsc
            force[:, last] += f
            fabs[:, last] += np.abs(f)
            gen.send((-1, hand(f)))
            pending_addon = True
        elif kind == "f2x":
            velo = bool(op[1])
            p = op[2]
            prng = util.rng_of(op[3])
            phi = prng.integers(-2, 3, (p, n)).astype(float)
            flex = np.asarray(ts.get_f2x(phi, velo))
            R.label(f"f2x_velo={velo}")
            if not R.check(flex.shape == (p, p), "f2x_shape", f"{flex.shape}"):
                continue
            if order == 0:
                R.check(not np.any(flex), "f2x_order0_nonzero", f"max={np.abs(flex).max():.2e}")
                continue
            arr = v if velo else d
            scale = max(np.abs(flex).max(), 1e-300)
            for j in range(p):
                e = np.zeros(p)
                e[j] = 1.0
                add = phi.T @ e * fsc          # (a unit of the problem's own force scale; get_f2x is linear)
                before = arr[:, last].copy()
                gen.send((-1, add))
                delta = (arr[:, last] - before) / fsc
                gen.send((-1, -add))
                col = phi @ delta
                # delta is a difference of O(|x|) numbers: absolute rounding ~ eps*|x|*|phi|
                noise = EPS * (np.abs(phi) @ np.abs(before)).max() / fsc
                err = np.abs(col - flex[:, j]).max()
                R.metric("f2x/tol", err / (CTOL * EPS * scale + 50 * noise))
                R.check(err <= CTOL * EPS * scale + 50 * noise, "f2x_vs_unit_addon",
                        f"velo={velo} col {j}: err={err:.3e} scale={scale:.3e} noise={noise:.2e}")
            # the two add-ons cancel in the model force up to rounding: restore the record exactly
            force[:, last] = ts._force[:, last]
            continue
        check_state(f"after op {nops} ({kind})")
    # finalize (the generator completes the history first)
    R.check(last == nt - 1, "harness_history_incomplete", f"last={last} nt={nt}")
    get_force = case["get_force"]
    sol = ts.finalize(get_force=get_force)
    ref = mk().tsolve(force, d0, v0, static_ic=static_ic)
    sd, sv, sa = scales(ref.d, ref.v, force)
    tol = CTOL * EPS * nt * kapV
    for q, sc in (("d", sd), ("v", sv), ("a", sa)):
        e = np.abs(getattr(sol, q) - getattr(ref, q)).max() / sc
        R.metric(f"final_{q}/tol", e / tol)
        R.check(e <= tol, f"final_{q}_vs_batch", f"relerr={e:.3e} tol={tol:.3e}")
    if get_force:
        R.check(hasattr(sol, "force") and np.array_equal(sol.force, force), "final_force")
    else:
        R.check(not hasattr(sol, "force"), "final_force_unrequested")
    R.check(np.allclose(sol.t, h * np.arange(nt)), "final_time_vector")
    R.check(not hasattr(ts, "_d") and not hasattr(ts, "_force"), "finalize_cleans_up")
    R.nontrivial(nontriv_redo and nontriv_addon)
    R.label("hist:redo/back" if nontriv_redo else "hist:monotone",
            "hist:addon-then-advance" if nontriv_addon else "hist:no-addon-advance")


# ---------------------------------------------------------------- generators

fvals = st.sampled_from([0.0, 0.0, 1.0, -1.0, 2.0, -3.0, 5.0, 0.5])


@st.composite
def histories(draw, family):
    h = 10.0 ** draw(st.floats(-2.5, -0.5))
    order = draw(st.sampled_from([0, 1]))
    mform = draw(st.sampled_from(["none", "vec", "mat"]))
    nrb = draw(st.integers(0, 2))
    nel = draw(st.integers(2 if family in ("eig", "cdf", "cdf_su") else 0, 3))
    nrf = draw(st.integers(0, 2))
    mfull = draw(st.sampled_from(["no", "no", "sym", "nonsym"])) if family == "se2" else "no"
    if mfull != "no":
        nrb, nrf, nel = 0, 0, max(nel, 2)       # a fully populated mass couples everything: elastic equations only
    if nrb + nel + nrf == 0:
        nel = 1

    def mode(el):
        md = {"m": 1.0 if mform == "none" else draw(st.sampled_from([1.0, 0.5, 2.0]))}
        if el:
            md["wh"] = 10.0 ** draw(st.floats(-1.3, 0.8))
            md["zeta"] = draw(st.sampled_from([0.0, 0.01, 0.05, 0.3, 1.0, 2.0])) if family in ("unc", "se2") \
                else draw(st.sampled_from([0.01, 0.05, 0.3]))
        return md
    blocks = [("rb", [mode(False) for _ in range(nrb)]), ("el", [mode(True) for _ in range(nel)]),
              ("rf", [dict(mode(True), wh=10.0 ** draw(st.floats(0.5, 1.5))) for _ in range(nrf)])]
    # distinct elastic frequencies for the eigen path; k >= 0.02 for rb auto-detection
    seen = []
    for bn, modes in blocks:
        for md in modes:
            if "wh" in md:
                while any(abs(md["wh"] / s - 1) < 0.07 for s in seen):
                    md["wh"] *= 1.17
                seen.append(md["wh"])
                w = md["wh"] / h
                if md["m"] * w * w < 0.02:
                    md["wh"] = float(np.sqrt(0.02 / md["m"]) * h * 1.5)
    blocks = [bl for bl in draw(st.permutations(blocks)) if bl[1]]
    # documented limitation: every partition (incl. the non-rf set) must be contiguous -> rf block at an end
    if len(blocks) == 3 and blocks[1][0] == "rf":
        blocks = [blocks[0], blocks[2], blocks[1]]
    n = sum(len(bl[1]) for bl in blocks)
    nt = draw(st.integers(3, 12))
    fvec = st.lists(fvals, min_size=n, max_size=n)
    ops = []
    last = 0
    nsteps = draw(st.integers(2, 22))
    for _ in range(nsteps):
        choices = []
        if last < nt - 1:
            choices += ["adv"] * 4
        if last >= 1:
            choices += ["redo", "addon", "addon", "f2x"]
        if last >= 2:
            choices += ["back", "back"]
        k = draw(st.sampled_from(choices))
        if k == "adv":
            last += 1
            ops.append(["adv", draw(fvec)])
        elif k == "redo":
            ops.append(["redo", draw(fvec)])
        elif k == "addon":
            ops.append(["addon", draw(fvec)])
        elif k == "back":
            i = draw(st.integers(1, last - 1))
            last = i
            ops.append(["back", i, draw(fvec)])
        else:
            ops.append(["f2x", draw(st.booleans()), draw(st.integers(1, 3)), draw(st.integers(0, 10 ** 6))])
    while last < nt - 1:
        last += 1
        ops.append(["adv", draw(fvec)])
    return {"family": family, "h": h, "order": order, "mform": mform, "blocks": [list(bl) for bl in blocks],
            "nt": nt, "seed": draw(st.integers(0, 2 ** 31)), "ic": draw(st.sampled_from(["zero", "random", "static"])),
            "f0": draw(fvec), "ops": ops, "rb_given": draw(st.booleans()), "bvec": draw(st.booleans()),
            "fpack": draw(st.sampled_from(["same", "same", "int", "readonly"])),   # (documented: 1d ndarray)
            "kvec": draw(st.booleans()), "cpl": draw(st.sampled_from([0.05, 0.3, 0.8])),
            "get_force": draw(st.booleans()),
            # (the generator interface is documented to need contiguous blocks: the sets stay in ascending order)
            "ppack": draw(st.sampled_from(["list", "list", "array", "int32", "bool"])),
            "icform": draw(st.sampled_from(["asis", "asis", "zeros_d0", "zeros_v0", "zeros_both"])),
            "mfull": mfull,
            "fscale": draw(st.sampled_from([1.0, 1.0, 1.0, 1e-10, 2.0 ** -30, 1e-6, 1e8, 2.0 ** 30]))}


# ---------------------------------------------------------------- generator + pre_eig
def oracle_pre_eig(case, R):
    """The generator interface is documented as not implemented with the modal pre-transformation
    (NotImplementedError).  Validity predicate: a generator of a pre_eig solver is either refused, or what it
    produces is what `tsolve` of the same solver gives - never accepted and answered in the wrong coordinates."""
    from pyyeti import ode
    rng = util.rng_of(case["seed"])
    n, nt, h, order = case["n"], case["nt"], case["h"], case["order"]

    def spd(lo, hi):
        Q, _ = np.linalg.qr(rng.standard_normal((n, n)))
        A = Q @ np.diag(rng.uniform(lo, hi, n)) @ Q.T
        return (A + A.T) / 2

    M = spd(0.5, 2.0)
    K = spd(1.0, 30.0) / (h * h) * 0.05
    Bm = 0.02 * h * K + 0.05 / h * M if case["prop"] else spd(0.01, 0.3) / h
    F = rng.integers(-4, 5, (n, nt)).astype(float)
    d0 = rng.integers(-2, 3, n).astype(float) if case["ic"] else None
    v0 = rng.integers(-2, 3, n).astype(float) / h if case["ic"] else None
    cls = {"SolveUnc": ode.SolveUnc, "SolveExp2": ode.SolveExp2, "SolveCDF": ode.SolveCDF}[case["cls"]]
    R.label("cls=" + case["cls"], f"order={order}")
    R.nontrivial(n >= 2)
    ts = cls(M, Bm, K, h, order=order, pre_eig=True)
    try:
        gen, d, v = ts.generator(nt, F[:, 0], d0, v0)
    except NotImplementedError:
        R.label("pre_eig_generator:refused")
        return
    R.label("pre_eig_generator:accepted")
    for i in range(1, nt):
        gen.send((i, F[:, i]))
    sol = ts.finalize()
    ref = cls(M, Bm, K, h, order=order, pre_eig=True).tsolve(F, d0, v0)
    for q in "dva":
        a_, b_ = np.asarray(getattr(sol, q)), np.asarray(getattr(ref, q))
        e = float(np.abs(a_ - b_).max()) / max(float(np.abs(b_).max()), 1e-300) if a_.shape == b_.shape else np.inf
        R.check(e <= 1e-8, "pre_eig_generator_accepted_and_differs_from_tsolve", f"{q}: relerr={e:.3g} cls={case['cls']}")


@st.composite
def pre_eig_cases(draw):
    return {"seed": draw(st.integers(0, 2 ** 31)), "n": draw(st.integers(2, 4)), "nt": draw(st.integers(2, 12)),
            "h": draw(st.sampled_from([0.01, 0.1, 1.0])), "order": draw(st.sampled_from([0, 1])),
            "prop": draw(st.booleans()), "ic": draw(st.booleans()),
            "cls": draw(st.sampled_from(["SolveUnc", "SolveExp2", "SolveCDF"]))}


PARTS = [
    Part("unc", oracle, strategy=lambda: histories("unc"), quick=(8, 120), thorough=(16, 800)),
    Part("eig", oracle, strategy=lambda: histories("eig"), quick=(6, 100), thorough=(16, 600)),
    Part("cdf_su", oracle, strategy=lambda: histories("cdf_su"), quick=(5, 100), thorough=(16, 600)),
    Part("cdf", oracle, strategy=lambda: histories("cdf"), quick=(5, 100), thorough=(16, 600)),
    Part("se2", oracle, strategy=lambda: histories("se2"), quick=(6, 100), thorough=(16, 600)),
    Part("pre_eig", oracle_pre_eig, strategy=pre_eig_cases, quick=(2, 40), thorough=(8, 150)),
    # documented defaults: leaving a keyword out = passing its documented value (vlib/defaults.py)
    Part("defaults", defaults.make_oracle("C08"), enum=defaults.make_enum(), quick=(1, None), thorough=(1, None),
         exhaustive=True),
]
