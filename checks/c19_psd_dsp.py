"""C19 - PSD and signal utilities conserve what they claim to conserve.

psd.area / psd.interp / psd.rescale (+ get_freq_oct through rescale), dsp.resample,
dsp.fixtime against the independent references of refs/psd_ref.py.
"""
import math

import numpy as np
from hypothesis import strategies as st

from refs import psd_ref as ref
from vlib import util
from vlib import defaults
from vlib.core import Part

PROPERTY = "C19"
RULE = ("areainterp: specifications of 2..8 break points (frequency ratios 1.02..8 per segment, "
        "slopes 0, +-3, +-6, -9, 12, -3.0103 dB/oct, s = -1 exactly (power-of-two ratios), "
        "s = -1 +- {1e-6, 0.9e-5, 1e-5, 1.1e-5, 1e-4, 3e-3}, random), 1..3 PSD columns, ndarray / "
        "tuple / list / 1-d call forms, NaN frequency rows.  Oracle: closed-form area in mpmath "
        "(log form at s = -1), additivity over a split and over an inserted break point, "
        "Gauss-Legendre integral of pyyeti's own interp == area, interp == spec at its own "
        "frequencies, == own log-log / linear formula between, == 0 outside.  "
        "rescale: linear / logarithmic input centre scales (2..60 bands) onto linear / "
        "logarithmic / 1/n-octave output scales that overlap the input partially or fully, "
        "extendends on/off, frange, 1-d / 2-d / row P.  Oracle: direct band-overlap sums "
        "sum_i P_i |band_i ^ out-band| per output band, documented end-band bandwidth-ratio "
        "rule, msv = sum ms, documented band selection, own exact-octave scale.  "
        "resample: n 1..400, p, q 1..12 (all pairs), pts 1..20, beta, 1-d/2-d/3-d data on every "
        "axis, t, getfir; constants, arbitrary data, band-limited sums of sinusoids below "
        "0.4 x min(old, new) Nyquist.  Oracle: length ceil(n p/q), fir length formula, tnew = "
        "positions of the returned samples, constants to round-off, retained originals for "
        "p > q, analytic signal values within the worst-case deviation of the documented "
        "Kaiser-windowed sinc kernel (pass-band droop + images), axis invariance.  "
        "fixtime: uniform base with jitter <= 0.2 dt, gaps, segment shifts, duplicated times, "
        "unsorted samples, drop-outs (dropval / NaN / inf), 3-sigma outlier times, hold-previous "
        "with tolerance, base, tuple / list / ndarray input, negmethod stop; an exact-arithmetic "
        "regime (dyadic times) decides ties.  Oracle: own sample bookkeeping, uniform time base "
        "t0 + k/sr, span rule, brute-force nearest / previous acceptance sets, uniform data "
        "unchanged, base hit exactly.  Non-trivial: spec with a -3.01 dB/oct segment or >= 3 "
        "segments; rescale between different scale types or with a partially covered end band; "
        "p/q non-integer; time vector with a gap and jitter (or an exact tie); distinct by hash.")
ASSUME = ["mpmath at 60 digits evaluates the closed-form segment areas exactly enough",
          "numpy np.i0 / np.sinc for the reference Kaiser-sinc frequency response",
          "numba is absent: the pure-numpy _find_closest_times / _find_closest_previous_times run",
          "a centre-band scale is 'linear' or 'logarithmic' as generated (2-point scales linear)",
          "fixtime is exercised with its pure time-fixing options (sr given, delspikes off)"]
KNOWN = {}

# Predicates for the two defects this check finds on the unchanged tree, ready to be moved
# into KNOWN if they are recorded in known_findings.json rather than fixed.

EPS = 2.0 ** -52


def _metric(R, name, value):
    """record a normalised error; keep it finite (the evidence file is strict JSON)"""
    try:
        v = float(value)
    except Exception:
        return
    if not math.isfinite(v):
        v = 1e300
    R.metric(name, min(v, 1e300))


# ====================================================================== area / interp

def _pack_spec(freq, P, form):
    if form == "array":
        return np.column_stack([freq, P])
    if form == "tuple2d":
        return (freq.copy(), P.copy())
    if form == "tuple1d":
        return (freq.copy(), P[:, 0].copy())
    if form == "list1d":
        return [freq.tolist(), P[:, 0].tolist()]
    return [freq.tolist(), P.tolist()]


def oracle_spec(case, R):
    from pyyeti import psd
    freq = np.array(case["freq"], float)
    P = np.array(case["psd"], float)
    form = case["form"]
    oned = form in ("tuple1d", "list1d")
    if oned:
        P = P[:, :1]
    cols = P.shape[1]
    nseg = len(freq) - 1
    spec = _pack_spec(freq, P, form)
    R.label(f"form:{form}", f"nseg:{min(nseg, 4)}{'+' if nseg >= 4 else ''}", f"cols:{cols}")

    # ---- area against the closed form
    a = np.asarray(psd.area(spec))
    if not R.check(a.shape == (cols,), "area_shape", f"{a.shape} for {cols} columns"):
        return
    refs, tols, near = [], [], False
    for c in range(cols):
        r, tol, slopes = ref.area_ref(freq, P[:, c])
        refs.append(r)
        tols.append(tol)
        m1 = [abs(s + 1) for s in slopes]
        special = min(m1) <= 1.01e-5
        near = near or min(m1) < 2e-3
        err = abs(a[c] - r)
        _metric(R, "area_err/tol_near_s=-1" if special else "area_err/tol", err / tol)
        _metric(R, "area_relerr_near_s=-1" if special else "area_relerr", err / abs(r))
        R.check(err <= tol, "area_vs_closed_form",
                f"col {c}: area={a[c]!r} ref={r!r} err={err:.3e} tol={tol:.3e} slopes={slopes}")
        for s in slopes:
            d = abs(s + 1)
            R.label("slope:s=-1" if d == 0 else "slope:|s+1|<1e-5" if d < 1e-5 else
                    "slope:|s+1|<2e-3" if d < 2e-3 else "slope:other")
    R.nontrivial(near or nseg >= 3)

    # ---- additive over segments (split at a break point)
    if nseg >= 2:
        k = 1 + case["split"] % (nseg - 1)
        a1 = np.asarray(psd.area(np.column_stack([freq[:k + 1], P[:k + 1]])))
        a2 = np.asarray(psd.area(np.column_stack([freq[k:], P[k:]])))
        scale = np.abs(a1) + np.abs(a2)
        e = np.abs(a1 + a2 - a) / (16 * EPS * nseg * scale)
        _metric(R, "split_additivity_err/tol", e.max())
        R.check(bool(np.all(e <= 1)), "area_not_additive_over_segments",
                f"split at {k}: {a1.tolist()} + {a2.tolist()} != {a.tolist()}")

    # ---- additive when a break point is inserted on a segment
    seg, u = case["ins"]
    seg = seg % nseg
    f1, f2 = freq[seg], freq[seg + 1]
    fs = f1 * (f2 / f1) ** u
    if f1 < fs < f2:
        row = [ref.loglog_point(f1, P[seg, c], f2, P[seg + 1, c], fs) for c in range(cols)]
        freq2 = np.insert(freq, seg + 1, fs)
        P2 = np.insert(P, seg + 1, row, axis=0)
        b = np.asarray(psd.area(np.column_stack([freq2, P2])))
        for c in range(cols):
            r2, tol2, _ = ref.area_ref(freq2, P2[:, c])
            R.check(abs(b[c] - r2) <= tol2, "area_vs_closed_form",
                    f"(inserted point) col {c}: area={b[c]!r} ref={r2!r} tol={tol2:.3e}")
            e = abs((b[c] - a[c]) - (r2 - refs[c]))
            _metric(R, "insert_additivity_err/tol", e / (tols[c] + tol2))
            R.check(e <= tols[c] + tol2, "area_changes_with_inserted_break_point",
                    f"col {c}: {a[c]!r} -> {b[c]!r} (reference change {r2 - refs[c]:.3e})")

    # ---- interp: own frequencies, between, outside
    linear = case["linear"]
    fq, kind = list(freq), ["knot"] * len(freq)
    for sg, uu in case["queries"]:
        sg = sg % (nseg + 2) - 1
        if sg < 0:
            fq.append(freq[0] * (1 - 0.5 * uu) - 1e-9)
            kind.append("out")
        elif sg >= nseg:
            fq.append(freq[-1] * (1 + uu) + 1e-9)
            kind.append("out")
        else:
            fq.append(freq[sg] * (freq[sg + 1] / freq[sg]) ** uu)
            kind.append("in")
    fq = np.array(fq)
    ispec, ifreq, iP = spec, freq, P
    if case.get("nanrow") is not None:
        # documented: NaN frequencies (and their PSD rows) are deleted before interpolation
        j = case["nanrow"] % (len(freq) + 1)
        ifreq = np.insert(freq, j, np.nan)
        iP = np.insert(P, j, 7.0, axis=0)
        ispec = _pack_spec(ifreq, iP, form)
        R.label("nanrow")
    v = np.asarray(psd.interp(ispec, fq if case["fq_array"] else fq.tolist(), linear=linear))
    want_shape = (len(fq),) if oned else (len(fq), cols)
    if not R.check(v.shape == want_shape, "interp_shape", f"{v.shape} != {want_shape}"):
        return
    v = v.reshape(len(fq), cols)
    R.label("interp:linear" if linear else "interp:loglog")
    lf = np.abs(np.log(freq)).max()
    for c in range(cols):
        want = ref.interp_ref(freq, P[:, c], fq, linear=linear)
        lp = np.abs(np.log(P[:, c])).max()
        smax = np.abs(np.diff(np.log(P[:, c])) / np.diff(np.log(freq))).max()
        rel = 32 * EPS * (2 + 2 * lp + 2 * smax * lf)
        for i, (g, w, kd) in enumerate(zip(v[:, c], want, kind)):
            if kd == "out":
                R.check(g == 0.0, "interp_nonzero_outside", f"f={fq[i]!r} -> {g!r}")
                continue
            if linear:      # straight line through (f1,p1),(f2,p2): error scales with max(p1,p2)
                sg = min(max(int(np.searchsorted(freq, fq[i], side="right")) - 1, 0), nseg - 1)
                e = abs(g - w) / (64 * EPS * max(P[sg, c], P[sg + 1, c]))
            else:
                e = abs(g - w) / (abs(w) * rel)
            _metric(R, f"interp_{kd}_err/tol", e)
            R.check(e <= 1, "interp_at_own_frequency" if kd == "knot" else "interp_between",
                    f"col {c} f={fq[i]!r}: got {g!r} want {w!r} linear={linear}")

    # ---- area == integral of pyyeti's own log-log interpolation
    xs, ws = [], []
    sl = [np.abs(np.diff(np.log(P[:, c])) / np.diff(np.log(freq))) for c in range(cols)]
    for i in range(nseg):
        x, w = ref.gauss_panels(freq[i], freq[i + 1], max(s[i] for s in sl))
        xs.append(x)
        ws.append(w)
    xs, ws = np.concatenate(xs), np.concatenate(ws)
    vi = np.asarray(psd.interp(spec, xs, linear=False)).reshape(len(xs), cols)
    quad = ws @ vi
    for c in range(cols):
        tol = tols[c] + 1e-11 * abs(refs[c])
        e = abs(quad[c] - a[c])
        _metric(R, "area_vs_integral_of_interp_err/tol", e / tol)
        R.check(e <= tol, "area_differs_from_integral_of_interp",
                f"col {c}: area={a[c]!r} quadrature={quad[c]!r} tol={tol:.3e}")


M1_DELTAS = [1e-6, -1e-6, 1e-4, -1e-4, 0.9e-5, -0.9e-5, 1.1e-5, -1.1e-5, 1e-5, -1e-5,
             3e-3, -3e-3, 1e-9]
DB = [0.0, 3.0, -3.0, 6.0, -6.0, -3.0103, -3.0103, 4.5, -9.0, 12.0]
DB2S = 1.0 / (10 * math.log10(2.0))


@st.composite
def specs(draw):
    nbp = draw(st.integers(2, 8))
    cols = draw(st.integers(1, 3))
    f = [draw(st.sampled_from([20.0, 1.0, 5.0, 0.25, 100.0, 37.3]))]
    kinds = []
    for _ in range(nbp - 1):
        k = draw(st.sampled_from(["db", "db", "m1x", "m1", "m1d", "m1d", "rand"]))
        kinds.append(k)
        if k == "m1x":
            f.append(f[-1] * 2.0 ** draw(st.integers(1, 3)))
        else:
            f.append(f[-1] * math.exp(draw(st.floats(math.log(1.02), math.log(8.0)))))
    P = []
    for c in range(cols):
        col = [10.0 ** draw(st.integers(-4, 2)) * draw(st.sampled_from([1.0, 4.0, 0.53, 2.5]))]
        for i, k in enumerate(kinds):
            r = f[i + 1] / f[i]
            if c > 0 and k != "m1x":
                k = draw(st.sampled_from(["db", "m1", "m1d", "rand"]))
            if k == "m1x":
                col.append(col[-1] * f[i] / f[i + 1])          # exact: ratio is a power of two
            elif k == "m1":
                col.append(col[-1] * f[i] / f[i + 1])
            elif k == "m1d":
                col.append(col[-1] * r ** (-1.0 + draw(st.sampled_from(M1_DELTAS))))
            elif k == "db":
                col.append(col[-1] * r ** (draw(st.sampled_from(DB)) * DB2S))
            else:
                col.append(col[-1] * r ** (draw(st.floats(-12.0, 12.0)) * DB2S))
        P.append(col)
    rows = [[P[c][i] for c in range(cols)] for i in range(nbp)]
    nq = draw(st.integers(1, 6))
    return {"freq": f, "psd": rows,
            "form": draw(st.sampled_from(["array", "array", "tuple2d", "tuple1d", "list",
                                          "list1d"])),
            "split": draw(st.integers(0, 6)),
            "ins": [draw(st.integers(0, 7)), draw(st.floats(0.05, 0.95))],
            "queries": [[draw(st.integers(0, 9)), draw(st.floats(0.01, 0.99))]
                        for _ in range(nq)],
            "linear": draw(st.sampled_from([False, False, True])),
            "fq_array": draw(st.booleans()),
            "nanrow": draw(st.one_of(st.none(), st.none(), st.integers(0, 8)))}


# ====================================================================== rescale

def _scale(kind, n, f0, step):
    k = np.arange(n)
    return f0 + k * step if kind == "lin" else f0 * step ** k


def _lin_noise(fc):
    """how far the float centres of a linear scale are from equally spaced (relative to the
    step).  The docstring gives no tolerance for 'linear'; the property is decided for scales
    that are linear to 1e-13 (centre/step up to a few hundred); beyond that rounding of the
    centres themselves becomes visible and the case is labelled and skipped."""
    if len(fc) < 3:
        return 0.0
    d = np.diff(fc)
    return float(np.abs(d / d[0] - 1).max())


def oracle_rescale(case, R):
    from pyyeti import psd
    fin = case["fin"]
    F = _scale(fin["kind"], fin["n"], fin["f0"], fin["step"])
    kin = "lin" if (fin["kind"] == "lin" or fin["n"] == 2) else "log"
    if kin == "lin" and _lin_noise(F) > 1e-13:
        R.label("skip:obs_linear_scale_not_representable_to_1e-13")
        return
    FLin, FUin = ref.band_edges(F, kin)
    cols = case["cols"]
    rng = np.random.default_rng(case["seed"])
    P = 10.0 ** rng.uniform(-3, 1, (fin["n"], cols))
    if case["smooth"]:
        P = np.sort(P, axis=0)
    pform = case["pform"] if cols == 1 else "2d"
    Pin = {"1d": P[:, 0], "row": P[:, :1].T, "list": P[:, 0].tolist()}.get(pform, P)
    oned = pform in ("1d", "row", "list")
    out = case["out"]
    ext = case["extendends"]
    kw = dict(extendends=ext)

    if out["mode"] == "freq":
        m = out["m"]
        if kin == "lin":
            lo = F[0] + out["a"] * (F[-1] - F[0])
            hi = F[0] + out["b"] * (F[-1] - F[0])
        else:
            lo = F[0] * (F[-1] / F[0]) ** out["a"]
            hi = F[0] * (F[-1] / F[0]) ** out["b"]
        if out["kind"] == "log":
            lo = max(lo, 0.02 * hi)
            if (hi / lo) ** (1.0 / (m - 1)) < 1.001:
                R.label("skip:degenerate_log_scale")
                return
            freq = lo * (hi / lo) ** (np.arange(m) / (m - 1))
        else:
            freq = lo + np.arange(m) * ((hi - lo) / (m - 1))
        fsel = freq
        if out["frange"] is not None:
            i0, i1 = sorted(j % m for j in out["frange"])
            if i1 - i0 < 1:
                i0, i1 = 0, m - 1
            frange = (float(freq[i0]), float(freq[i1]))
            kw["frange"] = frange if case["frange_tuple"] else list(frange)
            fsel = freq[(freq >= frange[0]) & (freq <= frange[1])]
            R.label("frange")
        if len(fsel) < 2:
            R.label("skip:short_scale")
            return
        kout = "lin" if (out["kind"] == "lin" or len(fsel) == 2) else "log"
        if kout == "lin" and _lin_noise(fsel) > 1e-13:
            R.label("skip:obs_linear_scale_not_representable_to_1e-13")
            return
        FLo, FUo = ref.band_edges(fsel, kout)
        i0, i1, amb = ref.select_bands(FLo, FUo, F[0], F[-1])
        if i0 is None or i1 - i0 < 1:
            R.label("skip:no_overlap")        # rescale documents no behaviour for this
            return
        if amb:
            R.label("skip:selection_at_roundoff")
            return
        Fc, FL, FU = fsel[i0:i1], FLo[i0:i1], FUo[i0:i1]
        kw["freq"] = freq if case["freq_array"] else freq.tolist()
    else:
        kout = "oct"
        n_oct = out["n_oct"]
        kw["n_oct"] = n_oct
        s, e = 1.0, float(F[-1])
        if out["frange"] is not None:
            fr = [float(v) for v in out["frange"]]
            fr[1] = fr[1] * F[-1]
            kw["frange"] = fr
            s = fr[0] if fr[0] > 0.0 else 1.0
            e = fr[1] if fr[1] <= F[-1] else float(F[-1])
            R.label("frange")
        if e <= s * 1.0001:
            R.label("skip:empty_octave_range")
            return
        Fc, FL, FU, amb = ref.octave_bands(n_oct, s, e)
        if amb:
            R.label("skip:selection_at_roundoff")
            return

    got = psd.rescale(Pin, F if case["F_array"] else F.tolist(), **kw)
    if not R.check(isinstance(got, tuple) and len(got) == 4, "rescale_return"):
        return
    Pout, Fctr, msv, ms = (np.asarray(g) for g in got)
    R.label(f"in:{kin}", f"out:{kout}", f"ext:{ext}", f"pform:{pform}")
    m = len(Fc)
    if not R.check(Fctr.shape == (m,) and np.allclose(Fctr, Fc, rtol=1e-12, atol=0),
                   "rescale_band_selection",
                   f"Fctr={Fctr[:4].tolist()}..{Fctr[-2:].tolist()} ({Fctr.shape}) "
                   f"want {Fc[:4].tolist()}..{Fc[-2:].tolist()} ({m})"):
        return
    shp = (m,) if oned else (m, cols)
    if not R.check(Pout.shape == shp and ms.shape == shp and
                   msv.shape == (() if oned else (cols,)), "rescale_shape",
                   f"Pout {Pout.shape} ms {ms.shape} msv {msv.shape}"):
        return
    Pout, ms, msv = Pout.reshape(m, cols), ms.reshape(m, cols), msv.reshape(cols)

    Pref, msref, msvref, cum = ref.rescale_ref(P, FLin, FUin, FL, FU, ext)
    width = (FU - FL).reshape(-1, 1)
    # conditioning: ms is a difference of cumulative mean squares (~cum) and the band edges
    # carry ~eps |F| of rounding; an extended end band divides by its covered part
    amp = np.ones((m, 1))
    partial = (FL[0] < FLin[0] - 1e-9 * width[0, 0]) or (FU[-1] > FUin[-1] + 1e-9 * width[-1, 0])
    if ext:
        cov0 = FU[0] - max(FL[0], FLin[0])
        cov1 = min(FU[-1], FUin[-1]) - FL[-1]
        if FL[0] < FLin[0] and cov0 > 0:
            amp[0, 0] = max(amp[0, 0], width[0, 0] / cov0)
        if FU[-1] > FUin[-1] and cov1 > 0:
            amp[-1, 0] = max(amp[-1, 0], width[-1, 0] / cov1)
    if amp.max() > 1e6:
        R.label("skip:end_band_barely_covered")
        return
    # (scales are admitted when linear to 1e-13, which alone moves an edge by ~1e-13 of a step;
    # 1e-12 leaves a factor ~10 over the worst deviation seen in 56000 thorough cases)
    tol = 1e-12 * (cum + P.max(axis=0) * np.abs(FU).reshape(-1, 1)) * amp
    e_ms = np.abs(ms - msref) / tol
    e_p = np.abs(Pout - Pref) * width / tol
    _metric(R, "ms_err/tol", e_ms.max())
    _metric(R, "psd_err/tol", e_p.max())
    inside = (FL >= FLin[0]) & (FU <= FUin[-1])
    R.label("bands_inside>0" if inside.any() else "bands_inside=0",
            "end_band_partial" if partial else "end_bands_covered")
    j = int(np.argmax(e_ms.max(axis=1)))
    R.check(bool(np.all(e_ms <= 1)), "ms_of_output_band",
            f"band {j} [{FL[j]!r},{FU[j]!r}] (inside={bool(inside[j])}): ms={ms[j].tolist()} "
            f"want {msref[j].tolist()} ext={ext} in={kin} out={kout}")
    j = int(np.argmax(e_p.max(axis=1)))
    R.check(bool(np.all(e_p <= 1)), "psd_of_output_band",
            f"band {j} [{FL[j]!r},{FU[j]!r}]: P={Pout[j].tolist()} want {Pref[j].tolist()} "
            f"ext={ext} in={kin} out={kout}")
    tolv = tol.sum(axis=0)
    _metric(R, "msv_err/tol", (np.abs(msv - msvref) / tolv).max())
    R.check(bool(np.all(np.abs(msv - msvref) <= tolv)), "msv_total",
            f"msv={msv.tolist()} want {msvref.tolist()}")
    R.check(bool(np.all(np.abs(msv - ms.sum(axis=0)) <= 64 * EPS * np.abs(ms).sum(axis=0))),
            "msv_is_not_sum_of_ms", f"msv={msv.tolist()} sum={ms.sum(axis=0).tolist()}")
    if not ext:
        # total mean square over the covered range is conserved
        tot, _ = ref.overlap_ms(FLin, FUin, P, FL[:1], FU[-1:])
        R.check(bool(np.all(np.abs(msv - tot[0]) <= tolv)), "mean_square_not_conserved",
                f"msv={msv.tolist()} input content of [{FL[0]!r},{FU[-1]!r}]={tot[0].tolist()}")
    R.nontrivial(kin != kout[:3] or partial)


@st.composite
def rescales(draw):
    mode = draw(st.sampled_from(["freq", "freq", "freq", "oct"]))
    kind = draw(st.sampled_from(["lin", "log"]))
    if kind == "lin":
        n = draw(st.integers(2, 60))
        step = draw(st.sampled_from([0.25, 1.0, 0.1, 5.0, 0.3, 2.5])) * \
            draw(st.sampled_from([1.0, 1.0, 1.37, 0.77]))
        f0 = step * draw(st.sampled_from([0.0, 0.0, 0.5, 1.0, 3.3, 20.0]))
        if mode == "oct":
            n = max(n, 12)
            step = max(step, 1.0)
    else:
        n = draw(st.integers(3, 40))
        step = draw(st.sampled_from([2.0 ** (1 / 3), 2.0 ** (1 / 6), 2.0, 10 ** 0.1, 1.07, 1.9]))
        f0 = draw(st.sampled_from([1.0, 0.2, 10.0, 31.5, 3.7]))
        if mode == "oct":
            n = max(n, int(math.ceil(math.log(40.0 / f0) / math.log(step))) + 1 if f0 < 40 else n)
    fin = {"kind": kind, "n": n, "f0": f0, "step": step}
    if mode == "freq":
        a = draw(st.sampled_from([-0.3, -0.1, 0.0, 0.0, 0.05, 0.31, 0.5]))
        b = draw(st.sampled_from([0.62, 0.8, 1.0, 1.0, 1.1, 1.3]))
        out = {"mode": "freq", "kind": draw(st.sampled_from(["lin", "log"])),
               "m": draw(st.integers(2, 40)), "a": a, "b": b,
               "frange": draw(st.one_of(st.none(), st.none(),
                                        st.lists(st.integers(0, 39), min_size=2, max_size=2)))}
    else:
        fr = draw(st.one_of(st.none(), st.tuples(
            st.sampled_from([0.0, -1.0, 1.0, 2.0, 0.5, 4.4]),
            st.sampled_from([0.3, 0.71, 1.0, 1.5, 1e9]))))
        out = {"mode": "oct", "n_oct": draw(st.sampled_from([1, 3, 3, 6, 12])),
               "frange": None if fr is None else list(fr)}
    return {"seed": draw(st.integers(0, 2 ** 32 - 1)), "fin": fin, "out": out,
            "cols": draw(st.sampled_from([1, 1, 2, 3])),
            "pform": draw(st.sampled_from(["1d", "2d", "row", "list"])),
            "smooth": draw(st.booleans()),
            "extendends": draw(st.booleans()),
            "freq_array": draw(st.booleans()), "F_array": draw(st.booleans()),
            "frange_tuple": draw(st.booleans())}


# ====================================================================== resample

def _signal(kind, n, rng, fmax, const):
    """-> (samples, analytic function of position or None, tones, offset)"""
    x = np.arange(n)
    if kind == "const":
        return np.full(n, const), None, [], const
    if kind == "arb":
        return rng.standard_normal(n) * 3 + const, None, [], const
    nt = int(rng.integers(1, 4))
    tones = [(float(rng.uniform(0.2, 2.0)), float(rng.uniform(0.05, 1.0) * fmax),
              float(rng.uniform(0, 2 * np.pi))) for _ in range(nt)]

    def fun(pos):
        return const + sum(a * np.sin(2 * np.pi * f * pos + ph) for a, f, ph in tones)
    return fun(x), fun, tones, const


def oracle_resample(case, R):
    from pyyeti import dsp
    n, p, q, pts, beta = case["n"], case["p"], case["q"], case["pts"], case["beta"]
    g = math.gcd(p, q)
    pr, qr = p // g, q // g
    big = max(pr, qr)
    nout = -((-n * p) // q)
    rng = np.random.default_rng(case["seed"])
    kind = case["kind"]
    fmax = case["fr"] * 0.5 * min(1.0, pr / qr)          # cycles per original sample
    layout = case["layout"]
    nvec = {"1d": 1, "2d0": 3, "2d1": 3, "3d0": 6, "3d1": 6, "3d2": 6}[layout]
    vecs, funs, tones, offs = [], [], [], []
    for i in range(nvec):
        v, f, tn, c = _signal(kind, n, rng, fmax, case["const"] * (1 + i))
        vecs.append(v), funs.append(f), tones.append(tn), offs.append(c)
    V = np.array(vecs)                                   # (nvec, n)
    if layout == "1d":
        data, axis = V[0], case["axis_neg"] and -1 or 0
    elif layout == "2d0":
        data, axis = V.T.copy(), 0
    elif layout == "2d1":
        data, axis = V, 1
    elif layout == "3d0":
        data, axis = V.T.reshape(n, 2, 3).copy(), 0
    elif layout == "3d1":
        data, axis = np.moveaxis(V.reshape(2, 3, n), 2, 1).copy(), 1
    else:
        data, axis = V.reshape(2, 3, n), 2
    if case["axis_neg"] and data.ndim > 1:
        axis -= data.ndim
    kw = dict(axis=axis, pts=pts)
    if beta != 14:
        kw["beta"] = beta
    t = None
    if case["t"] is not None and n >= 2:
        t0, dt = case["t"]
        t = t0 + np.arange(n) * dt
        kw["t"] = t
    if case["getfir"]:
        kw["getfir"] = True
    if layout == "1d" and case["as_list"]:
        data = data.tolist()
    else:
        pristine = np.array(data, copy=True)
        data, lab_ = util.repack(data, case.get("dpack", "same"))
        R.label("data:" + lab_)
    got = dsp.resample(data, p, q, **kw)
    if not isinstance(data, list):
        R.check(np.array_equal(np.asarray(data, dtype=float), pristine), "resample_modifies_its_input")
    nret = 1 + (t is not None) + bool(case["getfir"])
    if nret == 1:
        got = (got,)
    if not R.check(isinstance(got, tuple) and len(got) == nret, "resample_return",
                   f"{type(got)} len {len(got) if isinstance(got, tuple) else '-'}"):
        return
    r = np.asarray(got[0])
    data = np.asarray(data, float)
    # sampled counts: the same whole numbers in an integer array (int64 / int16 / a list of ints) give what the
    # float array gives ("data : nd array_like")
    if case.get("counts"):
        cnt = np.round(data * 7.0 + np.arange(data.shape[axis]).reshape([-1 if k == axis % data.ndim else 1
                                                                           for k in range(data.ndim)]) % 3)
        cnt = np.clip(cnt, -30000, 30000)
        kw2 = dict(axis=axis, pts=pts)
        if beta != 14:
            kw2["beta"] = beta
        rf_ = np.asarray(dsp.resample(cnt.copy(), p, q, **kw2))
        for dt_ in (np.int64, np.int16):
            ri_ = np.asarray(dsp.resample(cnt.astype(dt_), p, q, **kw2))
            ok_ = ri_.shape == rf_.shape and np.allclose(ri_, rf_, rtol=1e-12, atol=1e-9)
            R.check(ok_, "resample_integer_array_differs_from_float_array",
                    f"{np.dtype(dt_).name}: n={n} p={p} q={q} max diff "
                    f"{np.abs(ri_ - rf_).max() if ri_.shape == rf_.shape else 'shape'}")
        R.label("counts")
    R.label(f"kind:{kind}", f"layout:{layout}",
            "ratio:" + ("1" if pr == qr else "int_up" if qr == 1 else "int_down" if pr == 1
                        else "frac_up" if pr > qr else "frac_down"),
            f"pts:{'1-4' if pts < 5 else '5-9' if pts < 10 else '10-20'}")
    R.nontrivial(qr > 1 and n >= 4)
    shp = list(data.shape)
    shp[axis] = nout
    if not R.check(list(r.shape) == shp, "resample_length",
                   f"n={n} p={p} q={q}: shape {r.shape}, want {shp} (ceil(n*p/q)={nout})"):
        return
    if case["getfir"]:
        fir = np.asarray(got[-1])
        R.check(fir.shape == (2 * pts * max(p, q) // g + 1,), "fir_length",
                f"len(fir)={fir.shape} want {2 * pts * max(p, q) // g + 1}")
    if t is not None:
        tn = np.asarray(got[1])
        if R.check(tn.shape == (nout,), "tnew_length",
                   f"len(tnew)={tn.shape} but {nout} samples returned (n={n} p={p} q={q})"):
            # sample k of the result is the signal at original position k*q/p
            want = t[0] + np.arange(nout) * (dt * q / p)
            # the step is taken from t[1]-t[0] (rounding ~eps|t0|) and multiplied up to n times
            tolt = 8 * EPS * (abs(t0) + abs(dt)) * n + 16 * EPS * n * abs(dt)
            e = np.abs(tn - want)
            _metric(R, "tnew_err/tol", e.max() / tolt)
            k = int(np.argmax(e))
            R.check(e.max() <= tolt, "tnew_positions",
                    f"n={n} p={p} q={q} t0={t0} dt={dt}: tnew[{k}]={tn[k]!r} but sample {k} "
                    f"sits at {want[k]!r} (n*p/q {'integer' if (n * pr) % qr == 0 else 'not integer'})")
    rv = np.moveaxis(r, axis, -1).reshape(nvec, nout)
    dv = np.moveaxis(data, axis, -1).reshape(nvec, n)
    for i in range(nvec):
        d, y = dv[i], rv[i]
        m = d.mean()
        scale = np.abs(d - m).max()
        if kind == "const":
            # mean of n equal values, its removal and re-addition: a few ulp each
            e = np.abs(y - d[0]).max() / (512 * EPS * max(abs(d[0]), 1e-300))
            _metric(R, "const_err/tol", e)
            R.check(e <= 1, "constant_not_reproduced",
                    f"c={d[0]!r} n={n} p={p} q={q} pts={pts}: max dev {np.abs(y - d[0]).max():.3e}")
            continue
        if pr == qr:
            e = np.abs(y - d).max() / (1e-12 * (scale + abs(m)))
            _metric(R, "identity_err/tol", e)
            R.check(e <= 1, "p_equals_q_not_identity", f"n={n} p={p} q={q}")
        elif pr > qr:
            # original sample i sits at output index i*pr/qr whenever that is an integer
            ii = np.arange(0, n, qr)
            jj = ii // qr * pr
            ok = jj < nout
            e = np.abs(y[jj[ok]] - d[ii[ok]]).max() / (1e-12 * (scale + abs(m)))
            _metric(R, "retain_err/tol", e)
            R.check(e <= 1, "original_samples_not_retained",
                    f"n={n} p={p} q={q} pts={pts}: max dev "
                    f"{np.abs(y[jj[ok]] - d[ii[ok]]).max():.3e} (signal scale {scale:.3g})")
        if kind == "band":
            pos = np.arange(nout) * (qr / pr)
            reach = pts * big / pr                    # kernel half-width in original samples
            inner = (pos >= reach) & (pos <= n - 1 - reach)
            if inner.any():
                bound = sum(a * ref.resample_bound(pr, qr, pts, beta, f) for a, f, _ in tones[i])
                bound += abs(offs[i] - m) * ref.resample_bound(pr, qr, pts, beta, 0.0)
                amp = sum(a for a, _, _ in tones[i])
                err = np.abs(y[inner] - funs[i](pos[inner])).max()
                lim = 1.25 * bound + 1e-11 * (amp + abs(offs[i]))
                _metric(R, "bandlimited_err/bound", err / lim)
                if pts >= 10:
                    _metric(R, "bandlimited_abs_err_pts>=10", err / amp)
                R.label("accuracy_checked")
                R.check(err <= lim, "bandlimited_accuracy",
                        f"n={n} p={p} q={q} pts={pts} beta={beta}: max interior error {err:.3e} "
                        f"> {lim:.3e} (kernel bound {bound:.3e}, tones {tones[i]})")
        if nvec > 1:
            one = np.asarray(dsp.resample(d, p, q, pts=pts, beta=beta))
            e = np.abs(one - y).max() / (1e-12 * (scale + abs(m)) + 1e-300)
            _metric(R, "axis_err/tol", e)
            R.check(one.shape == y.shape and e <= 1, "axis_dependence",
                    f"layout={layout} axis={axis} vector {i}: differs from 1-d call by "
                    f"{np.abs(one - y).max():.3e}")


@st.composite
def resamples(draw):
    kind = draw(st.sampled_from(["band", "band", "arb", "const"]))
    pts = draw(st.integers(1, 20))
    p = draw(st.integers(1, 12))
    q = draw(st.integers(1, 12))
    if kind == "band":
        lo = min(400, 3 * pts * max(1, -(-q // p)) + 8)
        n = draw(st.integers(lo, 400) if draw(st.booleans()) else st.integers(1, 400))
    else:
        n = draw(st.integers(1, 400) if draw(st.booleans()) else st.integers(1, 30))
    return {"seed": draw(st.integers(0, 2 ** 32 - 1)), "n": n, "p": p, "q": q, "pts": pts,
            "beta": draw(st.sampled_from([14, 14, 14, 14, 10, 6])),
            "kind": kind, "fr": draw(st.sampled_from([0.4, 0.4, 0.25, 0.1])),
            "const": draw(st.sampled_from([0.1, -55.0, 1.0, 1e-3, 3.3e5, 0.0, -0.7])),
            "layout": draw(st.sampled_from(["1d", "1d", "1d", "2d0", "2d1", "3d0", "3d1", "3d2"])),
            "axis_neg": draw(st.booleans()), "as_list": draw(st.booleans()),
            "t": draw(st.one_of(st.none(), st.tuples(
                st.sampled_from([0.0, 100.0, -3.5]), st.sampled_from([1.0, 0.01, 2.5e-4])))),
            "getfir": draw(st.booleans()),
            "dpack": draw(st.sampled_from(["same", "same", "int", "fortran", "strided", "readonly"])),
            "counts": draw(st.integers(0, 2)) == 0}


# ====================================================================== fixtime

def _build_time(case):
    rng = np.random.default_rng(case["seed"])
    n, sr = case["n"], case["sr"]
    dt = 1.0 / sr
    steps = np.ones(n - 1, dtype=np.int64)
    for frac, ln in case["gaps"]:
        steps[int(frac * (n - 2))] += ln
    dup = sorted(set(int(j) for j in rng.integers(1, n, case["ndup"]))) if case["ndup"] else []
    for j in dup:
        steps[j - 1] = 0
    idx = np.concatenate(([0], np.cumsum(steps)))
    exact = case["mode"] == "exact"
    t = case["t0"] + idx * dt if (exact or case["mul"]) else case["t0"] + idx / sr
    if not exact:
        if case["jit"] > 0:
            t = t + case["jit"] * dt * rng.uniform(-1, 1, n)
        for frac, amount in case["shifts"]:
            t[int(frac * n):] += amount * dt
        for j in dup:
            t[j] = t[j - 1]
    # stray time stamps far outside the record (outlier times: beyond mean +- 3 sigma for records of >= ~30
    # samples), anywhere in the sample sequence - also after drop-outs
    for frac, mult in case.get("outt", []):
        span = max(t.max() - t.min(), dt)
        t[int(frac * (n - 1))] = (t.max() + mult * span) if mult > 0 else (t.min() + mult * span)
    y = (rng.permutation(n) + 1) * 0.5 - 0.25 * n
    dropval = case["dropval"]
    dv = -1.40130e-45 if dropval is None else dropval
    kinds = {"dropval": [dv], "nan": [np.nan], "inf": [np.inf, -np.inf],
             "mixed": [dv, np.nan, np.inf]}.get(case["drops"][0], [])
    ndrops = 0
    if kinds:
        where = rng.choice(n, size=min(case["drops"][1], n - 4), replace=False)
        for k, j in enumerate(where):
            y[j] = kinds[k % len(kinds)]
        ndrops = len(where)
    for _ in range(case["nswap"]):
        i, j = rng.integers(0, n, 2)
        t[[i, j]] = t[[j, i]]
        y[[i, j]] = y[[j, i]]
    return t, y, dt, dv, ndrops


def oracle_fixtime(case, R):
    from pyyeti import dsp
    t, y, dt, dv, ndrops = _build_time(case)
    sr = case["sr"]
    exact = case["mode"] == "exact"
    hold, tolp = case["hold"], case["tol"]
    pack = case["pack"]
    old = {"tuple": (t.copy(), y.copy()), "list": [t.tolist(), y.tolist()],
           "array": np.column_stack([t, y])}[pack]
    kw = dict(verbose=False, deldrops=case["deldrops"], delouttimes=case["delouttimes"])
    if case["dropval"] is not None:
        kw["dropval"] = case["dropval"]
    if hold:
        kw["hold_previous_value"] = True
        if tolp != 1e-3:
            kw["previous_value_tol"] = tolp
    neg = bool(np.any(np.diff(t) < 0))
    R.label(f"mode:{case['mode']}", f"pack:{pack}", "hold" if hold else "nearest",
            "unsorted" if neg else "sorted", "drops" if ndrops else "no_drops")
    if case.get("outt"):
        R.label("stray_times" + ("+drops" if ndrops else ""))
    if not np.any(np.diff(t) > 0):
        # documented: no positive step in the whole time vector -> ValueError.  Demanded when
        # every step is negative; with zero steps among them sorting is an acceptable answer too
        try:
            dsp.fixtime(old, sr, **kw)
            if np.all(np.diff(t) < 0):
                R.fail("accepts_time_vector_without_positive_steps")
                return
        except ValueError:
            R.label("no_positive_steps_raised")
            return
    if case["negstop"]:
        if neg:
            try:
                dsp.fixtime(old, sr, negmethod="stop", **kw)
                R.fail("negmethod_stop_accepts_negative_steps")
            except ValueError:
                R.label("negstop_raised")
            return
        kw["negmethod"] = "stop"
    tk, yk, info = ref.fixtime_kept(t, y, dv, case["deldrops"], case["delouttimes"])
    if tk is None:
        R.label("skip:" + info)
        return
    if len(tk) < 3 or not np.any(np.diff(tk) > 0):
        R.label("skip:too_few_samples")
        return
    got = dsp.fixtime(old, sr, **kw)
    if pack == "array":
        if not R.check(isinstance(got, np.ndarray) and got.ndim == 2 and got.shape[1] == 2,
                       "fixtime_return", f"{type(got)}"):
            return
        tn, yn = got[:, 0], got[:, 1]
    else:
        if not R.check(isinstance(got, tuple) and len(got) == 2, "fixtime_return", f"{type(got)}"):
            return
        tn, yn = (np.asarray(g) for g in got)
    if info["nout"]:
        R.label("outlier_times")
    gap = bool(case["gaps"])
    jit = (not exact) and case["jit"] > 0

    # ---- exactly uniform time base spanning the data
    x = (tk[-1] - tk[0]) * sr
    Ls = {int(math.floor(x + 0.5)) + 1}
    if abs(x - math.floor(x) - 0.5) < 1e-6:
        Ls |= {int(math.floor(x)) + 1, int(math.floor(x)) + 2}
    if not R.check(len(tn) in Ls and len(yn) == len(tn), "fixtime_length",
                   f"{len(tn)} samples for span*sr={x!r} (want {sorted(Ls)})"):
        return
    tmax = max(abs(tk[0]), abs(tk[-1]), dt)
    tol_t = 16 * EPS * tmax
    e = np.abs(tn - (tn[0] + np.arange(len(tn)) / sr)).max()
    _metric(R, "uniform_err/tol", e / tol_t)
    R.check(e <= tol_t, "time_base_not_uniform", f"max deviation {e:.3e} (tol {tol_t:.3e})")
    off = max(abs(tn[0] - tk[0]), abs(tn[-1] - tk[-1])) / dt
    _metric(R, "span_offset/dt", off)
    # aligned to the longest good section (<= dt/2 + jitter) and rounded to a whole number
    # of steps (<= dt/2): the ends stay within 1.5 dt of the data (sanity bound)
    R.check(off <= 1.5, "time_base_off_span",
            f"new [{tn[0]!r},{tn[-1]!r}] old [{tk[0]!r},{tk[-1]!r}] dt={dt}")

    # ---- every sample is the nearest (previous) input sample
    eps_t = 0.0 if exact else 1e-9 * dt + 16 * EPS * tmax
    tie = False
    if hold:
        bad = ref.previous_violation(tk, yk, tn, yn, tolp * dt,
                                     0.0 if (exact and tolp == 0.0) else max(eps_t, 1e-9 * dt))
        if bad is not None:
            R.fail("hold_tol0_exact_time" if (tolp == 0.0 and exact) else "hold_previous",
                   f"t_new[{bad[0]}]={tn[bad[0]]!r}: got {bad[2]!r}, acceptable {bad[1]} "
                   f"(tol={tolp}, dt={dt}, mode={case['mode']})")
    else:
        bad = ref.nearest_violation(tk, yk, tn, yn, eps_t, exact)
        if bad is not None:
            R.fail("not_nearest_sample",
                   f"t_new[{bad[0]}]={tn[bad[0]]!r}: got {bad[2]!r}, acceptable {bad[1]} "
                   f"(dt={dt}, mode={case['mode']})")
        if exact:
            d = np.abs(tk[None, :] - tn[:, None])
            d.sort(axis=1)
            tie = bool(np.any((d[:, 0] == d[:, 1]) & (d[:, 0] > 0)))
            if tie:
                R.label("exact_tie")
    if ndrops and case["deldrops"]:
        R.check(not np.any(ref.is_drop(yn, dv)), "dropout_survives",
                f"{int(ref.is_drop(yn, dv).sum())} drop-out values in the output")
    R.nontrivial((gap and jit) or tie or (exact and gap and hold))

    # ---- already-uniform data is returned unchanged
    if case["uniform"]:
        R.label("uniform_input")
        if R.check(len(tn) == len(t), "uniform_changed", f"{len(t)} -> {len(tn)} samples"):
            if not hold or 0.0 < tolp < 1.0:     # tol 0 / 1: every threshold sits on a sample
                R.check(bool(np.array_equal(yn, y)), "uniform_changed",
                        f"data changed; first difference at {int(np.argmax(yn != y))}")
            e = np.abs(tn - t).max()
            _metric(R, "uniform_unchanged_err/tol", e / tol_t)
            R.check(e <= tol_t, "uniform_changed", f"time moved by {e:.3e}")

    # ---- base: same samples, time base moved by at most half a step onto base + k/sr
    if case["base"] is not None:
        base = tk[0] + case["base"] * dt
        gb = dsp.fixtime(old, sr, base=base, **kw)
        tb, yb = (gb[:, 0], gb[:, 1]) if pack == "array" else (np.asarray(gb[0]), np.asarray(gb[1]))
        R.label("base")
        if R.check(len(tb) == len(tn) and np.array_equal(yb, yn, equal_nan=True),
                   "base_changes_samples", f"base={base!r}"):
            sh = tb - tn
            tol_b = 16 * EPS * max(tmax, abs(base))
            R.check(np.abs(sh - sh[0]).max() <= tol_b and abs(sh[0]) <= dt / 2 + tol_b,
                    "base_shift", f"shift {sh[0]!r} (dt={dt}), spread {np.abs(sh - sh[0]).max():.3e}")
            kk = (base - tb[0]) * sr
            tol_k = 64 * EPS * (abs(kk) + (abs(base) + abs(tb[0])) * sr) + 1e-12
            _metric(R, "base_err/tol", abs(kk - round(kk)) / tol_k)
            R.check(abs(kk - round(kk)) <= tol_k, "base_not_hit",
                    f"(base - t[0])*sr = {kk!r} (base={base!r}, t[0]={tb[0]!r})")
            # observation only (not part of the contract decided here): the samples were
            # chosen for the unshifted time base
            if not hold and ref.nearest_violation(tk, yk, tb, yb, eps_t + 1e-9 * dt,
                                                  False) is not None:
                R.label("obs:samples_not_nearest_to_base_shifted_times")


@st.composite
def fixtimes(draw):
    mode = draw(st.sampled_from(["float", "float", "exact"]))
    uniform = draw(st.sampled_from([False, False, False, True]))
    n = draw(st.integers(5, 300) if draw(st.booleans()) else st.integers(5, 40))
    if mode == "exact":
        sr = draw(st.sampled_from([1.0, 1.0, 2.0, 4.0, 8.0, 0.5]))
        t0 = draw(st.integers(-512, 512)) / 8.0
    else:
        sr = draw(st.sampled_from([1.0, 10.0, 100.0, 1000.0, 48000.0, 0.5, 3.7, 12.5, 256.0]))
        t0 = draw(st.sampled_from([0.0, 0.0, 5.0, -12.5, 100.0, 997.3, 0.1]))
    ngap = 0 if uniform else draw(st.integers(0, 3))
    gaps = [[draw(st.floats(0.0, 1.0)), draw(st.sampled_from([1, 2, 3, 4, 5, 6, 10, 17, 40]))]
            for _ in range(ngap)]
    nsh = 0 if (uniform or mode == "exact") else draw(st.integers(0, 2))
    shifts = [[draw(st.floats(0.1, 0.9)), draw(st.sampled_from([0.3, -0.3, 0.5, 0.45, -0.2, 1.5]))]
              for _ in range(nsh)]
    drops = ["none", 0]
    if not uniform and draw(st.booleans()):
        drops = [draw(st.sampled_from(["dropval", "nan", "inf", "mixed"])), draw(st.integers(1, 8))]
    hold = draw(st.booleans())
    outt = []
    if not uniform and n >= 30 and draw(st.integers(0, 2)) == 0:
        outt = [[draw(st.floats(0.0, 1.0)), draw(st.sampled_from([5.0, 20.0, -8.0, 3.0]))]
                for _ in range(draw(st.integers(1, 2)))]
    return {"seed": draw(st.integers(0, 2 ** 32 - 1)), "n": n, "mode": mode, "sr": sr, "t0": t0, "outt": outt,
            "mul": draw(st.booleans()), "uniform": uniform,
            "jit": 0.0 if uniform else draw(st.sampled_from([0.0, 0.01, 0.1, 0.2, 0.2])),
            "gaps": gaps, "shifts": shifts,
            "ndup": 0 if uniform else draw(st.sampled_from([0, 0, 1, 3])),
            "nswap": 0 if uniform else draw(st.sampled_from([0, 0, 1, 4])),
            "drops": drops,
            "dropval": draw(st.sampled_from([None, -999.0, 1e30, 77.7])),
            "deldrops": draw(st.sampled_from([True, True, True, False])),
            "delouttimes": draw(st.sampled_from([True, True, False])),
            "hold": hold,
            "tol": draw(st.sampled_from([1e-3, 1e-3, 0.0, 0.05, 0.25, 0.5, 1.0])) if hold else 1e-3,
            "base": draw(st.one_of(st.none(), st.sampled_from([0.3, -7.25, 1000.5, 0.0, 0.5, 12.49]))),
            "pack": draw(st.sampled_from(["tuple", "tuple", "list", "array"])),
            "negstop": draw(st.sampled_from([False, False, False, True]))}


PARTS = [
    Part("areainterp", oracle_spec, strategy=specs, quick=(4, 700), thorough=(16, 2500)),
    Part("rescale", oracle_rescale, strategy=rescales, quick=(4, 1000), thorough=(16, 3500)),
    Part("resample", oracle_resample, strategy=resamples, quick=(4, 800), thorough=(16, 2800)),
    Part("fixtime", oracle_fixtime, strategy=fixtimes, quick=(4, 800), thorough=(16, 2800)),
    # documented defaults: leaving a keyword out = passing its documented value (vlib/defaults.py)
    Part("defaults", defaults.make_oracle("C19"), enum=defaults.make_enum(), quick=(1, None), thorough=(1, None),
         exhaustive=True),
]
