"""C04 - OUTPUT4 write followed by read is the identity."""
import os
from decimal import Decimal
from fractions import Fraction

import numpy as np
import scipy.sparse as sp
from hypothesis import strategies as st

from vlib import util
from vlib import defaults
from vlib.core import Part

PROPERTY = "C04"
RULE = ("files of 1..5 matrices (explicit small matrices with hypothesis doubles over the whole finite "
        "range, and seeded larger ones with sparsity patterns dense/zero/corner/banded/alternating/"
        "strings/random and value classes unit/wide/int/3-digit-exponent/subnormal/near-overflow), "
        "real or complex, ndarray / coo / csr / csc / duplicate-entry / explicit-zero / 1-D / int / "
        "float32 inputs, x binary|ascii x endian x sparse mode x digits x names x forms; boundary list: "
        "2999/3000/3001-value columns, 16383/16384-value strings, 65535/65536 rows.  Oracle: name "
        "(lower-cased), shape, form (explicit, else 6 iff exactly symmetric square, 1 iff clearly "
        "unsymmetric square, 2 non-square), mtype, file order, repeats via list interface, values "
        "bit-exact (binary) or within half a unit of the last requested digit (ascii, exact rational "
        "arithmetic), for dense, sparse, auto and callable reads, dct/list/read/dir and name subsets.  "
        "Non-trivial: >=1 non-zero and (a zero inside the bounding box or >=2 columns).")
ASSUME = ["numpy/scipy.sparse conversions are correct", "files written to a tmpfs scratch directory"]
KNOWN = {}

LETTERS = "abcdefghijklmnopqrstuvwxyzABCDEFGHIJKLMNOPQRSTUVWXYZ"


def build_matrix(spec):
    """-> (input object handed to op4.write, dense reference ndarray)"""
    r, c = spec["r"], spec["c"]
    cplx = spec.get("complex", False)
    dt = complex if cplx else float
    A = np.zeros((r, c), dt)
    if "entries" in spec:
        for e in spec["entries"]:
            i, j = e[0] % r, e[1] % c
            A[i, j] = complex(e[2], e[3]) if cplx else e[2]
    else:
        rng = util.rng_of(spec["seed"])
        pat = spec["pattern"]
        M = np.zeros((r, c), bool)
        if pat == "dense":
            M[:] = True
        elif pat == "corner":
            M[-1, -1] = True
        elif pat == "first":
            M[0, 0] = True
        elif pat == "banded":
            for k in range(-1, 2):
                M |= np.eye(r, c, k, dtype=bool)
        elif pat == "alternating":
            M[::2, :] = True
        elif pat == "trim":           # leading/trailing zero rows and columns
            M[r // 3: max(r // 3 + 1, 2 * r // 3), c // 3: max(c // 3 + 1, 2 * c // 3)] = True
        elif pat == "strings":        # strings separated by single zeros
            M[:] = True
            M[rng.integers(0, r, max(1, r // 3)), :] = False
        elif pat == "random":
            M = rng.random((r, c)) < spec.get("density", 0.3)
        elif pat == "colgaps":        # whole null columns
            M = rng.random((r, c)) < 0.6
            M[:, rng.integers(0, c, max(1, c // 2))] = False
        vc = spec["vals"]

        def draw(n):
            if vc == "unit":
                return rng.uniform(-1, 1, n)
            if vc == "int":
                return rng.integers(-9, 10, n).astype(float)
            if vc == "wide":
                return np.sign(rng.uniform(-1, 1, n)) * 10.0 ** rng.uniform(-300, 300, n)
            if vc == "exp3":
                return np.sign(rng.uniform(-1, 1, n)) * rng.uniform(1, 10, n) * \
                    10.0 ** (rng.choice([-1, 1], n) * rng.integers(100, 307, n))
            if vc == "subnormal":
                return np.sign(rng.uniform(-1, 1, n)) * rng.integers(1, 2 ** 40, n) * 5e-324
            if vc == "near_overflow":
                return np.sign(rng.uniform(-1, 1, n)) * rng.uniform(1.0, 1.7, n) * 1e308
            if vc == "nines":
                return np.sign(rng.uniform(-1, 1, n)) * 9.99999999999999999 * \
                    10.0 ** rng.choice([99, -100, 0, 9, -10, 100], n)
            raise ValueError(vc)
        n = int(M.sum())
        v = draw(n)
        if cplx:
            v = v + 1j * draw(n)
        A[M] = v
    kind = spec.get("intype", "ndarray")
    if kind == "ndarray":
        X = A
    elif kind == "fortran":
        X = np.asfortranarray(A)
    elif kind == "int" and not cplx:
        A = np.round(np.clip(A, -1e9, 1e9))
        X = A.astype(np.int64)
    elif kind == "f32":
        with np.errstate(over="ignore"):
            X = A.astype(np.complex64 if cplx else np.float32)
        X[~np.isfinite(X)] = 0
        A = X.astype(dt)
    elif kind == "1d" and r == 1:
        X = A[0].copy()
    elif kind == "coo":
        X = sp.coo_matrix(A)
    elif kind == "csr":
        X = sp.csr_matrix(A)
    elif kind == "csc":
        X = sp.csc_matrix(A)
    elif kind == "coo_dup":          # duplicate entries are summed by the format
        i, j = np.nonzero(A)
        v = A[i, j]
        X = sp.coo_matrix((np.r_[v / 2, v / 2], (np.r_[i, i], np.r_[j, j])), shape=A.shape)
        A = np.asarray(X.toarray())
    elif kind == "csr_explicit0":    # stored zeros must behave like absent entries
        X = sp.csr_matrix(A)
        if X.nnz:
            X.data[0] = 0.0
            A = np.asarray(X.toarray())
    else:
        X = A
    return X, np.asarray(A)


def expected_form(A, form):
    """-> set of acceptable forms"""
    if form is not None:
        return {form}
    r, c = A.shape
    if r != c:
        return {2}
    if np.array_equal(A, A.T):
        return {6}
    with np.errstate(over="ignore", invalid="ignore"):
        scale = np.abs(A).max()
        d = np.abs(A - A.T)
        clearly = bool(np.any(d > 1e-3 * scale + 1e-6))
    return {1} if clearly else {1, 6}


def ascii_ok(got, ref, digits):
    """every entry within half a unit of digit `digits` after the point (exact arithmetic)"""
    if got.shape != ref.shape:
        return False, "shape"
    got, ref = np.ascontiguousarray(got), np.ascontiguousarray(ref)
    g = got.view(float).ravel() if np.iscomplexobj(got) else got.ravel()
    f = ref.view(float).ravel() if np.iscomplexobj(ref) else ref.ravel()
    if np.iscomplexobj(got) != np.iscomplexobj(ref):
        return False, "complexity"
    bad = np.nonzero(g != f)[0]
    worst = 0.0
    for k in bad:
        x, y = float(f[k]), float(g[k])
        if x == 0 or not np.isfinite(y):
            return False, f"entry {k}: wrote {x!r} read {y!r}"
        e = Decimal(abs(x)).adjusted()
        hu = Fraction(1, 2) * Fraction(10) ** (e - digits)
        err = abs(Fraction(y) - Fraction(x))
        tol = hu + abs(Fraction(x)) * Fraction(1, 2 ** 52)
        worst = max(worst, float(err / hu))
        if digits >= 16 or err > tol:
            return False, f"entry {k}: wrote {x!r} read {y!r} digits={digits} err={float(err / hu):.3f} half-units"
    return True, worst


def oracle(case, R):
    from pyyeti.nastran import op4
    path = util.tmpfile(f"c04-{os.getpid()}.op4")
    names, inputs, refs, forms = [], [], [], []
    for spec in case["mats"]:
        X, A = build_matrix(spec)
        names.append(spec["name"])
        inputs.append(X)
        refs.append(A)
        forms.append(spec.get("form"))
    binary = case["binary"]
    sparse_mode = case["sparse"]
    digits = case.get("digits", 16)
    if not binary and digits < 16:
        # out of domain: a value whose decimal rounding at `digits` exceeds DBL_MAX
        # cannot be "read back to the requested digits" by any reader
        for A in refs:
            v = np.abs(np.r_[np.real(A).ravel(), np.imag(A).ravel()])
            for x in v[v > 1.0e308]:
                if np.isinf(float(f"%.{digits}E" % x)):
                    R.label("out_of_domain:overflow_on_rounding")
                    return
    kw = dict(binary=binary, digits=digits, endian=case.get("endian", "="), sparse=sparse_mode)
    if case.get("dictform") and len(set(names)) == len(names):
        d = {}
        for n, X, f in zip(names, inputs, forms):
            d[n] = X if f is None else (X, f)
        op4.write(path, d, **kw)
    elif len(names) == 1 and case.get("scalar_args"):
        op4.write(path, names[0], inputs[0], forms=forms[0], **kw)
    else:
        op4.write(path, names, inputs, forms=forms if any(f is not None for f in forms) else None, **kw)
    lnames = [n.lower() for n in names]
    nz = sum(int(np.count_nonzero(A)) for A in refs)
    R.nontrivial(any(np.count_nonzero(A) >= 1 and (A.shape[1] >= 2 or _zero_inside(A)) for A in refs))
    R.label("binary" if binary else "ascii", f"sparse={sparse_mode}",
            *(f"in={s.get('intype', 'ndarray')}" for s in case["mats"]),
            *(f"vals={s.get('vals', 'explicit')}" for s in case["mats"]),
            "complex" if any(s.get("complex") for s in case["mats"]) else "real",
            "multi" if len(names) > 1 else "single",
            "repeat-names" if len(set(lnames)) < len(lnames) else "unique-names")
    if not binary:
        R.label(f"digits={digits}")

    def same_values(got, ref, tag):
        if sp.issparse(got):
            got = np.asarray(got.toarray())
            if not np.any(ref):
                # an all-zero matrix has no column records: a sparse read cannot
                # carry the complex dtype (mtype is checked separately)
                got = got.astype(ref.dtype)
        got = np.asarray(got)
        if binary:
            ok = got.shape == ref.shape and got.dtype == ref.dtype and bool(np.all(got == ref))
            R.check(ok, f"{tag}_values_binary",
                    f"shape {got.shape} vs {ref.shape}, dtype {got.dtype} vs {ref.dtype}, "
                    f"mismatches={int(np.sum(got != ref)) if got.shape == ref.shape else -1}")
        else:
            ok, info = ascii_ok(got, ref, digits)
            if ok:
                R.metric("ascii_err_half_units", info)
            R.check(ok and got.dtype == ref.dtype, f"{tag}_values_ascii", str(info))

    # list interface, dense
    n2, m2, f2, t2 = op4.load(path, into="list")
    if R.check(n2 == lnames, "names_order", f"{n2} vs {lnames}"):
        for k, (A, spec) in enumerate(zip(refs, case["mats"])):
            same_values(m2[k], A, "list_dense")
            R.check(isinstance(m2[k], np.ndarray), "dense_type")
            R.check(f2[k] in expected_form(A, forms[k]), "form",
                    f"matrix {k}: form {f2[k]} not in {expected_form(A, forms[k])}")
            R.check(t2[k] == (4 if np.iscomplexobj(A) else 2), "mtype", f"{t2[k]}")
        # dir
        dn, ds, df, dtp = op4.dir(path, verbose=False)
        R.check(dn == lnames and [tuple(s) for s in ds] == [A.shape for A in refs]
                and list(df) == list(f2) and list(dtp) == list(t2), "dir_vs_read",
                f"{dn} {ds} {df} {dtp}")
        # sparse reads
        for mode, tag in ((True, "sparse"), (None, "auto"), ((True, sp.coo_matrix.tocsc), "callable")):
            n3, m3, f3, t3 = op4.load(path, into="list", sparse=mode)
            R.check(n3 == lnames and list(f3) == list(f2) and list(t3) == list(t2), f"{tag}_meta")
            for k, A in enumerate(refs):
                if k >= len(m3):
                    break
                same_values(m3[k], A, f"list_{tag}")
                if mode is True:
                    R.check(sp.issparse(m3[k]), "sparse_type")
                elif mode is None:
                    written_sparse = sparse_mode in ("bigmat", "nonbigmat") or \
                        (sparse_mode == "auto" and sp.issparse(inputs[k]))
                    # (an all-zero nonbigmat matrix is indistinguishable from a dense one)
                    R.check(sp.issparse(m3[k]) == written_sparse or not np.any(A), "auto_sparse_type",
                            f"matrix {k}: issparse={sp.issparse(m3[k])} written_sparse={written_sparse}")
                else:
                    R.check(sp.issparse(m3[k]) and m3[k].format == "csc", "callable_applied")
        # dictionary interface: last of repeated names wins, order of first appearance
        d = op4.load(path)
        last = {}
        for k, n in enumerate(lnames):
            last[n] = k
        R.check(list(d.keys()) == list(dict.fromkeys(lnames)), "dct_keys", f"{list(d.keys())}")
        for n, k in last.items():
            if n in d:
                same_values(d[n][0], refs[k], "dct")
                R.check(d[n][1] == f2[k] and d[n][2] == t2[k], "dct_meta")
        dj = op4.read(path)
        for n, k in last.items():
            if n in dj:
                same_values(dj[n], refs[k], "read")
        # name subset
        sub = case.get("subset")
        if sub:
            want = [n for n in dict.fromkeys(lnames) if (hash_name(n) + sub) % 2 == 0]
            if want:
                ns, ms, fs, ts = op4.load(path, namelist=want, into="list")
                idx = [k for k, n in enumerate(lnames) if n in want]
                if R.check(ns == [lnames[k] for k in idx], "subset_names", f"{ns} want {want}"):
                    for kk, k in enumerate(idx):
                        same_values(ms[kk], refs[k], "subset")
                # the same request as a tuple / through the dictionary interface
                dsub = op4.load(path, namelist=tuple(want) if sub % 2 else want)
                R.check(list(dsub.keys()) == [n for n in dict.fromkeys(lnames) if n in want], "subset_names_dct",
                        f"{list(dsub.keys())} want {want}")
        # a single name as a plain string ("string with name of the single variable to read in"): both interfaces
        for nm in list(dict.fromkeys(lnames))[:3]:
            idx = [k for k, n in enumerate(lnames) if n == nm]
            ns, ms, fs, ts = op4.load(path, namelist=nm, into="list")
            if R.check(ns == [nm] * len(idx), "single_name_list", f"namelist={nm!r}: {ns} (file holds {lnames})"):
                for kk, k in enumerate(idx):
                    same_values(ms[kk], refs[k], "single_name")
            d1 = op4.load(path, namelist=nm)
            if R.check(list(d1.keys()) == [nm], "single_name_dct", f"namelist={nm!r}: {list(d1.keys())} (file holds {lnames})"):
                same_values(d1[nm][0], refs[idx[-1]], "single_name_dct")
            d2 = op4.read(path, namelist=nm)
            R.check(list(d2.keys()) == [nm], "single_name_read", f"namelist={nm!r}: {list(d2.keys())}")
        if any(a != b and a in b for a in lnames for b in lnames):
            R.label("names:nested")
    try:
        os.remove(path)
    except OSError:
        pass
    _ = nz


def hash_name(n):
    return sum(ord(ch) for ch in n)


def _zero_inside(A):
    i, j = np.nonzero(A)
    if len(i) == 0:
        return False
    box = A[i.min(): i.max() + 1, j.min(): j.max() + 1]
    return bool(np.any(box == 0))


# ------------------------------------------------------------------ generators

names_st = st.builds(lambda a, b: a + b, st.sampled_from(LETTERS),
                     st.text(LETTERS + "0123456789_", max_size=7))
finite = st.floats(allow_nan=False, allow_infinity=False)
PATTERNS = ["dense", "corner", "first", "banded", "alternating", "trim", "strings", "random", "colgaps"]
VALS = ["unit", "int", "wide", "exp3", "subnormal", "near_overflow", "nines"]
INTYPES = ["ndarray", "ndarray", "fortran", "int", "f32", "1d", "coo", "csr", "csc", "coo_dup",
           "csr_explicit0"]


@st.composite
def matrix_spec(draw, names_pool):
    spec = {"name": draw(st.sampled_from(names_pool)),
            "complex": draw(st.booleans()),
            "intype": draw(st.sampled_from(INTYPES)),
            "form": draw(st.sampled_from([None, None, None, 1, 2, 3, 6, 8, 9, 13, 15]))}
    if draw(st.booleans()):
        r, c = draw(st.integers(1, 6)), draw(st.integers(1, 6))
        spec["r"], spec["c"] = r, c
        ent = draw(st.lists(st.tuples(st.integers(0, 5), st.integers(0, 5), finite, finite),
                            max_size=12))
        spec["entries"] = [list(e) for e in ent]
        if draw(st.booleans()) and r == c:       # make it exactly symmetric
            spec["entries"] += [[e[1], e[0], e[2], e[3]] for e in ent]
        elif r == c and r >= 3 and draw(st.integers(0, 2)) == 0:
            # connectivity-like: a few repeated values, every entry below the diagonal has a partner of the same
            # value in the same row-as-column above it, but NOT at the mirrored place (square, not symmetric)
            spec["entries"] = []
            for _ in range(draw(st.integers(1, 4))):
                j = draw(st.integers(0, r - 2))
                i = draw(st.integers(j + 1, r - 1))
                ks = [k for k in range(j + 1, r) if k != i]
                if not ks:
                    continue
                k = draw(st.sampled_from(ks))
                v = draw(st.sampled_from([1.0, 2.0, -1.0]))
                spec["entries"] += [[i, j, v, v], [j, k, v, v]]
            spec["form"] = None
    else:
        spec["r"], spec["c"] = draw(st.integers(1, 40)), draw(st.integers(1, 40))
        spec["pattern"] = draw(st.sampled_from(PATTERNS))
        spec["vals"] = draw(st.sampled_from(VALS))
        spec["density"] = draw(st.sampled_from([0.05, 0.3, 0.7]))
        spec["seed"] = draw(st.integers(0, 2 ** 31))
    if spec["intype"] == "1d":
        spec["r"] = 1
    return spec


@st.composite
def files(draw):
    pool = draw(st.lists(names_st, min_size=1, max_size=4))
    if draw(st.integers(0, 3)) == 0:
        # names that contain one another (kbb / k / bb ...): a name request is by equality, never by containment
        pool = draw(st.lists(st.sampled_from(["kbb", "k", "bb", "b", "kb", "mkbb1", "kbb1"]), min_size=2, max_size=4,
                             unique=True))
    mats = draw(st.lists(matrix_spec(pool), min_size=1, max_size=5))
    return {"mats": mats,
            "binary": draw(st.booleans()),
            "endian": draw(st.sampled_from(["=", "<", ">", ""])),
            "sparse": draw(st.sampled_from(["auto", "dense", "bigmat", "nonbigmat"])),
            "digits": draw(st.one_of(st.integers(1, 18), st.just(16), st.just(9))),
            "dictform": draw(st.booleans()),
            "scalar_args": draw(st.booleans()),
            "subset": draw(st.integers(0, 3))}


def boundary(shard, nshards, tier):
    """handful of big boundary shapes around the writer's/reader's switch points"""
    cases = []
    k = 0
    for n in (2999, 3000, 3001):
        for sparse in ("dense", "bigmat", "nonbigmat"):
            for binary in (True, False):
                cases.append({"mats": [{"name": "col", "r": n + 3, "c": 2, "pattern": "trim2",
                                        "vals": "unit", "seed": n, "nvals": n}],
                              "binary": binary, "sparse": sparse, "digits": 12})
    rows = (16383, 16384, 16385, 8191, 8192) if tier == "quick" else \
        (16383, 16384, 16385, 8191, 8192, 32767, 32768, 65535, 65536, 65537)
    for n in rows:
        for sparse in ("nonbigmat", "bigmat", "dense"):
            for cplx in (False, True):
                cases.append({"mats": [{"name": "big", "r": n, "c": 2, "pattern": "dense",
                                        "vals": "unit", "seed": n, "complex": cplx}],
                              "binary": True, "sparse": sparse, "endian": "<" if n % 2 else ">"})
        cases.append({"mats": [{"name": "bigs", "r": n, "c": 3, "pattern": "random", "density": 0.01,
                                "vals": "int", "seed": n, "intype": "csc"}],
                      "binary": n % 2 == 0, "sparse": "auto", "digits": 9})
    if tier == "quick":
        for n in (65535, 65536):
            for binary in (True, False):
                cases.append({"mats": [{"name": "big", "r": n, "c": 2, "pattern": "random", "density": 0.2,
                                        "vals": "unit", "seed": n}],
                              "binary": binary, "sparse": "nonbigmat", "digits": 9})
    for n in (1, 2, 7, 80, 81):
        cases.append({"mats": [{"name": "row", "r": 1, "c": n, "pattern": "dense", "vals": "wide",
                                "seed": n, "intype": "1d"}], "binary": False, "sparse": "dense",
                      "digits": 16})
    for i, c in enumerate(cases):
        if i % nshards == shard:
            yield c
        k += 1


_orig_build = build_matrix


def build_matrix(spec):  # noqa: F811  (adds the boundary-only pattern)
    if spec.get("pattern") == "trim2":
        r, c = spec["r"], spec["c"]
        rng = util.rng_of(spec["seed"])
        A = np.zeros((r, c))
        A[1:1 + spec["nvals"], 0] = rng.uniform(1, 2, spec["nvals"])
        A[2:2 + spec["nvals"], 1] = rng.uniform(1, 2, spec["nvals"])
        return A, A
    return _orig_build(spec)


PARTS = [
    Part("files", oracle, strategy=files, quick=(16, 60), thorough=(16, 4000)),
    Part("boundary", oracle, enum=boundary, quick=(16, None), thorough=(16, None), exhaustive=True),
    # coverage-guided (atheris / libFuzzer) tier over the same strategy and oracle
    Part("fuzz_files", oracle, strategy=files, quick=(2, 250), thorough=(8, 20000),
         fuzz=dict(modules=["pyyeti.nastran.op4"], time=30, time_thorough=400), tmax_thorough=600),
    # documented defaults: leaving a keyword out = passing its documented value (vlib/defaults.py)
    Part("defaults", defaults.make_oracle("C04"), enum=defaults.make_enum(), quick=(1, None), thorough=(1, None),
         exhaustive=True),
]
