"""C11 - the OUTPUT4 / OUTPUT2 readers decode every physical variant of the formats.

Files are produced by refs/op4enc.py and refs/op2enc.py (no pyyeti code) and read
back with pyyeti.nastran.op4 / op2.  The encoders themselves are anchored in the
Nastran-written sample files shipped with pyyeti (part "selftest").
"""
import os
import struct

import numpy as np
import scipy.sparse as sp
from hypothesis import strategies as st

from refs import op2enc, op4enc
from vlib import env, util
from vlib import defaults
from vlib.core import Part

PROPERTY = "C11"
RULE = (
    "selftest (enumerated): every .op4/.op2 sample file shipped in pyyeti/tests is decoded with "
    "pyyeti (op4.load(sparse=True) keeps the stored entries; OP2 directory/rdop2record('bytes')/"
    "rdop2matrix), re-encoded by the independent encoders with the encoding choices peeked from the "
    "file (layout, key width, byte order, ASCII format, closing-record dialect, record splits) and "
    "compared byte for byte; variants without a Nastran-written sample are labelled unanchored.  "
    "op4 (Hypothesis): 1..4 matrices (patterns dense/random/banded/runs/colgaps/corner/first/zero/"
    "long>=3000-value strings; values unit/int/wide/edge; real or complex; float32-representable for "
    "single precision) x per-matrix layout dense|bigmat|nonbigmat x string partition natural|split|"
    "zeros-stored, trimmed or full dense columns x file encoding binary{<,>}x{32,64-bit keys} or "
    "ASCII {E,D} x per-matrix format (digits 3..17, width digits+7..+4, 1..6 per line, 1P or not, "
    "lower case, |I16 header, no format).  Oracle: op4.load/read into list and dct, dense / sparse / "
    "auto / callable reads return exactly the values represented in the file (bit-exact binary; the "
    "decimal text for ASCII), names, sizes, forms, types; op4.dir equals the listing of the full "
    "read; every namelist subset (each single name = read after skipping, a random subset, an absent "
    "name) equals the filter of the full read.  op2 (Hypothesis): files with/without label header, "
    "32/64-bit, both byte orders, with/without end-of-file key, 1..5 data blocks: matrices (single/"
    "double/real/complex, partitions as above, null columns, >=3000-value strings) and tables (header "
    "record of 2..7 words, 1..6 records of int/uint/single/double/bytes data, split into 1..4 physical "
    "parts).  Oracle: directory() names, types, sizes, trailers, per-part record headers and "
    "[start, stop) equal the encoder's bookkeeping, stop_i = start_{i+1}, last stop = end of data; "
    "rdop2mats all / which / subset / wildcard; set_position + rdop2nt + rdop2matrix / skipop2matrix / "
    "rdop2record(form, N) for every applicable form / skipop2record / rdop2tabheaders return the "
    "encoded data and leave tell() at the encoder's next offset.  op4_cutover / op2_cutover "
    "(enumerated): strings and record parts of 2999 / 3000 / 3001 numbers for every precision x key "
    "width x byte order x layout / record form (the struct.unpack / numpy.fromfile switch).  Three "
    "input classes on which the readers deviated from their documentation (fixed: F31-F33) keep "
    "deterministic parts of their own and are also generated in the parts above: op4_sparse_f32 "
    "(sparse-mode read of a 4-byte single precision matrix whose strings all have >= 3000 numbers must "
    "still be double precision), op2_uint64 (rdop2record('uint') of a 64-bit file with a word >= 2**63), "
    "op2_nbytes (directory().nbytes = bytes the data block occupies).  Non-trivial: some matrix has >= 2 stored "
    "columns or >= 2 strings in a column, or some record has >= 2 parts."
)
ASSUME = [
    "Python float() / '%E' conversions are correctly rounded (ASCII expectation = float of the written text)",
    "ASCII numbers have two-digit exponents (Fortran drops the E for three-digit exponents; not supported by "
    "the reader) and D exponents are upper case with the whole file using one exponent letter "
    "(reader documents _dformat as a file-level flag detected on the first data line)",
    "nonbigmat layout only with rows <= 65535 and strings whose word count fits 15 bits (format limit); "
    "negative row count only with dense or bigmat layouts",
    "64-bit-key OUTPUT4 / 64-bit OUTPUT2 double precision (mtype 2/4) is laid out as the reader documents "
    "(8-byte reals = 1 word); Nastran itself writes mtype 1/3 in that mode (unanchored)",
    "OP2 records are split only between elements of the requested form; float records hold finite values "
    "(a foreign bit pattern read as reals is compared up to NaN payloads)",
    "directory().headers lists one entry per physical part of a record (as for the Nastran-written "
    "multi-part records of cant_beam.op2), although the docstring says one per record",
    "numpy / scipy.sparse conversions are correct; files live in a tmpfs scratch directory",
]
KNOWN = {}

LETTERS = "ABCDEFGHIJKLMNOPQRSTUVWXYZ"
SAMPLES_OP4 = "pyyeti/tests/nastran_op4_data"


# =========================================================================
# logical matrices
# =========================================================================

def build_dense(spec, single32, ascii_):
    """dense reference array for a matrix spec (pure function of the spec)"""
    r, c = spec["r"], spec["c"]
    rng = util.rng_of(spec["seed"])
    cplx = spec["mtype"] > 2
    pat = spec["pattern"]
    M = np.zeros((r, c), bool)
    if pat == "dense":
        M[:] = True
    elif pat == "random":
        M = rng.random((r, c)) < spec.get("density", 0.3)
    elif pat == "banded":
        for k in range(-1, 2):
            M |= np.eye(r, c, k, dtype=bool)
    elif pat == "runs":
        for j in range(c):
            i = int(rng.integers(0, 3))
            while i < r:
                n = int(rng.integers(1, 6))
                M[i:i + n, j] = True
                i += n + int(rng.integers(1, 4))
    elif pat == "colgaps":
        M = rng.random((r, c)) < 0.6
        M[:, rng.integers(0, c, max(1, c // 2))] = False
    elif pat == "corner":
        M[-1, -1] = True
    elif pat == "first":
        M[0, 0] = True
    elif pat == "zero":
        pass
    elif pat == "cutover":
        # strings with 2999 / 3000 / 3001 numbers: both sides of the struct / fromfile switch
        for j, n in enumerate(spec["lens"]):
            M[1 + j:1 + j + n, j] = True
    elif pat == "tall":
        # many rows: short strings that start just below / at / above row 32768 (15/16-bit row packing of the
        # nonbigmat string header) and at the very end, plus a string that runs across 32768
        for j in range(c):
            for start in spec["starts"]:
                s0 = min(max(0, start + j), r - 1)
                M[s0:min(r, s0 + 1 + (j + start) % 3), j] = True
        if spec.get("across") and r > 32770:
            M[32760:32775, c - 1] = True
    elif pat == "long":
        # one run longer than the struct/fromfile cut-over, short runs elsewhere
        n = spec["nlong"]
        off = int(rng.integers(0, r - n + 1))
        M[off:off + n, 0] = True
        if c > 1:
            M[:, 1:] = rng.random((r, c - 1)) < 0.002
            M[r // 2:r // 2 + 3, -1] = True
    else:
        raise ValueError(pat)
    n = int(M.sum())
    vc = spec["vals"]
    lim = 30 if single32 else (90 if ascii_ else 290)

    def draw(n):
        sgn = np.where(rng.random(n) < 0.5, -1.0, 1.0)
        if vc == "unit":
            v = rng.uniform(-1, 1, n)
        elif vc == "int":
            v = sgn * rng.integers(1, 10, n)
        elif vc == "wide":
            v = sgn * 10.0 ** rng.uniform(-lim, lim, n)
        elif vc == "edge":
            if single32:
                pool = [3.4028234e38, 1.17549435e-38, 1.0, 16777217.0, 0.1, 1e-30]
            elif ascii_:
                pool = [9.999999999999999e97, 1.0e-97, 1.0, 0.1, 123456789.12345678, 9.5]
            else:
                pool = [1.7976931348623157e308, 5e-324, 2.2250738585072014e-308, 1.0, 0.1,
                        4.9406564584124654e-320]
            v = sgn * rng.choice(pool, n)
        else:
            raise ValueError(vc)
        v[v == 0] = 1.0
        return v

    A = np.zeros((r, c), complex if cplx else float)
    v = draw(n)
    if cplx:
        w = draw(n)
        k = rng.random(n)
        w[k < 0.2] = 0.0          # purely real entries
        v[(k > 0.8)] = 0.0        # purely imaginary entries
        v = v + 1j * w
    A[M] = v
    if single32:
        if cplx:
            A = A.real.astype(np.float32).astype(float) + 1j * A.imag.astype(np.float32).astype(float)
        else:
            A = A.astype(np.float32).astype(float)
    return A


def words_per_real(mtype, binary, bit64):
    if mtype & 1:
        return 1
    return 1 if (binary and bit64) else 2


def logical_matrix(spec, enc):
    """spec + file encoding -> matrix dict for op4enc.encode"""
    binary = enc["binary"]
    bit64 = bool(enc.get("bit64"))
    single32 = bool(spec["mtype"] & 1) and not (binary and bit64)
    A = build_dense(spec, single32, not binary)
    layout = spec["layout"]
    npe = 2 if spec["mtype"] > 2 else 1
    maxlen = 32766 // (npe * words_per_real(spec["mtype"], binary, bit64)) if layout == "nonbigmat" else None
    prng = util.rng_of(spec["seed"] + 7919)
    cols = op4enc.partition(A, layout, prng, mode=spec.get("pmode", "natural"),
                            trim=spec.get("trim", True), maxlen=maxlen)
    m = dict(name=spec["name"], rows=spec["r"], cols=spec["c"], form=spec["form"], mtype=spec["mtype"],
             layout=layout, columns=cols)
    if layout == "dense" and spec.get("neg"):
        m["neg_rows"] = True
    if "fmt" in spec:
        m["fmt"] = spec["fmt"]
    return m


def bits_equal(got, ref):
    got = np.ascontiguousarray(got)
    ref = np.ascontiguousarray(ref)
    return got.shape == ref.shape and got.dtype == ref.dtype and got.tobytes() == ref.tobytes()


def name_hash(n):
    return sum((k + 1) * ord(ch) for k, ch in enumerate(n))


# =========================================================================
# part "op4"
# =========================================================================

def variant_labels_op4(enc, mats):
    out = []
    for m in mats:
        prec = "single" if m["mtype"] & 1 else "double"
        if enc["binary"]:
            out.append(f"bin:{prec}:{'k64' if enc.get('bit64') else 'k32'}:{enc['endian']}:{m['layout']}")
        else:
            f = dict(enc.get("fmt", {}))
            f.update(m.get("fmt", {}))
            out.append(f"ascii:{f.get('exp', 'E')}:{m['layout']}")
            for k in ("wide", "nofmt", "lower"):
                if f.get(k):
                    out.append(f"ascii:{k}")
            if not f.get("onep", True) and not f.get("nofmt"):
                out.append("ascii:no1P")
    return out


def oracle_op4(case, R):
    from pyyeti.nastran import op4
    enc = case["enc"]
    mats = [logical_matrix(s, enc) for s in case["mats"]]
    data, info = op4enc.encode(mats, enc)
    path = util.tmpfile(f"c11-{os.getpid()}.op4")
    with open(path, "wb") as f:
        f.write(data)
    binary = enc["binary"]
    names = [m["name"].lower() for m in mats]
    refs = [op4enc.dense_of(m["rows"], m["cols"], m["mtype"], i["written"]) for m, i in zip(mats, info)]
    forms = [m["form"] for m in mats]
    mtypes = [m["mtype"] for m in mats]
    nstr = [max([len(s) for _, s in m["columns"]], default=0) for m in mats]
    R.nontrivial(any(len(m["columns"]) >= 2 or k >= 2 for m, k in zip(mats, nstr)))
    R.label(*variant_labels_op4(enc, mats))
    R.label(*(f"pmode={s.get('pmode', 'natural')}" for s in case["mats"]),
            *(f"pattern={s['pattern']}" for s in case["mats"]),
            "complex" if any(t > 2 for t in mtypes) else "real",
            f"nmats={len(mats)}",
            "repeat-names" if len(set(names)) < len(names) else "unique-names")
    if any(max([len(v) for _, s in m["columns"] for _, v in s], default=0) >= 3000 for m in mats):
        R.label("string>=3000")
    if any(k >= 2 for k in nstr):
        R.label("multi-string")

    def same(got, ref, tag, k):
        if sp.issparse(got):
            ok_shape = got.shape == ref.shape
            got = np.asarray(got.toarray())
            if got.dtype != ref.dtype and np.any(ref):
                R.fail("sparse_read_not_double_precision",
                       f"{tag} read of matrix {k} ({mats[k]['layout']}, mtype {mtypes[k]}) returned dtype "
                       f"{got.dtype}; the module reads all matrices in as double precision ({ref.dtype})")
                got = got.astype(ref.dtype)
            if got.dtype != ref.dtype and not np.any(ref):
                # no stored entry: a sparse result cannot carry the complex dtype
                got = got.astype(ref.dtype)
        else:
            ok_shape = True
            got = np.asarray(got)
        ok = ok_shape and bits_equal(got, ref)
        bad = int(np.sum(got != ref)) if got.shape == ref.shape else -1
        R.check(ok, f"{tag}_values_{'binary' if binary else 'ascii'}",
                f"matrix {k} ({mats[k]['layout']}, mtype {mtypes[k]}): shape {got.shape} vs {ref.shape}, "
                f"dtype {got.dtype} vs {ref.dtype}, mismatches={bad}")

    try:
        # ---- full read, list interface, dense
        n2, m2, f2, t2 = op4.load(path, into="list")
        if not R.check(n2 == names, "names", f"{n2} vs {names}"):
            return
        R.check(list(f2) == forms and list(t2) == mtypes, "forms_types", f"{f2} {t2} vs {forms} {mtypes}")
        for k, A in enumerate(refs):
            R.check(isinstance(m2[k], np.ndarray), "dense_type", type(m2[k]).__name__)
            same(m2[k], A, "dense", k)
        # ---- directory listing
        dn, ds, df, dt = op4.dir(path, verbose=False)
        R.check(dn == names and [tuple(s) for s in ds] == [A.shape for A in refs]
                and list(df) == forms and list(dt) == mtypes, "dir_vs_read",
                f"{dn} {ds} {df} {dt}")
        # ---- sparse / auto / callable reads
        for mode, tag in ((True, "sparse"), (None, "auto"), ((None, sp.coo_matrix.tocsc), "callable")):
            n3, m3, f3, t3 = op4.load(path, into="list", sparse=mode)
            R.check(n3 == names and list(f3) == forms and list(t3) == mtypes, f"{tag}_meta")
            for k, A in enumerate(refs):
                if k >= len(m3):
                    break
                same(m3[k], A, tag, k)
                m = mats[k]
                # what the file shows: sparse layouts have irow = 0 in the column
                # records; without any column only a negative row count tells
                file_sparse = (m["layout"] != "dense") if m["columns"] else \
                    bool(m.get("neg_rows", m["layout"] == "bigmat"))
                if mode is True:
                    R.check(sp.issparse(m3[k]), "sparse_type", f"matrix {k}")
                elif mode is None:
                    R.check(sp.issparse(m3[k]) == file_sparse, "auto_type",
                            f"matrix {k}: issparse={sp.issparse(m3[k])} file_sparse={file_sparse}")
                else:
                    R.check((sp.issparse(m3[k]) and m3[k].format == "csc") if file_sparse
                            else isinstance(m3[k], np.ndarray), "callable_applied", f"matrix {k}")
        # ---- dictionary interfaces: last occurrence of a name wins, keys in order of first appearance
        last = {}
        for k, n in enumerate(names):
            last[n] = k
        d = op4.load(path)
        R.check(list(d.keys()) == list(dict.fromkeys(names)), "dct_keys", f"{list(d.keys())}")
        for n, k in last.items():
            if n in d:
                same(d[n][0], refs[k], "dct", k)
                R.check(d[n][1] == forms[k] and d[n][2] == mtypes[k], "dct_meta")
        dj = op4.read(path, sparse=None)
        R.check(list(dj.keys()) == list(dict.fromkeys(names)), "read_keys")
        for n, k in last.items():
            if n in dj:
                same(dj[n], refs[k], "read", k)
        # ---- name subsets == filter of the full read
        uniq = list(dict.fromkeys(names))
        wants = [[n] for n in uniq]                       # read k after skipping k-1
        sub = [n for n in uniq if (name_hash(n) + case.get("subset", 0)) % 2 == 0]
        if sub and len(sub) < len(uniq):
            wants.append(sub)
        wants.append(uniq[::-1])                          # order of the namelist is irrelevant
        for want in wants:
            idx = [k for k, n in enumerate(names) if n in want]
            arg = want[0] if (len(want) == 1 and case.get("subset", 0) % 2) else want
            smode = (False, True, None)[(case.get("subset", 0) + len(want)) % 3]
            ns, ms, fs, ts = op4.OP4().listload(path, namelist=arg, sparse=smode)
            if R.check(ns == [names[k] for k in idx] and list(fs) == [forms[k] for k in idx]
                       and list(ts) == [mtypes[k] for k in idx], "subset_listing", f"{ns} want {want}"):
                for kk, k in enumerate(idx):
                    same(ms[kk], refs[k], "subset", k)
            # dictionary mode: the named subset equals the full dictionary read filtered by name (for a repeated
            # name that is the LAST occurrence, wherever the other requested names sit in the file)
            dsub = op4.load(path, namelist=arg, sparse=smode)
            wkeys = [n for n in d.keys() if n in want]
            if R.check(list(dsub.keys()) == wkeys, "subset_dct_keys", f"{list(dsub.keys())} want {wkeys}"):
                for n in wkeys:
                    same(dsub[n][0], refs[last[n]], "subset_dct", last[n])
                    R.check(dsub[n][1] == forms[last[n]] and dsub[n][2] == mtypes[last[n]], "subset_dct_meta", n)
            rsub = op4.read(path, namelist=arg, sparse=smode)
            if R.check(list(rsub.keys()) == wkeys, "subset_read_keys", f"{list(rsub.keys())} want {wkeys}"):
                for n in wkeys:
                    same(rsub[n], refs[last[n]], "subset_read", last[n])
        ns, ms, fs, ts = op4.load(path, namelist=["zzabsent"], into="list")
        R.check(ns == [] and ms == [], "absent_name", f"{ns}")
    finally:
        try:
            os.remove(path)
        except OSError:
            pass


names_st = st.builds(lambda a, b: a + b, st.sampled_from(LETTERS),
                     st.text(LETTERS + "0123456789_", max_size=7))
PATTERNS = ["dense", "random", "random", "banded", "runs", "runs", "colgaps", "corner", "first", "zero"]
FORMS = [1, 2, 2, 3, 4, 5, 6, 8, 9, 10, 13, 15]


@st.composite
def ascii_fmt(draw):
    digits = draw(st.sampled_from([3, 5, 8, 9, 9, 12, 14, 15, 16, 16, 17]))
    f = {"digits": digits, "width": digits + 7 + draw(st.sampled_from([0, 0, 0, 1, 2, 4])),
         "perline": draw(st.integers(1, 6)), "onep": draw(st.sampled_from([True, True, True, False]))}
    extra = draw(st.sampled_from([None, None, None, None, "wide", "nofmt"]))
    if extra:
        f[extra] = True
    return f


@st.composite
def matrix_spec(draw, pool, binary, long_ok):
    mtype = draw(st.sampled_from([1, 2, 3, 4]))
    layout = draw(st.sampled_from(["dense", "bigmat", "nonbigmat"]))
    spec = {"name": draw(st.sampled_from(pool)), "mtype": mtype, "layout": layout,
            "form": draw(st.sampled_from(FORMS)), "seed": draw(st.integers(0, 2 ** 31)),
            "vals": draw(st.sampled_from(["unit", "int", "wide", "wide", "edge"])),
            "pmode": draw(st.sampled_from(["natural", "split", "zeros"])),
            "trim": draw(st.sampled_from([True, True, False]))}
    if long_ok and draw(st.integers(0, 9)) == 0:
        spec["pattern"] = "long"
        spec["nlong"] = draw(st.sampled_from([2999, 3000, 3001, 3600]))
        spec["r"] = spec["nlong"] + draw(st.integers(0, 40))
        spec["c"] = draw(st.integers(1, 3))
        spec["vals"] = draw(st.sampled_from(["unit", "int"]))
    elif long_ok and draw(st.integers(0, 9)) == 0:
        spec["pattern"] = "tall"
        spec["r"] = draw(st.sampled_from([32767, 32768, 32769, 32770, 40000, 65535] if layout == "nonbigmat" else
                                         [32769, 40000, 65535, 65536, 65537, 70001]))
        spec["c"] = draw(st.integers(1, 3))
        spec["starts"] = sorted(set(draw(st.lists(st.sampled_from(
            [0, 5, 16383, 16384, 32765, 32766, 32767, 32768, 32769, 32780, 39990, 49151, 49152, 65533, 65534,
             65535, 65536, 70000]), min_size=1, max_size=6))))
        spec["across"] = draw(st.booleans())
        spec["vals"] = draw(st.sampled_from(["unit", "int"]))
    else:
        spec["pattern"] = draw(st.sampled_from(PATTERNS))
        spec["r"], spec["c"] = draw(st.integers(1, 40)), draw(st.integers(1, 30))
        spec["density"] = draw(st.sampled_from([0.05, 0.3, 0.7]))
    if layout == "dense" and draw(st.integers(0, 7)) == 0:
        spec["neg"] = True
    if not binary:
        spec["fmt"] = draw(ascii_fmt())
    return spec


@st.composite
def op4_files(draw):
    binary = draw(st.booleans())
    if binary:
        enc = {"binary": True, "endian": draw(st.sampled_from(["<", ">"])), "bit64": draw(st.booleans())}
    else:
        exp = draw(st.sampled_from(["E", "E", "D"]))
        enc = {"binary": False, "fmt": {"exp": exp}, "iswidth": draw(st.sampled_from([8, 11, 12]))}
        if exp == "E" and draw(st.integers(0, 5)) == 0:
            enc["fmt"]["lower"] = True
    pool = draw(st.lists(names_st, min_size=1, max_size=4))
    n = draw(st.integers(1, 4))
    mats = [draw(matrix_spec(pool, binary, long_ok=(k == 0))) for k in range(n)]
    return {"enc": enc, "mats": mats, "subset": draw(st.integers(0, 5))}


# =========================================================================
# part "op2"
# =========================================================================

def op2_block(spec, enc):
    """block spec -> block dict for op2enc.encode"""
    bit64 = bool(enc.get("bit64"))
    W = 8 if bit64 else 4
    if spec["kind"] == "matrix":
        single32 = bool(spec["mtype"] & 1) and not bit64
        A = build_dense(spec, single32, False)
        prng = util.rng_of(spec["seed"] + 7919)
        cols = op4enc.partition(A, "bigmat", prng, mode=spec.get("pmode", "natural"))
        trailer = (spec["tid"], spec["c"], spec["r"], spec["form"], spec["mtype"], spec["t5"], spec["t6"])
        return dict(kind="matrix", name=spec["name"], trailer=trailer, columns=cols)
    rng = util.rng_of(spec["seed"])
    recs = []
    for r in spec["records"]:
        dt, n = r["dtype"], r["n"]
        if dt == "int":
            info = np.iinfo(np.int64 if bit64 else np.int32)
            data = rng.integers(info.min, info.max, n, dtype=info.dtype, endpoint=True)
            esz = W
        elif dt == "uint":
            info = np.iinfo(np.uint64 if bit64 else np.uint32)
            top = info.max
            data = rng.integers(0, top, n, dtype=info.dtype, endpoint=True)
            if spec.get("uint64_topbit"):
                data[0] = 2 ** 63 + 5
            esz = W
        elif dt == "single":
            if bit64 and n % 2:
                n += 1
            data = (rng.standard_normal(n) * 10.0 ** rng.integers(-30, 30, n)).astype(np.float32)
            esz = 4
        elif dt == "double":
            data = rng.standard_normal(n) * 10.0 ** rng.integers(-300, 300, n)
            esz = 8
        else:
            data = rng.integers(0, 256, n * W, dtype=np.uint8).tobytes()
            esz = W
        nwords = n * esz // W
        # cuts (in words) only between elements
        step = max(1, esz // W)
        cuts = sorted(set(int(f * (nwords // step)) * step for f in r.get("cuts", [])))
        recs.append(dict(dtype=dt, data=data, cuts=[c for c in cuts if 0 < c < nwords]))
    hw = rng.integers(0, 2 ** 31, spec.get("hdr_extra", 0), dtype=np.int64)
    hdr = np.asarray(hw).astype(f"{enc['endian']}i{W}").tobytes()
    return dict(kind="table", name=spec["name"], name2=spec.get("name2", spec["name"]),
                trailer=[spec["tid"]] + list(spec["trailer"]), header_words=hdr, records=recs)


def native(a):
    a = np.asarray(a)
    return a.astype(a.dtype.newbyteorder("="))


def expected_headers(bi, enc, data):
    """per physical part: [(first three words as signed ints), byte length]"""
    W = 8 if enc.get("bit64") else 4
    fmt = enc["endian"] + ("3q" if W == 8 else "3i")
    out = []
    for ri in bi["records"]:
        pos = ri["start"]
        for head, nbytes in ri["parts"]:
            p = pos + (8 + W) + 4         # key triplet, record marker
            out.append([struct.unpack(fmt, data[p:p + 3 * W]), nbytes])
            pos += (8 + W) + 8 + nbytes
    return out


def oracle_op2(case, R, only_nbytes=False):
    from pyyeti.nastran import op2
    enc = case["enc"]
    blocks = [op2_block(s, enc) for s in case["blocks"]]
    data, info = op2enc.encode(blocks, enc)
    path = util.tmpfile(f"c11-{os.getpid()}.op2")
    with open(path, "wb") as f:
        f.write(data)
    bis = info["blocks"]
    k64 = "k64" if enc.get("bit64") else "k32"
    R.label(f"{k64}:{enc['endian']}:{'hdr' if enc.get('header') else 'nohdr'}",
            "eof" if enc.get("eof", True) else "noeof")
    multi = False
    for b, bi in zip(blocks, bis):
        if b["kind"] == "matrix":
            mt = b["trailer"][4]
            R.label(f"matrix:{'single' if mt & 1 else 'double'}{':complex' if mt > 2 else ''}:{k64}")
            ns = max([len(s) for _, s in b["columns"]], default=0)
            multi = multi or ns >= 2 or len(b["columns"]) >= 2
            if max([len(v) for _, s in b["columns"] for _, v in s], default=0) >= 3000:
                R.label("string>=3000")
        else:
            for r, ri in zip(b["records"], bi["records"]):
                R.label(f"table:{r['dtype']}")
                if len(ri["parts"]) > 1:
                    multi = True
                    R.label("multipart")
                if max(n for _, n in ri["parts"]) // (8 if enc.get("bit64") else 4) >= 3000:
                    R.label("part>=3000words")
    R.nontrivial(multi)
    try:
        o = op2.OP2(path)
    except Exception:
        os.remove(path)
        raise
    try:
        with o:
            dl = o.dblist
            for s, bi in zip(dl, bis):
                R.check(s.nbytes == bi["stop"] - bi["start"], "nbytes_not_bytes_consumed",
                        f"{s.name}: nbytes={s.nbytes} but the data block occupies bytes "
                        f"[{bi['start']}, {bi['stop']}) = {bi['stop'] - bi['start']} bytes")
            if only_nbytes:
                return
            # ---------------- directory
            hdr = enc.get("header")
            if hdr:
                R.check(o._label == hdr["label"].replace(" ", "") and tuple(o._date) == tuple(hdr["date"]),
                        "file_header", f"{o._label!r} {o._date}")
            else:
                R.check(o._label is None and o._date is None, "file_header", f"{o._label!r}")
            if not R.check([s.name for s in dl] == [bi["name"] for bi in bis], "dir_names",
                           f"{[s.name for s in dl]}"):
                return
            R.check(list(o.names) == [bi["name"] for bi in bis], "dir_names_attr")
            for k, (s, bi) in enumerate(zip(dl, bis)):
                R.check(s.dbtype == (1 if bi["kind"] == "matrix" else 0) and int(o.dbtypes[k]) == s.dbtype,
                        "dir_dbtype", f"{s.name}: {s.dbtype}")
                R.check(tuple(s.trailer) == tuple(bi["trailer"]) and tuple(o.trailers[k]) == tuple(bi["trailer"]),
                        "dir_trailer", f"{s.name}: {s.trailer} vs {bi['trailer']}")
                R.check(tuple(s.size) == tuple(bi["size"]), "dir_size", f"{s.name}: {s.size} vs {bi['size']}")
                R.check((s.start, s.stop) == (bi["start"], bi["stop"])
                        and (int(o.dbstarts[k]), int(o.dbstops[k])) == (bi["start"], bi["stop"]),
                        "dir_byte_range", f"{s.name}: [{s.start}, {s.stop}) vs [{bi['start']}, {bi['stop']})")
                if k + 1 < len(dl):
                    R.check(s.stop == dl[k + 1].start, "dir_stop_is_next_start", f"{s.name}")
                exp_h = expected_headers(bi, enc, data) if bi["kind"] == "table" else []
                got_h = [[tuple(h[0]), h[1]] for h in s.headers]
                R.check(got_h == [[tuple(h[0]), h[1]] for h in exp_h] and o.headers[k] == s.headers,
                        "dir_headers", f"{s.name}: {got_h[:4]} vs {exp_h[:4]}")
            R.check(dl[-1].stop == info["eof_pos"] and info["size"] - dl[-1].stop ==
                    ((8 + (8 if enc.get("bit64") else 4)) if enc.get("eof", True) else 0),
                    "dir_last_stop", f"{dl[-1].stop} vs {info['eof_pos']} size {info['size']}")
            occ = {}
            for k, bi in enumerate(bis):
                occ.setdefault(bi["name"], []).append(k)
            R.check(list(o.dbdct.keys()) == list(occ.keys())
                    and all([s.start for s in o.dbdct[n]] == [bis[k]["start"] for k in ks]
                            for n, ks in occ.items()), "dir_dbdct")

            # ---------------- matrices through rdop2mats
            mats = {k: op4enc.dense_of(bi["size"][0], bi["size"][1], bi["trailer"][4], bi["written"])
                    for k, bi in enumerate(bis) if bi["kind"] == "matrix"}
            mocc = {}
            for k in mats:
                mocc.setdefault(bis[k]["name"], []).append(k)

            def same(got, k, tag):
                ref = mats[k]
                R.check(bits_equal(np.asarray(got), ref), f"{tag}_values",
                        f"{bis[k]['name']} (mtype {bis[k]['trailer'][4]}): shape {np.shape(got)} vs {ref.shape}, "
                        f"dtype {np.asarray(got).dtype} vs {ref.dtype}, mismatches="
                        f"{int(np.sum(np.asarray(got) != ref)) if np.shape(got) == ref.shape else -1}")

            got = o.rdop2mats()
            if R.check(list(got.keys()) == list(mocc.keys()), "rdop2mats_keys", f"{list(got.keys())}"):
                for n, ks in mocc.items():
                    same(got[n], ks[-1], "rdop2mats")
            if mocc:
                got = o.rdop2mats(which=0, lower=True)
                if R.check(list(got.keys()) == [n.lower() for n in mocc], "rdop2mats_lower"):
                    for n, ks in mocc.items():
                        same(got[n.lower()], ks[0], "rdop2mats_which0")
                got = o.rdop2mats(which="all")
                for n, ks in mocc.items():
                    if R.check(len(got.get(n, [])) == len(ks), "rdop2mats_all_count"):
                        for g, k in zip(got[n], ks):
                            same(g, k, "rdop2mats_all")
                first = next(iter(mocc))
                got = o.rdop2mats(names=[first.lower()])
                R.check(list(got.keys()) == [first], "rdop2mats_subset_keys", f"{list(got.keys())}")
                if first in got:
                    same(got[first], mocc[first][-1], "rdop2mats_subset")
                patt = first[:1] + "*"
                got = o.rdop2mats(names=[patt])
                wantn = [n for n in mocc if n.startswith(first[:1])]
                R.check(list(got.keys()) == wantn, "rdop2mats_wildcard", f"{list(got.keys())} vs {wantn}")
            # a table name is not a matrix
            tnames = [bi["name"] for bi in bis if bi["kind"] == "table" and bi["name"] not in mocc]
            if tnames:
                R.check(o.rdop2mats(names=[tnames[0]]) == {}, "rdop2mats_table_name")

            # ---------------- positioned reads
            fh = o.file_handle()
            seen = {}
            for k, bi in enumerate(bis):
                which = seen.get(bi["name"], 0)
                seen[bi["name"]] = which + 1
                if (k + case.get("salt", 0)) % 2:
                    which -= len(occ[bi["name"]])          # negative index of the same occurrence
                    pos = o.set_position(bi["name"], which)
                else:
                    pos = o.set_position(bi["name"], which) if which else o.set_position(bi["name"])
                R.check(pos == bi["start"] and fh.tell() == bi["start"], "set_position",
                        f"{bi['name']}[{which}]: {pos} vs {bi['start']}")
                name, trailer, dbtype = o.rdop2nt()
                R.check(name == bi["name"] and tuple(trailer) == tuple(bi["trailer"])
                        and dbtype == (1 if bi["kind"] == "matrix" else 0), "rdop2nt",
                        f"{name} {trailer} {dbtype}")
                if not R.check(fh.tell() == bi["data_start"], "rdop2nt_tell",
                               f"{bi['name']}: {fh.tell()} vs {bi['data_start']}"):
                    continue
                if bi["kind"] == "matrix":
                    same(o.rdop2matrix(trailer), k, "rdop2matrix")
                    R.check(fh.tell() == bi["stop"], "rdop2matrix_tell", f"{fh.tell()} vs {bi['stop']}")
                    o.set_position(bi["data_start"])
                    o.skipop2matrix()
                    R.check(fh.tell() == bi["stop"], "skipop2matrix_tell", f"{fh.tell()} vs {bi['stop']}")
                    continue
                W = 8 if enc.get("bit64") else 4
                e = enc["endian"]
                for j, (r, ri) in enumerate(zip(blocks[k]["records"], bi["records"])):
                    raw = ri["bytes"]
                    plens = [n for _, n in ri["parts"]]
                    forms = {"bytes": (None, 1), None: (f"{e}i{W}", W), "int": (f"{e}i{W}", W),
                             "uint": (f"{e}u{W}", W), "single": (e + "f4", 4), "double": (e + "f8", 8)}
                    for form, (dt, bp) in forms.items():
                        if any(n % bp for n in plens):
                            continue                      # parts must hold whole elements of the form
                        own = form == r["dtype"] or (form is None and r["dtype"] == "int")
                        if not own and form != "bytes" and (j + k + case.get("salt", 0)) % 3:
                            continue                      # foreign forms on a third of the records
                        if form == "uint" and W == 8 and bool(np.any(np.frombuffer(raw, dtype=f"{e}i8") < 0)):
                            R.label("uint64_topbit")
                        for N in ((0,) if form == "bytes" else (0, len(raw) // bp)):
                            o.set_position(ri["start"])
                            got = o.rdop2record(form, N) if form else o.rdop2record(N=N)
                            if form == "bytes":
                                ok = got == raw
                            else:
                                ref = native(np.frombuffer(raw, dtype=dt))
                                got = np.asarray(got)
                                ok = got.ndim == 1 and got.dtype.kind == ref.dtype.kind \
                                    and got.dtype.itemsize == ref.dtype.itemsize \
                                    and (native(got).tobytes() == ref.tobytes()
                                         # foreign bit patterns read as reals: NaN payloads are not data
                                         or (not own and ref.dtype.kind == "f"
                                             and np.array_equal(native(got), ref, equal_nan=True)))
                            R.check(ok, f"rdop2record_{form or 'default'}",
                                    f"{bi['name']} record {j} ({r['dtype']}, parts {plens}) N={N}")
                            R.check(fh.tell() == ri["next"], "rdop2record_tell",
                                    f"{bi['name']} record {j} form {form} N={N}: {fh.tell()} vs {ri['next']}")
                    o.set_position(ri["start"])
                    o.skipop2record()
                    R.check(fh.tell() == ri["next"], "skipop2record_tell",
                            f"{bi['name']} record {j}: {fh.tell()} vs {ri['next']}")
                # sequential read of the whole table, then the end-of-block key
                o.set_position(bi["data_start"])
                for j, ri in enumerate(bi["records"]):
                    R.check(o.rdop2record("bytes") == ri["bytes"], "rdop2record_sequential", f"record {j}")
                R.check(o.rdop2record() is None and fh.tell() == bi["stop"], "rdop2record_end_of_block",
                        f"{fh.tell()} vs {bi['stop']}")
                o.set_position(bi["data_start"])
                hs = o.rdop2tabheaders()
                R.check([[tuple(h[0]), h[1]] for h in hs] ==
                        [[tuple(h[0]), h[1]] for h in expected_headers(bi, enc, data)]
                        and fh.tell() == bi["stop"], "rdop2tabheaders",
                        f"{bi['name']}: tell {fh.tell()} vs {bi['stop']}")
                # moving on from inside a data block
                o.set_position(bi["data_start"])
                o.goto_next()
                R.check(fh.tell() == bi["stop"], "goto_next", f"{fh.tell()} vs {bi['stop']}")
            o.set_position(bis[-1]["stop"])
            R.check(o.rdop2nt() == (None, None, None), "rdop2nt_at_end")
            if case.get("redo"):
                o.directory(verbose=False, redo=True)
                R.check([(s.name, s.start, s.stop) for s in o.dblist] ==
                        [(bi["name"], bi["start"], bi["stop"]) for bi in bis], "directory_redo")
    finally:
        try:
            os.remove(path)
        except OSError:
            pass


op2_names = st.builds(lambda a, b: a + b, st.sampled_from(LETTERS), st.text(LETTERS + "0123456789", max_size=7))


@st.composite
def op2_matrix(draw, pool, long_ok):
    spec = {"kind": "matrix", "name": draw(st.sampled_from(pool)), "mtype": draw(st.sampled_from([1, 2, 3, 4])),
            "form": draw(st.sampled_from([1, 2, 6])), "seed": draw(st.integers(0, 2 ** 31)),
            "vals": draw(st.sampled_from(["unit", "int", "wide", "edge"])),
            "pmode": draw(st.sampled_from(["natural", "split", "zeros"])),
            "tid": draw(st.integers(101, 110)), "t5": draw(st.integers(0, 1000)), "t6": draw(st.integers(0, 10000))}
    if long_ok and draw(st.integers(0, 7)) == 0:
        spec["pattern"] = "long"
        spec["nlong"] = draw(st.sampled_from([2999, 3000, 3001, 3300]))
        spec["r"] = spec["nlong"] + draw(st.integers(0, 30))
        spec["c"] = draw(st.integers(1, 3))
        spec["vals"] = "unit"
    else:
        spec["pattern"] = draw(st.sampled_from(PATTERNS))
        spec["r"], spec["c"] = draw(st.integers(1, 30)), draw(st.integers(1, 20))
        spec["density"] = draw(st.sampled_from([0.05, 0.3, 0.7]))
    return spec


@st.composite
def op2_table(draw, pool, long_ok):
    recs = []
    for k in range(draw(st.integers(1, 6))):
        big = long_ok and k == 0 and draw(st.integers(0, 7)) == 0
        n = draw(st.sampled_from([2998, 3000, 3001, 6500])) if big else draw(st.integers(3, 60))
        if not big and draw(st.integers(0, 9)) == 0:
            n = draw(st.integers(1, 2))
        ncut = draw(st.sampled_from([0, 0, 1, 2, 3]))
        recs.append({"dtype": draw(st.sampled_from(["int", "int", "uint", "single", "double", "bytes"])),
                     "n": n, "cuts": [draw(st.floats(0.05, 0.95)) for _ in range(ncut)]})
    name = draw(st.sampled_from(pool))
    return {"kind": "table", "name": name, "name2": draw(st.sampled_from([name, name[:4], name + "S"]))[:8],
            "tid": draw(st.integers(101, 110)), "trailer": [draw(st.integers(0, 40000)) for _ in range(6)],
            "hdr_extra": draw(st.sampled_from([0, 0, 0, 1, 5])), "seed": draw(st.integers(0, 2 ** 31)),
            "records": recs}


@st.composite
def op2_files(draw):
    enc = {"endian": draw(st.sampled_from(["<", ">"])), "bit64": draw(st.booleans()),
           "eof": draw(st.sampled_from([True, True, False]))}
    if draw(st.booleans()):
        enc["header"] = {"date": [draw(st.integers(1, 12)), draw(st.integers(1, 28)), draw(st.integers(0, 99))],
                         "label": draw(st.sampled_from(["XXXXXXXX", "NX2020.2", "DBWRITE", "DRM", "NX 9.1"]))}
    pool = draw(st.lists(op2_names, min_size=1, max_size=4, unique=True))
    blocks = []
    for k in range(draw(st.integers(1, 5))):
        if draw(st.booleans()):
            blocks.append(draw(op2_matrix(pool, long_ok=(k == 0))))
        else:
            blocks.append(draw(op2_table(pool, long_ok=(k == 0))))
    return {"enc": enc, "blocks": blocks, "salt": draw(st.integers(0, 5)), "redo": draw(st.booleans())}


# =========================================================================
# part "selftest": the encoders reproduce the shipped sample files
# =========================================================================

def peek_op4(raw):
    """structure-only scan of an OUTPUT4 file: the encoding choices, not the values"""
    mats = []
    if min(raw[:4]) == 0:
        e = "<" if struct.unpack("<i", raw[:4])[0] in (24, 48) else ">"
        bit64 = struct.unpack(e + "i", raw[:4])[0] == 48
        W, ic = (8, "q") if bit64 else (4, "i")
        enc = dict(binary=True, endian=e, bit64=bit64)
        pos = 0
        term = None
        while pos < len(raw):
            n = struct.unpack(e + "i", raw[pos:pos + 4])[0]
            p = raw[pos + 4:pos + 4 + n]
            pos += 8 + n
            cols, rows, form, mtype = struct.unpack(e + "4" + ic, p[:4 * W])
            nm = p[4 * W:].decode()
            name = (nm[:4] + nm[8:12]) if bit64 else nm
            m = dict(name=name.rstrip(), rows_signed=rows, cols=cols, layout=None)
            while True:
                n = struct.unpack(e + "i", raw[pos:pos + 4])[0]
                p = raw[pos + 4:pos + 4 + n]
                pos += 8 + n
                icol, irow, nw = struct.unpack(e + "3" + ic, p[:3 * W])
                if icol > cols:
                    rest = p[3 * W:]
                    val = struct.unpack(e + ("f" if len(rest) == 4 else "d"), rest)[0]
                    term = dict(nwords=nw, value=float(val))
                    m["term"] = term
                    break
                if m["layout"] is None:
                    m["layout"] = "dense" if irow > 0 else ("bigmat" if rows < 0 else "nonbigmat")
            mats.append(m)
        return enc, mats
    lines = raw.decode().split("\n")
    if lines[-1] == "":
        lines.pop()
    enc = dict(binary=False, iswidth=8, fmt={})
    k = 0
    while k < len(lines):
        ln = lines[k].rstrip()
        wide = ln.endswith("|I16")
        if wide:
            ln = ln[:-4]
        iw = 16 if wide else 8
        cols, rows = int(ln[:iw]), int(ln[iw:2 * iw])
        name = ln[2 * iw + 16:2 * iw + 24]
        ftxt = ln[2 * iw + 24:].strip()
        fmt = dict(wide=wide)
        if ftxt:
            t = ftxt.upper()
            fmt["onep"] = t.startswith("1P,")
            if fmt["onep"]:
                t = t[3:]
            letter = "D" if "D" in t else "E"
            fmt["perline"] = int(t.split(letter)[0])
            fmt["width"], fmt["digits"] = (int(x) for x in t.split(letter)[1].split("."))
            width, perline = fmt["width"], fmt["perline"]
        else:
            fmt["nofmt"] = True
            width, perline = 16, 5
        m = dict(name=name.rstrip(), rows_signed=rows, cols=cols, layout=None, fmt=fmt)
        mtype = int(ln[2 * iw + 8:2 * iw + 16])
        wpr = 1 if mtype & 1 else 2
        k += 1
        while True:
            icol, irow, nw = int(lines[k][:8]), int(lines[k][8:16]), int(lines[k][16:24])
            k += 1
            if icol > cols:
                txt = lines[k]
                fmt["exp"] = "D" if "D" in txt else "E"
                m["term"] = dict(nwords=nw, value=float(txt.replace("D", "E")))
                k += 1
                break
            if irow > 0:
                m["layout"] = "dense"
                k += -(-nw // perline)
            else:
                big = rows < 0
                m["layout"] = "bigmat" if big else "nonbigmat"
                while nw > 0:
                    if big:
                        L = int(lines[k][:8]) - 1
                        nw -= L + 2
                    else:
                        enc["iswidth"] = len(lines[k])
                        L = (int(lines[k]) >> 16) - 1
                        nw -= L + 1
                    k += 1 + -(-(L // wpr) // perline)
        mats.append(m)
    return enc, mats


def columns_from_coo(X, mtype):
    """stored entries of a pyyeti sparse read -> columns/strings (maximal runs of stored rows)"""
    X = X.tocoo() if not isinstance(X, sp.coo_matrix) else X
    row, col, val = np.asarray(X.row), np.asarray(X.col), np.asarray(X.data)
    out = []
    if len(row) == 0:
        return out
    brk = np.nonzero((np.diff(col) != 0) | (np.diff(row) != 1))[0] + 1
    starts = np.r_[0, brk]
    stops = np.r_[brk, len(row)]
    for a, b in zip(starts, stops):
        j = int(col[a])
        if not out or out[-1][0] != j:
            out.append((j, []))
        v = val[a:b]
        out[-1][1].append((int(row[a]), v.astype(complex) if mtype > 2 else np.real(v).astype(float)))
    return out


def selftest_op4(path, R):
    from pyyeti.nastran import op4
    raw = open(path, "rb").read()
    enc, pk = peek_op4(raw)
    names, mats, forms, mtypes = op4.load(path, into="list", sparse=True)
    dn, ds, df, dt = op4.dir(path, verbose=False)
    R.check(len(pk) == len(names) == len(dn), "selftest_count", f"{len(pk)} {len(names)}")
    lm = []
    for k, p in enumerate(pk):
        rows, cols = ds[k]
        R.check(abs(p["rows_signed"]) == rows and p["cols"] == cols and df[k] == forms[k] and dt[k] == mtypes[k],
                "selftest_dir", f"{dn[k]}")
        cols_ = columns_from_coo(mats[k], mtypes[k])
        layout = p["layout"] or ("bigmat" if p["rows_signed"] < 0 else "dense")
        m = dict(name=p["name"], rows=rows, cols=cols, form=forms[k], mtype=mtypes[k], layout=layout,
                 columns=cols_, neg_rows=p["rows_signed"] < 0)
        if "fmt" in p:
            m["fmt"] = p["fmt"]
        lm.append(m)
    enc["term"] = pk[-1]["term"]
    again, info = op4enc.encode(lm, enc)
    nastran = all(p["term"]["value"] == 1.0 for p in pk)
    R.label("op4-sample:nastran-written" if nastran else "op4-sample:other-writer")
    R.nontrivial(True)
    if again != raw and not enc["binary"] and any(m.get("fmt", {}).get("digits", 0) >= 17 for m in lm):
        # 18 significant digits (written by another program) cannot be reproduced from
        # doubles: compare the structure lines literally and the numbers numerically
        R.label("op4-sample:18-digit-text-compared-numerically")
        la, lb = again.decode().split("\n"), raw.decode().split("\n")
        ok = len(la) == len(lb)
        for a, b in zip(la, lb):
            if a.rstrip() != b.rstrip():
                w = lm[0]["fmt"]["width"]
                try:
                    same_numbers = [float(a[i:i + w]) for i in range(0, len(a.rstrip()), w)] == \
                        [float(b[i:i + w]) for i in range(0, len(b.rstrip()), w)]
                    ok = ok and same_numbers and len(a.rstrip()) == len(b.rstrip())
                except ValueError:     # header line: format spelled differently (case, blanks)
                    ok = ok and a.upper().replace("D", "E").split() == b.upper().replace("D", "E").split()
        R.check(ok, "selftest_op4_text", os.path.basename(path))
        return
    if again != raw:
        n = next((i for i, (a, b) in enumerate(zip(again, raw)) if a != b), min(len(again), len(raw)))
        R.fail("selftest_op4_bytes", f"{os.path.basename(path)}: re-encoded file differs at byte {n} "
               f"(sizes {len(again)} vs {len(raw)}): {again[max(0, n - 20):n + 30]!r} vs {raw[max(0, n - 20):n + 30]!r}")
        return
    if nastran:
        R.label(*("anchored:op4:" + v for v in
                  variant_labels_op4(enc, [dict(m, fmt=dict(m.get("fmt", {}))) for m in lm])))


def selftest_op2(path, R):
    from pyyeti.nastran import op2
    raw = open(path, "rb").read()
    e = "<" if raw[0] in (4, 8) else ">"
    W = struct.unpack(e + "i", raw[:4])[0]
    blocks = []
    with op2.OP2(path) as o:
        enc = dict(endian=e, bit64=W == 8, eof=len(raw) > o.dblist[-1].stop)
        if o._label is not None:
            enc["header"] = dict(date=tuple(o._date), label=o._label)
        for s in o.dblist:
            # the header record (name + extra words) is not exposed by the reader: peek
            p = s.start + 7 * (8 + W) + (8 + 2 * W) + (8 + 7 * W)
            n = struct.unpack(e + "i", raw[p:p + 4])[0]
            hrec = raw[p + 4:p + 4 + n]
            nm = hrec[:2 * W].decode()
            name2 = (nm[:4] + nm[8:12]) if W == 8 else nm
            o.set_position(s.start)
            name, trailer, dbtype = o.rdop2nt()
            if dbtype > 0:
                A = o.rdop2matrix(trailer)
                cols = op4enc.partition(A, "bigmat", None)
                blocks.append(dict(kind="matrix", name=name, name2=name2, trailer=trailer, columns=cols))
                R.label(f"anchored:op2:matrix:{'single' if trailer[4] & 1 else 'double'}"
                        f"{':complex' if trailer[4] > 2 else ''}:{'k64' if W == 8 else 'k32'}")
            else:
                recs = []
                plens = [h[1] for h in s.headers]
                while True:
                    b = o.rdop2record("bytes")
                    if b is None:
                        break
                    cuts, tot = [], 0
                    while tot < len(b):
                        tot += plens.pop(0)
                        cuts.append(tot // W)
                    if len(cuts) > 1:
                        R.label("anchored:op2:multipart")
                    recs.append(dict(dtype="bytes", data=b, cuts=cuts[:-1]))
                blocks.append(dict(kind="table", name=name, name2=name2, trailer=trailer,
                                   header_words=hrec[2 * W:], records=recs))
    again, info = op2enc.encode(blocks, enc)
    R.nontrivial(True)
    if again != raw:
        n = next((i for i, (a, b) in enumerate(zip(again, raw)) if a != b), min(len(again), len(raw)))
        R.fail("selftest_op2_bytes", f"{os.path.basename(path)}: re-encoded file differs at byte {n} "
               f"(sizes {len(again)} vs {len(raw)}): {again[max(0, n - 16):n + 24]!r} vs {raw[max(0, n - 16):n + 24]!r}")
        return
    R.label(f"anchored:op2:{'k64' if W == 8 else 'k32'}:{e}:{'hdr' if 'header' in enc else 'nohdr'}",
            "anchored:op2:" + ("eof" if enc["eof"] else "noeof"))


ALL_VARIANTS = (
    [f"op4:bin:{p}:{k}:{e}:{lay}" for p in ("single", "double") for k in ("k32", "k64") for e in "<>"
     for lay in ("dense", "bigmat", "nonbigmat")]
    + [f"op4:ascii:{x}:{lay}" for x in "ED" for lay in ("dense", "bigmat", "nonbigmat")]
    + ["op4:ascii:wide", "op4:ascii:nofmt", "op4:ascii:lower", "op4:ascii:no1P"]
    + [f"op2:{k}:{e}:{h}" for k in ("k32", "k64") for e in "<>" for h in ("hdr", "nohdr")]
    + [f"op2:matrix:{p}{c}:{k}" for p in ("single", "double") for c in ("", ":complex") for k in ("k32", "k64")]
    + ["op2:multipart", "op2:eof", "op2:noeof"])


def sample_files():
    root = env.REPO / "pyyeti" / "tests"
    op4s = sorted(list((env.REPO / SAMPLES_OP4).glob("*.op4")) + list((env.REPO / SAMPLES_OP4).glob("*.other")))
    op2s = sorted(root.glob("**/*.op2"))
    return [("op4", str(p.relative_to(env.REPO))) for p in op4s] + \
        [("op2", str(p.relative_to(env.REPO))) for p in op2s]


def oracle_selftest(case, R):
    if case["kind"] == "summary":
        # which generated variants have a Nastran-written sample (labels only)
        sub = []
        for kind, rel in sample_files():
            r2 = type(R)()
            try:
                (selftest_op4 if kind == "op4" else selftest_op2)(str(env.REPO / rel), r2)
            except Exception:
                continue
            if not r2.fails:
                sub += [lb[len("anchored:"):] for lb in r2.labels if lb.startswith("anchored:")]
        for v in ALL_VARIANTS:
            R.label(("anchored:" if v in sub else "unanchored:") + v)
        return
    path = str(env.REPO / case["file"])
    (selftest_op4 if case["kind"] == "op4" else selftest_op2)(path, R)


def enum_selftest(shard, nshards, tier):
    cases = [{"kind": k, "file": f} for k, f in sample_files()]
    # big files first so that the shards are balanced
    cases.sort(key=lambda c: -os.path.getsize(env.REPO / c["file"]))
    cases.insert(0, {"kind": "summary"})
    for i, c in enumerate(cases):
        if i % nshards == shard:
            yield c


# =========================================================================
# part "op2_uint64": rdop2record('uint') on a 64-bit file, word with the top bit set
# =========================================================================

def enum_uint64(shard, nshards, tier):
    cases = []
    for e in "<>":
        for n in (4, 3100):
            cases.append({"enc": {"endian": e, "bit64": True, "eof": True}, "uint64_topbit": True, "salt": 0,
                          "blocks": [{"kind": "table", "name": "USET", "tid": 101, "trailer": [1, 2, 3, 4, 5, 6],
                                      "seed": 3, "uint64_topbit": True,
                                      "records": [{"dtype": "uint", "n": n}, {"dtype": "uint", "n": 5}]}]})
    for i, c in enumerate(cases):
        if i % nshards == shard:
            yield c


# =========================================================================
# part "op2_nbytes": documented meaning of directory().nbytes
# =========================================================================

def oracle_nbytes(case, R):
    oracle_op2(case, R, only_nbytes=True)


def enum_nbytes(shard, nshards, tier):
    cases = []
    for bit64 in (False, True):
        for e in "<>":
            cases.append({"enc": {"endian": e, "bit64": bit64, "eof": True},
                          "blocks": [{"kind": "table", "name": "TAB", "tid": 101, "trailer": [1, 2, 3, 4, 5, 6],
                                      "seed": 1, "records": [{"dtype": "int", "n": 3}]}]})
    for i, c in enumerate(cases):
        if i % nshards == shard:
            yield c


# =========================================================================
# parts "op4_cutover" / "op2_cutover": deterministic cases at the 3000-value switch
# =========================================================================

def enum_op4_sparse_f32(shard, nshards, tier):
    cases = []
    for e in "<>":
        for layout in ("dense", "bigmat", "nonbigmat"):
            for mtype in (1, 3):
                n = 3000 if mtype == 1 else 1500
                cases.append({"enc": {"binary": True, "endian": e, "bit64": False}, "subset": 0, "isolate_f32": True,
                              "mats": [{"name": "S", "mtype": mtype, "layout": layout, "form": 2, "seed": 11,
                                        "vals": "int", "pmode": "natural", "trim": True, "pattern": "dense",
                                        "r": n, "c": 1}]})
    for i, c in enumerate(cases):
        if i % nshards == shard:
            yield c


def enum_op4_tall(shard, nshards, tier):
    """rows beyond 2**15 and 2**16: string start rows around 32768 / 49152 / 65535 for every layout the row
    count allows, every precision x key width x byte order, and ASCII"""
    cases = []
    starts = [0, 16384, 32766, 32767, 32768, 32769, 39990, 49152, 65533, 69990]
    encs = [{"binary": True, "endian": e, "bit64": b} for b in (False, True) for e in "<>"] + \
           [{"binary": False, "fmt": {"exp": "E"}, "iswidth": 8}]
    for enc in encs:
        for layout, rows in (("nonbigmat", 40000), ("nonbigmat", 65535), ("bigmat", 40000), ("bigmat", 70000),
                             ("dense", 40000), ("dense", 70000)):
            for mtype in (1, 2, 3, 4):
                if not enc["binary"] and mtype in (1, 3):
                    continue
                spec = {"name": "TALL", "mtype": mtype, "layout": layout, "form": 2, "seed": 400 + len(cases),
                        "vals": "int", "pmode": "natural", "trim": True, "pattern": "tall", "r": rows, "c": 2,
                        "starts": [s_ for s_ in starts if s_ < rows], "across": True}
                if not enc["binary"]:
                    spec["fmt"] = {"digits": 9, "width": 16, "perline": 5, "onep": True}
                cases.append({"enc": enc, "subset": len(cases), "mats": [
                    spec, {"name": "AFTER", "mtype": 2, "layout": "dense", "form": 1, "seed": 5, "vals": "int",
                           "pmode": "natural", "trim": True, "pattern": "dense", "r": 2, "c": 2,
                           **({"fmt": {"digits": 9, "width": 16, "perline": 5, "onep": True}}
                              if not enc["binary"] else {})}]})
    for i, c in enumerate(cases):
        if i % nshards == shard:
            yield c


def _cut_lens(mtype):
    return [1499, 1500, 1501] if mtype > 2 else [2999, 3000, 3001]


def enum_op4_cutover(shard, nshards, tier):
    cases = []
    for bit64 in (False, True):
        for e in "<>":
            for layout in ("dense", "bigmat", "nonbigmat"):
                for mtype in (1, 2, 3, 4):
                    lens = _cut_lens(mtype)
                    cases.append({"enc": {"binary": True, "endian": e, "bit64": bit64}, "subset": len(cases),
                                  "mats": [{"name": "CUT", "mtype": mtype, "layout": layout, "form": 2,
                                            "seed": 100 + len(cases), "vals": "unit", "pmode": "natural",
                                            "trim": True, "pattern": "cutover", "lens": lens,
                                            "r": max(lens) + 5, "c": 3},
                                           {"name": "AFTER", "mtype": 2, "layout": "dense", "form": 1,
                                            "seed": 5, "vals": "int", "pmode": "natural", "trim": True,
                                            "pattern": "dense", "r": 2, "c": 2}]})
    for i, c in enumerate(cases):
        if i % nshards == shard:
            yield c


def enum_op2_cutover(shard, nshards, tier):
    cases = []
    for bit64 in (False, True):
        for e in "<>":
            enc = {"endian": e, "bit64": bit64, "eof": True}
            for mtype in (1, 2, 3, 4):
                lens = _cut_lens(mtype)
                cases.append({"enc": enc, "salt": len(cases), "blocks": [
                    {"kind": "matrix", "name": "CUT", "mtype": mtype, "form": 2, "seed": 200 + len(cases),
                     "vals": "unit", "pmode": "natural", "tid": 101, "t5": 0, "t6": 0, "pattern": "cutover",
                     "lens": lens, "r": max(lens) + 5, "c": 3}]})
            for dt in ("int", "uint", "single", "double", "bytes"):
                # 64-bit 'single' elements are half words: element counts are doubled there
                k = 2 if (dt == "single" and bit64) else 1
                cases.append({"enc": enc, "salt": 0, "blocks": [
                    {"kind": "table", "name": "CUT", "tid": 101, "trailer": [1, 2, 3, 4, 5, 6], "seed": 300 + len(cases),
                     "records": [{"dtype": dt, "n": 2999 * k}, {"dtype": dt, "n": 3000 * k}, {"dtype": dt, "n": 3001 * k},
                                 {"dtype": dt, "n": 6010 * k, "cuts": [0.5]}]}]})
    for i, c in enumerate(cases):
        if i % nshards == shard:
            yield c


REQUIRED_CLASSES = {"thorough": [f"op4:{v[4:]}" for v in ALL_VARIANTS if v.startswith("op4:")]
                    + [f"op2:{v[4:]}" for v in ALL_VARIANTS if v.startswith("op2:")]
                    + ["op4:string>=3000", "op2:string>=3000", "op2:part>=3000words"]}

PARTS = [
    Part("selftest", oracle_selftest, enum=enum_selftest, quick=(16, None), thorough=(16, None), exhaustive=True),
    Part("op4", oracle_op4, strategy=op4_files, quick=(16, 120), thorough=(16, 1600)),
    Part("op2", oracle_op2, strategy=op2_files, quick=(16, 90), thorough=(16, 1200)),
    Part("op4_cutover", oracle_op4, enum=enum_op4_cutover, quick=(8, None), thorough=(8, None), exhaustive=True),
    Part("op2_cutover", oracle_op2, enum=enum_op2_cutover, quick=(8, None), thorough=(8, None), exhaustive=True),
    Part("op4_tall", oracle_op4, enum=enum_op4_tall, quick=(16, None), thorough=(16, None), exhaustive=True),
    Part("op4_sparse_f32", oracle_op4, enum=enum_op4_sparse_f32, quick=(4, None), thorough=(4, None),
         exhaustive=True),
    Part("op2_uint64", oracle_op2, enum=enum_uint64, quick=(4, None), thorough=(4, None), exhaustive=True),
    Part("op2_nbytes", oracle_nbytes, enum=enum_nbytes, quick=(4, None), thorough=(4, None), exhaustive=True),
    # coverage-guided (atheris / libFuzzer) tier over the same strategies and oracles
    Part("fuzz_op4", oracle_op4, strategy=op4_files, quick=(2, 400), thorough=(4, 20000),
         fuzz=dict(modules=["pyyeti.nastran.op4"], time=30, time_thorough=400), tmax_thorough=600),
    Part("fuzz_op2", oracle_op2, strategy=op2_files, quick=(2, 400), thorough=(4, 20000),
         fuzz=dict(modules=["pyyeti.nastran.op2"], time=30, time_thorough=400), tmax_thorough=600),
    # documented defaults: leaving a keyword out = passing its documented value (vlib/defaults.py)
    Part("defaults", defaults.make_oracle("C11"), enum=defaults.make_enum(), quick=(1, None), thorough=(1, None),
         exhaustive=True),
]
