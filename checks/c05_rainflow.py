"""C05 - rainflow: compiled C == plain Python == ASTM E1049-85 (refs/astm_rainflow)."""
import itertools

import numpy as np
from hypothesis import strategies as st

from refs import astm_rainflow
from vlib import defaults
from vlib.core import Part

PROPERTY = "C05"
RULE = ("exhaustive: every sequence of length 2..N over a small integer alphabet "
        "(all tie / plateau / monotone / non-alternating patterns); random: "
        "hypothesis-generated integer and real sequences up to 5000 points incl. "
        "reversal sequences, nested ranges and tie-rich data, several input "
        "packagings.  Oracle: ASTM 5.4.4 transcription with explicit start marker "
        "(table, order and offsets bit-for-bit), C==Python, offsets name the "
        "points, 2*sum(count)==L-1, rows==L-1-#full, largest range counted "
        "(alternating input), negate/shift/scale relations.  Non-trivial: "
        "length>=4 and at least one full cycle or one tie X==Y; distinct by "
        "hash of the sequence+packaging.")
ASSUME = ["numba is absent: the numba-decorated py_rain definition is the same "
          "source text run un-jitted",
          "gcc -O2 build of c_rain.c from the working tree (plus ASan/UBSan and "
          "two-pass macro variants in dedicated parts)"]
CRASH_IS_VIOLATION = True
KNOWN = {}


def _tables(x):
    import pyyeti.rainflow.c_rain as c_rain
    import pyyeti.rainflow.py_rain as py_rain
    out = {}
    for nm, mod in (("c", c_rain), ("py", py_rain)):
        rf1 = mod.rainflow(x)
        rf2, os2 = mod.rainflow(x, getoffsets=True)
        out[nm] = (np.asarray(rf1), np.asarray(rf2), np.asarray(os2))
    return out


def _pack(case):
    x = case["x"]
    pk = case.get("pack", "array")
    if pk == "list":
        return list(x)
    if pk == "int":
        return np.array(x, dtype=np.int64)
    if pk == "f32":
        return np.array(x, dtype=np.float32)
    if pk == "strided":
        z = np.zeros(2 * len(x))
        z[::2] = x
        z[1::2] = 7.5
        return z[::2]
    if pk == "reversed_view":
        return np.array(x[::-1], dtype=float)[::-1]
    if pk.startswith("series"):
        # labelled 1-d data ("1d array_like"): the counters go by position, whatever the labels are
        import pandas as pd
        n = len(x)
        idx = {"series": None, "series_revlabels": list(range(n))[::-1],
               "series_time": (5.0 + 0.01 * np.arange(n)).tolist()}[pk]
        return pd.Series(np.array(x, dtype=float), index=idx)
    return np.array(x, dtype=float)


def oracle(case, R):
    import pyyeti.cyclecount as cyclecount
    xin = _pack(case)
    x = np.asarray(xin, dtype=float)      # the values the counters see
    L = len(x)
    ref = astm_rainflow.rainflow(x.tolist())
    ref_rf = np.array([r[:3] for r in ref], dtype=float).reshape(-1, 3)
    ref_os = np.array([r[3:] for r in ref], dtype=np.int64).reshape(-1, 2)
    before = np.array(xin, copy=True)
    T = _tables(xin)
    # the counters only read the caller's array (it is counted again right after, and by the other counter)
    R.check(np.array_equal(np.asarray(xin), before), "input_array_modified",
            f"pack={case.get('pack', 'array')} x={before.tolist()[:12]} after={np.asarray(xin).tolist()[:12]}")
    d = np.diff(x)
    alternating = bool(np.all(d != 0) and np.all(d[1:] * d[:-1] < 0))
    nfull = int((ref_rf[:, 2] == 1.0).sum())
    tie = False
    # detect a tie X == Y anywhere in the reference run (cheap re-scan)
    if L >= 3:
        ad = np.abs(d)
        tie = bool(np.any(ad[1:] == ad[:-1]))
    R.label(case.get("pack", "array"), "alternating" if alternating else "non-alternating",
            "full>0" if nfull else "full=0", "tie" if tie else "no-tie")
    R.nontrivial(L >= 4 and (nfull > 0 or tie))
    for nm, (rf1, rf2, os2) in T.items():
        R.check(rf1.shape == ref_rf.shape and np.array_equal(rf1, ref_rf),
                f"{nm}_table_vs_astm", f"x={x.tolist()[:12]} got={rf1.tolist()[:6]} ref={ref_rf.tolist()[:6]}")
        R.check(rf2.shape == ref_rf.shape and np.array_equal(rf2, ref_rf),
                f"{nm}_table_offsets_call_vs_astm", f"x={x.tolist()[:12]}")
        R.check(os2.shape == ref_os.shape and np.array_equal(os2, ref_os),
                f"{nm}_offsets_vs_astm", f"x={x.tolist()[:12]} got={os2.tolist()[:6]} ref={ref_os.tolist()[:6]}")
        R.check(rf1.dtype == np.float64 and os2.dtype.kind == "i", f"{nm}_dtype")
    R.check(all(np.array_equal(a, b) and a.shape == b.shape
                for a, b in zip(T["c"], T["py"])), "c_vs_py", f"x={x.tolist()[:12]}")
    # properties of the returned table itself (C result)
    rf, _, os_ = T["c"][0], T["c"][1], T["c"][2]
    if rf.shape[0] == os_.shape[0] and rf.shape[0] > 0 and os_.min() >= 0 and os_.max() < L:
        s, e = os_[:, 0], os_[:, 1]
        R.check(np.array_equal(rf[:, 0], np.abs(x[s] - x[e]) / 2) and
                np.array_equal(rf[:, 1], (x[s] + x[e]) / 2) and bool(np.all(s < e)),
                "offsets_name_points", f"x={x.tolist()[:12]}")
    else:
        R.fail("offsets_out_of_range", f"x={x.tolist()[:12]}")
    R.check(2 * rf[:, 2].sum() == L - 1, "count_conservation", f"x={x.tolist()[:12]}")
    R.check(rf.shape[0] == L - 1 - int((rf[:, 2] == 1.0).sum()), "row_count")
    R.check(set(np.unique(rf[:, 2]).tolist()) <= {0.5, 1.0}, "count_values")
    if alternating:
        R.check((x.max() - x.min()) / 2 in rf[:, 0].tolist(), "largest_range_counted",
                f"x={x.tolist()[:12]}")
    # wrapper
    w = cyclecount.rainflow(xin, use_pandas=False)
    R.check(np.array_equal(np.asarray(w), ref_rf), "cyclecount_wrapper")
    wdf, wos = cyclecount.rainflow(xin, getoffsets=True, use_pandas=True)
    R.check(list(wdf.columns) == ["amp", "mean", "count"] and
            np.array_equal(wdf.values, ref_rf) and np.array_equal(wos.values, ref_os),
            "cyclecount_wrapper_pandas")
    # metamorphic relations (all exact by construction)
    import pyyeti.rainflow.c_rain as c_rain
    import pyyeti.rainflow.py_rain as py_rain
    for nm, mod in (("c", c_rain), ("py", py_rain)):
        n_rf, n_os = mod.rainflow(-x, getoffsets=True)
        R.check(np.array_equal(n_rf[:, 0], ref_rf[:, 0]) and
                np.array_equal(n_rf[:, 1], -ref_rf[:, 1]) and
                np.array_equal(n_rf[:, 2], ref_rf[:, 2]) and
                np.array_equal(n_os, ref_os), f"{nm}_negate")
        k = case.get("pow2", 3)
        s_rf = mod.rainflow(x * 2.0 ** k)
        R.check(np.array_equal(s_rf[:, :2], ref_rf[:, :2] * 2.0 ** k) and
                np.array_equal(s_rf[:, 2], ref_rf[:, 2]), f"{nm}_scale_pow2")
        if case.get("intvalued"):
            c = case.get("shift", 5)
            a = case.get("scale", 3)
            h_rf = mod.rainflow(x + c)
            R.check(np.array_equal(h_rf[:, 0], ref_rf[:, 0]) and
                    np.array_equal(h_rf[:, 1], ref_rf[:, 1] + c) and
                    np.array_equal(h_rf[:, 2], ref_rf[:, 2]), f"{nm}_shift")
            a_rf = mod.rainflow(x * a)
            R.check(np.array_equal(a_rf[:, :2], ref_rf[:, :2] * a) and
                    np.array_equal(a_rf[:, 2], ref_rf[:, 2]), f"{nm}_scale_int")


def oracle_reject(case, R):
    """documented input contract: < 2 points or not a vector -> ValueError"""
    import pyyeti.rainflow.c_rain as c_rain
    import pyyeti.rainflow.py_rain as py_rain
    kind = case["kind"]
    if kind == "short":
        bad = np.array(case["x"][:1], dtype=float)
    elif kind == "2d_c":
        bad = np.array(case["x"], dtype=float).reshape(-1, 1)
    else:
        bad = np.asfortranarray(np.array([case["x"], case["x"]], dtype=float).T)
    R.label(kind)
    R.nontrivial(True)
    for nm, mod in (("c", c_rain), ("py", py_rain)):
        for go in (False, True):
            try:
                mod.rainflow(bad, getoffsets=go)
                R.fail(f"{nm}_accepts_invalid_{kind}")
            except ValueError:
                pass


# ------------------------------------------------------------------ sources

def enum_small(shard, nshards, tier):
    plan = [(4, range(2, 8 if tier == "quick" else 10)),
            (6, range(2, 6 if tier == "quick" else 8))]
    i = 0
    for alpha, lens in plan:
        for n in lens:
            for tup in itertools.product(range(alpha), repeat=n):
                if alpha == 6 and max(tup) < 4:
                    continue         # already covered by the 4-letter alphabet
                i += 1
                if i % nshards == shard:
                    yield {"x": list(tup), "intvalued": True}


ints = st.integers(-12, 12)


@st.composite
def seqs(draw):
    kind = draw(st.sampled_from(["ints", "ints_small", "reals", "reversals",
                                 "nested", "ties", "long"]))
    pack = draw(st.sampled_from(["array", "array", "list", "int", "f32",
                                 "strided", "reversed_view", "series", "series_revlabels", "series_time"]))
    case = {"pack": pack, "pow2": draw(st.integers(-6, 6)),
            "shift": draw(st.integers(-20, 20)),
            "scale": draw(st.sampled_from([3, 5, 7, 10]))}
    if kind == "ints":
        x = draw(st.lists(ints, min_size=2, max_size=60))
        case["intvalued"] = True
    elif kind == "ints_small":
        x = draw(st.lists(st.integers(0, 3), min_size=2, max_size=40))
        case["intvalued"] = True
    elif kind == "reals":
        x = draw(st.lists(st.floats(-1e6, 1e6, allow_nan=False, width=32),
                          min_size=2, max_size=50))
    elif kind == "reversals":
        # strictly alternating sequence built from positive steps
        steps = draw(st.lists(st.integers(1, 9), min_size=1, max_size=80))
        sign = draw(st.sampled_from([1, -1]))
        x = [draw(ints)]
        for s in steps:
            x.append(x[-1] + sign * s)
            sign = -sign
        case["intvalued"] = True
    elif kind == "nested":
        # shrinking then growing envelopes: deep stacks, many full cycles
        n = draw(st.integers(2, 40))
        grow = draw(st.booleans())
        amps = list(range(n, 0, -1))
        if grow:
            amps = amps + amps[::-1]
        jitter = draw(st.lists(st.integers(0, 1), min_size=len(amps), max_size=len(amps)))
        x = []
        for i, (a, jt) in enumerate(zip(amps, jitter)):
            x.append((a + jt) * (1 if i % 2 == 0 else -1))
        case["intvalued"] = True
    elif kind == "ties":
        base = draw(st.lists(st.sampled_from([0, 1, 2, 4]), min_size=3, max_size=30))
        x = base
        case["intvalued"] = True
    else:
        seed = draw(st.integers(0, 2 ** 32 - 1))
        n = draw(st.integers(200, 5000))
        rng = np.random.default_rng(seed)
        if draw(st.booleans()):
            x = rng.integers(-50, 50, n).tolist()
            case["intvalued"] = True
        else:
            x = np.round(rng.standard_normal(n) * 8, 3).tolist()
    if pack == "int" and not case.get("intvalued"):
        case["pack"] = "array"
    if case["pack"] == "f32" and case.get("intvalued") is None:
        x = np.array(x, dtype=np.float32).astype(float).tolist()
    case["x"] = x
    return case


@st.composite
def rejects(draw):
    return {"kind": draw(st.sampled_from(["short", "2d_c", "2d_f"])),
            "x": draw(st.lists(ints, min_size=2, max_size=6))}


PARTS = [
    Part("enum", oracle, enum=enum_small, quick=(16, None), thorough=(16, None),
         exhaustive=True),
    Part("random", oracle, strategy=seqs, quick=(8, 250), thorough=(16, 6000)),
    Part("reject", oracle_reject, strategy=rejects, quick=(1, 30), thorough=(1, 200)),
    Part("asan", oracle, strategy=seqs, quick=(2, 150), thorough=(8, 2500),
         c_variant="asan", preload_asan=True),
    Part("twopass", oracle, strategy=seqs, quick=(1, 150), thorough=(4, 3000),
         c_variant="twopass"),
    Part("asan_twopass_enum", oracle, enum=lambda s, n, t: (
        c for i, c in enumerate(enum_small(0, 1, "quick")) if i % 7 == s and i % n * 0 == 0),
        quick=(1, None), thorough=(7, None), c_variant="asan_twopass", preload_asan=True,
        tiers=("thorough",)),
    # documented defaults: leaving a keyword out = passing its documented value (vlib/defaults.py)
    Part("defaults", defaults.make_oracle("C05"), enum=defaults.make_enum(), quick=(1, None), thorough=(1, None),
         exhaustive=True),
]
