"""C10 - cycle-count pipeline (findap, getbins/binify/sigcount) and fatigue-damage PSD invariants.

Both definitions of cyclecount.findap are exercised on every signal: the one that runs here
(`if not HAVE_NUMBA:`) and the normally numba-jitted one (`else:` branch), which is cut out of
the source file of the tree under test with `ast` and executed as plain Python.
"""
import itertools
import math

import numpy as np
from hypothesis import strategies as st

from refs import astm_rainflow
from refs import cycle_ref as cr
from vlib import defaults
from vlib.core import Part

PROPERTY = "C10"
RULE = ("findap: signals from a step grammar (real jumps with one dominant step M, exact plateaus, "
        "drifts of 1..200 steps of 0.2..1.0 stol each (totals 0.3, 0.9, 1.1, 50 stol), monotone "
        "ramps, spikes, offsets up to 1e6, length 1 and 2, last == previous), tol in {default, 0, "
        "1e-12, 1e-6, 1e-2, 0.25}, float / int / 2-d / strided input; exhaustive: every sequence "
        "of length 1..7 (9) over {0,1,2,3} and every dyadic step sequence of length 1..5 (6) over "
        "{0, +-0.375, +-1, +-4} with tol = 1/8.  Oracle: validity predicate on both definitions "
        "(first sample selected, selected values strictly alternate, every unselected sample "
        "within 2 stol of the interval of its selected neighbours, global max/min within 2 stol, "
        "last sample selected if it differs from its predecessor by > stol and not if equal), "
        "default == accelerated, and on signals whose steps are all exactly 0 or > stol both == "
        "the exact plateau reference.  binify: cycle tables on a half-unit grid (ties on bin "
        "edges) or real, scalar bins 1..12 or explicit edge vectors covering / partly covering / "
        "ending exactly on the data, right in {T,F}, check_bounds, ndarray / DataFrame / list / "
        "4-column / single-row input, pandas labels; getbins flag; sigcount of integer signals.  "
        "Oracle: documented edges, brute-force placement in the documented half-open bins, count "
        "conservation, ValueError for non-increasing edges.  fdepsd: 300..3000 samples "
        "(two tones + integer noise + trend), 1..4 frequencies, Q, resp, nbins 2..40, T0, rolloff, "
        "ppc, hpfilter, winends, detrend, parallel='no'.  Oracle: documented pre-processing "
        "(scipy detrend / Butterworth) when no window / up-sampling, independent SDOF response "
        "(matrix exponential) of the returned signal -> srs, var, reversal points, ASTM rainflow "
        "-> Amax, total and cumulative counts; count non-increasing, bincount >= 0 and summing to "
        "count[:,0], binamps = Amax k/nbins, Amax <= srs, G2 >= G1 and the G2 line bounds "
        "log(count) down to Amax/3 touching it, peakamp^2 = Miles factor x psd, di_sig = sum "
        "amp^b bincount, var_test^(b/2) di_test = di_sig, psd(G4,G8,G12) from Miles, di_test = "
        "Rayleigh-peak expectation, exact scaling (c = +-2^k: psd c^2, peakamp |c|, di_sig "
        "|c|^b, counts unchanged; general c to 1e-6).  Non-trivial: findap >= 3 reversals and a "
        "plateau or sub-tolerance step; binify a cycle on a bin edge or dropped by the bins; "
        "fdepsd >= 10 cycles at every frequency; distinct by hash of the case.  Confirmed "
        "defects are decided in isolated parts and skipped (labelled) in the main ones: "
        "findap_accel_tail (accelerated findap reads an unassigned local when the first real "
        "change is the last sample), fdepsd_pvelo_var_test (pvelo var_test is twice the "
        "variance), fdepsd_g2_third_tie (Amax/3 cut-off decided by round-off when nbins % 3 == 0), "
        "binify_auto_roundoff (0.1 % widening of automatic bins lost to round-off).")
ASSUME = ["numba is absent: the accelerated findap is the source text of the `else:` branch of "
          "cyclecount.py run un-jitted with numba_bool = np.bool_ (a jitted build would not raise "
          "UnboundLocalError for an unassigned local but read an undefined value)",
          "np.linspace is the documented edge formula of getbins (the reference uses it too); "
          "placement is decided by plain comparisons on those edges",
          "scipy.linalg.expm / scipy.signal.detrend, butter, lfilter and scipy.special.gammainc",
          "the `sig` and `sr` members returned by fdepsd are the signal fed to the damage "
          "algorithm (window and up-sampling are checked only through scaling)",
          "di_test is the Rayleigh-peak damage expectation of the cited references: "
          "2^(b/2) N0 gamma_lower(b/2+1, ln N0) for absacce, 2^(b/2) N0 Gamma(b/2+1) for pvelo",
          "cycle counts of fdepsd are compared only when the independent response has no step "
          "of at most 1.01 stol (F7 domain of the default findap / reversal set decided by round-off)"]

EPS = 2.0 ** -52
F7_TAG = "[substol-step]"
F7_KINDS = ("default_vs_accel", "default_not_alternating", "default_extreme_lost",
            "default_global_extreme_missed", "default_last_not_selected")


# F7 (default findap compared each sample with its predecessor, the accelerated one with the last accepted
# value) was repaired in /repo (8fad638): signals with non-zero sub-tolerance steps are held to the same
# predicates as all others; the tag only marks that class in the failure text.
KNOWN = {}


# ====================================================================== findap

_ACCEL = None


def _accel():
    """the `else:` (numba) definition of findap of the tree under test, as plain Python"""
    global _ACCEL
    if _ACCEL is None:
        import ast
        import textwrap
        from vlib import env
        import pyyeti.cyclecount as cc
        path = env.REPO / "pyyeti" / "cyclecount.py"
        src = path.read_text()
        found = {}
        for node in ast.parse(src).body:
            if not isinstance(node, ast.If):
                continue
            test = ast.unparse(node.test).replace(" ", "")
            for branch, body in (("if", node.body), ("else", node.orelse)):
                for n in body:
                    if isinstance(n, ast.FunctionDef) and n.name == "findap":
                        accel = (test, branch) in (("notHAVE_NUMBA", "else"), ("HAVE_NUMBA", "if"))
                        found["accel" if accel else "default"] = n
        if not found and any(isinstance(n, ast.FunctionDef) and n.name == "findap"
                             for n in ast.parse(src).body):
            _ACCEL = cc.findap          # a tree with one unconditional definition
            return _ACCEL
        if set(found) != {"accel", "default"}:
            raise env.HarnessError("cyclecount.py: cannot locate the two findap definitions "
                                   f"(found {sorted(found)})")
        ns = dict(vars(cc))
        ns["numba_bool"] = np.bool_
        code = textwrap.dedent(ast.get_source_segment(src, found["accel"], padded=True))
        exec(compile(code, str(path) + "[accelerated-findap]", "exec"), ns)
        _ACCEL = ns["findap"]
    return _ACCEL


def _pack(case):
    y = case["y"]
    pk = case.get("pack", "float")
    if pk == "int":
        return np.array(y, dtype=np.int64)
    a = np.array(y, dtype=float)
    if pk == "2d":
        return a.reshape(2, -1) if (a.size % 2 == 0 and a.size) else a.reshape(-1, 1)
    if pk == "strided":
        z = np.full(2 * a.size, 7.5)
        z[::2] = a
        return z[::2]
    return a


def _tail_signature(yf, stol):
    """first change of more than stol (relative to the first sample) happens at the last sample"""
    if yf.size < 3:
        return False
    big = np.abs(yf - yf[0]) > stol
    return bool(big[-1] and not big[1:-1].any())


def _short(yf, n=16):
    lst = yf.tolist()
    return lst if len(lst) <= n else lst[:n // 2] + ["..."] + lst[-n // 2:]


def _findap_common(case, R, tail_part):
    import pyyeti.cyclecount as cc
    y = _pack(case)
    tol = case.get("tol")
    kw = {} if tol is None else {"tol": tol}
    teff = 1e-6 if tol is None else tol
    yf = np.asarray(y, float).ravel()
    n = yf.size
    stol = cr.stol_of(yf, teff)
    nsub = cr.substol_steps(yf, teff)
    f7 = nsub > 0
    tag = F7_TAG + " " if f7 else ""
    d = np.diff(yf)
    info = f"y={_short(yf)} n={n} tol={tol} stol={stol:.6g} pack={case.get('pack', 'float')}"
    R.label("cls:substol-step" if f7 else "cls:exact-plateaus", f"tol:{tol}",
            f"pack:{case.get('pack', 'float')}", "len:1" if n == 1 else "len:2" if n == 2 else "len:3+")
    if d.size and np.any(d == 0):
        R.label("plateau")
    if d.size and d[-1] == 0:
        R.label("last==previous")
    if d.size > 1 and (np.all(d >= 0) or np.all(d <= 0)):
        R.label("monotone")
    for dr in case.get("drifts", []):
        R.label(f"drift:{dr}stol")

    masks = {}
    masks["default"] = np.asarray(cc.findap(y, **kw))
    tail = _tail_signature(yf, stol)
    try:
        masks["accel"] = np.asarray(_accel()(y, **kw))
    except UnboundLocalError as e:
        if tail_part:
            R.fail("accel_unbound_nxt", f"{info}: accelerated findap raised {e!r}")
        elif tail:
            # confirmed defect F7b, decided in part findap_accel_tail
            R.label("accel:skipped_tail_unbound_nxt")
        else:
            R.fail("accel_raises_UnboundLocalError", f"{info}: {e!r}")
    except Exception as e:
        R.fail(f"accel_raises_{type(e).__name__}", f"{info}: {e!r}")
    if tail:
        R.label("tail_signature")

    exact = None if f7 else cr.findap_exact(yf)
    for nm, m in masks.items():
        t = tag if nm == "default" else ""
        for kind, det in cr.findap_violations(yf, m, stol, 2.0):
            R.fail(f"{nm}_{kind}", f"{t}{det}; {info}")
        if exact is not None and m.shape == exact.shape:
            R.check(bool(np.array_equal(m, exact)), f"{nm}_vs_exact_reference",
                    f"selected {np.flatnonzero(m).tolist()[:20]} want "
                    f"{np.flatnonzero(exact).tolist()[:20]}; {info}")
    if "accel" in masks and masks["accel"].shape == masks["default"].shape:
        R.check(bool(np.array_equal(masks["default"], masks["accel"])), "default_vs_accel",
                f"{tag}default selects {np.flatnonzero(masks['default']).tolist()[:20]}, "
                f"accelerated {np.flatnonzero(masks['accel']).tolist()[:20]}; {info}")
    nrev = int(masks["default"].sum()) if masks["default"].shape == (n,) else 0
    if "accel" in masks:
        nrev = max(nrev, int(masks["accel"].sum()))
    R.nontrivial(nrev >= 3 and (f7 or bool(d.size and np.any(d == 0))))


def oracle_findap(case, R):
    _findap_common(case, R, tail_part=False)


def oracle_findap_tail(case, R):
    _findap_common(case, R, tail_part=True)


TOLS = [None, 0.0, 1e-12, 1e-6, 1e-6, 1e-2, 1e-2, 0.25]


@st.composite
def signals(draw):
    """cumulative sum of steps: real steps (|s| <= M, one of them +-M), exact zeros, and
    sub-tolerance drifts sized relative to stol = tol * M"""
    tol = draw(st.sampled_from(TOLS))
    teff = 1e-6 if tol is None else tol
    M = draw(st.sampled_from([16.0, 16.0, 4.0, 100.0, 1.0, 0.37]))
    stol = teff * M
    integer = draw(st.booleans())
    y0 = draw(st.sampled_from([0.0, 0.0, 1.0, -3.0, 250.0, 1e6, -1e6])) if not integer else \
        float(draw(st.integers(-5, 5)))
    small = draw(st.booleans())
    ntok = draw(st.integers(0, 6 if small else 25))
    steps = []
    drifts = []
    placed_M = False
    for _ in range(ntok):
        tk = draw(st.sampled_from(["jump", "jump", "jump", "plateau", "drift", "drift", "ramp",
                                   "spike", "M"]))
        if tk == "M":
            steps.append(M * draw(st.sampled_from([1, -1])))
            placed_M = True
        elif tk == "jump":
            if integer and M >= 1:
                s = float(draw(st.integers(1, int(M)))) * draw(st.sampled_from([1, -1]))
            else:
                # real step well above stol (>= 3 stol and >= M/64)
                s = M * draw(st.floats(max(1.0 / 64, 3 * teff), 1.0)) * draw(st.sampled_from([1, -1]))
            steps.append(s)
        elif tk == "plateau":
            steps.extend([0.0] * draw(st.integers(1, 4)))
        elif tk == "ramp":
            sg = draw(st.sampled_from([1, -1]))
            k = draw(st.integers(2, 5))
            unit = 1.0 if M >= 8 else M / 8
            steps.extend([sg * unit * draw(st.integers(1, 2)) for _ in range(k)])
        elif tk == "spike":
            s = M * draw(st.sampled_from([0.5, 1.0, 0.25])) * draw(st.sampled_from([1, -1]))
            steps.extend([s, -s])
        else:   # drift: total in {0.3, 0.9, 1.1, 50} stol, steps <= stol each
            total = draw(st.sampled_from([0.3, 0.9, 1.1, 1.1, 50.0, 3.0]))
            sg = draw(st.sampled_from([1, -1]))
            if stol == 0:
                steps.extend([sg * 1e-9] * draw(st.integers(1, 3)))     # tol = 0: real tiny steps
                continue
            per = draw(st.sampled_from([0.2, 0.3, 0.45, 0.9, 1.0]))
            per = min(per, total)
            k = max(1, int(round(total / per)))
            steps.extend([sg * per * stol] * k)
            drifts.append(total)
            if draw(st.booleans()):          # ... and return (the lost-peak pattern)
                steps.append(-sg * M * draw(st.sampled_from([0.1, 0.5])))
    if not placed_M and steps and draw(st.booleans()):
        steps.insert(draw(st.integers(0, len(steps))), M * draw(st.sampled_from([1, -1])))
    if draw(st.sampled_from([0, 0, 0, 1])) and steps:
        steps.append(0.0)                                              # last == previous
    y = np.concatenate(([y0], y0 + np.cumsum(steps))) if steps else np.array([y0])
    y = y.tolist()
    pack = draw(st.sampled_from(["float", "float", "float", "2d", "strided", "int"]))
    if pack == "int" and not all(float(v).is_integer() and abs(v) < 2 ** 50 for v in y):
        pack = "float"
    return {"y": y, "tol": tol, "pack": pack, "drifts": drifts}


def enum_findap(shard, nshards, tier):
    i = 0
    tols = [None, 0.0, 1e-6, 1e-2]
    for n in range(1, 8 if tier == "quick" else 10):
        for tup in itertools.product(range(4), repeat=n):
            i += 1
            if i % nshards == shard:
                yield {"y": [float(v) for v in tup], "tol": tols[i // nshards % 4],
                       "pack": "int" if i // nshards % 8 >= 4 else "float"}
    S = [0.0, 0.375, -0.375, 1.0, -1.0, 4.0, -4.0]
    for n in range(1, 6 if tier == "quick" else 7):
        for tup in itertools.product(S, repeat=n):
            i += 1
            if i % nshards == shard:
                yield {"y": [0.0] + np.cumsum(tup).tolist(), "tol": 0.125, "pack": "float"}


@st.composite
def tail_signals(draw):
    """constant (or sub-tolerance wandering) signal whose only real change is the last sample"""
    tol = draw(st.sampled_from([None, 0.0, 1e-6, 1e-2]))
    teff = 1e-6 if tol is None else tol
    n = draw(st.integers(3, 12))
    y0 = float(draw(st.integers(-3, 3)))
    jump = float(draw(st.integers(1, 4))) * draw(st.sampled_from([1, -1]))
    wander = draw(st.booleans()) and teff > 0
    y = [y0]
    for _ in range(n - 2):
        y.append(y0 + (draw(st.sampled_from([0.0, 0.4, -0.4, 0.8])) * teff * abs(jump) if wander else 0.0))
    y.append(y0 + jump)
    return {"y": y, "tol": tol, "pack": "float", "drifts": []}


# ====================================================================== binify / getbins / sigcount

def _fmt_rf(rf, n=8):
    return [list(map(float, r)) for r in rf[:n]]


def oracle_binify(case, R):
    _oracle_binify(case, R, roundoff_part=False)


def oracle_binify_roundoff(case, R):
    _oracle_binify(case, R, roundoff_part=True)


def _oracle_binify(case, R, roundoff_part):
    import pandas as pd
    import pyyeti.cyclecount as cc
    right = case["right"]
    R.label(f"kind:{case['kind']}", f"right:{right}")
    if case["kind"] == "getbins":
        _oracle_getbins(case, R, cc)
        return
    if case["kind"] == "sig":
        _oracle_sigcount(case, R, cc)
        return
    rf = np.array(case["rf"], dtype=float)
    form = case["form"]
    if form == "df":
        arg = pd.DataFrame(rf, columns=["amp", "mean", "count"])
    elif form == "list":
        arg = rf.tolist()
    elif form == "extra_col":
        arg = np.column_stack([rf, np.arange(len(rf)) * 3.0 + 100.0])
    elif form == "row1d" and len(rf) == 1:
        arg = rf[0].copy()
    else:
        form = "array"
        arg = rf.copy()
    ab, mb = case["ampbins"], case["meanbins"]
    cb, up, prec = case["check_bounds"], case["use_pandas"], case["precision"]
    R.label(f"form:{form}", f"check_bounds:{cb}", f"pandas:{up}",
            "ampbins:" + ("scalar" if np.ndim(ab) == 0 else "vector"),
            "meanbins:" + ("scalar" if np.ndim(mb) == 0 else "vector"))
    info = (f"rf={_fmt_rf(rf)}{'...' if len(rf) > 8 else ''} ampbins={ab} meanbins={mb} "
            f"right={right} check_bounds={cb} form={form}")
    kw = dict(right=right, precision=prec, retbins=True, use_pandas=up, check_bounds=cb)
    bad = [b for b in (ab, mb) if np.ndim(b) == 1 and np.any(np.diff(b) <= 0)]
    if bad:
        R.label("nonmonotone_edges")
        R.nontrivial(True)
        try:
            cc.binify(arg, ab, mb, **kw)
            R.fail("accepts_nonincreasing_edges", info)
        except ValueError:
            pass
        return
    ampb, a_auto = cr.bin_edges(ab, rf[:, 0], right)
    aveb, m_auto = cr.bin_edges(mb, rf[:, 1], right)
    want, dropped, ndrop = cr.binify_ref(rf, ampb, aveb, right)
    total = float(rf[:, 2].sum())
    # documented: the range is guaranteed to be covered by automatic bins.  It is not when the
    # 0.1 % widening is lost to round-off (range below ~1e-13 of the offset): decided in the
    # isolated part binify_auto_roundoff, skipped here
    lost = (a_auto and any(cr.place(v, ampb, right) < 0 for v in rf[:, 0])) or \
        (m_auto and any(cr.place(v, aveb, right) < 0 for v in rf[:, 1]))
    if lost and not roundoff_part:
        R.label("skip:auto_widening_lost_to_roundoff(isolated)")
        return
    if roundoff_part:
        R.nontrivial(lost)
        R.label("widening_lost" if lost else "widening_kept")
        R.check(not lost, "auto_bins_do_not_cover",
                f"{ndrop} cycles are outside the documented automatic bins amp {ampb.tolist()} "
                f"mean {aveb.tolist()}; {info}")
        try:
            t = np.asarray(cc.binify(arg, ab, mb, right=right, use_pandas=False, check_bounds=cb))
        except IndexError as e:
            R.fail("auto_bins_IndexError", f"{e!r}; {info}")
            return
        # every cycle counted, each in the bin whose (exactly widened) interval contains it
        ea = ampb.copy()
        em = aveb.copy()
        for e_, auto in ((ea, a_auto), (em, m_auto)):
            if auto:
                if right:
                    e_[0] = -np.inf
                else:
                    e_[-1] = np.inf
        w2, _, nd2 = cr.binify_ref(rf, ea, em, right)
        R.check(t.shape == w2.shape and bool(np.array_equal(t, w2)), "auto_bins_cycle_in_wrong_bin",
                f"table={t.tolist()} want {w2.tolist()}; amp edges {ampb.tolist()} mean edges "
                f"{aveb.tolist()}; {info}")
        return
    if ndrop and not cb:
        # bins that do not cover the data with the bounds check switched off: no behaviour
        # is documented for this
        R.label("skip:uncovered_bins_unchecked")
        return
    R.label("covered" if ndrop == 0 else "drops_cycles")
    got = cc.binify(arg, ab, mb, **kw)
    if not R.check(isinstance(got, tuple) and len(got) == 3, "binify_return", info):
        return
    table, gampb, gaveb = got
    R.check(np.shape(gampb) == ampb.shape and bool(np.array_equal(np.asarray(gampb, float), ampb)),
            "amp_edges", f"got {np.asarray(gampb).tolist()} want {ampb.tolist()}; {info}")
    R.check(np.shape(gaveb) == aveb.shape and bool(np.array_equal(np.asarray(gaveb, float), aveb)),
            "mean_edges", f"got {np.asarray(gaveb).tolist()} want {aveb.tolist()}; {info}")
    if up:
        if not R.check(isinstance(table, pd.DataFrame), "binify_type", info):
            return
        R.check(list(table.columns) == cr.labels(ampb, right, prec) and
                list(table.index) == cr.labels(aveb, right, prec) and
                table.columns.name == "Amp" and table.index.name == "Mean", "labels",
                f"columns {list(table.columns)[:4]} index {list(table.index)[:4]}; {info}")
        tv = table.values
    else:
        if not R.check(isinstance(table, np.ndarray), "binify_type", info):
            return
        tv = table
    if not R.check(tv.shape == want.shape, "table_shape", f"{tv.shape} != {want.shape}; {info}"):
        return
    R.check(bool(np.array_equal(tv, want)), "cycle_in_wrong_bin",
            f"table={tv.tolist()} want {want.tolist()}; amp edges {ampb.tolist()} mean edges "
            f"{aveb.tolist()}; {info}")
    if ndrop == 0:
        R.check(float(tv.sum()) == total, "count_not_conserved",
                f"sum(table)={float(tv.sum())!r} sum(count)={total!r}; {info}")
    else:
        R.check(float(tv.sum()) == total - dropped, "count_of_covered_cycles",
                f"sum(table)={float(tv.sum())!r} want {total - dropped!r} ({dropped} outside); {info}")
    on_edge = bool(np.isin(rf[:, 0], ampb).any() or np.isin(rf[:, 1], aveb).any())
    if on_edge:
        R.label("cycle_on_edge")
    R.nontrivial(on_edge or ndrop > 0)
    # without retbins / default arguments
    if case.get("plain_call"):
        t2 = cc.binify(arg, ab, mb, right=right, use_pandas=False, check_bounds=cb)
        R.check(isinstance(t2, np.ndarray) and t2.shape == want.shape and
                bool(np.array_equal(t2, want)), "binify_without_retbins", info)


def _oracle_getbins(case, R, cc):
    right = case["right"]
    mx, mn = case["mx"], case["mn"]
    bins = case["bins"]
    info = f"bins={bins} mx={mx} mn={mn} right={right} swapped={case['swap']}"
    a, b = (mn, mx) if case["swap"] else (mx, mn)
    if np.ndim(bins) == 1 and np.any(np.diff(bins) <= 0):
        R.label("nonmonotone_edges")
        try:
            cc.getbins(bins, a, b, right=right, check_bounds=True)
            R.fail("getbins_accepts_nonincreasing_edges", info)
        except ValueError:
            pass
        return
    edges, auto = cr.bin_edges(bins, [mx, mn], right)
    bb, oob = cc.getbins(bins, a, b, right=right, check_bounds=True)
    bb2 = cc.getbins(bins, a, b, right=right)
    R.check(bool(np.array_equal(np.asarray(bb, float), edges)) and
            bool(np.array_equal(np.asarray(bb2, float), edges)), "getbins_edges",
            f"got {np.asarray(bb).tolist()} want {edges.tolist()}; {info}")
    # documented: equal mx and mn are reset to mx + 0.5, mn - 0.5 (also for the bounds check)
    cmx, cmn = (mx + 0.5, mn - 0.5) if mx == mn else (mx, mn)
    want = cr.place(cmx, edges, right) < 0 or cr.place(cmn, edges, right) < 0
    R.label("auto" if auto else ("out_of_bounds" if want else "in_bounds"))
    tie = (mx in edges.tolist()) or (mn in edges.tolist())
    R.nontrivial(tie)
    R.check(bool(oob) == want, "getbins_out_of_bounds_flag",
            f"flag {oob} but {cmx}/{cmn} {'are not all' if want else 'are'} inside the documented bins "
            f"{edges.tolist()}; {info}")


def _oracle_sigcount(case, R, cc):
    import pandas as pd
    right = case["right"]
    sig = np.array(case["sig"], dtype=float)
    ab, mb = case["ampbins"], case["meanbins"]
    info = f"sig={_short(sig)} ampbins={ab} meanbins={mb} right={right}"
    mask = cr.findap_exact(sig)            # integer steps: nothing is within the default tolerance
    rev = sig[mask]
    if rev.size < 2:
        R.label("skip:constant_signal")
        return
    rf = np.array([r[:3] for r in astm_rainflow.rainflow(rev.tolist())], dtype=float)
    ampb, a_auto = cr.bin_edges(ab, rf[:, 0], right)
    aveb, m_auto = cr.bin_edges(mb, rf[:, 1], right)
    want, dropped, ndrop = cr.binify_ref(rf, ampb, aveb, right)
    up = case["use_pandas"]
    got = cc.sigcount(sig, ab, mb, right, case["precision"], True, up)
    if not R.check(isinstance(got, tuple) and len(got) == 3, "sigcount_return", info):
        return
    table, gampb, gaveb = got
    tv = table.values if isinstance(table, pd.DataFrame) else np.asarray(table)
    R.check(isinstance(table, pd.DataFrame) == bool(up), "sigcount_type", info)
    R.check(bool(np.array_equal(np.asarray(gampb, float), ampb)) and
            bool(np.array_equal(np.asarray(gaveb, float), aveb)), "sigcount_edges",
            f"amp {np.asarray(gampb).tolist()} want {ampb.tolist()}; {info}")
    if R.check(tv.shape == want.shape, "sigcount_shape", f"{tv.shape} != {want.shape}; {info}"):
        R.check(bool(np.array_equal(tv, want)), "sigcount_table",
                f"table={tv.tolist()} want {want.tolist()} (reversals {rev.tolist()[:12]}); {info}")
        if ndrop == 0:
            R.check(float(tv.sum()) == (rev.size - 1) / 2, "sigcount_total",
                    f"sum(table)={float(tv.sum())} for {rev.size} reversal points; {info}")
    R.label("covered" if ndrop == 0 else "drops_cycles")
    R.nontrivial(rev.size >= 4 and (bool(np.isin(rf[:, 0], ampb).any()) or ndrop > 0))


def _explicit_edges(draw, vals, half):
    """edge vector built around the data `vals`; returns a list"""
    lo, hi = min(vals), max(vals)
    mode = draw(st.sampled_from(["cover", "cover", "tight", "partial", "inner", "nonmono"]))
    if half:
        q = 0.5
        a = math.floor(lo / q) * q
        b = math.ceil(hi / q) * q
    else:
        q = (hi - lo) / 4 if hi > lo else 1.0
        a, b = lo, hi
    if mode in ("cover", "nonmono"):
        a, b = a - q * draw(st.integers(1, 3)), b + q * draw(st.integers(1, 3))
    elif mode == "tight":
        pass                                   # edges end exactly on the extreme data values
    elif mode == "partial":
        if draw(st.booleans()):
            a = a + q * draw(st.integers(1, 2))
            b = b + q
        else:
            b = b - q * draw(st.integers(1, 2))
            a = a - q
    else:
        a, b = a + q, b - q
    if b <= a:
        b = a + q * 2
    if half:
        stride = draw(st.sampled_from([1, 1, 2, 3]))
        k = int(round((b - a) / q))
        edges = [a + q * i for i in range(0, k + 1, stride)]
        if edges[-1] != b:
            edges.append(b)
    else:
        m = draw(st.integers(1, 6))
        inner = sorted(set(draw(st.lists(st.sampled_from(sorted(vals)), min_size=0, max_size=m))))
        edges = sorted(set([a] + [v for v in inner if a < v < b] + [b]))
    if len(edges) < 2:
        edges = [a, a + 1.0]
    if mode == "nonmono" and len(edges) >= 2:
        j = draw(st.integers(0, len(edges) - 2))
        if draw(st.booleans()):
            edges[j + 1] = edges[j]                 # repeated edge
        else:
            edges[j], edges[j + 1] = edges[j + 1], edges[j]
    if half and all(float(e).is_integer() for e in edges) and draw(st.booleans()):
        edges = [int(e) for e in edges]
    return edges


@st.composite
def bin_cases(draw):
    kind = draw(st.sampled_from(["grid", "grid", "grid", "real", "sig", "getbins"]))
    right = draw(st.booleans())
    if kind == "getbins":
        half = True
        mx = draw(st.integers(-8, 16)) * 0.5
        mn = draw(st.integers(-8, 16)) * 0.5
        if mx < mn:
            mx, mn = mn, mx
        if draw(st.booleans()):
            bins = draw(st.integers(1, 12))
        else:
            bins = _explicit_edges(draw, [mx, mn], half)
        return {"kind": kind, "right": right, "mx": mx, "mn": mn, "bins": bins,
                "swap": draw(st.booleans())}
    if kind == "sig":
        sig = draw(st.lists(st.integers(-8, 8), min_size=2, max_size=60))
        half = True
        vals_a = [0.0, 0.5 * (max(sig) - min(sig))]
        vals_m = [float(min(sig)), float(max(sig))]
        ab = draw(st.integers(1, 12)) if draw(st.integers(0, 2)) else \
            _explicit_edges(draw, vals_a + [1.0], half)
        mb = draw(st.integers(1, 6)) if draw(st.integers(0, 2)) else \
            _explicit_edges(draw, vals_m, half)
        for b in (ab, mb):
            if np.ndim(b) == 1 and np.any(np.diff(b) <= 0):
                ab, mb = 3, 2
        return {"kind": kind, "right": right, "sig": sig, "ampbins": ab, "meanbins": mb,
                "use_pandas": draw(st.booleans()), "precision": draw(st.integers(0, 4))}
    n = draw(st.integers(1, 25) if draw(st.booleans()) else st.integers(1, 4))
    half = kind == "grid"
    if half:
        amax = draw(st.sampled_from([2, 4, 6, 8, 12, 12]))
        off = draw(st.integers(-6, 6)) * 0.5
        rf = [[draw(st.integers(0, amax)) * 0.5,
               off + draw(st.integers(-6, 6)) * 0.5,
               draw(st.sampled_from([0.5, 1.0]))] for _ in range(n)]
    else:
        sc = draw(st.sampled_from([1.0, 1e-3, 250.0]))
        off = draw(st.sampled_from([0.0, 10.0, -1e3]))
        rf = [[draw(st.floats(0.0, 1.0)) * sc,
               off + draw(st.floats(-1.0, 1.0)) * sc,
               draw(st.sampled_from([0.5, 1.0]))] for _ in range(n)]
    amps = [r[0] for r in rf]
    means = [r[1] for r in rf]
    ab = draw(st.integers(1, 12)) if draw(st.integers(0, 2)) else _explicit_edges(draw, amps, half)
    mb = draw(st.integers(1, 6)) if draw(st.integers(0, 2)) else _explicit_edges(draw, means, half)
    return {"kind": kind, "right": right, "rf": rf, "ampbins": ab, "meanbins": mb,
            "check_bounds": draw(st.sampled_from([True, True, True, False])),
            "use_pandas": draw(st.booleans()), "precision": draw(st.integers(0, 4)),
            "form": draw(st.sampled_from(["array", "array", "df", "list", "extra_col", "row1d"])),
            "plain_call": draw(st.booleans())}


@st.composite
def bin_roundoff_cases(draw):
    """cycle tables whose means (or amplitudes) differ by a few ulp only; scalar bins"""
    n = draw(st.integers(2, 6))
    base = draw(st.sampled_from([10.0, 1000.0, -7.3, 0.1, 123456.789]))
    u = float(np.spacing(abs(base)))
    which = draw(st.sampled_from(["mean", "mean", "amp"]))
    rf = []
    for _ in range(n):
        near = abs(base) + u * draw(st.integers(0, 6)) if which == "amp" else \
            base + u * draw(st.integers(0, 6))
        other = draw(st.integers(0, 8)) * 0.5
        rf.append([near, other, draw(st.sampled_from([0.5, 1.0]))] if which == "amp"
                  else [other, near, draw(st.sampled_from([0.5, 1.0]))])
    return {"kind": "real", "right": draw(st.booleans()), "rf": rf,
            "ampbins": draw(st.integers(1, 4)), "meanbins": draw(st.integers(1, 4)),
            "check_bounds": draw(st.booleans()), "use_pandas": False, "precision": 3,
            "form": "array", "plain_call": False}


# ====================================================================== fdepsd

BS = (4, 8, 12)
PSDCOLS = ["G1", "G2", "G4", "G8", "G12"]
DICOLS = ["b=4", "b=8", "b=12"]


def _fde_signal(case):
    rng = np.random.default_rng(case["seed"])
    n, sr = case["n"], case["sr"]
    t = np.arange(n) / sr
    (a1, f1, p1), (a2, f2, p2) = case["tones"]
    x = a1 * np.sin(2 * np.pi * f1 * t + p1) + a2 * np.sin(2 * np.pi * f2 * t + p2)
    x = x + case["noise"] * rng.integers(-8, 9, n)
    x = x + case["offset"] + case["trend"] * t
    return x


def _fde_kwargs(case):
    kw = dict(resp=case["resp"], detrend=case["detrend"], winends=case["winends"],
              hpfilter=case["hpfilter"], nbins=case["nbins"], T0=case["T0"],
              rolloff=case["rolloff"], ppc=case["ppc"], parallel="no")
    return kw


def _miles_factor(freq, Q, T0, resp):
    """peak^2 = factor * psd for the documented equations and peak factor sqrt(2 ln(f T0))"""
    lnN0 = np.log(freq * T0)
    if resp == "absacce":
        return 2 * lnN0 * (np.pi / 2) * freq * Q          # sigma^2 = pi/2 f Q PSD
    return 2 * lnN0 * Q / (8 * np.pi * freq)               # sigma^2 = Q PSD / (8 pi f)


def _var_to_psd(freq, Q, resp):
    """psd = var * factor (inverse of the documented sigma(f) equations)"""
    if resp == "absacce":
        return 1.0 / ((np.pi / 2) * freq * Q)
    return 8 * np.pi * freq / Q


def _rel(a, b):
    a = np.asarray(a, float)
    b = np.asarray(b, float)
    with np.errstate(all="ignore"):
        e = np.abs(a - b) / np.maximum(np.abs(b), 1e-300)
    e = np.where((a == b) | (np.isinf(a) & np.isinf(b) & (np.sign(a) == np.sign(b))), 0.0, e)
    e = np.where(np.isnan(e), np.inf, e)
    return float(np.max(e)) if e.size else 0.0


def _oracle_fde(case, R, mode):
    from pyyeti import fdepsd
    sig = _fde_signal(case)
    sr, Q, T0, resp, nbins = case["sr"], case["Q"], case["T0"], case["resp"], case["nbins"]
    freq = np.array(case["freqs"], dtype=float)
    kw = _fde_kwargs(case)
    fr_arg = freq if case["freq_array"] else freq.tolist()
    O = fdepsd.fdepsd(sig, sr, fr_arg, Q, **kw)
    LF = len(freq)
    info = (f"seed={case['seed']} n={case['n']} sr={sr} freq={freq.tolist()} Q={Q} resp={resp} "
            f"nbins={nbins} T0={T0} rolloff={case['rolloff']} ppc={case['ppc']} "
            f"hpfilter={case['hpfilter']} winends={case['winends']} detrend={case['detrend']}")
    R.label(f"resp:{resp}", f"rolloff:{case['rolloff']}", f"nfreq:{LF}",
            "hpfilter:on" if case["hpfilter"] is not None else "hpfilter:off",
            "winends:" + ("off" if case["winends"] is None else
                          "auto" if case["winends"] == "auto" else "dict"),
            f"detrend:{case['detrend']}")

    # ---------------- structure
    names = ["freq", "psd", "peakamp", "binamps", "count", "bincount", "di_sig", "var_test",
             "sig", "sr", "srs", "var", "parallel", "ncpu", "resp"]
    missing = [nm for nm in names if not hasattr(O, nm)]
    if not R.check(not missing, "missing_member", f"{missing}; {info}"):
        return
    di_test = getattr(O, "di_test_part", None)
    if di_test is None:
        di_test = getattr(O, "di_test", None)
        R.label("obs:di_test_part_is_named_di_test")
    if not R.check(di_test is not None, "missing_member", f"di_test_part; {info}"):
        return
    ok = (list(O.psd.columns) == PSDCOLS and list(O.peakamp.columns) == PSDCOLS and
          O.psd.shape == (LF, 5) and O.peakamp.shape == (LF, 5) and
          O.binamps.shape == (LF, nbins) and O.count.shape == (LF, nbins) and
          O.bincount.shape == (LF, nbins) and O.di_sig.shape == (LF, 3) and
          di_test.shape == (LF, 3) and O.var_test.shape == (LF, 3) and
          list(O.di_sig.columns) == DICOLS and list(O.var_test.columns) == DICOLS and
          O.srs.shape == (LF,) and O.var.shape == (LF,) and
          np.array_equal(np.asarray(O.freq), freq) and
          all(np.array_equal(np.asarray(df.index), freq) for df in
              (O.psd, O.peakamp, O.binamps, O.count, O.bincount, O.di_sig, di_test, O.var_test,
               O.srs, O.var)) and
          O.parallel == "no" and O.ncpu == 1 and O.resp == resp)
    if not R.check(ok, "output_structure", info):
        return
    psd = O.psd.values
    peak = O.peakamp.values
    binamps = O.binamps.values
    count = O.count.values
    bincount = O.bincount.values
    di_sig = O.di_sig.values
    di_t = di_test.values
    var_test = O.var_test.values
    srs_ = O.srs.values
    var_ = O.var.values
    osig = np.asarray(O.sig, float)
    osr = float(O.sr)
    Amax = peak[:, 0]
    upsampled = osr != sr
    R.label("upsampled" if upsampled else "native_rate")

    if mode == "pvelo_var":
        # isolated: documented var_test ** (b / 2) = di_sig / di_test_part and "psd computed
        # from Mile's equation (or similar) and var_test"
        for c, b in enumerate(BS):
            e = _rel(var_test[:, c] ** (b / 2) * di_t[:, c], di_sig[:, c])
            R.metric("var_test_damage_relerr", e)
            R.check(e <= 1e-9, "var_test_does_not_reproduce_damage",
                    f"b={b}: var_test^(b/2)*di_test/di_sig = "
                    f"{(var_test[:, c] ** (b / 2) * di_t[:, c] / di_sig[:, c]).tolist()}; {info}")
            e = _rel(var_test[:, c] * _var_to_psd(freq, Q, resp), psd[:, 2 + c])
            R.check(e <= 1e-9, "psd_differs_from_miles_of_var_test",
                    f"b={b}: psd/(var_test*factor) = "
                    f"{(psd[:, 2 + c] / (var_test[:, c] * _var_to_psd(freq, Q, resp))).tolist()}; {info}")
        R.nontrivial(True)
        return

    if mode == "g2tie":
        # isolated: nbins a multiple of 3 puts a bin edge exactly on Amax/3; "ignore amplitudes
        # < Amax/3" keeps that bin, and the G2 PSD must still scale with the square of the input
        kk = np.arange(nbins)
        keep = 3 * kk >= nbins
        for j in range(LF):
            y1 = math.log(count[j, 0])
            X2 = peak[j, 1] ** 2
            if y1 <= 0 or not np.isfinite(X2):
                continue
            over = np.log(count[j]) - y1 * (1 - binamps[j] ** 2 / X2)
            R.metric("G2_line_excess_at_third", float(over[keep].max()))
            R.check(bool(np.all(over[keep] <= 1e-9 * (abs(y1) + 1))), "G2_line_ignores_bin_at_Amax_third",
                    f"f={freq[j]}: ln(count) exceeds the G2 line by {float(over[keep].max()):.3e} at "
                    f"bin {int(kk[keep][np.argmax(over[keep])])} of {nbins} (binamps/Amax = "
                    f"{float(binamps[j, kk[keep][np.argmax(over[keep])]] / Amax[j])!r}); {info}")
        c = case["scale"]
        O2 = fdepsd.fdepsd(sig * c, sr, fr_arg, Q, **kw)
        with np.errstate(all="ignore"):
            ratio = O2.psd.values[:, 1] / (psd[:, 1] * c * c)
        e = _rel(O2.psd.values[:, 1], psd[:, 1] * c * c)        # inf == inf is agreement
        R.metric("G2_scaling_relerr", min(e, 1e300))
        same_counts = bool(np.array_equal(O2.count.values, count))
        R.label("counts_equal_after_scaling" if same_counts else "skip:counts_differ_after_scaling")
        if same_counts:
            R.check(e <= 1e-6, "G2_does_not_scale_with_square",
                    f"c={c}: G2(c sig)/(c^2 G2(sig)) = {ratio.tolist()} (G2(sig)={psd[:, 1].tolist()}) "
                    f"with identical cycle counts; "
                    f"peakamp G1={peak[:, 0].tolist()}; {info}")
        R.nontrivial(True)
        return

    # ---------------- documented pre-processing (no window, no up-sampling)
    if case["winends"] is None and not upsampled and case["rolloff"] != "prefilter":
        import scipy.signal as ss
        want = sig
        if case["detrend"] or case["hpfilter"] is not None:
            want = ss.detrend(want)
        if case["hpfilter"] is not None:
            bb, aa = ss.butter(3, case["hpfilter"] / (sr / 2), "high")
            want = ss.lfilter(bb, aa, want)
        R.label("preprocessing_checked")
        if R.check(osig.shape == want.shape, "sig_length", f"{osig.shape} vs {want.shape}; {info}"):
            e = float(np.abs(osig - want).max() / max(np.abs(want).max(), 1e-300))
            R.metric("preprocessing_relerr", e)
            R.check(e <= 1e-12, "sig_not_documented_preprocessing",
                    f"max deviation {e:.3e} of peak from detrend/high-pass of the input; {info}")
    if not upsampled:
        R.check(osig.shape == sig.shape, "sig_length", f"{osig.shape} vs {sig.shape}; {info}")
    else:
        fac = osr / sr
        R.check(abs(fac - round(fac)) < 1e-12 and osr / freq.max() >= case["ppc"] * (1 - 1e-12),
                "upsampled_rate", f"sr {sr} -> {osr} with ppc={case['ppc']}; {info}")

    # ---------------- invariants of the returned tables
    finite = all(np.all(np.isfinite(a)) for a in (peak[:, [0, 2, 3, 4]], psd[:, [0, 2, 3, 4]],
                                                    binamps, count, bincount, di_sig, di_t,
                                                    var_test, srs_, var_))
    if not R.check(finite, "non_finite_output", info):
        return
    g2inf = np.isinf(psd[:, 1])
    if g2inf.any():
        R.label("obs:G2_infinite")
    R.check(bool(np.all(psd[:, [0, 2, 3, 4]] > 0) and np.all(psd[:, 1] > 0)), "psd_not_positive",
            f"psd={psd.tolist()}; {info}")
    R.check(bool(np.all(np.diff(count, axis=1) <= 0)), "count_increases_with_amplitude",
            f"count rows {count[:, :6].tolist()}; {info}")
    R.check(bool(np.all(bincount >= 0)), "negative_bincount", info)
    R.check(bool(np.array_equal(bincount.sum(axis=1), count[:, 0])), "bincount_sum",
            f"sum(bincount)={bincount.sum(axis=1).tolist()} count[:,0]={count[:, 0].tolist()}; {info}")
    R.check(bool(np.array_equal(np.cumsum(bincount[:, ::-1], axis=1)[:, ::-1], count)),
            "bincount_not_difference_of_count", info)
    R.check(bool(np.all(count[:, -1] >= 0.5)), "largest_cycle_not_counted",
            f"count[:, -1]={count[:, -1].tolist()}; {info}")
    R.check(bool(np.all(count[:, 0] * 2 == np.round(count[:, 0] * 2)) and
                 np.all(count[:, 0] <= (osig.size - 1) / 2)), "total_count_not_half_integer",
            f"{count[:, 0].tolist()}; {info}")
    k = np.arange(nbins) / nbins
    e = _rel(binamps, Amax[:, None] * k[None, :])
    R.metric("binamps_relerr/eps", e / EPS)
    R.check(e <= 4 * EPS, "binamps_not_linear",
            f"binamps[:, :3]={binamps[:, :3].tolist()} Amax={Amax.tolist()}; {info}")
    R.check(bool(np.all(Amax <= srs_)), "amax_exceeds_srs",
            f"Amax={Amax.tolist()} srs={srs_.tolist()}; {info}")
    R.check(bool(np.all(psd[:, 1] >= psd[:, 0] * (1 - 1e-12))), "G2_below_G1",
            f"G1={psd[:, 0].tolist()} G2={psd[:, 1].tolist()}; {info}")
    fac = _miles_factor(freq, Q, T0, resp)
    e = _rel(peak ** 2, psd * fac[:, None])
    R.metric("peakamp_vs_psd_relerr", e)
    R.check(e <= 1e-10, "peakamp_not_miles_of_psd",
            f"peakamp^2/(factor*psd)={(peak ** 2 / (psd * fac[:, None])).tolist()}; {info}")
    for c, b in enumerate(BS):
        want = (binamps ** b * bincount).sum(axis=1)
        e = _rel(di_sig[:, c], want)
        R.metric("di_sig_relerr", e)
        R.check(e <= 1e-10, "di_sig_not_sum_amp_b_count",
                f"b={b}: di_sig={di_sig[:, c].tolist()} want {want.tolist()}; {info}")
        ref_t = np.array([cr.di_test_ref(f, T0, b, resp) for f in freq])
        # 2^(b/2) N0 Gamma(b/2+1) minus the truncated tail: conditioning of the subtraction
        cond = np.array([cr.di_test_ref(f, T0, b, "pvelo") for f in freq]) / ref_t
        e = float(np.max(np.abs(di_t[:, c] - ref_t) / (ref_t * cond)))
        R.metric("di_test_relerr/cond", e)
        R.check(e <= 1e-11, "di_test_not_rayleigh_expectation",
                f"b={b}: di_test={di_t[:, c].tolist()} want {ref_t.tolist()}; {info}")
        vt = (di_sig[:, c] / di_t[:, c]) ** (2.0 / b)          # variance that reproduces the damage
        e = _rel(psd[:, 2 + c], vt * _var_to_psd(freq, Q, resp))
        R.metric("damage_psd_relerr", e)
        R.check(e <= 1e-9, "damage_psd_not_miles_of_test_variance",
                f"b={b}: psd={psd[:, 2 + c].tolist()} want "
                f"{(vt * _var_to_psd(freq, Q, resp)).tolist()}; {info}")
        if resp == "absacce":
            e = _rel(var_test[:, c] ** (b / 2) * di_t[:, c], di_sig[:, c])
            R.metric("var_test_damage_relerr", e)
            R.check(e <= 1e-9, "var_test_does_not_reproduce_damage",
                    f"b={b}: var_test^(b/2)*di_test/di_sig = "
                    f"{(var_test[:, c] ** (b / 2) * di_t[:, c] / di_sig[:, c]).tolist()}; {info}")
        else:
            R.label("skip:pvelo_var_test(isolated)")
    # the G2 line from (0, ln count0) to (peakamp_G2^2, 0) bounds ln(count) for amplitudes down
    # to Amax/3 and touches it when G2 > G1
    for j in range(LF):
        y1 = math.log(count[j, 0])
        if y1 <= 0:
            R.label("skip:G2_line_single_cycle")
            continue
        X2 = peak[j, 1] ** 2
        x = binamps[j] ** 2
        inside = k > 1 / 3 + 1e-9
        allowed = k >= 1 / 3 - 1e-9
        line = y1 * (1 - x / X2) if np.isfinite(X2) else np.full(nbins, y1)
        lc = np.log(count[j])
        tolv = 1e-9 * (abs(y1) + 1)
        over = lc - line
        if inside.any():
            R.metric("G2_line_excess", float(over[inside].max()))
            R.check(bool(np.all(over[inside] <= tolv)), "G2_line_does_not_bound_counts",
                    f"f={freq[j]}: ln(count) exceeds the G2 line by {float(over[inside].max()):.3e} "
                    f"at bin {int(np.flatnonzero(inside)[np.argmax(over[inside])])} of {nbins} "
                    f"(peakamp G1={peak[j, 0]!r} G2={peak[j, 1]!r}); {info}")
        if peak[j, 1] > peak[j, 0] * (1 + 1e-9) and np.isfinite(X2):
            R.label("G2>G1")
            R.check(bool(allowed.any() and np.abs(over[allowed]).min() <= tolv),
                    "G2_line_does_not_touch_counts",
                    f"f={freq[j]}: closest point is {float(np.abs(over[allowed]).min()) if allowed.any() else None} "
                    f"away (peakamp G1={peak[j, 0]!r} G2={peak[j, 1]!r}); {info}")
        else:
            R.label("G2==G1" if np.isfinite(X2) else "G2=inf")

    # ---------------- independent response -> srs, var, reversal points, rainflow, counts
    fragile_any = False
    for j, f in enumerate(freq):
        r = cr.sdof_response(osig, osr, f, Q, resp)
        rmax = float(np.abs(r).max())
        e = abs(srs_[j] - rmax) / rmax
        R.metric("srs_relerr", e)
        R.check(e <= 1e-8, "srs_not_peak_response",
                f"f={f}: srs={srs_[j]!r} independent peak response {rmax!r}; {info}")
        v = float(np.var(r, ddof=1))
        e = abs(var_[j] - v) / v
        R.metric("var_relerr", e)
        R.check(e <= 1e-8, "var_not_response_variance",
                f"f={f}: var={var_[j]!r} independent {v!r}; {info}")
        dr = np.diff(r)
        stol = 1e-6 * float(np.abs(dr).max())
        zero = (r[:-1] == 0) & (r[1:] == 0)
        if np.any((np.abs(dr) <= 1.01 * stol) & ~zero):
            R.label("skip:response_substol_step")
            fragile_any = True
            continue
        rev = r[cr.findap_exact(r)]
        rf = np.array([c[:3] for c in astm_rainflow.rainflow(rev.tolist())], dtype=float)
        amp, cnt = rf[:, 0], rf[:, 2]
        R.label("counts_recomputed")
        e = abs(Amax[j] - amp.max()) / amp.max()
        R.metric("amax_relerr", e)
        R.check(e <= 1e-8, "amax_not_largest_cycle",
                f"f={f}: peakamp G1={Amax[j]!r} largest rainflow amplitude {float(amp.max())!r}; {info}")
        R.check(count[j, 0] == cnt.sum(), "total_cycle_count",
                f"f={f}: count[:,0]={count[j, 0]} but the response has {int(rev.size)} reversal "
                f"points = {float(cnt.sum())} cycles; {info}")
        edges = binamps[j]
        dlt = 1e-8 * amp.max()
        hi = np.array([cnt[amp >= ed - dlt].sum() for ed in edges])
        lo = np.array([cnt[amp >= ed + dlt].sum() for ed in edges])
        okc = (count[j] <= hi) & (count[j] >= lo)
        R.check(bool(okc.all()), "cumulative_count",
                f"f={f}: count[{int(np.argmin(okc))}]={count[j, int(np.argmin(okc))]} not in "
                f"[{lo[int(np.argmin(okc))]}, {hi[int(np.argmin(okc))]}] = cycles with amplitude >= "
                f"{edges[int(np.argmin(okc))]!r}; {info}")
    R.nontrivial(bool(count[:, 0].min() >= 10))

    # ---------------- scaling: every PSD scales with the square of the input amplitude
    c = case["scale"]
    exact = math.frexp(abs(c))[0] == 0.5
    O2 = fdepsd.fdepsd(sig * c, sr, fr_arg, Q, **kw)
    di_t2 = getattr(O2, "di_test_part", None)
    if di_t2 is None:
        di_t2 = O2.di_test
    R.label("scale:exact_pow2" if exact else "scale:general", "scale:negative" if c < 0 else "scale:positive")
    tol = 1e-12 if exact else 1e-6
    cols = [0, 1, 2, 3, 4]
    if not exact and (fragile_any or nbins % 3 == 0):
        # G2 for nbins % 3 == 0 under inexact scaling: decided in part fdepsd_g2_third_tie
        cols = [0, 2, 3, 4]
        R.label("skip:G2_general_scaling")
    a = abs(c)
    e = _rel(O2.psd.values[:, cols], psd[:, cols] * a * a)
    R.metric("scaling_psd_relerr" + ("_pow2" if exact else ""), e)
    R.check(e <= tol, "psd_does_not_scale_with_square",
            f"c={c}: psd(c sig)/(c^2 psd(sig)) = {(O2.psd.values / (psd * a * a)).tolist()}; {info}")
    e = _rel(O2.peakamp.values[:, cols], peak[:, cols] * a)
    R.check(e <= tol, "peakamp_does_not_scale", f"c={c}: relerr {e:.3e}; {info}")
    e = _rel(O2.var_test.values, var_test * a * a)
    R.check(e <= tol, "var_test_does_not_scale", f"c={c}: relerr {e:.3e}; {info}")
    e = max(_rel(O2.srs.values, srs_ * a), _rel(O2.var.values, var_ * a * a))
    R.check(e <= tol, "srs_var_do_not_scale", f"c={c}: relerr {e:.3e}; {info}")
    for ci, b in enumerate(BS):
        e = _rel(O2.di_sig.values[:, ci], di_sig[:, ci] * a ** b)
        R.check(e <= tol * b, "di_sig_does_not_scale", f"c={c} b={b}: relerr {e:.3e}; {info}")
    R.check(bool(np.array_equal(di_t2.values, di_t)), "di_test_depends_on_signal", f"c={c}; {info}")
    if exact:
        R.check(bool(np.array_equal(O2.count.values, count)), "count_changes_with_scale",
                f"c={c}: count[:, :4] {O2.count.values[:, :4].tolist()} vs {count[:, :4].tolist()}; {info}")
        R.check(_rel(O2.binamps.values, binamps * a) <= tol, "binamps_do_not_scale", f"c={c}; {info}")


def oracle_fde(case, R):
    _oracle_fde(case, R, "main")


def oracle_fde_pvelo_var(case, R):
    _oracle_fde(case, R, "pvelo_var")


def oracle_fde_g2tie(case, R):
    _oracle_fde(case, R, "g2tie")


def _fde_cases(draw, resp_choices):
    sr = draw(st.sampled_from([200.0, 500.0, 1000.0]))
    n = draw(st.integers(300, 3000))
    nf = draw(st.integers(1, 4))
    div = draw(st.lists(st.sampled_from([50, 40, 25, 20, 16, 12.5, 10, 8]), min_size=nf,
                        max_size=nf, unique=True))
    freqs = sorted(sr / d for d in div)
    if draw(st.booleans()):
        freqs = freqs[::-1]
    f1 = draw(st.sampled_from(freqs)) * draw(st.sampled_from([1.0, 0.9, 1.3, 0.5]))
    f2 = sr / draw(st.sampled_from([7.0, 13.0, 31.0, 90.0]))
    return {"seed": draw(st.integers(0, 2 ** 32 - 1)), "n": n, "sr": sr, "freqs": freqs,
            "freq_array": draw(st.booleans()),
            "Q": draw(st.sampled_from([5, 10, 25, 50, 12.5])),
            "resp": draw(st.sampled_from(resp_choices)),
            "nbins": draw(st.integers(2, 40)),
            "T0": draw(st.sampled_from([60.0, 60.0, 10.0, 120.0, 1.0])),
            "rolloff": draw(st.sampled_from(["lanczos", "lanczos", "fft", "none", None, "linear",
                                             "prefilter"])),
            "ppc": draw(st.sampled_from([12, 12, 8, 20])),
            "hpfilter": draw(st.sampled_from([None, 5.0, 5.0, 2.0])),
            "winends": draw(st.sampled_from([None, None, "auto", "auto", {"portion": 20}])),
            "detrend": draw(st.booleans()),
            "tones": [[draw(st.sampled_from([1.0, 0.3, 2.5])), f1, draw(st.floats(0.0, 6.28))],
                      [draw(st.sampled_from([0.0, 0.5, 1.0])), f2, draw(st.floats(0.0, 6.28))]],
            "noise": draw(st.sampled_from([0.05, 0.2, 0.2, 0.01])),
            "offset": draw(st.sampled_from([0.0, 0.0, 3.0, -40.0])),
            "trend": draw(st.sampled_from([0.0, 0.0, 2.0, -0.5])),
            # units are the caller's business (g, micro-g, m/s^2 ...): factors from 2^-40 to 2^40
            "scale": draw(st.sampled_from([2.0, -1.0, 0.125, -8.0, 32.0, 1024.0, 2.0 ** -20,
                                           3.7, -10.0, 1e-3, 2.0 ** 20, 2.0 ** 40, -2.0 ** 30,
                                           2.0 ** -40, 1e6, 1e9, 1e-8]))}


@st.composite
def fde_cases(draw):
    return _fde_cases(draw, ["absacce", "absacce", "pvelo"])


@st.composite
def fde_pvelo_cases(draw):
    return _fde_cases(draw, ["pvelo"])


@st.composite
def fde_g2tie_cases(draw):
    case = _fde_cases(draw, ["absacce", "pvelo"])
    case["nbins"] = draw(st.sampled_from([3, 6, 9, 12, 15, 21, 30, 39, 300]))
    case["scale"] = draw(st.sampled_from([3.7, 10.0, 1.0 / 3.0, 0.7, 1e-3, 123.456, 1e6, 1e-7]))
    return case


REQUIRED_CLASSES = {"thorough": ["findap:cls:substol-step", "findap:cls:exact-plateaus",
                                 "findap:len:1", "findap:len:2", "findap:drift:50.0stol",
                                 "binify:cycle_on_edge", "binify:drops_cycles",
                                 "fdepsd:counts_recomputed", "fdepsd:resp:pvelo",
                                 "fdepsd:upsampled", "fdepsd:G2>G1"]}

PARTS = [
    Part("findap", oracle_findap, strategy=signals, quick=(6, 1800), thorough=(16, 12000)),
    Part("findap_enum", oracle_findap, enum=enum_findap, quick=(4, None), thorough=(16, None),
         exhaustive=True),
    Part("binify", oracle_binify, strategy=bin_cases, quick=(4, 1000), thorough=(16, 5000)),
    Part("fdepsd", oracle_fde, strategy=fde_cases, quick=(8, 20), thorough=(16, 130)),
    # isolated confirmed defects (fail on the unchanged tree)
    Part("findap_accel_tail", oracle_findap_tail, strategy=tail_signals, quick=(1, 60),
         thorough=(1, 600)),
    Part("fdepsd_pvelo_var_test", oracle_fde_pvelo_var, strategy=fde_pvelo_cases, quick=(1, 4),
         thorough=(2, 20)),
    Part("binify_auto_roundoff", oracle_binify_roundoff, strategy=bin_roundoff_cases,
         quick=(1, 100), thorough=(1, 1000)),
    Part("fdepsd_g2_third_tie", oracle_fde_g2tie, strategy=fde_g2tie_cases, quick=(2, 12),
         thorough=(4, 60)),
    # documented defaults: leaving a keyword out = passing its documented value (vlib/defaults.py)
    Part("defaults", defaults.make_oracle("C10"), enum=defaults.make_enum(), quick=(1, None), thorough=(1, None),
         exhaustive=True),
]
