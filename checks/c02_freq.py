"""C02 - frequency-domain solutions (SolveUnc.fsolve, FreqDirect.fsolve, solvepsd)."""
import itertools

import numpy as np
import scipy.linalg as la
from hypothesis import strategies as st

from vlib import util
from vlib import defaults
from vlib.core import Part

PROPERTY = "C02"
RULE = ("modal systems (rigid-body, elastic with viscous and/or hysteretic damping, residual-flexibility "
        "modes; m None/1-D/2-D; real or complex m, k) in diagonal, non-proportionally damped and "
        "physically coupled (pre_eig or direct) forms; 1..12 frequencies log-uniform around the modes incl. "
        "0 Hz (SolveUnc) and points 1e-3 / 1e-6 off a damped resonance; complex force matrices; every "
        "ordered subset of 'dva' for incrb; rf_disp_only.  Oracle: own dense solve of "
        "(-W^2 M + iW B + K) d = F per frequency on the elastic partition, rigid-body rows from a = F/m, "
        "rf rows static, v = iW d, a = -W^2 d, zeroing per incrb / rf_disp_only; equation residual; "
        "SolveUnc == FreqDirect; solvepsd = sum_i PSD_i |H_i|^2 through random DRM quadruples and own "
        "trapezoid rms.  Tolerance C*eps*cond(H(W)) per frequency and row group.  Non-trivial: >= 2 "
        "frequencies, >= 1 elastic mode with non-zero force.")
ASSUME = ["numpy dense complex solve as reference", "undamped resonances are kept 1e-3 away (singular H)"]
EPS = util.EPS
CTOL = 2000.0

LETTERS = [""] + ["".join(p) for r in (1, 2, 3) for p in itertools.permutations("dva", r)]


def KNOWN_F3(case, kind, detail):
    return kind.startswith("SolveUnc") and "[rb-with-damping]" in detail and kind.endswith("_rb")


KNOWN = {"F3": KNOWN_F3}


def build(case):
    modes = case["modes"]
    n = len(modes)
    m = np.array([md["m"] for md in modes], dtype=complex if case.get("cmass") else float)
    if case.get("cmass"):
        m = m * (1 + 0.02j)
    k = np.zeros(n, dtype=complex if case.get("hyst") else float)
    b = np.zeros(n)
    for i, md in enumerate(modes):
        if md["reg"] == "rb":
            continue
        if md["reg"] == "rbd":
            b[i] = md["b"]
            continue
        w = 2 * np.pi * md["f"]
        k[i] = md["m"] * w * w * ((1 + 1j * md.get("eta", 0.0)) if case.get("hyst") else 1.0)
        b[i] = 2 * md["zeta"] * w * md["m"]
    rb = [i for i, md in enumerate(modes) if md["reg"] in ("rb", "rbd")]
    rf = [i for i, md in enumerate(modes) if md["reg"] == "rf"]
    el = [i for i in range(n) if i not in rb and i not in rf]
    rng = util.rng_of(case["seed"])
    B = np.diag(b).astype(float)
    if (case["form"] == "nonprop" or (case["form"] == "physical" and case.get("gyro"))) and len(el) >= 2:
        X = rng.standard_normal((len(el), len(el)))
        P = X @ X.T
        P *= case["cpl"] * np.sqrt(np.outer(b[el] + 1e-3, b[el] + 1e-3)) / np.abs(P).max()
        B[np.ix_(el, el)] += P
        if case.get("gyro"):
            # gyroscopic (skew-symmetric) part: mass and stiffness stay symmetric, the damping matrix does not
            Y = rng.standard_normal((len(el), len(el)))
            G = Y - Y.T
            B[np.ix_(el, el)] += case["gyro"] * np.abs(P).max() * G / max(np.abs(G).max(), 1e-300)
    fb = None
    if case.get("feedback") and case["form"] == "nonprop" and rb and el and not case.get("rb_given") \
            and not case.get("pre_eig") and not any(md["reg"] == "rbd" for md in modes):
        # velocity feedback into a free coordinate: a zero-stiffness DOF whose damping COLUMN is zero while its ROW is
        # not.  By the documented rule (stiffness and damping rows AND columns below 0.005) it is not a rigid-body mode
        fb = (rb[0], el[0])
        B[fb[0], fb[1]] = 0.5 * np.abs(B).max() + 0.1
    nf = len(case["freq"])
    F = rng.integers(-4, 5, (n, nf)).astype(float)
    if case.get("cforce"):
        F = F + 1j * rng.integers(-4, 5, (n, nf))
    F = F * float(case.get("fscale", 1.0))         # any units: the response is linear in the force
    return dict(n=n, m=m, b=b, k=k, B=B, rb=rb, rf=rf, el=el, F=F, feedback=fb)


def reference(S, freq, incrb, rf_disp_only, direct_rb=False):
    """modal-space reference; returns d, v, a, cond per frequency"""
    n = S["n"]
    rb, rf, el = S["rb"], S["rf"], S["el"]
    M, B, K = np.diag(S["m"]), S["B"], np.diag(S["k"])
    F = S["F"]
    nf = len(freq)
    d = np.zeros((n, nf), complex)
    v = np.zeros((n, nf), complex)
    a = np.zeros((n, nf), complex)
    cnd = np.ones(nf)
    for j, f in enumerate(freq):
        W = 2 * np.pi * f
        dyn = el + (rb if direct_rb else [])
        if dyn:
            ix = np.ix_(dyn, dyn)
            H = -W * W * M[ix] + 1j * W * B[ix] + K[ix]
            d[dyn, j] = la.solve(H, F[dyn, j])
            cnd[j] = np.linalg.cond(H)
            v[dyn, j] = 1j * W * d[dyn, j]
            a[dyn, j] = -W * W * d[dyn, j]
        if rb and not direct_rb:
            # rigid-body rows are uncoupled (modal-space precondition): scalar equations.  For an
            # undamped rb mode this is a = F/m, v = a/(iW), d = -a/W^2; a damped one keeps its iWb term
            # (that is what the dynamic-stiffness equation says; SolveUnc drops it: finding F3)
            for i in rb:
                if W != 0:
                    hi = -W * W * S["m"][i] + 1j * W * S["B"][i, i] + S["k"][i]
                    d[i, j] = F[i, j] / hi
                    v[i, j] = 1j * W * d[i, j]
                    a[i, j] = -W * W * d[i, j]
                else:
                    a[i, j] = F[i, j] / S["m"][i]
        for i in rf:
            d[i, j] = F[i, j] / S["k"][i]
            if not rf_disp_only:
                v[i, j] = 1j * W * d[i, j]
                a[i, j] = -W * W * d[i, j]
    if "d" not in incrb:
        d[rb] = 0
    if "v" not in incrb:
        v[rb] = 0
    if "a" not in incrb:
        a[rb] = 0
    return d, v, a, cnd


def hand_over(case, S):
    """-> (M_in, B_in, K_in, F_in, rb_in, rf_in, transform, kapPhi)"""
    n = S["n"]
    form = case["form"]
    Mm, Bm, Km = np.diag(S["m"]), S["B"], np.diag(S["k"])
    if form == "physical":
        rng = util.rng_of(case["seed"] + 5)
        Q1, _ = np.linalg.qr(rng.standard_normal((n, n)))
        Q2, _ = np.linalg.qr(rng.standard_normal((n, n)))
        s = 10.0 ** rng.uniform(-0.4, 0.4, n)
        Phi = Q1 @ np.diag(s) @ Q2.T
        iP = la.inv(Phi)
        M_in, B_in, K_in = iP.T @ Mm @ iP, iP.T @ Bm @ iP, iP.T @ Km @ iP
        if not np.array_equal(Bm, Bm.T):
            # gyroscopic part present: symmetric and skew parts are cleaned of round-off separately
            Bs_, Bk_ = iP.T @ ((Bm + Bm.T) / 2) @ iP, iP.T @ ((Bm - Bm.T) / 2) @ iP
            B_in = (Bs_ + Bs_.T) / 2 + (Bk_ - Bk_.T) / 2
        else:
            B_in = (B_in + B_in.T) / 2
        M_in, K_in = (M_in + M_in.T) / 2, (K_in + K_in.T) / 2
        kap = np.linalg.cond(Phi) ** 2
        lam_ = np.sort(np.abs(np.where(S["k"] == 0, 0.0, S["k"] / S["m"])))
        gaps = np.diff(np.unique(lam_))
        if case.get("pre_eig") and len(gaps):
            kap *= 1.0 + lam_.max() / gaps.min()
        rf_in = None
        if S["rf"]:
            orderidx = np.argsort(lam_ * 0 + np.abs(np.where(S["k"] == 0, 0.0, S["k"] / S["m"])), kind="stable")
            rf_in = sorted(int(np.nonzero(orderidx == i)[0][0]) for i in S["rf"])
        return M_in, B_in, K_in, iP.T @ S["F"], (None if case.get("pre_eig") else []), rf_in, (lambda q: Phi @ q), 10 * kap
    mform = case["mform"]
    m = S["m"]
    M_in = None if mform == "none" else (m if mform == "vec" else np.diag(m))
    if case.get("mint") and M_in is not None and not np.iscomplexobj(M_in):
        M_in, lab_m = util.repack(M_in, "int")        # whole-number masses held in an integer array
        case["_mass_label"] = lab_m
    diagB = bool(np.all(Bm == np.diag(np.diag(Bm))))
    B_in = np.diag(Bm).copy() if (diagB and case.get("bvec", True)) else Bm
    K_in = S["k"] if case.get("kvec", True) else np.diag(S["k"])
    rb_in = list(S["rb"]) if case.get("rb_given") else None
    rf_in = list(S["rf"]) if S["rf"] else None
    return M_in, B_in, K_in, S["F"], rb_in, rf_in, (lambda q: q), 1.0


def compare(R, name, sol, ref, groups, cnd, kap, tag, kinds_suffix="", nat=None):
    dref, vref, aref = ref
    for q, r_ in (("d", dref), ("v", vref), ("a", aref)):
        got = np.asarray(getattr(sol, q))
        if got.shape != r_.shape:
            R.fail(f"{name}_{q}_shape", f"{got.shape} vs {r_.shape}")
            continue
        for gname, rows in groups.items():
            if not rows:
                continue
            sc = np.maximum(np.abs(r_[rows]).max(axis=0), 1e-300)
            # keep the scale from collapsing where the group response is (numerically) zero:
            # natural magnitude |H^-1||F| of the response at that frequency
            sc = np.maximum(sc, np.abs(r_).max(axis=0) * 1e-6)
            if nat is not None:
                sc = np.maximum(sc, nat[q] * 1e-2)
            err = np.abs(got[rows] - r_[rows]).max(axis=0) / sc
            err[~np.isfinite(err)] = np.inf
            tol = CTOL * EPS * cnd * kap
            worst = float((err / tol).max())
            R.metric(f"{name}_{gname}/tol", worst)
            if worst > 1:
                j = int(np.argmax(err / tol))
                R.fail(f"{name}_{q}_{gname}{kinds_suffix}",
                       f"{tag} freq[{j}] relerr={err[j]:.3e} tol={tol[j]:.3e} cond={cnd[j]:.2e}")


def oracle(case, R):
    from pyyeti import ode
    if case.get("freq_long"):
        # a sweep longer than any plausible internal block (4096 / 8192 points), clear of undamped resonances
        und = [md["f"] for md in case["modes"] if md["reg"] == "el" and md.get("zeta") == 0.0]
        fl = np.linspace(0.31, 41.7, int(case["freq_long"]))
        for u in und:
            fl = np.where(np.abs(fl / u - 1) < 1e-3, u * 1.002, fl)
        case = dict(case, freq=fl.tolist())
    S = build(case)
    n = S["n"]
    freq = np.array(case["freq"], float)
    incrb = case["incrb"]
    rfdo = case["rf_disp_only"]
    form = case["form"]
    rbd = any(md["reg"] == "rbd" for md in case["modes"])
    M_in, B_in, K_in, F_in, rb_in, rf_in, tr, kapPhi = hand_over(case, S)
    for md in case["modes"]:
        R.label("reg=" + md["reg"])
    R.label(f"form={form}", f"incrb={''.join(sorted(incrb)) or 'none'}", f"rfdo={rfdo}",
            "zeroHz" if 0.0 in freq else "nozero", "hyst" if case.get("hyst") else "viscous",
            "cforce" if case.get("cforce") else "rforce", "pre_eig" if case.get("pre_eig") else "no_pre_eig")
    R.nontrivial(len(freq) >= 2 and len(S["el"]) >= 1 and np.any(S["F"][S["el"]] != 0))
    groups = {"el": S["el"], "rb": S["rb"], "rf": S["rf"]}
    if form == "physical":
        groups = {"all": list(range(n))}
    tag = f"form={form} incrb={incrb!r} rfdo={rfdo}" + (" [rb-with-damping]" if rbd else "")
    # natural response magnitude per frequency (unit: displacement), from |F| and the modal dynamic stiffness
    W_ = 2 * np.pi * freq
    natd = np.zeros(len(freq))
    Fabs = np.abs(S["F"])
    daf = np.ones(len(freq))     # dynamic amplification: sensitivity of 1/h to perturbations of k, m
    for j, w_ in enumerate(W_):
        hs = []
        for i in range(n):
            hij = abs(-w_ * w_ * S["m"][i] + 1j * w_ * S["B"][i, i] + S["k"][i])
            if i in S["rf"]:
                hij = abs(S["k"][i])
            if hij > 0:
                hs.append(hij)
                daf[j] = max(daf[j], (abs(S["k"][i]) + w_ * w_ * abs(S["m"][i])) / hij)
        # (forces leak between modes at round-off level in the physical forms: use the softest mode)
        natd[j] = Fabs[:, j].max() / min(hs) if hs else 0.0
        if form == "physical" and hs:
            # the solver sees rounded physical matrices: a relative perturbation eps of K, M reaches every
            # modal equation with the size of the LARGEST modal term, so the softest mode's response carries
            # eps * max_i(|k_i| + W^2 |m_i|) / min_i |h_i|  (= eps * cond(K) for the static solution)
            big = max(abs(S["k"][i]) + (0.0 if i in S["rf"] else w_ * w_ * abs(S["m"][i])) for i in range(n))
            daf[j] = max(daf[j], big / min(hs))
    nrmPhi = 1.0
    nata = np.maximum(natd * W_ ** 2, (Fabs / np.abs(S["m"])[:, None]).max(axis=0))
    nat = {"d": natd * nrmPhi, "v": natd * np.abs(W_) * nrmPhi, "a": nata * nrmPhi}
    # --- SolveUnc
    dref, vref, aref, cnd = reference(S, freq, incrb, rfdo, direct_rb=False)
    ref_phys = (tr(dref), tr(vref), tr(aref))
    rb_list, rf_list = rb_in, rf_in
    rb_in, l1 = util.partition_form(rb_list, n, case.get("ppack", "list"), case["seed"] + 31)
    rf_in, l2 = util.partition_form(rf_list, n, case.get("ppack", "list"), case["seed"] + 32)
    if case.get("rb_perm") and rb_list:
        rb_in, l1 = np.array(rb_list)[case["rb_perm"]], "listed"
    if case.get("rf_perm") and rf_list:
        rf_in, l2 = np.array(rf_list)[case["rf_perm"]], "listed"
    R.label("partition:" + (l1 if l1 != "asis" else l2))
    kw = dict(rb=rb_in, rf=rf_in, pre_eig=bool(case.get("pre_eig")))
    # the same object may be set up for time-domain use (step h: conjugate eigenpairs are trimmed and have to
    # be restored for the frequency-domain solve) and may already have solved a transient
    hstep = case.get("h")
    tsu = ode.SolveUnc(M_in, B_in, K_in, **kw) if hstep is None else ode.SolveUnc(M_in, B_in, K_in, hstep, **kw)
    if case.get("gyro") and form in ("nonprop", "physical") and len(S["el"]) >= 2:
        R.label("damping:nonsymmetric")
    if S.get("feedback") and form == "nonprop" and not case.get("rb_given") and not case.get("pre_eig"):
        # only the classification is checked here (the response of such a system has a double zero eigenvalue:
        # outside the domain of the accuracy checks below)
        Kd = np.diag(K_in) if np.ndim(K_in) == 1 else np.asarray(K_in)
        Bd = np.diag(B_in) if np.ndim(B_in) == 1 else np.asarray(B_in)
        nonrf = [d_ for d_ in range(n) if d_ not in (rf_list or [])]
        ix_ = np.ix_(nonrf, nonrf)
        Kn, Bn = np.abs(Kd[ix_]), np.abs(Bd[ix_])
        want_rb = [nonrf[q_] for q_ in range(len(nonrf))
                   if Kn[q_].max() < 0.005 and Kn[:, q_].max() < 0.005 and Bn[q_].max() < 0.005 and Bn[:, q_].max() < 0.005]
        import warnings
        with warnings.catch_warnings():
            warnings.simplefilter("ignore")
            for nm_, obj_ in (("SolveUnc", ode.SolveUnc(M_in, B_in, K_in, rf=rf_in)),
                              ("FreqDirect", ode.FreqDirect(M_in, B_in, K_in, rf=rf_in))):
                got_rb = sorted(np.arange(n)[obj_.rb].tolist())
                R.check(got_rb == sorted(want_rb), f"{nm_}_automatic_rigid_body_set",
                        f"detected {got_rb}, documented rule gives {sorted(want_rb)} (feedback DOF {S['feedback'][0]})")
        R.label("feedback:classification_only")
        R.nontrivial(True)
        return
    R.label("mass:int_dtype" if case.pop("_mass_label", "") == "int" else "mass:float")
    R.label("h=None" if hstep is None else "h_given")
    R.label("freq:two_sided" if np.any(freq < 0) else "freq:nonneg")
    if hstep is not None and case.get("tsolve_first"):
        tsu.tsolve(np.real(F_in[:, :1]) @ np.ones((1, 4)))
        R.label("tsolve_first")
    F_call, lab_ = util.repack(F_in, case.get("fpack", "same"))
    fq_call = freq.tolist() if case.get("freq_list") else freq
    R.label("force:" + lab_)
    su = tsu.fsolve(F_call, fq_call, incrb=incrb, rf_disp_only=rfdo)
    R.check(np.array_equal(np.asarray(F_call), F_in), "fsolve_modifies_force", lab_)
    R.label("su_unc" if tsu.unc else "su_coupled")
    kap_su = kapPhi
    if not tsu.unc and S["el"]:
        el = S["el"]
        ix = np.ix_(el, el)
        A = np.block([[-la.solve(np.diag(S["m"])[ix], S["B"][ix]), -la.solve(np.diag(S["m"])[ix], np.diag(S["k"])[ix])],
                      [np.eye(len(el)), np.zeros((len(el), len(el)))]])
        lam, V = la.eig(A)
        V = V / np.linalg.norm(V, axis=0)
        gap = np.min(np.abs(lam[:, None] - lam[None, :]) + np.eye(len(lam)) * 1e30) / max(1.0, np.abs(lam).max())
        if gap < 1e-6:
            R.label("out_of_domain:repeated_roots")
            return
        kap_su = kapPhi * np.linalg.cond(V)
        nre = int(np.sum(np.abs(lam.imag) <= 1e-9 * np.maximum(np.abs(lam), 1e-300)))
        R.label("eig:all_complex" if nre == 0 else ("eig:all_real" if nre == len(lam) else "eig:mixed"),
                "eig:mixed+h" if (0 < nre < len(lam) and hstep is not None) else "eig:other")
    R.check(np.array_equal(np.asarray(su.f), freq), "SolveUnc_freq_vector")
    compare(R, "SolveUnc", su, ref_phys, groups, cnd * (daf if form == "physical" else 1.0), kap_su, tag, nat=nat)
    # --- FreqDirect (no 0 Hz with rigid-body modes: documented divide by zero)
    fd_ok = not (S["rb"] and 0.0 in freq) and not case.get("pre_eig")
    if fd_ok:
        d2, v2, a2, cnd2 = reference(S, freq, incrb, rfdo, direct_rb=True)
        fd = ode.FreqDirect(M_in, B_in, K_in, rb=rb_in, rf=rf_in).fsolve(F_call, fq_call, incrb=incrb, rf_disp_only=rfdo)
        compare(R, "FreqDirect", fd, (tr(d2), tr(v2), tr(a2)), groups, cnd2 * (daf if form == "physical" else 1.0), kapPhi, tag, nat=nat)
        if not rbd:
            # both solvers on identical input
            for q in "dva":
                x, y = np.asarray(getattr(su, q)), np.asarray(getattr(fd, q))
                sc = np.maximum(np.abs(y).max(axis=0), 1e-300)
                err = np.abs(x - y).max(axis=0) / sc
                tol = 2 * CTOL * EPS * np.maximum(cnd, cnd2) * max(kap_su, kapPhi) * (daf if form == "physical" else 1.0)
                R.metric("su_vs_fd/tol", float((err / tol).max()))
                R.check(bool(np.all(err <= tol)), f"SolveUnc_vs_FreqDirect_{q}", f"{tag} worst={float((err / tol).max()):.2e}")
    # --- residual of the dynamic-stiffness equation on the elastic rows (modal forms)
    if form != "physical" and S["el"] and "FreqDirect" not in R.labels:
        el = S["el"]
        ix = np.ix_(el, el)
        Mm, Bm, Km = np.diag(S["m"])[ix], S["B"][ix], np.diag(S["k"])[ix]
        for j, f in enumerate(freq):
            W = 2 * np.pi * f
            res = Mm @ su.a[el, j] + Bm @ su.v[el, j] + Km @ su.d[el, j] - S["F"][el, j]
            mag = (np.abs(Mm) @ np.abs(su.a[el, j]) + np.abs(Bm) @ np.abs(su.v[el, j])
                   + np.abs(Km) @ np.abs(su.d[el, j]) + np.abs(S["F"][el, j])).max()
            r = np.abs(res).max() / max(mag, 1e-300)
            R.metric("eom_residual/eps", r / EPS)
            R.check(r <= CTOL * EPS * (np.linalg.cond(V) if not tsu.unc else 1.0), "SolveUnc_eom_residual",
                    f"{tag} f={f} residual={r:.2e}")
            R.check(np.allclose(su.v[el, j], 1j * W * su.d[el, j], rtol=1e-12, atol=0) and
                    np.allclose(su.a[el, j], -W * W * su.d[el, j], rtol=1e-12, atol=0), "v_a_relations",
                    f"{tag} f={f}")


def oracle_psd(case, R):
    from pyyeti import ode
    S = build(case)
    n = S["n"]
    freq = np.array(case["freq"], float)
    incrb, rfdo = case["incrb"], case["rf_disp_only"]
    M_in, B_in, K_in, F_in, rb_in, rf_in, tr, kapPhi = hand_over(case, S)
    rng = util.rng_of(case["seed"] + 77)
    nfrc = case["nforce"]
    nf = len(freq)
    fpsd = rng.uniform(0.1, 3.0, (nfrc, nf))
    t_frc = rng.standard_normal((n, nfrc))
    # structured force transformations: a force that loads no modal equation at all (it reaches the recovered
    # items through the force DRM only) and forces that load a single equation
    for i_, kind_ in enumerate(case.get("tfrc_cols", [])[:nfrc]):
        if kind_ == "zero":
            t_frc[:, i_] = 0.0
        elif kind_ == "unit":
            t_frc[:, i_] = 0.0
            t_frc[i_ % n, i_] = 1.0
    for kind_ in set(case.get("tfrc_cols", [])[:nfrc]):
        R.label("tfrc:" + kind_)
    drms = []
    for q in case["drms"]:
        nr = q["rows"]
        quad = []
        for key, width in (("a", n), ("v", n), ("d", n), ("f", nfrc)):
            quad.append(rng.standard_normal((nr, width)) if q[key] else None)
        drms.append(quad)
    which = case["solver"]
    if which == "FreqDirect" and ((S["rb"] and 0.0 in freq)):
        which = "SolveUnc"
    R.label(which, f"nforce={nfrc}", f"ndrm={len(drms)}")
    R.nontrivial(nf >= 2 and nfrc >= 1 and any(any(x is not None for x in qd[:3]) for qd in drms))
    fs = ode.SolveUnc(M_in, B_in, K_in, rb=rb_in, rf=rf_in) if which == "SolveUnc" else \
        ode.FreqDirect(M_in, B_in, K_in, rb=rb_in, rf=rf_in)
    rbduf, elduf = case["rbduf"], case["elduf"]
    rms, psd = ode.solvepsd(fs, fpsd, t_frc, freq, drms, rbduf=rbduf, elduf=elduf, incrb=incrb, rf_disp_only=rfdo)
    # reference
    want = [np.zeros((qd["rows"], nf)) for qd in case["drms"]]
    cmax = 1.0
    for i in range(nfrc):
        S2 = dict(S, F=t_frc[:, i:i + 1] @ np.ones((1, nf)))
        d, v, a, cnd = reference(S2, freq, incrb, rfdo, direct_rb=(which == "FreqDirect"))
        cmax = max(cmax, cnd.max())
        for arr in (d, v, a):
            arr[S["rb"]] *= rbduf
            arr[S["el"]] *= elduf
        for j, (da, dv, dd, df) in enumerate(drms):
            frf = np.zeros((case["drms"][j]["rows"], nf), complex)
            if da is not None:
                frf += da @ a
            if dv is not None:
                frf += dv @ v
            if dd is not None:
                frf += dd @ d
            if df is not None:
                frf += df[:, i:i + 1] @ np.ones((1, nf))
            want[j] += fpsd[i] * np.abs(frf) ** 2
    tol = 4 * CTOL * EPS * cmax
    for j in range(len(drms)):
        sc = max(np.abs(want[j]).max(), 1e-300)
        e = np.abs(np.asarray(psd[j]) - want[j]).max() / sc
        R.metric("psd/tol", e / tol)
        R.check(e <= tol, "solvepsd_psd", f"drm {j}: relerr={e:.2e} tol={tol:.2e}")
        # rms = sqrt of own trapezoid area
        area = np.zeros(want[j].shape[0])
        for c in range(nf - 1):
            area += (freq[c + 1] - freq[c]) * (want[j][:, c] + want[j][:, c + 1]) / 2
        wr = np.sqrt(area)
        e = np.abs(np.asarray(rms[j]) - wr).max() / max(wr.max(), 1e-300)
        R.metric("rms/tol", e / tol)
        R.check(e <= tol, "solvepsd_rms", f"drm {j}: relerr={e:.2e}")


# ---------------------------------------------------------------- generators

@st.composite
def freq_cases(draw, form, psd=False):
    nmax = 6 if form == "diag" else 4
    n = draw(st.integers(1, nmax))
    hyst = form == "diag" and draw(st.booleans())
    modes = []
    used = []
    for i in range(n):
        allow = ["el"] * 7 + ["rb"] * 3 + ["rf"] * 3 + (["rbd"] if (form == "diag" and not psd) else [])
        reg = draw(st.sampled_from(allow))
        md = {"reg": reg, "m": draw(st.sampled_from([1.0, 0.5, 2.0, 10.0]))}
        if reg in ("el", "rf"):
            f = 10.0 ** draw(st.floats(-0.5, 2.5))
            while any(abs(f / u - 1) < 0.05 for u in used):
                f *= 1.13
            used.append(f)
            md["f"] = f
            md["zeta"] = draw(st.sampled_from([0.0, 0.001, 0.02, 0.1, 0.7, 1.0, 3.0]))
            md["eta"] = draw(st.sampled_from([0.0, 0.01, 0.1]))
        if reg == "rbd":
            md["b"] = draw(st.sampled_from([0.5, 2.0]))
        modes.append(md)
    if form != "diag" and n >= 2 and draw(st.integers(0, 3)):
        for i in (0, 1):
            if modes[i]["reg"] != "el":
                f = 10.0 ** draw(st.floats(-0.5, 2.5))
                while any(abs(f / u - 1) < 0.05 for u in used):
                    f *= 1.13
                used.append(f)
                modes[i] = {"reg": "el", "m": 1.0, "f": f, "zeta": draw(st.sampled_from([0.02, 0.1, 0.7])), "eta": 0.0}
    if form == "physical":
        # rf after pre_eig = highest modes
        mx = max([md["f"] for md in modes if md["reg"] == "el"] + [0.0])
        for md in modes:
            if md["reg"] == "rf" and md["f"] <= mx * 1.2:
                md["f"] = mx * 1.5
                mx = md["f"]
    has_part = any(md["reg"] in ("rb", "rf") for md in modes)
    pre_eig = form == "physical" and (has_part or draw(st.booleans()))
    mform = draw(st.sampled_from(["none", "vec", "mat"])) if form != "physical" else "mat"
    if mform == "none":
        for md in modes:
            md["m"] = 1.0
    # frequencies
    elf = [md["f"] for md in modes if md["reg"] == "el"] or [1.0]
    undamped = [md["f"] for md in modes if md["reg"] == "el" and md["zeta"] == 0.0 and not (hyst and md["eta"] > 0)]
    nf = draw(st.integers(1, 12)) if not psd else draw(st.integers(2, 10))
    freq = []
    for _ in range(nf):
        kind = draw(st.sampled_from(["log", "log", "near", "zero"]))
        if kind == "zero" and not psd:
            f = 0.0
        elif kind == "near":
            f0 = draw(st.sampled_from(elf))
            f = f0 * (1 + draw(st.sampled_from([1e-3, -1e-3, 1e-6, -1e-6, 0.0])))
        else:
            f = draw(st.sampled_from(elf)) * 10.0 ** draw(st.floats(-2, 1))
        # stay 1e-3 away from undamped resonances
        for u in undamped:
            if abs(f / u - 1) < 1e-3:
                f = u * 1.002
        freq.append(float(f))
    if any(md["reg"] == "rbd" for md in modes):
        freq = [f if f != 0.0 else 0.37 for f in freq]
    # two-sided spectra (FFT bin order, sweeps through 0 Hz): the equation is the same for W < 0
    if not psd and draw(st.sampled_from([False, False, False, True])):
        freq = [-f if draw(st.booleans()) else f for f in freq]
    if psd:
        freq = sorted(set(freq))
        if len(freq) < 2:
            freq = [freq[0], freq[0] * 1.5]
    if hyst or form != "diag":
        for md in modes:
            if md.get("zeta") == 1.0:
                md["zeta"] = 0.7
    case = {"form": form, "modes": modes, "freq": freq, "seed": draw(st.integers(0, 2 ** 31)), "mform": mform,
            "hyst": hyst, "cmass": form in ("diag", "nonprop") and mform != "none" and draw(st.integers(0, 4)) == 0,
            "cforce": draw(st.booleans()), "incrb": draw(st.sampled_from(LETTERS)),
            "rf_disp_only": draw(st.booleans()), "rb_given": draw(st.booleans()), "bvec": draw(st.booleans()),
            "kvec": draw(st.booleans()), "pre_eig": pre_eig, "cpl": draw(st.sampled_from([0.05, 0.3, 0.8]))}
    case["fpack"] = draw(st.sampled_from(["same", "same", "int", "list", "fortran", "strided", "readonly"]))
    case["ppack"] = draw(st.sampled_from(util.PART_FORMS))
    case["fscale"] = draw(st.sampled_from([1.0, 1.0, 1.0, 1e-12, 2.0 ** -30, 1e10]))
    case["mint"] = draw(st.booleans())
    case["gyro"] = draw(st.sampled_from([0.0, 0.0, 0.5, 2.0]))
    case["feedback"] = form == "nonprop" and draw(st.integers(0, 2)) == 0
    if case["mint"]:
        for md in modes:
            if md["m"] == 0.5:
                md["m"] = 3.0                     # whole-number masses only, so that an integer array can hold them
    case["freq_list"] = draw(st.booleans())
    if not hyst and not case["cmass"] and not psd and draw(st.booleans()):
        case["h"] = draw(st.sampled_from([0.01, 0.001, 0.1]))
        case["tsolve_first"] = draw(st.booleans())
    if not case["rb_given"]:
        # auto-detection: elastic k must be >= 0.005 (documented); all el/rf here have k >= m*(2 pi 0.3)^2 > 3 m
        pass
    if psd:
        case.update(tfrc_cols=[draw(st.sampled_from(["full", "full", "full", "zero", "unit"])) for _ in range(3)])
        case.update(nforce=draw(st.integers(1, 3)), solver=draw(st.sampled_from(["SolveUnc", "FreqDirect"])),
                    rbduf=draw(st.sampled_from([1.0, 1.2])), elduf=draw(st.sampled_from([1.0, 1.5])),
                    drms=[{"rows": draw(st.integers(1, 3)), "a": draw(st.booleans()), "v": draw(st.booleans()),
                           "d": True if k_ == 0 else draw(st.booleans()), "f": draw(st.booleans())}
                          for k_ in range(draw(st.integers(1, 3)))])
        for q_ in case["drms"]:
            if not (q_["a"] or q_["v"] or q_["d"] or q_["f"]):
                q_["a"] = True      # a quadruple with no DRM at all is not a meaningful request
    return case


@st.composite
def long_freq_cases(draw, form):
    c = draw(freq_cases(form))
    c["freq_long"] = draw(st.sampled_from([4097, 5000, 8193, 12289]))
    c["modes"] = c["modes"][:4]
    c["freq"] = [1.0]
    return c


def enum_partitions(shard, nshards, tier):
    """block layouts x every listing order of a 4-mode residual-flexibility set and a 2-mode rigid-body set:
    uncoupled and coupled damping, the three blocks in every order (all partitions contiguous) and interleaved"""
    i = 0
    blocks = {"rb": [{"reg": "rb", "m": 1.0}, {"reg": "rb", "m": 0.5}],
              "el": [{"reg": "el", "m": 1.0, "f": 1.3, "zeta": 0.02, "eta": 0.0},
                     {"reg": "el", "m": 2.0, "f": 3.1, "zeta": 0.1, "eta": 0.0}],
              "rf": [{"reg": "rf", "m": 1.0, "f": 40.0 * (1 + 0.37 * j), "zeta": 0.02, "eta": 0.0} for j in range(4)]}
    layouts = [list(p) for p in itertools.permutations(["rb", "el", "rf"])] + [["mixed"]]
    for form in ("diag", "nonprop"):
        for lay in layouts:
            if lay == ["mixed"]:
                modes = [blocks["rf"][0], blocks["rb"][0], blocks["el"][0], blocks["rf"][1], blocks["rf"][2],
                         blocks["el"][1], blocks["rb"][1], blocks["rf"][3]]
            else:
                modes = [md for b_ in lay for md in blocks[b_]]
            for rfp in itertools.permutations(range(4)):
                for rbp in ([0, 1], [1, 0]):
                    i += 1
                    if i % nshards != shard:
                        continue
                    mform = ["vec", "mat", "none"][i % 3] if form == "diag" else "mat"
                    yield {"form": form, "modes": [dict(md, m=1.0) if mform == "none" else dict(md) for md in modes],
                           "freq": [0.0, 0.7, 1.31, 5.0], "seed": i, "mform": mform, "hyst": False,
                           "cmass": False, "cforce": bool(i % 2), "incrb": LETTERS[i % len(LETTERS)],
                           "rf_disp_only": bool((i // 2) % 2), "rb_given": True, "bvec": bool(i % 2),
                           "kvec": bool((i // 3) % 2), "pre_eig": False, "cpl": 0.3, "fpack": "same",
                           "freq_list": False, "rf_perm": list(rfp), "rb_perm": rbp}


PARTS = [
    Part("partition_grid", oracle, enum=enum_partitions, quick=(8, None), thorough=(8, None), exhaustive=True),
    Part("diag", oracle, strategy=lambda: freq_cases("diag"), quick=(8, 150), thorough=(16, 3000)),
    Part("nonprop", oracle, strategy=lambda: freq_cases("nonprop"), quick=(4, 120), thorough=(16, 1500)),
    Part("physical", oracle, strategy=lambda: freq_cases("physical"), quick=(4, 120), thorough=(16, 1500)),
    Part("long_diag", oracle, strategy=lambda: long_freq_cases("diag"), quick=(4, 5), thorough=(8, 25)),
    Part("long_nonprop", oracle, strategy=lambda: long_freq_cases("nonprop"), quick=(4, 8), thorough=(8, 40)),
    Part("solvepsd", oracle_psd, strategy=lambda: freq_cases("diag", psd=True), quick=(4, 80), thorough=(16, 800)),
    # documented defaults: leaving a keyword out = passing its documented value (vlib/defaults.py)
    Part("defaults", defaults.make_oracle("C02"), enum=defaults.make_enum(), quick=(1, None), thorough=(1, None),
         exhaustive=True),
]
