"""C12 - Nastran number fields (width, parse-back, best precision) and generic card round trip."""
import io
import math
from fractions import Fraction

import numpy as np
from hypothesis import strategies as st

from refs import nasfield
from vlib import defaults
from vlib.core import Part

PROPERTY = "C12"
RULE = ("grid: every decade 1e-300..1e300 x rounding-sensitive mantissas (1, 1.5, 9.4999.., "
        "9.5, 9.99..95 / 94 with 3..16 nines, 4.99.., 5.00..1, ...) x sign x {float8, float16, "
        "double16}, enumerated; floats: hypothesis doubles over the whole finite range plus the "
        "formatter branch thresholds +-ulps; cards: 1..60 fields of blank/int/float/string, "
        "8/16/16d fixed formats and an independently written comma form.  Oracle: exact width, "
        "exact-rational parse of the text within 1.01*half a unit of the last digit the width "
        "allows (refs/nasfield), nas_sscanf == correctly rounded value of the text, cards read "
        "back field for field.  Non-trivial: |x| outside [1e-3,1e6) or rounding-sensitive "
        "mantissa; card with a continuation line and an interior blank.")
ASSUME = ["Python float()/Fraction/Decimal are exact / correctly rounded",
          "best achievable digits computed for normalised mantissa renderings"]
KNOWN = {}

FORMATS = {"f8": (8, "e"), "f16": (16, "e"), "d16": (16, "d")}


def _fmt(name):
    from pyyeti import nastran
    return {"f8": nastran.format_float8, "f16": nastran.format_float16,
            "d16": nastran.format_double16}[name]


def check_field(x, name, R, sensitive=False):
    from pyyeti import nastran
    width, style = FORMATS[name]
    s = _fmt(name)(x)
    tag = f"{name} x={x!r} field={s!r}"
    if not R.check(isinstance(s, str) and len(s) == width, f"{name}_width", tag):
        return
    try:
        T, isreal = nasfield.parse_exact(s)
    except ValueError:
        R.fail(f"{name}_not_a_number", tag)
        return
    if not isreal:
        R.label(f"{name}:int_looking_real")
    v = nastran.nas_sscanf(s)
    # parse-back: the reader must return the correctly rounded value of the text
    if v is None or isinstance(v, str):
        R.fail(f"{name}_parse_none", tag)
    else:
        want = T.numerator / T.denominator if T.denominator != 1 or isreal else int(T)
        R.check(v == want, f"{name}_parse_value", f"{tag} parsed={v!r} want={want!r}")
    if x == 0:
        R.check(T == 0, f"{name}_zero", tag)
        return
    hu, D, e = nasfield.half_unit(x, width, style)
    err = abs(T - Fraction(x))
    ratio = float(err / hu)
    R.metric(f"{name}_err_in_half_units", ratio)
    R.check(err <= hu * Fraction(101, 100), f"{name}_precision",
            f"{tag} err={ratio:.4f} half-units at D={D} e={e}")
    R.nontrivial(sensitive or not (1e-3 <= abs(x) < 1e6))
    R.label(f"{name}:{'neg' if x < 0 else 'pos'}",
            f"{name}:{'sci' if (e < -3 or e > 5) else 'fix'}")


def in_domain(x):
    """the property quantifies over decades 1e-300 .. 1e300 (and zero)"""
    return x == 0 or 1e-300 <= abs(x) <= 1e300


def oracle_float(case, R):
    x = float(case["x"])
    if not in_domain(x):
        R.label("out_of_domain")
        return
    for name in case.get("fmts", ["f8", "f16", "d16"]):
        check_field(x, name, R, case.get("sensitive", False))


MANTISSAS = None


def mantissas():
    global MANTISSAS
    if MANTISSAS is None:
        m = ["1", "1.5", "2.5", "1.2345678901234567", "9.4999999", "9.5", "1.00000005",
             "1.0000005", "1.000000000000005", "3.3333333333333335", "6.666666666666667",
             "7.5", "9.9", "9.95", "9.949999", "1.05", "1.0049999", "8.5", "4.5"]
        for k in range(3, 17):
            m += ["9." + "9" * k + "5", "9." + "9" * k + "4", "4." + "9" * k,
                  "5." + "0" * k + "1", "9." + "9" * k, "1." + "0" * k + "49"]
        MANTISSAS = m
    return MANTISSAS


def enum_grid(shard, nshards, tier):
    decs = list(range(-300, 301))
    if tier == "quick":
        decs = [d for d in decs if abs(d) <= 20 or d % 7 == 0 or abs(abs(d) - 100) <= 1
                or abs(d) >= 299]
    i = 0
    for d in decs:
        for m in mantissas():
            for sg in ("", "-"):
                i += 1
                if i % nshards == shard:
                    yield {"x": float(f"{sg}{m}e{d}"), "sensitive": True}


THRESH = [5e-8, 0.001, 1.0, 10.0, 100.0, 1e3, 1e4, 1e5, 1e6, 1e7, 9999999.5, 999999.5,
          5e-7, 0.01, 5e-16, 5e-15, 1e8, 1e9, 1e10, 1e11, 1e12, 1e13, 1e14, 1e15,
          99999999999999.5, 999999999999999.5, 9999999999999.5, 1e16, 1e99, 1e100, 1e-99,
          1e-100, 1e-10, 1e-9, 9.9995e9, 9.99995e9, 9.9999999999995e99]


@st.composite
def floats(draw):
    kind = draw(st.sampled_from(["any", "thresh", "mid", "round_up", "subnormal"]))
    if kind == "any":
        x = draw(st.floats(allow_nan=False, allow_infinity=False))
    elif kind == "thresh":
        t = draw(st.sampled_from(THRESH)) * draw(st.sampled_from([1, -1]))
        k = draw(st.integers(-4, 4))
        x = t
        for _ in range(abs(k)):
            x = math.nextafter(x, math.inf if k > 0 else -math.inf)
    elif kind == "mid":
        x = draw(st.floats(1e-12, 1e18)) * draw(st.sampled_from([1, -1]))
    elif kind == "round_up":
        nines = draw(st.integers(1, 17))
        tail = draw(st.sampled_from(["", "4", "5", "49", "51", "6"]))
        d = draw(st.integers(-310, 305))
        try:
            x = float(f"{draw(st.sampled_from(['', '-']))}9.{'9' * nines}{tail}e{d}")
        except OverflowError:
            x = 9.99e300
        if math.isinf(x):
            x = 9.99e300
    else:
        x = draw(st.floats(-1e-300, 1e-300, allow_nan=False))
    return {"x": x, "sensitive": kind in ("thresh", "round_up")}


# ------------------------------------------------------------------ cards

FORBIDDEN = {"INF", "INFINITY", "NAN"}
letters = "ABCDEFGHIJKLMNOPQRSTUVWXYZ"
strings = st.builds(lambda a, b: a + b, st.sampled_from(letters),
                    st.text(letters + "0123456789", max_size=7)).filter(
                        lambda s: s not in FORBIDDEN)


def field_strategy(width):
    lim = 10 ** (width - 1) - 1
    return st.one_of(
        st.just(""),
        st.integers(-lim, 10 * lim + 9),
        st.floats(-1e300, 1e300, allow_nan=False).filter(in_domain),
        st.floats(-1e7, 1e7, allow_nan=False).filter(in_domain),
        strings)


@st.composite
def cards(draw):
    fmt = draw(st.sampled_from(["8", "16", "16d"]))
    width = 8 if fmt == "8" else 16
    # card names up to the full width of the name field: 8 characters in small field format, 7 + "*" in large
    # field format (a quarter of the cases fill it exactly)
    nmax = 7 if fmt == "8" else 6
    name = draw(st.builds(lambda a, b: a + b, st.sampled_from(letters),
                          st.text(letters + "0123456789", max_size=nmax)
                          if draw(st.integers(0, 3)) else st.text(letters + "0123456789", min_size=nmax, max_size=nmax)))
    ncards = draw(st.integers(1, 3))
    out = []
    for _ in range(ncards):
        n = draw(st.integers(1, 60) if draw(st.booleans()) else st.integers(1, 20))
        flds = draw(st.lists(field_strategy(width), min_size=n, max_size=n))
        out.append(flds)
    return {"fmt": fmt, "name": name, "cards": out,
            "contmark": draw(st.booleans()), "lower": draw(st.booleans()),
            "comma_star": fmt != "8" and draw(st.booleans())}


def _strip_trailing(lst):
    lst = list(lst)
    while lst and lst[-1] == "":
        lst.pop()
    return lst


def _field_text(v, fmt):
    from pyyeti import nastran
    if isinstance(v, float):
        return {"8": nastran.format_float8, "16": nastran.format_float16,
                "16d": nastran.format_double16}[fmt](v).strip()
    return str(v)


def _same_field(got, want, fmt, R, where):
    width = 8 if fmt == "8" else 16
    if want == "":
        return R.check(got == "", "card_blank", f"{where} got={got!r}")
    if isinstance(want, str):
        return R.check(got == want, "card_string", f"{where} got={got!r} want={want!r}")
    if isinstance(want, int):
        return R.check(type(got) is int and got == want, "card_int",
                       f"{where} got={got!r} want={want!r}")
    # float: compare numerically to the precision of the field
    if not isinstance(got, (int, float)) or isinstance(got, bool):
        return R.fail("card_float_type", f"{where} got={got!r} want={want!r}")
    if want == 0:
        return R.check(got == 0, "card_float", f"{where} got={got!r}")
    hu, D, e = nasfield.half_unit(want, width, "d" if fmt == "16d" else "e")
    tol = hu * Fraction(101, 100) + Fraction(abs(want)) * Fraction(4, 2 ** 52)
    return R.check(abs(Fraction(got) - Fraction(want)) <= tol, "card_float",
                   f"{where} got={got!r} want={want!r}")


def oracle_cards(case, R):
    from pyyeti import nastran
    fmt = case["fmt"]
    name = case["name"] + ("*" if fmt != "8" else "")
    wt = {"8": nastran.wtcard8, "16": nastran.wtcard16, "16d": nastran.wtcard16d}[fmt]
    f = io.StringIO()
    for flds in case["cards"]:
        wt(f, [name] + list(flds))
    text = f.getvalue()
    per_line = 8 if fmt == "8" else 4
    for ln in text.splitlines():
        R.check(len(ln) <= 72 + 8, "card_line_length", repr(ln))
    rd = nastran.rdcards(io.StringIO(text), case["name"], return_var="list")
    # trailing blank fields carry no information (rdcards documents that it
    # does not know card lengths); compare modulo trailing blanks
    if rd is not None:
        rd = [_strip_trailing(c) for c in rd]
    want = [_strip_trailing(c) for c in case["cards"]]
    ok = R.check(rd is not None and len(rd) == len(want), "card_count",
                 f"read {None if rd is None else len(rd)} cards, wrote {len(want)}: {text[:300]!r}")
    nontriv = False
    if ok:
        for ci, (g, w) in enumerate(zip(rd, want)):
            if not R.check(len(g) == len(w), "card_nfields",
                           f"fmt={fmt} card {ci}: read {len(g)} fields, wrote {len(w)}: {g!r} vs {w!r}"):
                continue
            for k, (a, b) in enumerate(zip(g, w)):
                _same_field(a, b, fmt, R, f"fmt={fmt} card {ci} field {k}")
            if len(w) > per_line and "" in w[:-1]:
                nontriv = True
    # keep_name=True only adds the card name in front of the same fields
    def with_name(txt, plain, tag):
        rn = nastran.rdcards(io.StringIO(txt), case["name"], return_var="list", keep_name=True)
        if plain is None or not R.check(rn is not None and len(rn) == len(plain), f"{tag}_keep_name_count",
                                        f"{None if rn is None else len(rn)} vs {len(plain)}"):
            return
        for ci, (g, w) in enumerate(zip(rn, plain)):
            g = _strip_trailing(list(g))
            okn = len(g) >= 1 and str(g[0]).lower().rstrip("*") == str(case["name"]).lower()   # (large-field cards keep their "*")
            R.check(okn and len(g) - 1 == len(w) and all(
                (x == y) or (isinstance(x, float) and isinstance(y, float) and x == y)
                for x, y in zip(g[1:], w)), f"{tag}_keep_name_fields",
                f"card {ci}: with name {g!r} vs without {w!r}")
    with_name(text, rd, "fixed")
    # independently written comma form of the same cards
    lines = []
    for flds in case["cards"]:
        w = _strip_trailing(flds)
        first = True
        k = 0
        while first or w:
            chunk, w = w[:8], w[8:]
            last = not w
            toks = [_field_text(v, fmt) for v in chunk]
            if last:
                while toks and toks[-1] == "":
                    toks.pop()
            else:
                toks += [""] * (8 - len(toks))
            head = ((case["name"].lower() if case["lower"] else case["name"])
                    + ("*" if case.get("comma_star") else "")) if first \
                else ("+C%d" % k if case["contmark"] else "")
            tail = [("+C%d" % (k + 1))] if (case["contmark"] and not last) else []
            line = ",".join([head] + toks + tail)
            lines.append(line if toks or tail or not first else line + ",")
            first = False
            k += 1
    ctext = "\n".join(lines) + "\n"
    if all("," in ln for ln in self_first_lines(case, ctext)):
        rc = nastran.rdcards(io.StringIO(ctext), case["name"], return_var="list")
        if rc is not None:
            rc = [_strip_trailing(c) for c in rc]
        if R.check(rc is not None and len(rc) == len(want), "comma_count", ctext[:300]):
            for ci, (g, w) in enumerate(zip(rc, want)):
                if not R.check(len(g) == len(w), "comma_nfields",
                               f"card {ci}: {g!r} vs {w!r} text={ctext[:200]!r}"):
                    continue
                for k, (a, b) in enumerate(zip(g, w)):
                    _same_field(a, b, fmt, R, f"comma card {ci} field {k}")
            with_name(ctext, rc, "comma")
            if ok and rd is not None and len(rd) == len(rc):
                R.check(all(len(a) == len(b) and all(
                    (x == y) or (isinstance(x, float) and isinstance(y, float) and x == y)
                    for x, y in zip(a, b)) for a, b in zip(rd, rc)),
                    "fixed_vs_comma", f"{rd!r} vs {rc!r}")
        R.label("comma_checked")
    R.nontrivial(nontriv)
    R.label(f"fmt{fmt}", "multi" if len(want) > 1 else "single",
            "cont" if any(len(w) > per_line for w in want) else "nocont")


def self_first_lines(case, ctext):
    """first line of every card in the comma text (a card whose first line has
    no comma would be read by the fixed-field reader: skip the comma comparison)"""
    out = []
    for ln in ctext.splitlines():
        if ln.lower().startswith(case["name"].lower()):
            out.append(ln)
    return out


PARTS = [
    Part("grid", oracle_float, enum=enum_grid, quick=(16, None), thorough=(16, None),
         exhaustive=True),
    Part("floats", oracle_float, strategy=floats, quick=(8, 2500), thorough=(16, 40000)),
    Part("cards", oracle_cards, strategy=cards, quick=(16, 300), thorough=(16, 5000)),
    # coverage-guided (atheris / libFuzzer) tier over the same strategies and oracles
    Part("fuzz_floats", oracle_float, strategy=floats, quick=(2, 4000), thorough=(8, 150000),
         fuzz=dict(modules=["pyyeti.nastran.bulk"], time=25, time_thorough=300), tmax_thorough=400),
    Part("fuzz_cards", oracle_cards, strategy=cards, quick=(2, 1500), thorough=(8, 60000),
         fuzz=dict(modules=["pyyeti.nastran.bulk"], time=25, time_thorough=300), tmax_thorough=400),
    # documented defaults: leaving a keyword out = passing its documented value (vlib/defaults.py)
    Part("defaults", defaults.make_oracle("C12"), enum=defaults.make_enum(), quick=(1, None), thorough=(1, None),
         exhaustive=True),
]
