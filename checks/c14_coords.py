"""C14 - coordinate systems (CORD2R/C/S chains) and rigid-body geometry are mutually consistent."""
import math

import numpy as np
from hypothesis import assume
from hypothesis import strategies as st

from refs import coordsys as cs
from vlib import util
from vlib import defaults
from vlib.core import Part

PROPERTY = "C14"
RULE = ("hypothesis: chains of 1..5 CORD2R/C/S cards (random ids, any type mix, each referencing "
        "basic or an earlier card, A/B/C given in the reference system's own coordinates with "
        "|B-A|,|C-A|>=0.5 and sin(angle)>=0.1), 2..8 grids entered in random input systems "
        "(radius>=0.1, polar angle in [5,175] deg) with random output systems (grid >=0.05 and >=2 "
        "deg off the output system's polar axis, where displacement directions are undefined) and sets, scalar "
        "points and q-set grids woven in, reference point = grid id / xyz / default, three ways "
        "of making the systems known (build_coords in shuffled card order, mkusetcoordinfo, USET "
        "lookup).  Oracle: refs/coordsys.py (own CORD2x resolution, maps and local unit vectors): "
        "origins/T/5x3 info, basic locations, getcoordinates re-mapped forward to the same basic "
        "point (and equal to the entered coordinates in the entry system), rbgeom_uset row blocks "
        "= [G^T, -G^T[rx]; 0, G^T] with zero rows for scalar points/q-set grids, = rbgeom after "
        "rotation to basic, rbmove = modes about the new point, rbcoords = offsets; formrbe3 (dof "
        "groups, weights, UM lists) reproduces all six rigid motions and equals an independent "
        "weighted-least-squares/constraint-elimination model; replace_basic_cs = the given rigid "
        "map on locations, origins and frames.  Non-trivial: a cylindrical or spherical system "
        "that references a non-basic system is used by a grid (as output system for the rigid-"
        "body parts, as input or query system for the coordinate part); distinct by case hash.")
ASSUME = ["numpy float64 linear algebra of the reference (refs/coordsys.py) is accurate to ~1e-14 "
          "relative; comparisons use 1e-9 x model length scale (see metrics for the margin)",
          "formrbe3 comparisons use 1000 eps cond and are skipped (labelled) when cond(normal matrix) x "
          "cond(UM elimination block) of the reference model exceeds 1e7"]
KNOWN = {}

TOL = 1e-9          # absolute error / model length scale (observed ~1e-14)
TOL_ORTH = 1e-12    # |T^T T - I|, |det - 1| (observed ~1e-15)
EPS = 2.220446049250313e-16
RBE3_FACTOR = 1000.0  # formrbe3 errors are compared with RBE3_FACTOR * EPS * cond (observed <= 0.3)
COND_MAX = 1e7        # formrbe3 cases with a larger total condition number are skipped (labelled)


# ---------------------------------------------------------------- helpers

def _cards(case):
    return case["systems"]


def _card4x3(c):
    return np.array([[c["cid"], c["type"], c["ref"]], c["A"], c["B"], c["C"]], dtype=float)


def _row12(c):
    return [c["cid"], c["type"], c["ref"], *c["A"], *c["B"], *c["C"]]


def _chain_order(cards):
    """cards sorted so that every reference precedes its user (generator emits them so)"""
    return list(cards)


def _scale(systems, pts):
    s = 1.0
    for v in systems.values():
        s = max(s, float(np.abs(v.origin).max()))
    for p in pts:
        s = max(s, float(np.abs(p).max()))
    return s


def _check_info(R, got, ref, what, S):
    """5x3 [id type 0; origin; T] against the reference system"""
    got = np.asarray(got, float)
    if not R.check(got.shape == (5, 3), f"{what}_shape", f"cid={ref.cid} shape={got.shape}"):
        return
    R.check(got[0, 0] == ref.cid and got[0, 1] == ref.ctype and got[0, 2] == 0,
            f"{what}_header", f"cid={ref.cid} type={ref.ctype} got={got[0].tolist()}")
    eo = float(np.abs(got[1] - ref.origin).max()) / S
    eT = float(np.abs(got[2:] - ref.T).max())
    T = got[2:]
    eorth = max(float(np.abs(T.T @ T - np.eye(3)).max()), abs(float(np.linalg.det(T)) - 1.0))
    R.metric("origin_err/S", eo)
    R.metric("T_err", eT)
    R.metric("T_orthonormality", eorth)
    R.check(eo <= TOL, f"{what}_origin",
            f"cid={ref.cid} depth={ref.depth} got={got[1].tolist()} ref={ref.origin.tolist()}")
    R.check(eT <= TOL, f"{what}_T",
            f"cid={ref.cid} depth={ref.depth} type={ref.ctype} got={T.tolist()} ref={ref.T.tolist()}")
    R.check(eorth <= TOL_ORTH, f"{what}_T_not_orthonormal", f"cid={ref.cid} err={eorth:.3g}")


def _make_known(case, n2p, mode):
    """make the chain known to pyyeti in one of three ways -> (uset0, coordref, spec)
    spec(cid) is what is passed to addgrid/getcoordinates for system `cid`"""
    cards = _cards(case)
    if mode == "build":
        rows = [_row12(cards[i]) for i in case["order"]]
        coordref = n2p.build_coords(rows)
        return None, coordref, int
    if mode == "mk":
        coordref = {}
        for c in _chain_order(cards):
            n2p.mkusetcoordinfo(_card4x3(c), None, coordref)
        # 4x3 matrices are passed again later: the id is found in coordref
        bycid = {c["cid"]: _card4x3(c) for c in cards}
        return None, coordref, lambda cid: 0 if cid == 0 else bycid[cid]
    # "uset": one definition grid per system (in chain order), no coordref at all
    uset0 = None
    for k, c in enumerate(_chain_order(cards)):
        uset0 = n2p.addgrid(uset0, 900000 + k, "b", 0, [0.0, 0.0, 0.0], _card4x3(c))
    return uset0, None, int


def _weave_spoints(n2p, uset, spoints):
    """insert scalar points (rows [id, 0]) at the given grid positions, through make_uset"""
    if not spoints:
        return uset
    idx = uset.index.to_frame(index=False).values.astype(np.int64)
    nas = uset["nasset"].values.astype(np.int64)
    xyz = uset.loc[:, "x":"z"].values.astype(float)
    mask = n2p.mkusetmask()
    ngr = idx.shape[0] // 6
    dof, nn, xx = [], [], []
    after = {}
    for sp in spoints:
        after.setdefault(min(sp["after"], ngr), []).append(sp)
    for g in range(ngr + 1):
        for sp in after.get(g, []):
            dof.append([sp["id"], 0])
            nn.append(int(mask[sp["set"]]))
            xx.append([0.0, 0.0, 0.0])
        if g < ngr:
            dof.extend(idx[6 * g:6 * g + 6].tolist())
            nn.extend(nas[6 * g:6 * g + 6].tolist())
            xx.extend(xyz[6 * g:6 * g + 6].tolist())
    return n2p.make_uset(np.array(dof), np.array(nn), np.array(xx))


def _ref_model(case):
    """reference resolution of the case: systems, grid locations, local frames"""
    systems = cs.resolve(_cards(case))
    pts, frames = [], []
    for g in case["grids"]:
        p = cs.to_basic(systems[g["cin"]], g["xyz"])
        pts.append(p)
    for g, p in zip(case["grids"], pts):
        frames.append(cs.local_frame(systems[g["cout"]], p))
    return systems, pts, frames


def _singular_free(case, systems, pts, rmin=1e-3):
    """grids must also stay away from the polar axis of their OUTPUT system, where the
    displacement directions are undefined (the generator guarantees it; replays are re-checked)"""
    return all(cs.axis_distance(systems[g["cout"]], p) >= rmin
               for g, p in zip(case["grids"], pts))


def _addgrids(n2p, case, uset0, coordref, spec):
    gr = case["grids"]
    return n2p.addgrid(uset0, [g["gid"] for g in gr], [g["set"] for g in gr],
                       [spec(g["cin"]) for g in gr], [g["xyz"] for g in gr],
                       [spec(g["cout"]) for g in gr], coordref)


def _labels(R, case, systems, part):
    depth = max(s.depth for s in systems.values())
    types = sorted({s.ctype for s in systems.values() if s.cid})
    R.label(f"depth{depth}", "types:" + "".join("RCS"[t - 1] for t in types))
    if part == "coords":
        used = [g["cin"] for g in case["grids"]] + list(case.get("query", []))
    else:
        used = [g["cout"] for g in case["grids"]]
    nt = any(systems[c].ctype != cs.RECT and systems[c].depth >= 2 for c in used)
    for c in used:
        if systems[c].depth >= 2:
            R.label("deep_" + "RCS"[systems[c].ctype - 1])
    R.nontrivial(nt)


# ---------------------------------------------------------------- part: coords

def oracle_coords(case, R):
    from pyyeti.nastran import n2p
    systems, pts, frames = _ref_model(case)
    S = _scale(systems, pts)
    mode = case["mode"]
    R.label("mode:" + mode)
    _labels(R, case, systems, "coords")
    cards = _cards(case)

    # 1. resolution of the chain: build_coords (shuffled order) and mkusetcoordinfo
    rows = [_row12(cards[i]) for i in case["order"]]
    bc = n2p.build_coords(rows if len(rows) > 1 or case.get("twod", True) else rows[0])
    R.check(set(int(k) for k in bc) == set(systems), "build_coords_keys",
            f"got {sorted(int(k) for k in bc)} want {sorted(systems)}")
    for cid, ref in systems.items():
        if cid in bc:
            _check_info(R, bc[cid], ref, "build_coords", S)
    # what a call hands out belongs to the caller: writing into the returned arrays (the basic system's entry
    # included) leaves the next call what it was
    keep_bc = {int(k_): np.array(v_, copy=True) for k_, v_ in bc.items()}
    for v_ in bc.values():
        np.asarray(v_)[...] = 777.0
    bc_again = n2p.build_coords(rows if len(rows) > 1 or case.get("twod", True) else rows[0])
    R.check(set(int(k_) for k_ in bc_again) == set(keep_bc)
            and all(np.array_equal(np.asarray(bc_again[k_]), keep_bc[int(k_)]) for k_ in bc_again),
            "build_coords_result_is_a_view_of_internal_state", "second call differs after the first result was edited")
    b0 = np.asarray(n2p.mkusetcoordinfo(0, None, {}))
    b0_keep = b0.copy()
    b0[...] = -5.0
    R.check(np.array_equal(np.asarray(n2p.mkusetcoordinfo(0, None, {})), b0_keep),
            "basic_coordinfo_is_a_view_of_internal_state", "")
    bc = n2p.build_coords(rows if len(rows) > 1 or case.get("twod", True) else rows[0])
    # duplicates (documented): equal duplicate cards are quietly ignored; a card that repeats an id with anything
    # else - another type, another reference system, other points - is a RuntimeError
    if rows:
        import json as _json
        import zlib as _zlib
        drng = util.rng_of(_zlib.crc32(_json.dumps([case["order"], len(rows), str(rows[0][:3])]).encode()) + 404)
        k_ = int(drng.integers(0, len(rows)))
        rows2 = [list(r) for r in rows] + [list(rows[k_])]
        rows2 = [rows2[i] for i in drng.permutation(len(rows2))]
        bc2 = n2p.build_coords(rows2)
        R.check(set(bc2) == set(bc) and all(np.array_equal(np.asarray(bc2[c_]), np.asarray(bc[c_])) for c_ in bc),
                "build_coords_equal_duplicate_changes_result", f"cid {rows[k_][0]} given twice")
        how = ["ctype", "refcid", "point"][int(drng.integers(0, 3))]
        bad = list(rows[k_])
        if how == "ctype":
            bad[1] = {1: 2, 2: 3, 3: 1}[int(bad[1])]
        elif how == "refcid":
            others = [int(r[0]) for r in rows if int(r[0]) != int(bad[0]) and int(r[0]) != int(bad[2])]
            bad[2] = others[0] if others else (0 if int(bad[2]) != 0 else None)
        else:
            bad[3 + int(drng.integers(0, 9))] += 0.5
        if bad[2] is not None:
            rows3 = [list(r) for r in rows] + [bad]
            rows3 = [rows3[i] for i in drng.permutation(len(rows3))]
            try:
                n2p.build_coords(rows3)
                R.fail("build_coords_accepts_conflicting_duplicate",
                       f"cid {bad[0]} given twice, second card differs in {how}: no RuntimeError")
            except RuntimeError:
                R.label("dup_conflict:" + how)
    cr = {}
    for c in _chain_order(cards):
        info = n2p.mkusetcoordinfo(_card4x3(c).tolist(), None, cr)
        _check_info(R, info, systems[c["cid"]], "mkusetcoordinfo", S)
        # by id, now that it is in the dictionary
        _check_info(R, n2p.mkusetcoordinfo(c["cid"], None, cr), systems[c["cid"]],
                    "mkusetcoordinfo_byid", S)
    _check_info(R, n2p.mkusetcoordinfo(0, None, {}), cs.BASIC, "mkusetcoordinfo_basic", S)

    # 2. addgrid: basic location and stored 5x3 info of the output system
    uset0, coordref, spec = _make_known(case, n2p, mode)
    uset = _addgrids(n2p, case, uset0, coordref, spec)
    n0 = 0 if uset0 is None else uset0.shape[0]
    R.check(uset.shape[0] == n0 + 6 * len(case["grids"]), "addgrid_rows", str(uset.shape))
    ids = uset.index.get_level_values("id").values
    dofs = uset.index.get_level_values("dof").values
    X = uset.loc[:, "x":"z"].values
    for k, g in enumerate(case["grids"]):
        r0 = n0 + 6 * k
        R.check(bool(np.all(ids[r0:r0 + 6] == g["gid"])) and dofs[r0:r0 + 6].tolist() == [1, 2, 3, 4, 5, 6],
                "addgrid_index", f"grid {g['gid']}")
        e = float(np.abs(X[r0] - pts[k]).max()) / S
        R.metric("loc_err/S", e)
        R.check(e <= TOL, "addgrid_location",
                f"grid {g['gid']} in cid {g['cin']} (type {systems[g['cin']].ctype}, depth "
                f"{systems[g['cin']].depth}) xyz={g['xyz']} got={X[r0].tolist()} ref={pts[k].tolist()}")
        _check_info(R, X[r0 + 1:r0 + 6], systems[g["cout"]], "addgrid_info", S)
    if uset0 is not None:
        # definition grids sit at the basic origin
        for k, c in enumerate(_chain_order(cards)):
            _check_info(R, X[6 * k + 1:6 * k + 6], systems[c["cid"]], "addgrid_info", S)

    # 3. getcoordinates: queried back in the entry system and in any other system
    gids = [g["gid"] for g in case["grids"]]
    for q in case["query"]:
        sysq = systems[q]
        how = case.get("qspec", "id")
        if how == "card" and q != 0:
            csys = _card4x3(next(c for c in cards if c["cid"] == q))
        else:
            csys = q
        # mode "uset": no dictionary at all, the id is resolved from the definition grids
        cref = None if coordref is None else dict(coordref)
        got = np.atleast_2d(n2p.getcoordinates(uset, gids, csys, cref))
        if not R.check(got.shape == (len(gids), 3), "getcoordinates_shape", str(got.shape)):
            continue
        # the rows answer the ids in the order they are asked for (not in table order), also for subsets
        if len(gids) >= 2:
            for nm_, sel_ in (("reversed", list(range(len(gids)))[::-1]),
                              ("rotated_subset", (list(range(1, len(gids))) + [0])[:max(2, len(gids) - 1)])):
                gsel = np.atleast_2d(n2p.getcoordinates(uset, [gids[i] for i in sel_], csys, cref))
                ok_ = gsel.shape == (len(sel_), 3) and float(np.abs(gsel - got[sel_]).max()) <= TOL * S
                R.check(ok_, "getcoordinates_id_order", f"ids asked {nm_} in cid {q}: rows do not follow the request")
        # same call with explicit basic locations instead of grid ids
        got2 = np.atleast_2d(n2p.getcoordinates(uset, np.array(pts), csys, cref))
        # and one grid at a time (scalar id)
        got3 = np.asarray(n2p.getcoordinates(uset, gids[0], csys, cref))
        R.check(got3.shape == (3,), "getcoordinates_scalar_shape", str(got3.shape))
        for k, g in enumerate(case["grids"]):
            back = cs.to_basic(sysq, got[k])
            e = float(np.abs(back - pts[k]).max()) / S
            R.metric("roundtrip_err/S", e)
            R.check(e <= TOL, "getcoordinates_point",
                    f"grid {g['gid']} entered in cid {g['cin']} as {g['xyz']}, queried in cid {q} "
                    f"(type {sysq.ctype}, depth {sysq.depth}) -> {got[k].tolist()} which is basic "
                    f"{back.tolist()}, not {pts[k].tolist()}")
            back2 = cs.to_basic(sysq, got2[k])
            e2 = float(np.abs(back2 - pts[k]).max()) / S
            R.metric("roundtrip_err/S", e2)
            R.check(e2 <= TOL, "getcoordinates_point_xyz_input",
                    f"basic {pts[k].tolist()} queried in cid {q} -> {got2[k].tolist()}")
            if k == 0:
                R.check(float(np.abs(cs.to_basic(sysq, got3) - pts[0]).max()) / S <= TOL,
                        "getcoordinates_point_scalar_id", f"grid {g['gid']} cid {q}")
            if q == g["cin"]:
                # back in the entry system: the entered coordinates themselves
                want = g["xyz"]
                if sysq.ctype == cs.RECT:
                    d = float(np.abs(got[k] - np.array(want)).max()) / S
                else:
                    rho = cs.axis_distance(sysq, pts[k])
                    rr = math.sqrt(float(cs.local_rect(sysq, pts[k]) @ cs.local_rect(sysq, pts[k])))
                    d = abs(got[k][0] - want[0])
                    d = max(d, cs.angle_diff_deg(got[k][1], want[1]) * cs.D2R *
                            (rho if sysq.ctype == cs.CYL else rr))
                    if sysq.ctype == cs.CYL:
                        d = max(d, abs(got[k][2] - want[2]))
                    else:
                        d = max(d, cs.angle_diff_deg(got[k][2], want[2]) * cs.D2R * rho)
                    d /= S
                R.metric("same_system_err/S", d)
                R.check(d <= TOL, "getcoordinates_same_system",
                        f"grid {g['gid']} entered in cid {q} (type {sysq.ctype}) as {want} "
                        f"read back as {got[k].tolist()}")


# ---------------------------------------------------------------- part: rb

def _expected_rb(case, systems, pts, frames, xref, rowmap, nrows):
    want = np.zeros((nrows, 6))
    for k, g in enumerate(case["grids"]):
        if g["set"] == "q":
            continue
        want[rowmap[g["gid"]]:rowmap[g["gid"]] + 6] = cs.rigid_rows(frames[k], pts[k] - xref)
    return want


def _refpoint(case, pts):
    rp = case["refpoint"]
    if rp["kind"] == "grid":
        k = rp["index"]
        return case["grids"][k]["gid"], pts[k].copy()
    if rp["kind"] == "xyz":
        return list(rp["xyz"]), np.array(rp["xyz"], float)
    return None, np.zeros(3)


def oracle_rb(case, R):
    from pyyeti.nastran import n2p
    systems, pts, frames = _ref_model(case)
    if not _singular_free(case, systems, pts):
        R.label("out_of_domain:on_polar_axis")
        return
    S = _scale(systems, pts)
    _labels(R, case, systems, "rb")
    uset0, coordref, spec = _make_known(case, n2p, "build")
    uset = _weave_spoints(n2p, _addgrids(n2p, case, uset0, coordref, spec), case["spoints"])
    ids = uset.index.get_level_values("id").values
    dofs = uset.index.get_level_values("dof").values
    nrows = uset.shape[0]
    R.check(nrows == 6 * len(case["grids"]) + len(case["spoints"]), "uset_rows", str(nrows))
    rowmap = {int(i): int(r) for r, (i, d) in enumerate(zip(ids, dofs)) if d == 1}
    arg, xref = _refpoint(case, pts)
    R.label("ref:" + case["refpoint"]["kind"],
            "spoints" if case["spoints"] else "no_spoints",
            "qgrids" if any(g["set"] == "q" for g in case["grids"]) else "no_qgrids")
    Sr = max(S, float(np.abs(xref).max()))

    rb = n2p.rbgeom_uset(uset) if arg is None else n2p.rbgeom_uset(uset, arg)
    if not R.check(rb.shape == (nrows, 6), "rbgeom_uset_shape", str(rb.shape)):
        return
    want = _expected_rb(case, systems, pts, frames, xref, rowmap, nrows)
    # zero rows: scalar points and q-set grids
    zero_rows = np.ones(nrows, bool)
    for g in case["grids"]:
        if g["set"] != "q":
            zero_rows[rowmap[g["gid"]]:rowmap[g["gid"]] + 6] = False
    R.check(not rb[zero_rows].any(), "rbgeom_uset_nonzero_scalar_or_q_rows",
            f"rows {np.nonzero(rb[zero_rows].any(axis=1))[0].tolist()}")
    for k, g in enumerate(case["grids"]):
        r0 = rowmap[g["gid"]]
        blk = rb[r0:r0 + 6]
        e = float(np.abs(blk - want[r0:r0 + 6]).max()) / Sr
        R.metric("rb_block_err/S", e)
        so = systems[g["cout"]]
        R.check(e <= TOL, "rbgeom_uset_block",
                f"grid {g['gid']} set {g['set']} output cid {g['cout']} (type {so.ctype}, depth "
                f"{so.depth}) at {pts[k].tolist()} ref {xref.tolist()}: got {np.round(blk, 6).tolist()} "
                f"want {np.round(want[r0:r0 + 6], 6).tolist()}")
        if g["set"] != "q":
            # a true rigid motion: rotation block orthonormal, translation block = rotation block
            e2 = max(float(np.abs(blk[:3, :3] - blk[3:, 3:]).max()),
                     float(np.abs(blk[3:, :3]).max()),
                     float(np.abs(blk[:3, :3] @ blk[:3, :3].T - np.eye(3)).max()))
            R.metric("rb_block_structure", e2)
            R.check(e2 <= 1e-10, "rbgeom_uset_block_structure", f"grid {g['gid']} err={e2:.3g}")

    # geometry-only modes (rbgeom) after transformation of the local rows to basic
    live = [k for k, g in enumerate(case["grids"]) if g["set"] != "q"]
    if live:
        P = np.array([pts[k] for k in live])
        if case["refpoint"]["kind"] == "grid":
            rg = n2p.rbgeom(P, live.index(case["refpoint"]["index"]))
        elif arg is None:
            rg = n2p.rbgeom(P)
        else:
            rg = n2p.rbgeom(P, arg)
        ok = R.check(rg.shape == (6 * len(live), 6), "rbgeom_shape", str(rg.shape))
        for j, k in enumerate(live):
            if not ok:
                break
            G = frames[k]
            r0 = rowmap[case["grids"][k]["gid"]]
            tb = np.vstack((G @ rb[r0:r0 + 3], G @ rb[r0 + 3:r0 + 6]))
            e = float(np.abs(tb - rg[6 * j:6 * j + 6]).max()) / Sr
            R.metric("rb_vs_rbgeom_err/S", e)
            R.check(e <= TOL, "rbgeom_uset_vs_rbgeom", f"grid {case['grids'][k]['gid']}")
            e = float(np.abs(rg[6 * j:6 * j + 6] - cs.rigid_rows(np.eye(3), pts[k] - xref)).max()) / Sr
            R.metric("rbgeom_err/S", e)
            R.check(e <= TOL, "rbgeom_vs_reference", f"point {pts[k].tolist()} ref {xref.tolist()}")

    # reference-point consistency: rbmove to a new point == modes computed about that point
    xnew = np.array(case["newref"], float)
    Sn = max(Sr, float(np.abs(xnew).max()))
    moved = n2p.rbmove(rb, xref.tolist(), xnew.tolist())
    direct = n2p.rbgeom_uset(uset, xnew.tolist())
    want_new = _expected_rb(case, systems, pts, frames, xnew, rowmap, nrows)
    e = float(np.abs(moved - direct).max()) / Sn
    R.metric("rbmove_err/S", e)
    R.check(moved.shape == rb.shape and e <= TOL, "rbmove_vs_rbgeom_uset",
            f"old {xref.tolist()} new {xnew.tolist()} err={e:.3g}")
    e = float(np.abs(moved - want_new).max()) / Sn
    R.metric("rbmove_err/S", e)
    R.check(e <= TOL, "rbmove_vs_reference", f"old {xref.tolist()} new {xnew.tolist()} err={e:.3g}")

    # rbcoords recovers the locations relative to the reference point
    grows = dofs != 0
    co, maxdev, maxerr = n2p.rbcoords(rb[grows], verbose=0)
    if R.check(co.shape == (len(case["grids"]), 3), "rbcoords_shape", str(co.shape)):
        order = sorted(range(len(case["grids"])), key=lambda k: rowmap[case["grids"][k]["gid"]])
        minmc = math.inf
        for j, k in enumerate(order):
            g = case["grids"][k]
            w = np.zeros(3) if g["set"] == "q" else pts[k] - xref
            if g["set"] != "q":
                minmc = min(minmc, float(np.abs(w).max()))
            e = float(np.abs(co[j] - w).max()) / Sr
            R.metric("rbcoords_err/S", e)
            R.check(e <= TOL, "rbcoords_location",
                    f"grid {g['gid']} got {co[j].tolist()} want {w.tolist()}")
        R.metric("rbcoords_maxdev/S", maxdev / Sr)
        R.check(maxdev / Sr <= TOL, "rbcoords_maxdev", f"maxdev={maxdev:.3g}")
        if minmc >= 0.01:
            R.metric("rbcoords_maxerr_percent", maxerr)
            R.check(maxerr <= 1e-5, "rbcoords_maxerr", f"maxerr={maxerr:.3g}%")


# ---------------------------------------------------------------- part: rbe3

def _digits(n):
    return [int(ch) for ch in str(n)]


def um_first_index_signature(case):
    """UM lists whose intersection with the dependent dof is exactly the FIRST dependent dof
    ('dep0'), or - some other dependent dof being in the m-set - whose intersection with the
    independent dof is exactly the FIRST independent dof in USET order ('ind0').  formrbe3
    tests index arrays for truth (`dpv_m.any()`, `np.any(ipv_m)`), so the lone index 0 reads
    as 'empty' (suspected defect; cases with this signature live in part rbe3_um_first)."""
    um = case.get("um")
    if not um:
        return None
    order = {g["gid"]: k for k, g in enumerate(case["grids"])}
    dep = case["dep"]
    ddof = [(dep["gid"], d) for d in _digits(dep["dof"])]
    idof = sorted(((gid, d) for grp in case["groups"] for gid in grp["gids"]
                   for d in _digits(grp["dof"])), key=lambda t: (order[t[0]], t[1]))
    mdof = {(g, d) for g, dd in um for d in _digits(dd)}
    di = [i for i, t in enumerate(ddof) if t in mdof]
    ii = [i for i, t in enumerate(idof) if t in mdof]
    if di == [0]:
        return "dep0"
    if di and ii == [0]:
        return "ind0"
    return None


def oracle_rbe3(case, R):
    from pyyeti.nastran import n2p
    systems, pts, frames = _ref_model(case)
    if not _singular_free(case, systems, pts):
        R.label("out_of_domain:on_polar_axis")
        return
    _labels(R, case, systems, "rbe3")
    uset0, coordref, spec = _make_known(case, n2p, "build")
    uset = _weave_spoints(n2p, _addgrids(n2p, case, uset0, coordref, spec), case["spoints"])
    gidx = {g["gid"]: k for k, g in enumerate(case["grids"])}
    order = {g["gid"]: k for k, g in enumerate(case["grids"])}     # uset order = list order
    dep = case["dep"]
    kd = gidx[dep["gid"]]
    ddof = [(dep["gid"], d) for d in _digits(dep["dof"])]
    # the component digits of the dependent grid may be written in any order (312456): rows and columns of the
    # result follow the USET table, not the way the digits were written
    dep_call = dep["dof"]
    if case.get("dep_digit_seed") is not None and len(str(dep["dof"])) > 1:
        dg = list(str(dep["dof"]))
        pr = util.rng_of(case["dep_digit_seed"]).permutation(len(dg))
        dep_call = int("".join(dg[i] for i in pr))
        R.label("depdof:digits_reordered" if dep_call != dep["dof"] else "depdof:ascending")
    idof, wts = [], []
    ind_list = []
    for grp in case["groups"]:
        ind_list.append(grp["dof"] if grp["wt"] is None else [grp["dof"], grp["wt"]])
        ind_list.append(grp["gids"] if len(grp["gids"]) > 1 or not grp.get("scalar") else grp["gids"][0])
        for gid in grp["gids"]:
            for d in _digits(grp["dof"]):
                idof.append((gid, d))
                wts.append(1.0 if grp["wt"] is None else float(grp["wt"]))
    srt = sorted(range(len(idof)), key=lambda i: (order[idof[i][0]], idof[i][1]))
    idof = [idof[i] for i in srt]
    wts = np.array([wts[i] for i in srt])

    # reference model: rigid rows about the dependent grid, characteristic length weights
    xdep = pts[kd]
    used = sorted({g for g, _ in idof} | {dep["gid"]}, key=lambda g: order[g])
    full = {g: cs.rigid_rows(frames[gidx[g]], pts[gidx[g]] - xdep) for g in used}
    rb_i = np.array([full[g][d - 1] for g, d in idof])
    rb_d = np.array([full[g][d - 1] for g, d in ddof])
    Lc = sum(float(np.linalg.norm(pts[gidx[g]] - xdep)) for g in used) / (len(used) - 1)
    w = wts.copy()
    if Lc > 1e-12:
        w[[d > 3 for _, d in idof]] *= Lc * Lc
    normal = (rb_i.T * w) @ rb_i
    cond = float(np.linalg.cond(normal))
    R.label("um" if case.get("um") else "no_um",
            "weights" if any(g["wt"] is not None for g in case["groups"]) else "unit_weights",
            "rot_indep" if any(d > 3 for _, d in idof) else "trans_only")
    if not cond <= COND_MAX:
        R.label("skipped:illconditioned_normal")
        return
    R.metric("log10_cond_normal", math.log10(cond))
    Rref = cs.wls_rbe3(rb_i, w, rb_d)
    condt = cond          # total conditioning: normal equations x UM elimination block

    um = case.get("um")
    um_list = None
    sig = um_first_index_signature(case)
    if sig:
        R.label("um_first_index:" + sig)
    if um:
        um_list = []
        for gid, dof in um:
            um_list += [gid, dof]
        mdof = sorted(((g, d) for g, dd in um for d in _digits(dd)), key=lambda t: (order[t[0]], t[1]))
        alld = ddof + idof
        Cfull = np.hstack((np.eye(len(ddof)), -Rref))
        mcols = [alld.index(t) for t in mdof]
        ncols_dof = sorted((t for t in alld if t not in mdof), key=lambda t: (order[t[0]], t[1]))
        ncols = [alld.index(t) for t in ncols_dof]
        Cm = Cfull[:, mcols]
        # conditioning of the elimination relative to the whole constraint matrix (a plain
        # cond() would call a 1x1 block with a vanishing coefficient well conditioned)
        smin = float(np.linalg.svd(Cm, compute_uv=False)[-1])
        condm = float(np.linalg.norm(Cfull, 2)) / smin if smin > 0 else math.inf
        dep_in_m = sum(1 for t in mdof if t in ddof)
        R.label("um:all_indep" if dep_in_m == 0 else
                ("um:all_dep" if dep_in_m == len(mdof) else "um:mixed"))
        if not cond * condm <= COND_MAX:
            R.label("skipped:singular_um_choice")
            try:
                n2p.formrbe3(uset, dep["gid"], dep["dof"], ind_list, um_list)
            except np.linalg.LinAlgError:
                pass          # documented: a singular m-set choice raises LinAlgError
            return
        R.metric("log10_cond_um", math.log10(condm))
        Rref_um = -np.linalg.solve(Cm, Cfull[:, ncols])
        condt = cond * condm
        rows_dof, cols_dof, want = mdof, ncols_dof, Rref_um
    else:
        rows_dof, cols_dof, want = ddof, idof, Rref

    # forward error of a solve is ~ eps * condition number (observed <= 0.3 eps cond):
    # tolerance 1000 eps cond, i.e. between 2e-13 and 2e-6 of the matrix scale
    unit = EPS * condt
    tol = RBE3_FACTOR * unit
    got = n2p.formrbe3(uset, dep["gid"], dep["dof"], ind_list, um_list)
    if dep_call != dep["dof"]:
        # same element with the component digits of the dependent grid written in another order: without a UM
        # list the rows follow the digits as written (observed behaviour; the docstring speaks of USET order), with a
        # UM list rows and columns are m-set / n-set DOF in USET order and do not depend on how the digits were written
        gp = np.asarray(n2p.formrbe3(uset, dep["gid"], dep_call, ind_list, um_list))
        ga = np.asarray(got)
        if um_list is None:
            asc = sorted(str(dep["dof"]))
            rows = [asc.index(ch) for ch in str(dep_call)]
            want_p = ga[rows]
        else:
            want_p = ga
        okp = gp.shape == want_p.shape and np.allclose(gp, want_p, rtol=1e-9, atol=1e-9 * max(1.0, np.abs(ga).max()))
        R.check(okp, "rbe3_depends_on_digit_order_of_dependent_dof",
                f"DOF_dep={dep_call} vs {dep['dof']} um={um_list}: max diff "
                f"{np.abs(gp - want_p).max() if gp.shape == want_p.shape else 'shape'}")
    if not R.check(got.shape == want.shape, "rbe3_shape", f"{got.shape} vs {want.shape}"):
        return
    # exact reproduction of the six rigid motions, taken about an arbitrary point
    xr = np.array(case["rbref"], float)
    fullr = {g: cs.rigid_rows(frames[gidx[g]], pts[gidx[g]] - xr) for g in used}
    rbc = np.array([fullr[g][d - 1] for g, d in cols_dof])
    rbr = np.array([fullr[g][d - 1] for g, d in rows_dof])
    Sx = max(1.0, float(np.abs(rbc).max()), float(np.abs(rbr).max()))
    e = float(np.abs(got @ rbc - rbr).max()) / Sx
    R.metric("rigid_reproduction_err/(eps*cond)", e / unit)
    R.check(e <= tol, "rbe3_rigid_body_reproduction",
            f"dep {dep} groups {case['groups']} um {um}: |R rb_ind - rb_dep|={e:.3g} tol={tol:.3g} "
            f"cond={cond:.3g}")
    # same with pyyeti's own rigid-body modes of the table
    rbu = n2p.rbgeom_uset(uset, xr.tolist())
    ids = uset.index.get_level_values("id").values
    dofs = uset.index.get_level_values("dof").values
    pos = {(int(i), int(d)): r for r, (i, d) in enumerate(zip(ids, dofs))}
    e = float(np.abs(got @ rbu[[pos[t] for t in cols_dof]] - rbu[[pos[t] for t in rows_dof]]).max()) / Sx
    R.metric("rigid_reproduction_err/(eps*cond)", e / unit)
    R.check(e <= tol, "rbe3_rigid_body_reproduction_rbgeom_uset", f"err={e:.3g} tol={tol:.3g}")
    # independent weighted least-squares / constraint elimination model
    Sw = max(1.0, float(np.abs(want).max()))
    e = float(np.abs(got - want).max()) / Sw
    R.metric("wls_model_err/(eps*cond)", e / unit)
    R.check(e <= tol, "rbe3_vs_wls_model",
            f"dep {dep} groups {case['groups']} um {um}: err={e:.3g} tol={tol:.3g}")
    # a common factor on all weights changes nothing
    k = case["wscale"]
    il2 = []
    for grp in case["groups"]:
        il2.append([grp["dof"], (1.0 if grp["wt"] is None else grp["wt"]) * k])
        il2.append(grp["gids"])
    got2 = n2p.formrbe3(uset, dep["gid"], dep["dof"], il2, um_list)
    e = float(np.abs(got2 - got).max()) / Sw
    R.metric("weight_scaling_err/(eps*cond)", e / unit)
    R.check(e <= tol, "rbe3_common_weight_factor", f"k={k} err={e:.3g}")


# ---------------------------------------------------------------- part: replace_basic

def oracle_replace(case, R):
    from pyyeti.nastran import n2p
    systems, pts, frames = _ref_model(case)
    if not _singular_free(case, systems, pts):
        R.label("out_of_domain:on_polar_axis")
        return
    _labels(R, case, systems, "replace")
    uset0, coordref, spec = _make_known(case, n2p, "build")
    uset = _weave_spoints(n2p, _addgrids(n2p, case, uset0, coordref, spec), case["spoints"])
    before = uset.copy()
    new = case["new"]
    newsys = cs.define(new["cid"], cs.RECT, cs.BASIC, new["A"], new["B"], new["C"])
    Tn, An = newsys.T, newsys.origin
    abc = np.array([new["A"], new["B"], new["C"]], float)
    used_ids = {g["cout"] for g in case["grids"]}
    R.label("form:" + new["form"], "id_in_use" if new["cid"] in used_ids else "id_free")
    try:
        if new["form"] == "4x3":
            out = n2p.replace_basic_cs(uset, np.vstack(([new["cid"], 1, 0], abc)))
        else:
            out = n2p.replace_basic_cs(uset, new["cid"], abc)
    except ValueError as e:
        if new["cid"] in used_ids and "already used" in str(e):
            return                     # documented
        raise
    if new["cid"] in used_ids:
        R.fail("replace_basic_accepts_used_id", f"id {new['cid']}")
        return
    R.check(before.equals(uset), "replace_basic_modified_input")
    R.check(out.index.equals(uset.index) and list(out.columns) == list(uset.columns),
            "replace_basic_index")
    R.check(np.array_equal(out["nasset"].values, uset["nasset"].values), "replace_basic_nasset")
    X0 = uset.loc[:, "x":"z"].values
    X1 = out.loc[:, "x":"z"].values
    ids = uset.index.get_level_values("id").values
    dofs = uset.index.get_level_values("dof").values
    R.check(np.array_equal(X0[dofs == 0], X1[dofs == 0]), "replace_basic_scalar_rows")
    rowmap = {int(i): int(r) for r, (i, d) in enumerate(zip(ids, dofs)) if d == 1}
    newpts = [An + Tn @ p for p in pts]
    S = max(_scale(systems, pts), float(np.abs(An).max()), max(float(np.abs(p).max()) for p in newpts))
    newframes = []
    for k, g in enumerate(case["grids"]):
        r0 = rowmap[g["gid"]]
        so = systems[g["cout"]]
        e = float(np.abs(X1[r0] - newpts[k]).max()) / S
        R.metric("moved_location_err/S", e)
        R.check(e <= TOL, "replace_basic_location",
                f"grid {g['gid']} got {X1[r0].tolist()} want {newpts[k].tolist()}")
        want_id = new["cid"] if g["cout"] == 0 else g["cout"]
        R.check(X1[r0 + 1, 0] == want_id and X1[r0 + 1, 1] == so.ctype and X1[r0 + 1, 2] == 0,
                "replace_basic_header", f"grid {g['gid']} got {X1[r0 + 1].tolist()} want id {want_id}")
        e = float(np.abs(X1[r0 + 2] - (An + Tn @ so.origin)).max()) / S
        R.metric("moved_origin_err/S", e)
        R.check(e <= TOL, "replace_basic_origin", f"grid {g['gid']} cid {g['cout']}")
        e = float(np.abs(X1[r0 + 3:r0 + 6] - Tn @ so.T).max())
        R.metric("moved_T_err", e)
        R.check(e <= TOL, "replace_basic_T", f"grid {g['gid']} cid {g['cout']}")
        moved_sys = cs.System(want_id, so.ctype, X1[r0 + 2], X1[r0 + 3:r0 + 6], so.depth)
        newframes.append(cs.local_frame(moved_sys, X1[r0]))
    # rigid: inter-grid distances and relative orientations of the local frames preserved
    n = len(case["grids"])
    ed = eo = 0.0
    for a in range(n):
        ra = rowmap[case["grids"][a]["gid"]]
        for b in range(a + 1, n):
            rb_ = rowmap[case["grids"][b]["gid"]]
            ed = max(ed, abs(float(np.linalg.norm(X1[ra] - X1[rb_])) -
                             float(np.linalg.norm(pts[a] - pts[b]))) / S)
            eo = max(eo, float(np.abs(newframes[a].T @ newframes[b] - frames[a].T @ frames[b]).max()))
    R.metric("distance_err/S", ed)
    R.metric("relative_orientation_err", eo)
    R.check(ed <= TOL, "replace_basic_distances", f"err={ed:.3g}")
    R.check(eo <= TOL, "replace_basic_relative_orientation", f"err={eo:.3g}")
    # the rigid-body modes of the moved table are the old ones seen from the new basic system
    xr = np.array(case["rbref"], float)
    rb0 = n2p.rbgeom_uset(uset, xr.tolist())
    rb1 = n2p.rbgeom_uset(out, (An + Tn @ xr).tolist())
    TT = np.zeros((6, 6))
    TT[:3, :3] = TT[3:, 3:] = Tn
    e = float(np.abs(rb1 @ TT - rb0).max()) / max(S, float(np.abs(xr).max()))
    R.metric("moved_rb_err/S", e)
    R.check(e <= TOL, "replace_basic_rigid_body_modes", f"err={e:.3g}")


# ---------------------------------------------------------------- generators

def _f(lo, hi):
    return st.floats(lo, hi, allow_nan=False, allow_infinity=False, allow_subnormal=False)


@st.composite
def point_in(draw, ctype):
    """coordinates of a point in a system of the given type, away from the polar singularities"""
    if ctype == cs.RECT:
        return [draw(_f(-10, 10)), draw(_f(-10, 10)), draw(_f(-10, 10))]
    # azimuth: anywhere, or exactly on / next to a cardinal direction (structured layouts: bolt circles at
    # 0/90/180/270 degrees; branch points of atan2-based local-frame code)
    az = st.one_of(_f(-360, 360), st.sampled_from([0.0, 90.0, 180.0, 270.0, -90.0, -180.0, 360.0, 180.0000001,
                                                    179.9999999, 45.0, 135.0]))
    if ctype == cs.CYL:
        return [draw(_f(0.1, 10)), draw(az), draw(_f(-10, 10))]
    return [draw(_f(0.1, 10)), draw(st.one_of(_f(5, 175), st.sampled_from([90.0, 45.0]))), draw(az)]


@st.composite
def chains(draw, maxn=5):
    n = draw(st.integers(1, maxn))
    cids = draw(st.lists(st.integers(1, 60), min_size=n, max_size=n, unique=True))
    linear = draw(st.booleans())
    systems = []
    for k in range(n):
        ctype = draw(st.sampled_from([1, 2, 3]))
        j = k - 1 if linear else draw(st.integers(-1, k - 1))
        ref, rtype = (0, cs.RECT) if j < 0 else (systems[j]["cid"], systems[j]["type"])
        A = draw(point_in(rtype))
        B = draw(point_in(rtype))
        C = draw(point_in(rtype))
        lab, lac, sn = cs.definition_quality(rtype, A, B, C)
        assume(lab >= 0.5 and lac >= 0.5 and sn >= 0.1)
        systems.append({"cid": cids[k], "type": ctype, "ref": ref, "A": A, "B": B, "C": C})
    return systems


SETS = ["b", "b", "b", "o", "m", "s", "c", "r", "q"]


@st.composite
def grid_lists(draw, systems, nmin=2, nmax=8, allow_q=True):
    n = draw(st.integers(nmin, nmax))
    gids = draw(st.lists(st.integers(1, 999), min_size=n, max_size=n, unique=True))
    resolved = cs.resolve(systems)
    choices = [0] + [s["cid"] for s in systems]
    # prefer the deeper systems: they are what the property is about
    grids = []
    for k in range(n):
        cin = draw(st.sampled_from(choices))
        # (a third of the grids are output in the system they are entered in: cardinal azimuths stay cardinal)
        cout = cin if draw(st.integers(0, 2)) == 0 else draw(st.sampled_from(choices))
        xyz = draw(point_in(resolved[cin].ctype))
        p = cs.to_basic(resolved[cin], xyz)
        # displacement directions are undefined on the polar axis of the output system
        so = resolved[cout]
        if so.ctype != cs.RECT:
            v = cs.local_rect(so, p)
            rho = math.hypot(v[0], v[1])
            rr = math.sqrt(float(v @ v))
            assume(rho >= 0.05 and (so.ctype == cs.CYL or rho >= rr * math.sin(2 * cs.D2R)))
        st_ = draw(st.sampled_from(SETS if allow_q else SETS[:-1]))
        grids.append({"gid": gids[k], "cin": cin, "xyz": xyz, "cout": cout, "set": st_})
    return grids


@st.composite
def spoint_lists(draw, ngrids):
    n = draw(st.integers(0, 3))
    ids = draw(st.lists(st.integers(1001, 1999), min_size=n, max_size=n, unique=True))
    return [{"id": i, "after": draw(st.integers(0, ngrids)),
             "set": draw(st.sampled_from(["q", "q", "b", "s"]))} for i in ids]


@st.composite
def coords_cases(draw):
    systems = draw(chains())
    grids = draw(grid_lists(systems))
    cids = [0] + [s["cid"] for s in systems]
    entered = sorted({g["cin"] for g in grids})
    query = draw(st.lists(st.sampled_from(cids), min_size=1, max_size=3, unique=True))
    # always query back in at least one entry system
    q0 = draw(st.sampled_from(entered))
    if q0 not in query:
        query.append(q0)
    return {"systems": systems, "grids": grids, "query": query,
            "order": draw(st.permutations(range(len(systems)))),
            "mode": draw(st.sampled_from(["build", "mk", "uset"])),
            "qspec": draw(st.sampled_from(["id", "card"])),
            "twod": draw(st.booleans())}


@st.composite
def rb_cases(draw):
    systems = draw(chains())
    grids = draw(grid_lists(systems))
    live = [k for k, g in enumerate(grids) if g["set"] != "q"]
    if not live:
        grids[0]["set"] = "b"
        live = [0]
    kind = draw(st.sampled_from(["grid", "xyz", "default"]))
    if kind == "grid":
        rp = {"kind": "grid", "index": draw(st.sampled_from(live))}
    elif kind == "xyz":
        rp = {"kind": "xyz", "xyz": draw(point_in(cs.RECT))}
    else:
        rp = {"kind": "default"}
    return {"systems": systems, "grids": grids, "order": draw(st.permutations(range(len(systems)))),
            "spoints": draw(spoint_lists(len(grids))), "refpoint": rp,
            "newref": draw(point_in(cs.RECT))}


DOFSETS = [123, 123456, 12, 13, 23, 3, 1, 456, 1234, 12356, 135, 246]


@st.composite
def rbe3_cases(draw, um_first=False):
    systems = draw(chains(maxn=4))
    grids = draw(grid_lists(systems, nmin=4, nmax=8, allow_q=False))
    resolved = cs.resolve(systems)
    pts = [cs.to_basic(resolved[g["cin"]], g["xyz"]) for g in grids]
    idx = draw(st.permutations(range(len(grids))))
    kd = idx[0]
    nind = draw(st.integers(3, min(6, len(grids) - 1)))
    ind = list(idx[1:1 + nind])
    # first group: at least three non-collinear grids with all translations
    n1 = draw(st.integers(3, nind))
    g1 = ind[:n1]
    a, b, c = (pts[i] for i in g1[:3])
    lab = float(np.linalg.norm(b - a))
    lac = float(np.linalg.norm(c - a))
    assume(lab >= 0.5 and lac >= 0.5)
    assume(float(np.linalg.norm(np.cross(b - a, c - a))) / (lab * lac) >= 0.1)
    wt = st.one_of(st.none(), st.sampled_from([0.5, 1.0, 1.2, 2.0, 10.0]), _f(0.1, 10))
    groups = [{"dof": draw(st.sampled_from([123, 123456])), "wt": draw(wt),
               "gids": [grids[i]["gid"] for i in g1]}]
    rest = ind[n1:]
    while rest:
        m = draw(st.integers(1, len(rest)))
        groups.append({"dof": draw(st.sampled_from(DOFSETS)), "wt": draw(wt),
                       "gids": [grids[i]["gid"] for i in rest[:m]],
                       "scalar": draw(st.booleans())})
        rest = rest[m:]
    groups = draw(st.permutations(groups))
    depdof = draw(st.sampled_from([123456, 123456, 123, 12, 3, 456, 1346, 25]))
    case = {"systems": systems, "grids": grids, "order": draw(st.permutations(range(len(systems)))),
            "spoints": draw(spoint_lists(len(grids))),
            "dep_digit_seed": draw(st.one_of(st.none(), st.integers(0, 10 ** 6))),
            "dep": {"gid": grids[kd]["gid"], "dof": depdof}, "groups": list(groups),
            "rbref": draw(point_in(cs.RECT)), "wscale": draw(st.sampled_from([0.25, 3.0, 7.5])),
            "um": None}
    if um_first or draw(st.integers(0, 2)) == 0:
        # UM list: as many m-set dof as dependent dof, chosen among dependent + independent dof
        nd = len(str(depdof))
        pool = [(grids[kd]["gid"], int(ch)) for ch in str(depdof)]
        for grp in groups:
            for gid in grp["gids"]:
                pool += [(gid, int(ch)) for ch in str(grp["dof"])]
        style = draw(st.sampled_from(["dep0", "ind0"] if um_first else
                                     ["indep", "mixed", "mixed", "dep"]))
        if style == "dep":
            pick = pool[:nd]
        elif style == "indep":
            pick = draw(st.lists(st.sampled_from(pool[nd:]), min_size=nd, max_size=nd, unique=True))
        elif style == "mixed":
            kdep = draw(st.integers(1, nd - 1)) if nd > 1 else 1
            pick = draw(st.lists(st.sampled_from(pool[:nd]), min_size=kdep, max_size=kdep, unique=True))
            if nd > kdep:
                pick += draw(st.lists(st.sampled_from(pool[nd:]), min_size=nd - kdep,
                                      max_size=nd - kdep, unique=True))
        elif style == "dep0":
            # the first dependent dof plus independent dof
            pick = pool[:1] + draw(st.lists(st.sampled_from(pool[nd:]), min_size=nd - 1,
                                            max_size=nd - 1, unique=True))
        else:
            # all dependent dof but one (not the first alone) plus the first independent dof
            assume(nd >= 2)
            pos = {g["gid"]: k for k, g in enumerate(grids)}
            first_ind = min(pool[nd:], key=lambda t: (pos[t[0]], t[1]))
            drop = draw(st.integers(0, nd - 1))
            pick = [t for i, t in enumerate(pool[:nd]) if i != drop] + [first_ind]
            assume(not (nd == 2 and drop == 1))
        bygrid = {}
        for gid, d in pick:
            bygrid.setdefault(gid, []).append(d)
        um = [[gid, int("".join(str(d) for d in sorted(ds)))] for gid, ds in bygrid.items()]
        case["um"] = draw(st.permutations(um))
    assume(bool(um_first_index_signature(case)) == um_first)
    return case


def rbe3_um_first_cases():
    return rbe3_cases(um_first=True)


@st.composite
def replace_cases(draw):
    systems = draw(chains(maxn=4))
    grids = draw(grid_lists(systems, nmin=2, nmax=6))
    if all(g["set"] == "q" for g in grids):
        grids[0]["set"] = "b"
    A = draw(point_in(cs.RECT))
    B = draw(point_in(cs.RECT))
    C = draw(point_in(cs.RECT))
    lab, lac, sn = cs.definition_quality(cs.RECT, A, B, C)
    assume(lab >= 0.5 and lac >= 0.5 and sn >= 0.1)
    used = sorted({g["cout"] for g in grids} - {0})
    if used and draw(st.integers(0, 7)) == 0:
        cid = draw(st.sampled_from(used))
    else:
        cid = draw(st.integers(61, 99))
    return {"systems": systems, "grids": grids, "order": draw(st.permutations(range(len(systems)))),
            "spoints": draw(spoint_lists(len(grids))),
            "new": {"cid": cid, "A": A, "B": B, "C": C,
                    "form": draw(st.sampled_from(["int", "4x3"]))},
            "rbref": draw(point_in(cs.RECT))}


REQUIRED_CLASSES = {"thorough": ["coords:mode:build", "coords:mode:mk", "coords:mode:uset",
                                 "coords:deep_C", "coords:deep_S", "coords:depth5",
                                 "rb:deep_C", "rb:deep_S", "rb:spoints", "rb:qgrids", "rb:ref:grid",
                                 "rb:ref:xyz", "rb:ref:default", "rbe3:um:all_indep",
                                 "rbe3:um:all_dep", "rbe3:um:mixed", "rbe3:weights", "rbe3:rot_indep",
                                 "rbe3:deep_C", "rbe3:deep_S"]}

PARTS = [
    Part("coords", oracle_coords, strategy=coords_cases, quick=(5, 250), thorough=(16, 1000)),
    Part("rb", oracle_rb, strategy=rb_cases, quick=(4, 300), thorough=(16, 1200)),
    Part("rbe3", oracle_rbe3, strategy=rbe3_cases, quick=(5, 250), thorough=(16, 1000)),
    # UM lists with the lone-index-0 signature (see um_first_index_signature): kept apart so that
    # the suspected formrbe3 defect does not mask the other parts
    Part("rbe3_um_first", oracle_rbe3, strategy=rbe3_um_first_cases, quick=(1, 60), thorough=(4, 300)),
    # replace_basic_cs raises "assignment destination is read-only" under pandas 3 (suspected
    # defect): kept apart for the same reason
    Part("replace_basic", oracle_replace, strategy=replace_cases, quick=(1, 150), thorough=(8, 500)),
    # documented defaults: leaving a keyword out = passing its documented value (vlib/defaults.py)
    Part("defaults", defaults.make_oracle("C14"), enum=defaults.make_enum(), quick=(1, None), thorough=(1, None),
         exhaustive=True),
]
