"""C20 - tolerance-limit factors (ksingle, kdouble) and order statistics meet their definitions."""
import math
import random
from fractions import Fraction

import numpy as np
from hypothesis import strategies as st

from vlib import defaults
from vlib.core import Part

PROPERTY = "C20"
RULE = ("every case is built from one hypothesis-drawn 48-bit seed by uniform draws (hypothesis' "
        "numeric strategies over-sample small values); ksingle/kdouble: p, c logit-uniform over the calibrated domain [1e-3, 1-1e-5] (plus the "
        "textbook levels and the domain corners), n log-uniform 2..2000; shape: the same over "
        "[1e-4, 1-1e-6] and n up to 1e6 with one argument moved by 1e-3..4 logits; orderstats: "
        "r 1..50, n log-uniform r..5000 (or 1-p scaled to r/n), p, c logit-uniform, textbook, "
        "dyadic, and constructed exact ties; broadcast: row x column x scalar lists/arrays.  "
        "Oracle: non-central t CDF and density by the defining chi-mixture integral (mpmath "
        "tanh-sinh, 25 digits) -> |cdf(sqrt(n) k) - c| / (pdf sqrt(n)) <= 1e-7 max(|k|, 1/sqrt(n)); "
        "kdouble against sqrt((n-1)/chi2_{1-c}) R with R and chi2 solved in mpmath, rel 1e-9; "
        "strict monotonicity in p and c, decreasing n-ladder and k >= normal quantile for "
        "c >= 0.5 (p >= 0.5 for ksingle), bounded distance to the normal quantile at n = 1e6; "
        "order statistics by exact integer binomial tails of the float arguments: returned "
        "r / n extremal (adjacent integer fails), ties within 1e-12 accept either neighbour, "
        "'c' rel 1e-10, 'p' residual <= 1e-11 |slope| + 4 ulp, round trips; arrays == scalar calls.  "
        "Non-trivial: n >= 3 and p, c not both textbook levels; distinct by hash of the case.")
ASSUME = ["mpmath (erfinv, ncdf, loggamma, tanh-sinh quad) at 25+ digits; the quadrature is "
          "re-run at 40 digits (chi density over mode +- 15) whenever 16 divides n and the disagreement recorded",
          "chi density integrated over mode +- 11 (neglected mass < 1e-24)",
          "Python integers / Fraction(float) are exact",
          "ksingle is exercised strictly only where scipy nct.ppf is itself usable "
          "(n <= 2000, p, c in [1e-3, 1-1e-5]); for n > 2000 a NaN from nct.ppf is "
          "labelled, not reported (DESIGN C20 domain calibration)"]
KNOWN = {}

TEXT_P = [0.9, 0.95, 0.975, 0.97725, 0.99, 0.9973, 0.99865, 0.999]
TEXT_C = [0.5, 0.75, 0.9, 0.95, 0.99]
LO, HI = 1e-3, 1 - 1e-5          # calibrated domain of the defining-integral checks
XLO, XHI = 1e-4, 1 - 1e-6        # extended domain (shape and order statistics)
NMAX = 2000

# k error (CDF residual / density) relative to max(|k|, 1/sqrt(n)).  Observed 2e-15 everywhere
# except one corner of the dependency: scipy nct.ppf(c, 1, 0) snaps to +-2**-27 for c within
# ~1e-8 of 0.5, i.e. ksingle(0.5, 0.5 + 1e-14, 2) = 5.27e-9 instead of 2.2e-14 (7.5e-9 of the
# scale).  1e-7 keeps a factor 13 over that corner and is far below any use of the factor.
TOL_K = 1e-7
TOL_MIRROR = 1e-9   # ksingle(p, c, n) + ksingle(1-p, 1-c, n) relative to the same scale
TOL_KD = 1e-9       # kdouble relative error against the reference solution
TOL_ABOVE = 1e-10   # slack of the one-sided ">= normal quantile" / ladder comparisons
TOL_ELEM = 1e-10    # array element against the scalar call (kdouble: Newton loop length differs)
TOL_C = 1e-10       # order_stats('c') relative error against the exact tail
TOL_P = 1e-11       # order_stats('p'): |tail(p) - c| / |dtail/dp| (brentq xtol is 2e-12)
P_FLOOR = 4 * 2.0 ** -53   # ... + 4 ulp(1) on the tail value (the solver sees 1-c in doubles)
TIE = Fraction(1, 10 ** 12)
CAP = 1e9           # metrics must stay finite (evidence is strict JSON)


def _sr():
    from refs import stats_ref
    return stats_ref


def _m(R, name, v):
    v = float(v)
    if not (v == v) or v > CAP:
        v = CAP
    R.metric(name, v)


def _textbook(p, c):
    return p in TEXT_P and c in TEXT_C


def _regime(x):
    return "lo" if x < 0.05 else ("hi" if x > 0.95 else "mid")


def _ndec(n):
    return "n=2" if n == 2 else f"n<1e{len(str(int(n) - 1))}"


# ------------------------------------------------------------------ ksingle

def oracle_ksingle(case, R):
    """nct_cdf(sqrt(n) k; n-1, sqrt(n) z_p) = c by the defining integral"""
    from mpmath import mp, mpf
    from pyyeti import stats
    SR = _sr()
    p, c, n = float(case["p"]), float(case["c"]), int(case["n"])
    kk = stats.ksingle(p, c, n)
    R.check(np.ndim(kk) == 0, "ksingle_scalar_out", f"type {type(kk)}")
    k = float(kk)
    tag = f"ksingle(p={p!r}, c={c!r}, n={n}) = {k!r}"
    R.label(_ndec(n), "p:" + _regime(p), "c:" + _regime(c),
            "textbook" if _textbook(p, c) else "generic")
    R.nontrivial(n >= 3 and not _textbook(p, c))
    if not R.check(math.isfinite(k), "ksingle_not_finite", tag):
        return
    with mp.workdps(SR.DPS):
        sn = mp.sqrt(n)
        zp = SR.z_of(p)
        cdf, pdf = SR.nct_cdf_pdf(sn * mpf(k), n - 1, sn * zp)
        res = abs(cdf - mpf(c))
        scale = max(abs(k), 1 / math.sqrt(n))
        if pdf > 0:
            e = float(res / (pdf * sn)) / scale
        else:
            e = 0.0 if res == 0 else math.inf
        _m(R, "ksingle_kerr_over_tol", e / TOL_K)
        _m(R, "ksingle_cdf_residual_rel", float(res) / min(c, 1 - c))
        R.check(e <= TOL_K, "ksingle_defining_integral",
                f"{tag}: nct_cdf={mp.nstr(cdf, 17)} want c; k error/scale={e:.3e}")
        if n % 16 == 0:       # monitor the reference itself
            cdf2, pdf2 = SR.nct_cdf_pdf(sn * mpf(k), n - 1, sn * zp, dps=40, width=15)
            _m(R, "ref_nct_selfcheck_rel", float(abs(cdf - cdf2)) / min(c, 1 - c))
        if p >= 0.5 and c >= 0.5:
            R.label("above_checked")
            R.check(k >= float(zp) - TOL_ABOVE * scale, "ksingle_below_normal_quantile",
                    f"{tag} < z_p={float(zp)!r}")


class _D:
    """deterministic uniform draws from one hypothesis-drawn integer seed.

    Hypothesis' own numeric strategies favour small / simple values so strongly
    (two thirds of the sample sizes came out as 2) that the domain was covered
    badly; corner values are produced explicitly by the generators instead."""

    def __init__(self, seed):
        self.r = random.Random(int(seed))

    def u(self, a, b):
        return a + (b - a) * self.r.random()

    def int(self, a, b):
        return a + min(int(self.r.random() * (b - a + 1)), b - a)

    def pick(self, seq):
        return seq[min(int(self.r.random() * len(seq)), len(seq) - 1)]

    def bool(self):
        return self.r.random() < 0.5


SEEDS = st.integers(0, 2 ** 48 - 1)


def _seeded(build):
    def strategy():
        return SEEDS.map(lambda s: build(_D(s)))
    return strategy


def _logit_float(d, lo, hi):
    x = d.u(math.log(lo / (1 - lo)), math.log(hi / (1 - hi)))
    v = 1 / (1 + math.exp(-x))
    return min(max(v, lo), hi)


def _level(d, lo, hi, text):
    kind = d.pick(["u", "u", "u", "u", "text", "corner", "half"])
    if kind == "u":
        return _logit_float(d, lo, hi)
    if kind == "text":
        return d.pick(text)
    if kind == "corner":
        return d.pick([lo, hi, 0.5, math.nextafter(0.5, 1), 0.25, 0.75])
    # around one half, from 1e-16 away (k changes sign there) to 0.05 away
    off = 10.0 ** d.u(-16, -1.3) * (1 if d.bool() else -1)
    return min(max(0.5 + off, lo), hi)


def _n(d, hi=NMAX):
    if d.int(0, 5) == 0:
        return d.pick([2, 3, 4, 5, 10, 21, 100, 1000, hi])
    return int(round(math.exp(d.u(math.log(2), math.log(hi)))))


def _ks_cases(d):
    if d.int(0, 39) == 0:
        # the one spot where the dependency is coarse (see TOL_K): nct.ppf(c, 1, 0), c ~ 0.5
        return {"p": 0.5, "c": 0.5 + 10.0 ** d.u(-16, -7) * (1 if d.bool() else -1), "n": 2}
    return {"p": _level(d, LO, HI, TEXT_P), "c": _level(d, LO, HI, TEXT_C),
            "n": min(max(_n(d), 2), NMAX)}


# ------------------------------------------------------------------ kdouble

def oracle_kdouble(case, R):
    """k = sqrt((n-1)/chi2_{1-c, n-1}) R,  Phi(1/sqrt(n)+R) - Phi(1/sqrt(n)-R) = p"""
    from mpmath import mp, mpf
    from pyyeti import stats
    SR = _sr()
    p, c, n = float(case["p"]), float(case["c"]), int(case["n"])
    kk = stats.kdouble(p, c, n)
    R.check(np.ndim(kk) == 0, "kdouble_scalar_out", f"type {type(kk)}")
    k = float(kk)
    tag = f"kdouble(p={p!r}, c={c!r}, n={n}) = {k!r}"
    R.label(_ndec(n), "p:" + _regime(p), "c:" + _regime(c),
            "textbook" if _textbook(p, c) else "generic")
    R.nontrivial(n >= 3 and not _textbook(p, c))
    if not R.check(math.isfinite(k) and k > 0, "kdouble_not_finite_positive", tag):
        return
    with mp.workdps(SR.DPS):
        kref, r, chi = SR.kdouble_ref(p, c, n)
        e = float(abs(mpf(k) - kref) / kref)
        _m(R, "kdouble_relerr_over_tol", e / TOL_KD)
        R.check(e <= TOL_KD, "kdouble_coverage_equations",
                f"{tag}: reference {mp.nstr(kref, 17)} rel err {e:.3e}")
        # the documented equations, evaluated at the returned k
        rk = mpf(k) * mp.sqrt(chi / (n - 1))
        sn = 1 / mp.sqrt(n)
        cover = mp.ncdf(sn + rk) - mp.ncdf(sn - rk)
        slope = rk * (mp.npdf(sn + rk) + mp.npdf(sn - rk))
        _m(R, "kdouble_coverage_residual_over_tol", float(abs(cover - mpf(p)) / slope) / TOL_KD)
        if c >= 0.5:
            z2 = SR.z_two_sided(p)
            R.label("above_checked")
            R.check(k >= float(z2) * (1 - TOL_ABOVE), "kdouble_below_normal_quantile",
                    f"{tag} < z_(1+p)/2={float(z2)!r}")


def _kd_cases(d):
    n = _n(d)
    if d.int(0, 30) == 0:
        n = d.pick([10 ** 4, 10 ** 5, 10 ** 6])
    return {"p": _level(d, XLO, XHI, TEXT_P), "c": _level(d, XLO, XHI, TEXT_C),
            "n": max(n, 2)}


# ------------------------------------------------------------------ shape: monotone, limit

NBIG = 10 ** 6


def oracle_shape(case, R):
    """strictly increasing in p and in c; n-ladder decreasing and above the
    normal quantile for c >= 0.5; close to it at n = 1e6; mirror symmetry"""
    from pyyeti import stats
    SR = _sr()
    p, c, n = float(case["p"]), float(case["c"]), int(case["n"])
    which, dl = case["move"], float(case["dlogit"])
    x = p if which == "p" else c
    x2 = 1 / (1 + math.exp(-(math.log(x / (1 - x)) + dl)))
    x2 = min(x2, XHI)
    p2, c2 = (x2, c) if which == "p" else (p, x2)
    calibrated = n <= NMAX and all(LO <= v <= HI for v in (p, c, p2, c2))
    R.label("move:" + which, "calibrated" if calibrated else "extended", _ndec(n))
    R.nontrivial(n >= 3 and not _textbook(p, c))
    tag = f"p={p!r} c={c!r} n={n} -> {which}={x2!r}"
    if x2 > x:
        # ---- monotone in the moved argument
        d1, d2 = float(stats.kdouble(p, c, n)), float(stats.kdouble(p2, c2, n))
        R.check(d2 > d1, f"kdouble_not_increasing_in_{which}", f"{tag}: {d1!r} -> {d2!r}")
        s1, s2 = float(stats.ksingle(p, c, n)), float(stats.ksingle(p2, c2, n))
        if math.isfinite(s1) and math.isfinite(s2):
            R.check(s2 > s1, f"ksingle_not_increasing_in_{which}", f"{tag}: {s1!r} -> {s2!r}")
        elif calibrated:
            R.fail("ksingle_not_finite", f"{tag}: {s1!r}, {s2!r}")
        else:
            R.label("ksingle_nan_outside_calibrated_domain")
    # ---- ladder in n up to the limit
    ladder = [n]
    while ladder[-1] * 4 < NBIG:
        ladder.append(ladder[-1] * 4)
    ladder.append(NBIG)
    zp = float(SR.z_of(p))
    zc = float(SR.z_of(c))
    z2 = float(SR.z_two_sided(p))
    ks = [float(v) for v in stats.ksingle(p, c, ladder)]
    kd = [float(v) for v in stats.kdouble(p, c, ladder)]
    R.check(all(math.isfinite(v) and v > 0 for v in kd), "kdouble_not_finite_positive",
            f"{tag} ladder {ladder} -> {kd}")
    if c >= 0.5:
        R.label("ladder_above")
        for a, b, na, nb in zip(kd[:-1], kd[1:], ladder[:-1], ladder[1:]):
            R.check(a >= b * (1 - TOL_ABOVE), "kdouble_not_decreasing_in_n",
                    f"{tag}: n={na}: {a!r}, n={nb}: {b!r}")
        R.check(all(v >= z2 * (1 - TOL_ABOVE) for v in kd), "kdouble_below_normal_quantile",
                f"{tag}: {kd} vs {z2!r}")
    fin = [(m, v) for m, v in zip(ladder, ks) if math.isfinite(v)]
    if len(fin) < len(ks):
        if any(m <= NMAX and not math.isfinite(v) for m, v in zip(ladder, ks)) \
                and LO <= p <= HI and LO <= c <= HI:
            R.fail("ksingle_not_finite", f"{tag} ladder {ladder} -> {ks}")
        else:
            R.label("ksingle_nan_outside_calibrated_domain")
    if c >= 0.5 and p >= 0.5:
        for (na, a), (nb, b) in zip(fin[:-1], fin[1:]):
            sc = abs(a) + 1 / math.sqrt(na)
            R.check(a >= b - TOL_ABOVE * sc, "ksingle_not_decreasing_in_n",
                    f"{tag}: n={na}: {a!r}, n={nb}: {b!r}")
            R.check(a >= zp - TOL_ABOVE * sc, "ksingle_below_normal_quantile",
                    f"{tag}: n={na}: {a!r} < z_p={zp!r}")
    # ---- distance to the normal quantile at n = 1e6 (first-order widths, factor 2)
    if math.isfinite(ks[-1]):
        bound = 2 * (abs(zc) * math.sqrt((1 + zp * zp / 2) / NBIG) + (1 + zp * zp) / NBIG)
        d = abs(ks[-1] - zp)
        _m(R, "ksingle_limit_dist_over_bound", d / bound)
        R.check(d <= bound, "ksingle_limit", f"{tag}: k(1e6)={ks[-1]!r} z_p={zp!r} bound={bound:.3e}")
    bound = 2 * z2 * (abs(zc) / math.sqrt(2 * NBIG) + 2 / NBIG)
    d = abs(kd[-1] - z2)
    _m(R, "kdouble_limit_dist_over_bound", d / bound)
    R.check(d <= bound, "kdouble_limit", f"{tag}: k(1e6)={kd[-1]!r} z={z2!r} bound={bound:.3e}")
    # ---- mirror: T ~ nct(nu, delta)  <=>  -T ~ nct(nu, -delta)
    if calibrated and p >= 0.5 and c >= 0.5 and 1 - p >= LO and 1 - c >= LO:
        a = float(stats.ksingle(p, c, n))
        b = float(stats.ksingle(1 - p, 1 - c, n))       # 1-p, 1-c are exact here
        sc = max(abs(a), 1 / math.sqrt(n))
        _m(R, "ksingle_mirror_over_tol", abs(a + b) / sc / TOL_MIRROR)
        R.check(abs(a + b) <= TOL_MIRROR * sc, "ksingle_mirror",
                f"{tag}: k(p,c)={a!r}, k(1-p,1-c)={b!r}")
        R.label("mirror_checked")


def _shape_cases(d):
    if d.bool():
        lo, hi, nhi = LO, HI, NMAX
    else:
        lo, hi, nhi = XLO, XHI, 10 ** 5
    return {"p": _level(d, lo, hi, TEXT_P), "c": _level(d, lo, hi, TEXT_C),
            "n": max(2, _n(d, nhi)),
            "move": d.pick(["p", "c"]),
            "dlogit": math.exp(d.u(math.log(1e-3), math.log(4.0)))}


# ------------------------------------------------------------------ order statistics

def _is_int_scalar(v):
    return np.ndim(v) == 0 and isinstance(v, (int, np.integer)) and not isinstance(v, bool)


def _gapmetric(R, diffs):
    """how close the nearest non-tie comparison came to the tie window"""
    g = min(abs(float(d)) for d in diffs)
    if g > float(TIE):
        _m(R, "os_tie_window_over_gap", float(TIE) / g)


def check_rank(R, p, c, n, r, tag):
    """r is the largest rank with P[Bin(n,1-p) >= r] >= c (0 if none)"""
    SR = _sr()
    if not R.check(0 <= r <= n, "os_r_out_of_range", tag):
        return False
    tie = False
    diffs = []
    if r >= 1:
        sg, within, d = SR.tail_minus(n, r, p, c)
        t = within(TIE)
        tie |= t
        diffs.append(d)
        R.check(sg >= 0 or t, "os_r_misses_confidence",
                f"{tag}: tail(r)-c={float(d):.3e}")
    sg, within, d = SR.tail_minus(n, r + 1, p, c)
    t = within(TIE)
    tie |= t
    diffs.append(d)
    R.check(sg < 0 or t, "os_r_not_largest", f"{tag}: tail(r+1)-c={float(d):.3e} >= 0")
    if tie:
        R.label("tie")
    else:
        _gapmetric(R, diffs)
    return tie


def check_size(R, p, c, r, n, tag):
    """n is the smallest sample size with P[Bin(n,1-p) >= r] >= c"""
    SR = _sr()
    if not R.check(n >= r, "os_n_below_rank", tag):
        return False
    sg, within, d = SR.tail_minus(n, r, p, c)
    tie = within(TIE)
    diffs = [d]
    R.check(sg >= 0 or tie, "os_n_misses_confidence", f"{tag}: tail(n)-c={float(d):.3e}")
    sg, within, d = SR.tail_minus(n - 1, r, p, c)
    t = within(TIE)
    tie |= t
    diffs.append(d)
    R.check(sg < 0 or t, "os_n_not_smallest", f"{tag}: tail(n-1)-c={float(d):.3e} >= 0")
    if tie:
        R.label("tie")
    else:
        _gapmetric(R, diffs)
    return tie


def n_estimate(p, c, r):
    """crude upper estimate of the sample size (to keep exact arithmetic affordable)"""
    zc = max(0.0, float(_sr().z_of(c)))
    return (r + (zc + 1) * math.sqrt(r) + zc * zc + 3) / (1 - p)


def n_equals_r_region(p, c, r):
    """(1-p)^r >= c (exactly, or within the tie window): n = r samples already
    meet the confidence"""
    return Fraction(1 - Fraction(p)) ** r >= Fraction(c) - TIE


def oracle_orderstats(case, R):
    from mpmath import mp, mpf
    from pyyeti import stats
    SR = _sr()
    p, c, n, r = float(case["p"]), float(case["c"]), int(case["n"]), int(case["r"])
    R.label("kind:" + case.get("kind", "?"), _ndec(n), "r=1" if r == 1 else "r>1")
    R.nontrivial(n >= 3 and not _textbook(p, c))
    base = f"p={p!r} c={c!r} n={n} r={r}"
    # ---- 'c': the binomial upper tail itself
    cg = stats.order_stats("c", p=p, n=n, r=r)
    R.check(np.ndim(cg) == 0, "os_c_scalar_out", f"type {type(cg)}")
    cg = float(cg)
    N, e = SR.tail_ge_scaled(n, r, p)
    with mp.workdps(30):
        cex = mp.ldexp(mpf(N), -e)
        if cex > mpf(10) ** -290:
            err = float(abs(mpf(cg) - cex) / cex)
            _m(R, "os_c_relerr_over_tol", err / TOL_C)
            R.check(err <= TOL_C, "os_c_value", f"{base}: got {cg!r} exact {mp.nstr(cex, 17)}")
            errc = float(abs((1 - mpf(cg)) - (1 - cex)))
            _m(R, "os_c_abs_err_over_1e-14", errc / 1e-14)
        else:
            R.label("c_underflow")
            R.check(0 <= cg <= 1e-280, "os_c_value", f"{base}: got {cg!r} exact < 1e-290")
    cexf = float(cex)
    # ---- 'r'
    rg = stats.order_stats("r", p=p, c=c, n=n)
    R.check(_is_int_scalar(rg), "os_r_scalar_int_out", f"type {type(rg)}")
    rg = int(rg)
    check_rank(R, p, c, n, rg, f"order_stats('r', {base}) = {rg}")
    R.label("r=0" if rg == 0 else "r>0")
    # ---- 'p'
    if r <= n:
        pg = stats.order_stats("p", c=c, n=n, r=r)
        R.check(np.ndim(pg) == 0, "os_p_scalar_out", f"type {type(pg)}")
        pg = float(pg)
        if R.check(0 < pg < 1, "os_p_out_of_range", f"order_stats('p', {base}) = {pg!r}"):
            sg, within, d = SR.tail_minus(n, r, pg, c)
            _, slope = SR.tail_ge_mp(n, r, pg)
            with mp.workdps(30):
                # brentq works on 1-c in doubles: 4 ulp of that is the floor
                e = float(abs(d) / (TOL_P * abs(slope) + P_FLOOR))
            _m(R, "os_p_err_over_tol", e)
            R.check(e <= 1, "os_p_solves_tail_equation",
                    f"order_stats('p', {base}) = {pg!r}: tail-c={float(d):.3e} "
                    f"slope={float(slope):.3e}")
        # round trip p -> c -> p (where c determines p: away from saturation)
        if 1e-6 <= cexf <= 1 - 1e-6 and 0 <= cg <= 1:
            p1 = float(stats.order_stats("p", c=cg, n=n, r=r))
            _, slope = SR.tail_ge_mp(n, r, p)
            # c carries a relative error and the rounding of a double near 1
            tol = TOL_P + (1e-12 * min(cexf, 1 - cexf) + 2.3e-16) / float(abs(slope))
            _m(R, "os_roundtrip_p_over_tol", abs(p1 - p) / tol)
            R.check(abs(p1 - p) <= tol, "os_roundtrip_p_c_p",
                    f"{base}: c={cg!r} -> p={p1!r} (tol {tol:.2e})")
            R.label("roundtrip_pcp")
    # ---- 'n' (and round trip n -> r)
    if n_equals_r_region(p, c, r):
        R.label("n_task:answer_is_r")       # (F14, fixed: used to raise ValueError)
    if n_estimate(p, c, r) > 60000:
        R.label("n_task:skipped_large")
    else:
        ng = stats.order_stats("n", p=p, c=c, r=r)
        R.check(_is_int_scalar(ng), "os_n_scalar_int_out", f"type {type(ng)}")
        ng = int(ng)
        R.label("n_task:done")
        if ng > 200000:
            R.fail("os_n_exceeds_estimate", f"order_stats('n', {base}) = {ng}")
            return
        tie = check_size(R, p, c, r, ng, f"order_stats('n', {base}) = {ng}")
        if not tie and ng >= r:
            r2 = int(stats.order_stats("r", p=p, c=c, n=ng))
            R.check(r2 >= r, "os_roundtrip_n_r", f"{base}: n={ng} -> r={r2} < {r}")
            if ng - 1 >= 1:
                r3 = int(stats.order_stats("r", p=p, c=c, n=ng - 1))
                R.check(r3 < r, "os_roundtrip_n_r", f"{base}: n-1={ng - 1} -> r={r3} >= {r}")


def oracle_n_at_r(case, R):
    """(1-p)^r >= c: the r-th largest of only r samples already meets the
    confidence, so the smallest sample size is r itself"""
    from pyyeti import stats
    p, c, r = float(case["p"]), float(case["c"]), int(case["r"])
    if not n_equals_r_region(p, c, r):
        R.label("outside_region")
        return
    R.label("r=1" if r == 1 else "r>1")
    R.nontrivial(True)
    base = f"order_stats('n', p={p!r}, c={c!r}, r={r})"
    try:
        ng = stats.order_stats("n", p=p, c=c, r=r)
    except ValueError as e:
        R.fail("os_n_raises_when_answer_is_r", f"{base} raised {e!r}; (1-p)^r >= c, answer {r}")
        return
    ng = int(ng)
    check_size(R, p, c, r, ng, f"{base} = {ng}")


def _dyadic(d, lo, hi):
    m = d.int(1, 6)
    j = d.int(1, 2 ** m - 1)
    return min(max(j / 2 ** m, lo), hi)


def _os_cases(d):
    SR = _sr()
    kind = d.pick(["generic", "generic", "scaled", "scaled", "textbook",
                                 "dyadic", "tie", "neartie", "neartie"])
    r = d.int(1, 50) if d.bool() else d.int(1, 6)
    if kind == "neartie":
        # c a hair below / above the confidence that n0 samples give exactly: the continuous root of the sample-size
        # equation lies within ~1e-9 .. 1e-3 of the integer n0, so the answer (n0 or n0 + 1) hangs on how well the
        # root is located before it is rounded up
        r = d.int(1, 30)
        n0 = max(r, int(round(math.exp(d.u(math.log(r + 1), math.log(600))))))
        p = d.pick(TEXT_P) if d.bool() else _logit_float(d, 0.3, XHI)
        t = float(SR.tail_ge(n0, r, p))
        c = t * (1.0 + d.pick([-1e-9, 1e-9, -1e-6, 1e-6, -1e-4, 1e-4, -1e-12, 1e-12]))
        if XLO <= c <= XHI:
            return {"kind": kind, "p": p, "c": c, "n": n0, "r": r}
        kind = "generic"
    if kind == "tie":
        # c := exact tail (representable): the equality case of the definition
        m = d.int(1, 4)
        p = d.int(1, 2 ** m - 1) / 2 ** m
        n = d.int(1, 52 // m)
        r = d.int(1, n)
        t = SR.tail_ge(n, r, p)
        c = float(t)
        if Fraction(c) != t or not (XLO <= c <= XHI):
            kind = "dyadic"
            c = _dyadic(d, XLO, XHI)
        return {"kind": kind, "p": p, "c": c, "n": n, "r": r}
    n = max(r, int(round(math.exp(d.u(math.log(r), math.log(5000))))))
    if kind == "generic":
        p = _logit_float(d, XLO, XHI)
        c = _level(d, XLO, XHI, TEXT_C)
    elif kind == "scaled":
        # 1-p near r/n: the interesting band where the answers are neither 0 nor n
        u = math.exp(d.u(math.log(0.3), math.log(3.0)))
        p = min(max(1 - r * u / n, XLO), XHI)
        c = _level(d, XLO, XHI, TEXT_C)
    elif kind == "textbook":
        p = d.pick(TEXT_P)
        c = d.pick(TEXT_C)
    else:
        p = _dyadic(d, XLO, XHI)
        c = _dyadic(d, XLO, XHI)
    return {"kind": kind, "p": p, "c": c, "n": n, "r": r}


def _n_at_r_cases(d):
    r = d.int(1, 8)
    p = _dyadic(d, XLO, XHI) if d.bool() else _logit_float(d, XLO, 0.9)
    top = float(Fraction(1 - Fraction(p)) ** r)
    c = top * (d.u(0.05, 0.999) if d.bool() else 1.0)
    c = min(max(c, 1e-12), XHI)
    return {"p": p, "c": c, "r": r}


# ------------------------------------------------------------------ broadcast / packaging

def _arr(v, as_array):
    return np.array(v) if as_array and isinstance(v, list) else v


def _bshape(*xs):
    return np.broadcast(*[np.asarray(x) for x in xs]).shape


def _elementwise(args, idx, shape):
    out = []
    for a in args:
        a = np.broadcast_to(np.asarray(a), shape)
        out.append(a[idx].item())
    return out


def oracle_broadcast(case, R):
    from mpmath import mp, mpf
    from pyyeti import stats
    SR = _sr()
    arr = bool(case["as_array"])
    p, c, n, r = case["p"], case["c"], case["n"], case["r"]
    shape = _bshape(p, c, n)
    R.label("array" if arr else "list", f"ndim{len(shape)}")
    R.nontrivial(len(shape) >= 1 and int(np.prod(shape)) >= 2)
    P, C, Nn, Rr = (_arr(v, arr) for v in (p, c, n, r))
    tag = f"p={p} c={c} n={n}"
    # ---- k factors
    for name, tol in (("ksingle", 1e-13), ("kdouble", TOL_ELEM)):
        fn = getattr(stats, name)
        out = fn(P, C, Nn)
        # the caller's arrays are inputs only (they are reused for the next call below)
        R.check(all(np.array_equal(np.asarray(a_), np.asarray(b_)) for a_, b_ in ((P, p), (C, c), (Nn, n))),
                f"{name}_modifies_its_arguments", f"{tag}: after the call p={P!r} c={C!r} n={Nn!r}")
        if not R.check(np.shape(out) == shape, f"{name}_broadcast_shape",
                       f"{tag}: {np.shape(out)} want {shape}"):
            continue
        out = np.asarray(out, dtype=float)
        for idx in np.ndindex(*shape):
            pi, ci, ni = _elementwise((p, c, n), idx, shape)
            want = float(fn(pi, ci, ni))
            got = float(out[idx])
            err = abs(got - want) / max(abs(want), 1 / math.sqrt(ni))
            _m(R, f"{name}_elem_over_tol", err / tol)
            R.check(err <= tol, f"{name}_broadcast_element",
                    f"{tag} at {idx}: {got!r} vs scalar call {want!r}")
            if name == "kdouble":
                with mp.workdps(SR.DPS):
                    kref = SR.kdouble_ref(pi, ci, ni)[0]
                    e = float(abs(mpf(got) - kref) / kref)
                _m(R, "kdouble_relerr_over_tol", e / TOL_KD)
                R.check(e <= TOL_KD, "kdouble_coverage_equations",
                        f"array element p={pi!r} c={ci!r} n={ni}: {got!r} ref {mp.nstr(kref, 17)}")
    # ---- order statistics: each `which` against its scalar calls
    calls = {"c": dict(p=p, n=n, r=r), "r": dict(p=p, c=c, n=n),
             "n": dict(p=p, c=c, r=r), "p": dict(c=c, n=n, r=r)}
    for which, kw in calls.items():
        shp = _bshape(*kw.values())
        if which == "n" and any(
                n_equals_r_region(*_elementwise((kw["p"], kw["c"], kw["r"]), i, shp))
                for i in np.ndindex(*shp)):
            R.label("n_task:answer_is_r")
        akw = {k: _arr(v, arr) for k, v in kw.items()}
        out = stats.order_stats(which, **akw)
        R.check(all(np.array_equal(np.asarray(akw[k]), np.asarray(kw[k])) for k in kw),
                "order_stats_modifies_its_arguments", f"which={which} {kw}: after the call {akw}")
        if not R.check(np.shape(out) == shp, f"os_{which}_broadcast_shape",
                       f"{kw}: {np.shape(out)} want {shp}"):
            continue
        if shp == ():
            if which in "rn":
                R.check(_is_int_scalar(out), f"os_{which}_scalar_int_out", f"{type(out)}")
            continue
        out = np.asarray(out)
        if which in "rn":
            R.check(out.dtype.kind == "i", f"os_{which}_dtype", str(out.dtype))
        keys = list(kw)
        for idx in np.ndindex(*shp):
            vals = _elementwise([kw[k] for k in keys], idx, shp)
            want = stats.order_stats(which, **dict(zip(keys, vals)))
            got = out[idx]
            if which in "rn":
                ok = int(got) == int(want)
            else:
                ok = abs(float(got) - float(want)) <= 1e-13 * max(abs(float(want)), 1e-300)
            R.check(ok, f"os_{which}_broadcast_element",
                    f"{dict(zip(keys, vals))} at {idx}: {got!r} vs scalar call {want!r}")


def _bc_cases(d):
    layout = d.pick(["row_col", "row_col_c", "vec", "scalar", "vec_n"])
    nrow = d.int(1, 4)
    ncol = d.int(1, 6)      # (entries of one call converge at different speeds: several per call)

    def lev(text):
        return _level(d, LO, HI, text)

    def nn():
        return min(max(_n(d, 600), 2), 600)

    rr = lambda: d.int(1, 5)          # noqa: E731
    if layout == "scalar":
        p, c, n, r = lev(TEXT_P), lev(TEXT_C), nn(), rr()
    elif layout == "vec":
        p = [lev(TEXT_P) for _ in range(ncol)]
        c = [lev(TEXT_C) for _ in range(ncol)]
        n = [nn() for _ in range(ncol)]
        r = [rr() for _ in range(ncol)]
    elif layout == "vec_n":
        p, c = lev(TEXT_P), lev(TEXT_C)
        n = [nn() for _ in range(ncol)]
        r = [rr() for _ in range(ncol)]
    else:
        p = [lev(TEXT_P) for _ in range(ncol)]
        n = [[nn()] for _ in range(nrow)]
        r = [[rr()] for _ in range(nrow)]
        c = lev(TEXT_C) if layout == "row_col" else [[lev(TEXT_C)] for _ in range(nrow)]
    # ranks must not exceed any sample size they are paired with
    nmin = int(np.min(n))
    r = (np.minimum(np.asarray(r), nmin)).tolist()
    return {"p": p, "c": c, "n": n, "r": r, "as_array": d.bool()}


PARTS = [
    Part("ksingle", oracle_ksingle, strategy=_seeded(_ks_cases), quick=(9, 120), thorough=(16, 1000)),
    Part("kdouble", oracle_kdouble, strategy=_seeded(_kd_cases), quick=(1, 450), thorough=(8, 900)),
    Part("shape", oracle_shape, strategy=_seeded(_shape_cases), quick=(2, 400), thorough=(8, 1600)),
    Part("orderstats", oracle_orderstats, strategy=_seeded(_os_cases), quick=(3, 300), thorough=(16, 900)),
    Part("broadcast", oracle_broadcast, strategy=_seeded(_bc_cases), quick=(2, 120), thorough=(8, 400)),
    # (1-p)^r >= c: order_stats('n') raises ValueError on the unchanged tree (reported defect)
    Part("os_n_at_r", oracle_n_at_r, strategy=_seeded(_n_at_r_cases), quick=(1, 60), thorough=(1, 500)),
    # documented defaults: leaving a keyword out = passing its documented value (vlib/defaults.py)
    Part("defaults", defaults.make_oracle("C20"), enum=defaults.make_enum(), quick=(1, None), thorough=(1, None),
         exhaustive=True),
]
