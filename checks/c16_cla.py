"""C16 - loads-analysis bookkeeping: extrema / envelopes / uncertainty factors (pyyeti.cla)."""
import copy
from types import SimpleNamespace as NS

import numpy as np
from hypothesis import strategies as st

from refs import cla_ref as ref
from vlib import util
from vlib import defaults
from vlib.core import Part

PROPERTY = "C16"
RULE = ("histories, each generated as one list inside the case and compared with a brute-force model "
        "after every step.  extrema*: 1..8 updates of cla.extrema (1..6 rows, values from -4..4 with ties, "
        "NaN with p~0.15, tables given directly or made by cla.maxmin from a response matrix, string or "
        "per-row list labels, separate min labels, with/without abscissae, with/without per-case columns "
        "in permuted column order); one-column tables and sequences mixing updates with and without "
        "abscissae live in their own parts.  recovery: toy DR_Def (1..3 categories, own uf_reds, "
        "histpv/srspv as 'all'/index/bool, 1-2 Qs, eqsine) -> DR_Event -> DR_Results, 1..3 events of 1..6 "
        "cases processed in permuted slot order through time/frf/psd recovery (psd through solvepsd with a "
        "linear stand-in solver), integer-valued modal data (exact ties), NaNs in time/frf responses; then "
        "merge (any order, rename) + form_extreme (case_order subset/permutation, doappend 0..3, optional "
        "two-level hierarchy) and split->merge->form_extreme.  apply_uf: rb/elastic/res-flex partitions "
        "(rf anywhere, index or bool), m None/1-D/full, b,k 1-D/full, real or complex solutions, optional "
        "pg, 3..8 uf tuples incl. (1,1,1,1), histories of calls with a shared / fresh / absent cache, and "
        "DR_Event.apply_uf over several solutions.  Oracle: envelope = NaN-ignoring max/min over all "
        "cases; (label, abscissa) must belong to a case that attains it (validity predicate: ties may "
        "name any attaining case); per-case columns, cases list, stored histories, srs.ext = fmax of "
        "per-case spectra; form_extreme = envelope of the leaves with labels composed per the doappend "
        "table; apply_uf = transcription of the docstring table, d = d_static + d_dynamic, unit factors "
        "reproduce the input, same result with/without cache in any call order, inputs untouched.  "
        "Non-trivial: >= 3 cases/updates with a tie or a NaN; apply_uf: >= 2 distinct uf tuples through "
        "one cache.")
ASSUME = ["pyyeti.srs.srs / srs_frf / vrs are trusted for the per-case spectra (only their bookkeeping "
          "- rows, slot, conversion factor, envelope - is decided here)",
          "numpy dense solve as reference for the elastic displacement split; tolerance "
          "CT*eps*cond(K_el)*|K_el^-1|(|M||a|+|B||v|+|K||d|)",
          "full modal matrices are block diagonal over the rb / elastic / res-flex partitions (the "
          "docstring formula is written per partition)",
          "rows that are NaN in every abscissa of a case are not generated for time/frf recovery "
          "(numpy nanargmax raises; behaviour not documented)"]
KNOWN = {}
REQUIRED_CLASSES = {"thorough": ["extrema:tie", "extrema:nan", "extrema:casenum", "recovery:domain=time",
                                 "recovery:domain=frf", "recovery:domain=psd", "recovery:two-level",
                                 "recovery:permuted-slots", "recovery:case_order", "recovery:nan", "recovery:tie",
                                 "apply_uf:rf-interleaved", "apply_uf:route=DR_Event", "apply_uf:m=full",
                                 "apply_uf:k=full", "apply_uf:cplx"]}
EPS = util.EPS
CT = 50.0
PSD_RTOL = 64 * EPS


def _arr(lst):
    """nested list with None -> float array with NaN"""
    return np.array([[np.nan if v is None else v for v in row] for row in lst], dtype=float)


def _fails(R, fails, prefix=""):
    for kind, detail in fails:
        R.fail(prefix + kind, detail)


# =========================================================================== extrema (direct)

def oracle_extrema(case, R):
    from pyyeti import cla
    r, ncol = case["r"], case["ncol"]
    ups = case["ups"]
    n = len(ups)
    absmode = ncol == 1
    cur = NS(ext=None, ext_x=None, maxcase=None, mincase=None)
    usecn = case["casenum"]
    if usecn:
        for nm in ("mx", "mn", "mx_x", "mn_x"):
            setattr(cur, nm, np.full((r, n), np.nan))
    leaves, saved = [], []
    written = {}
    anynan = False
    for k, u in enumerate(ups):
        lab = u["lab"]
        minlab = u.get("minlab")
        if u["kind"] == "resp":
            resp = _arr(u["resp"])
            xv = np.array(u["xv"], dtype=float)
            anynan = anynan or bool(np.isnan(resp).any())
            mm = cla.maxmin(resp.copy(), xv.copy())
            lf = ref.response_leaf(resp, xv, lab, "time")
            lf.lab = (lf.lab[0], [minlab] * r if isinstance(minlab, str) else
                      (list(minlab) if minlab is not None else list(lf.lab[0])))
            # maxmin itself: [max, min] and an abscissa where each is attained
            R.check(ref.arr_same(mm.ext[:, 0], lf.v[0]) and ref.arr_same(mm.ext[:, 1], lf.v[1]),
                    "maxmin_values", f"resp={u['resp']} got={mm.ext.tolist()}")
            okx = np.shape(mm.ext_x) == (r, 2) and all(
                any(ref.same(float(mm.ext_x[i, c]), x) for x in lf.xset(c, i))
                for i in range(r) for c in (0, 1))
            R.check(okx, "maxmin_abscissa", f"resp={u['resp']} x={u['xv']} got={np.asarray(mm.ext_x).tolist()}")
        else:
            ext = _arr(u["ext"])
            anynan = anynan or bool(np.isnan(ext).any())
            ext_x = None if u["x"] is None else np.array(u["x"], dtype=float)
            mm = NS(ext=ext.copy(), ext_x=None if ext_x is None else ext_x.copy())
            c1 = 1 if ncol == 2 else 0
            xs = (None, None) if ext_x is None else ([[x] for x in ext_x[:, 0]], [[x] for x in ext_x[:, c1]])
            lf = ref.Leaf(ext[:, 0], ext[:, c1], lab, (minlab if (minlab is not None and ncol == 2) else lab),
                          xs[0], xs[1])
        leaves.append(lf)
        mm0 = (mm.ext.copy(), None if mm.ext_x is None else np.array(mm.ext_x, copy=True))
        lab_in = copy.deepcopy(lab)
        minlab_in = copy.deepcopy(minlab)
        cn = case["perm"][k] if usecn else None
        cla.extrema(cur, mm, lab_in, minlab_in, cn)
        saved.append((mm, mm0))
        R.check(lab_in == lab and minlab_in == minlab, "label_input_modified", f"update {k}")
        # inputs of this and of all earlier updates are not touched (no aliasing into curext)
        for kk, (m_, (e0, x0)) in enumerate(saved):
            R.check(ref.arr_same(m_.ext, e0) and (x0 is None and m_.ext_x is None or
                                                  (x0 is not None and ref.arr_same(m_.ext_x, x0))),
                    "mm_input_modified", f"mm of update {kk} changed after update {k}")
        _fails(R, ref.check_table(cur.ext, cur.ext_x, cur.maxcase, cur.mincase, leaves, absmode=absmode))
        if usecn:
            written[cn] = lf
            for j in range(n):
                cols = [cur.mx[:, j], cur.mn[:, j], cur.mx_x[:, j], cur.mn_x[:, j]]
                if j not in written:
                    R.check(all(np.isnan(c).all() for c in cols), "percase_unwritten_column_touched",
                            f"column {j} after update {k} (casenum {cn})")
                    continue
                w = written[j]
                R.check(ref.arr_same(cols[0], w.v[0]) and ref.arr_same(cols[1], w.v[1]), "percase_mx_mn",
                        f"column {j}: mx={cols[0].tolist()} mn={cols[1].tolist()} case max={w.v[0].tolist()} "
                        f"min={w.v[1].tolist()}")
                okx = all(any(ref.same(float(cols[2 + c][i]), float(x)) for x in w.xset(c, i))
                          for i in range(r) for c in (0, 1))
                R.check(okx, "percase_mx_x_mn_x", f"column {j}: mx_x={cols[2].tolist()} mn_x={cols[3].tolist()}")
    # classes
    tie = False
    for i in range(r):
        for c in (0, 1):
            vals = [abs(lf.v[c][i]) if absmode else lf.v[c][i] for lf in leaves if not ref.isnan(lf.v[c][i])]
            if vals and vals.count(max(vals) if c == 0 else min(vals)) > 1:
                tie = True
    R.label(f"ncol={ncol}", f"x={case['xmode']}", "casenum" if usecn else "no-casenum",
            "nan" if anynan else "no-nan", "tie" if tie else "no-tie", "updates=" + ("1" if n == 1 else "2" if n == 2 else "3+"))
    R.nontrivial(n >= 3 and (tie or anynan))


_val = st.sampled_from([None] * 3 + list(range(-4, 5)) * 2)


@st.composite
def ext_cases(draw, ncol, xmodes):
    r = draw(st.integers(1, 6))
    nup = draw(st.integers(1, 8))
    xmode = draw(st.sampled_from(xmodes))
    ups = []
    for k in range(nup):
        kind = "table"
        if ncol == 2 and xmode != "none" and draw(st.integers(0, 3)) == 0:
            kind = "resp"
        u = {"kind": kind}
        if kind == "table":
            u["ext"] = [[draw(_val) for _ in range(ncol)] for _ in range(r)]
            hasx = xmode == "all" or (xmode == "mixed" and draw(st.booleans()))
            u["x"] = [[draw(st.integers(0, 9)) for _ in range(ncol)] for _ in range(r)] if hasx else None
        else:
            c = draw(st.integers(1, 5))
            resp = [[draw(_val) for _ in range(c)] for _ in range(r)]
            for row in resp:
                if all(v is None for v in row):
                    row[draw(st.integers(0, c - 1))] = draw(st.integers(-4, 4))
            u["resp"] = resp
            u["xv"] = [draw(st.integers(0, 9)) for _ in range(c)]
        lk = draw(st.sampled_from(["str", "str", "list"]))
        u["lab"] = f"c{k}" if lk == "str" else [draw(st.sampled_from(["p", "q", f"c{k}"])) for _ in range(r)]
        if ncol == 2:
            mk = draw(st.sampled_from(["none", "none", "str", "list"]))
            u["minlab"] = None if mk == "none" else (f"m{k}" if mk == "str" else
                                                     [draw(st.sampled_from(["p", "u", f"m{k}"])) for _ in range(r)])
        ups.append(u)
    return {"r": r, "ncol": ncol, "xmode": xmode, "casenum": draw(st.booleans()),
            "perm": list(draw(st.permutations(list(range(nup))))), "ups": ups}


# =========================================================================== recovery (public classes)

SRSFRQ = [1.0, 2.5, 6.0]
H = 0.01


def _pv_index(spec, rows):
    if spec is None:
        return None
    if spec == "all":
        return list(range(rows))
    if "idx" in spec:
        return list(spec["idx"])
    return [i for i, b in enumerate(spec["mask"]) if b]


def _pv_arg(spec):
    if spec is None or spec == "all":
        return spec
    if "idx" in spec:
        return list(spec["idx"])
    return np.array(spec["mask"], dtype=bool)


def _scale(uf, nrb, nmodes):
    ruf, euf, duf, suf = uf
    return np.array([ruf * suf] * nrb + [euf * duf] * (nmodes - nrb), dtype=float)


class _LinearFS:
    """stand-in frequency-domain solver for DR_Results.solvepsd ('or similar ... must have
    .fsolve'): modal acceleration = Ha * generalized force, velocity/displacement zero"""

    def __init__(self, Ha):
        self.Ha = Ha
        self.rfsize = 0

    def fsolve(self, force, freq, **kw):
        a = self.Ha * force
        return NS(a=a.astype(complex), v=np.zeros_like(a, dtype=complex), d=np.zeros_like(a, dtype=complex),
                  f=np.asarray(freq))


def _compose(path, leaf, doappend):
    if doappend == 0:
        return path[0]
    if doappend == 1:
        return ",".join(path + [leaf])
    if doappend == 2:
        return ",".join(path)
    return leaf


def _relabel(lf, lab):
    new = ref.Leaf(lf.v[0], lf.v[1], lab, lab, lf.x[0], lf.x[1])
    return new


def _srs_direct(domain, resp_or_psd, x, idx, q, conv, eqsine, pf):
    from pyyeti import srs
    rr = resp_or_psd[idx].T
    frq = np.array(SRSFRQ)
    if domain == "time":
        return conv * srs.srs(rr, 1 / H, frq, q, eqsine=eqsine).T
    if domain == "frf":
        return (conv / q if eqsine else conv) * srs.srs_frf(rr, x, frq, q).T
    fact = conv * pf
    if eqsine:
        fact /= q
    return fact * srs.vrs((x, rr), x, q, Fn=frq, linear=True).T


def oracle_recovery(case, R):
    from pyyeti import cla
    rng = util.rng_of(case["seed"])
    domain = case["domain"]
    nmodes, nrb, nx = case["nmodes"], case["nrb"], case["nx"]
    cats = case["cats"]
    dosrs = case["dosrs"]
    pf = case["peak_factor"]
    rtol = 0.0 if domain != "psd" else PSD_RTOL
    # ---- definitions
    drdefs = cla.DR_Def({"se": 0, "srsfrq": np.array(SRSFRQ)})
    atms = []
    for c, cat in enumerate(cats):
        atm = rng.integers(-3, 4, (cat["rows"], nmodes)).astype(float)
        atms.append(atm)
        kw = dict(name=f"cat{c}", labels=[f"cat{c} row {i}" for i in range(cat["rows"])],
                  drms={f"atm{c}": atm}, drfunc=f"Vars[se]['atm{c}'] @ sol.a + nas['add'][{c}]",
                  uf_reds=tuple(cat["uf"]))
        if cat["hist"] is not None:
            kw["histpv"] = _pv_arg(cat["hist"])
        if cat["srs"] is not None:
            kw["srspv"] = _pv_arg(cat["srs"])
            kw["srsQs"] = tuple(cat["Qs"]) if len(cat["Qs"]) > 1 else cat["Qs"][0]
            if cat["eqsine"]:
                kw["srsopts"] = {"eqsine": True}
            if cat["conv"] != 1.0:
                kw["srsconv"] = cat["conv"]
        drdefs.add(**kw)
    DR = cla.DR_Event()
    DR.add(None, drdefs)
    R.check(sorted(DR.UF_reds) == sorted(set(tuple(c["uf"]) for c in cats)), "UF_reds_list",
            f"{DR.UF_reds}")
    xname, respname = {"time": ("time", "hist"), "frf": ("freq", "frf"), "psd": ("freq", "psd")}[domain]
    anynan = tie = False
    ev_results, ev_leaves, ev_names = [], [], []
    for e, ev in enumerate(case["events"]):
        n = ev["n"]
        ename = f"Ev{e}"
        results = DR.prepare_results("mission", ename)
        if domain == "time":
            x = np.arange(nx) * H
        else:
            x = np.cumsum(rng.choice([0.5, 1.0, 2.0], nx)) + 0.5
        labels = [f"{ename}-case{j}" for j in range(n)]
        leaves = [[None] * n for _ in cats]          # [cat][j]
        resps = [[None] * n for _ in cats]
        srsd = [[None] * n for _ in cats]
        done = []
        for j in ev["order"]:
            label = labels[j]
            add = []
            for c, cat in enumerate(cats):
                ad = np.zeros((cat["rows"], nx))
                if case["nanp"] and domain != "psd":
                    msk = rng.random(ad.shape) < case["nanp"]
                    for i in range(cat["rows"]):
                        if msk[i].all():
                            msk[i, rng.integers(nx)] = False
                    ad[msk] = np.nan
                    anynan = anynan or bool(msk.any())
                add.append(ad)
            nas = {"nrb": nrb, "add": add}
            lo, hi = (-2, 3) if case["small"] else (-4, 5)
            if domain == "time":
                a = rng.integers(lo, hi, (nmodes, nx)).astype(float)
            else:
                a = (rng.integers(lo, hi, (nmodes, nx)) + 1j * rng.integers(lo, hi, (nmodes, nx))).astype(complex)
            if domain == "psd":
                nforce = int(rng.integers(1, 4))
                t_frc = rng.integers(-2, 3, (nmodes, nforce)).astype(float)
                fpsd = rng.choice([0.25, 0.5, 1.0, 2.0], (nforce, nx))
                fs = _LinearFS(a)
                results.solvepsd(nas, label, DR, fs, fpsd.copy(), t_frc.copy(), x.copy())
                results.psd_data_recovery(label, DR, n, j, dosrs=dosrs, peak_factor=pf)
            else:
                base = NS(a=a.copy(), v=np.zeros_like(a), d=np.zeros_like(a))
                if domain == "time":
                    base.t, base.h = x, H
                else:
                    base.f = x
                if case["solmode"] == "frf_apply_uf":
                    sol = DR.frf_apply_uf(base, nrb)
                    R.check(np.array_equal(base.a, a), "frf_apply_uf_modified_input")
                else:
                    sol = {}
                    for uf in DR.UF_reds:
                        s = copy.deepcopy(base)
                        s.a = a * _scale(uf, nrb, nmodes)[:, None]
                        sol[uf] = s
                if domain == "time":
                    results.time_data_recovery(sol, nas, label, DR, n, j, dosrs=dosrs)
                else:
                    results.frf_data_recovery(sol, nas, label, DR, n, j, dosrs=dosrs)
            done.append(j)
            # ---- model of this case, then compare the whole exposed state
            for c, cat in enumerate(cats):
                sc = _scale(cat["uf"], nrb, nmodes)[:, None]
                if domain == "psd":
                    psd = np.zeros((cat["rows"], nx))
                    for i in range(nforce):
                        resp = atms[c] @ (sc * (a * t_frc[:, i:i + 1])) + add[c]
                        psd = psd + fpsd[i] * np.abs(resp) ** 2
                    lf, rms = ref.psd_leaf(x, psd, label, pf)
                    resps[c][j] = (psd, rms)
                else:
                    resp = atms[c] @ (sc * a) + add[c]
                    lf = ref.response_leaf(resp, x, label, domain)
                    resps[c][j] = (resp, None)
                leaves[c][j] = lf
                res = results[f"cat{c}"]
                tag = f"cat{c} {domain} event {e} after slot {j} (order {ev['order']})"
                cur = [leaves[c][jj] for jj in done]
                _fails(R, [(k_, f"{tag}: {d_}") for k_, d_ in
                           ref.check_table(res.ext, res.ext_x, res.maxcase, res.mincase, cur, rtol=rtol)],
                       "event_")
                R.check(getattr(res, "domain", None) == xname, "event_domain", tag)
                for jj in done:
                    w = leaves[c][jj]
                    R.check(res.cases[jj] == labels[jj], "event_cases_order", f"{tag}: cases={res.cases}")
                    R.check(ref.arr_same(res.mx[:, jj], w.v[0], rtol) and ref.arr_same(res.mn[:, jj], w.v[1], rtol),
                            "event_percase_mx_mn",
                            f"{tag}: slot {jj} mx={res.mx[:, jj].tolist()} mn={res.mn[:, jj].tolist()} "
                            f"model max={w.v[0].tolist()} min={w.v[1].tolist()}")
                    okx = all(any(ref.close(float(arr[i, jj]), float(xx), rtol) for xx in w.xset(col, i))
                              for col, arr in ((0, res.mx_x), (1, res.mn_x)) for i in range(cat["rows"]))
                    R.check(okx, "event_percase_mx_x_mn_x",
                            f"{tag}: slot {jj} mx_x={res.mx_x[:, jj].tolist()} mn_x={res.mn_x[:, jj].tolist()}")
                    if domain == "psd":
                        R.check(ref.arr_same(res.rms[:, jj], resps[c][jj][1], rtol), "event_rms",
                                f"{tag}: slot {jj}")
                hidx = _pv_index(cat["hist"], cat["rows"])
                if hidx is not None:
                    st_ = getattr(res, respname, None)
                    R.check(st_ is not None and st_.shape == (n, len(hidx), nx), "event_hist_shape", tag)
                    if st_ is not None and st_.shape == (n, len(hidx), nx):
                        for jj in done:
                            R.check(ref.arr_same(st_[jj], resps[c][jj][0][hidx], rtol), "event_hist_rows",
                                    f"{tag}: slot {jj} rows {hidx}")
                    R.check(ref.arr_same(getattr(res, xname, None), x), "event_hist_abscissa", tag)
                sidx = _pv_index(cat["srs"], cat["rows"])
                if sidx is not None and dosrs:
                    for q in cat["Qs"]:
                        srsd[c][j] = srsd[c][j] or {}
                        srsd[c][j][q] = _srs_direct(domain, resps[c][j][0], x, sidx, q, cat["conv"],
                                                    cat["eqsine"], pf)
                        got = res.srs.srs[q]
                        if got.shape != (n, len(sidx), len(SRSFRQ)):
                            R.fail("event_srs_shape", f"{tag}: {got.shape}")
                            continue
                        env = None
                        for jj in done:
                            R.check(ref.arr_same(got[jj], srsd[c][jj][q], 1e-12), "event_srs_percase",
                                    f"{tag}: Q={q} slot {jj}")
                            env = srsd[c][jj][q] if env is None else np.fmax(env, srsd[c][jj][q])
                        R.check(ref.arr_same(res.srs.ext[q], env, 1e-12), "event_srs_envelope",
                                f"{tag}: Q={q} got={np.asarray(res.srs.ext[q]).tolist()} want={env.tolist()}")
                    R.check(sorted(res.srs.srs) == sorted(cat["Qs"]) and
                            res.srs.type == ("eqsine" if cat["eqsine"] else "srs"), "event_srs_meta", tag)
        for c in range(len(cats)):
            R.check(results[f"cat{c}"].cases == labels, "event_cases_order",
                    f"cat{c}: {results[f'cat{c}'].cases} vs {labels}")
            for i in range(cats[c]["rows"]):
                for col in (0, 1):
                    vs = [float(lf.v[col][i]) for lf in leaves[c]]
                    if vs.count(max(vs) if col == 0 else min(vs)) > 1:
                        tie = True
        ev_results.append(results)
        ev_leaves.append(leaves)
        ev_names.append(ename)

    ncases = sum(ev["n"] for ev in case["events"])
    R.label(f"domain={domain}", f"events={len(case['events'])}", f"doappend={case['doappend']}",
            "two-level" if case["groups"] is not None else "one-level", "case_order" if case["case_order"] is not None else "insertion-order",
            "nan" if anynan else "no-nan", "tie" if tie else "no-tie", f"solmode={case['solmode']}",
            "dosrs" if dosrs else "nosrs", "permuted-slots" if any(ev["order"] != sorted(ev["order"])
                                                                   for ev in case["events"]) else "in-order")
    R.nontrivial(ncases >= 3 and (tie or anynan))

    # ---- split -> merge (any order) -> form_extreme reproduces the event envelope
    if case["split"]:
        e = case["split_event"] % len(ev_results)
        res0 = ev_results[e]
        sp = res0.split()
        keys = list(sp)
        R.check(keys == res0["cat0"].cases, "split_keys", f"{keys}")
        perm = util.rng_of(case["seed"] + 1).permutation(len(keys))
        mg = cla.DR_Results()
        names = mg.merge([sp[keys[i]] for i in perm])
        R.check(names == [keys[i] for i in perm], "merge_returned_names", f"{names}")
        sda = case.get("split_da", 2)
        mg.form_extreme(doappend=sda)
        for c, cat in enumerate(cats):
            x_ = mg["extreme"][f"cat{c}"]
            lvs = [_relabel(lf, _compose([lf.lab[0][0]], lf.lab[0][0], sda)) for lf in ev_leaves[e][c]]
            _fails(R, ref.check_table(x_.ext, x_.ext_x, x_.maxcase, x_.mincase, lvs, rtol=rtol),
                   "split_merge_")
            R.check(x_.cases == [keys[i] for i in perm], "split_merge_cases", f"{x_.cases}")

    # ---- merge events (any order, rename), optional second level, form_extreme
    snap = [{nm: (np.array(r_.ext, copy=True), np.array(r_.ext_x, copy=True), list(r_.maxcase), list(r_.mincase))
             for nm, r_ in res.items()} for res in ev_results]
    order = case["merge_order"]
    rename = {}
    keyof = list(ev_names)
    if case["rename"]:
        keyof[order[0]] = "Renamed"
        rename = {ev_names[order[0]]: "Renamed", "unused": "x"}
    da = case["doappend"]
    top = cla.DR_Results()
    groups = case["groups"]
    if groups is None:
        names = top.merge((ev_results[i] for i in order), rename or None)
        R.check(names == [keyof[i] for i in order] and list(top) == names, "merge_returned_names", f"{names}")
        topkeys = [keyof[i] for i in order]
        members = {k: [i] for k, i in zip(topkeys, order)}
    else:
        topkeys = []
        members = {}
        for g, grp in enumerate(groups):
            G = cla.DR_Results()
            G.merge((ev_results[i] for i in grp), rename or None)
            top[f"G{g}"] = G
            topkeys.append(f"G{g}")
            members[f"G{g}"] = list(grp)
    co = case["case_order"]
    sel = topkeys if co is None else [topkeys[i % len(topkeys)] for i in co]
    sel = list(dict.fromkeys(sel))
    if co is None:
        top.form_extreme(case["ext_name"], doappend=da)
    else:
        top.form_extreme(case["ext_name"], case_order=list(sel), doappend=da)

    def leaf_set(c, path, evs):
        out = []
        for i in evs:
            for lf in ev_leaves[i][c]:
                p = path + [keyof[i]] if groups is not None else path
                out.append(_relabel(lf, _compose(p, lf.lab[0][0], da)))
        return out

    def check_level(node, c, cases, parts, tagp, srcs):
        """node: extreme category; parts: per entry of `cases` the (leaves, source category)"""
        x_ = node
        tag = f"{tagp} cat{c} doappend={da} cases={cases}"
        R.check(x_.cases == cases, "extreme_cases", f"{tag}: {x_.cases}")
        allleaves = [lf for p in parts for lf in p]
        _fails(R, [(k_, f"{tag}: {d_}") for k_, d_ in
                   ref.check_table(x_.ext, x_.ext_x, x_.maxcase, x_.mincase, allleaves, rtol=rtol)], "extreme_")
        for k, src in enumerate(srcs):
            R.check(ref.arr_same(x_.mx[:, k], src.ext[:, 0]) and ref.arr_same(x_.mn[:, k], src.ext[:, 1]) and
                    ref.arr_same(x_.mx_x[:, k], src.ext_x[:, 0]) and ref.arr_same(x_.mn_x[:, k], src.ext_x[:, 1]),
                    "extreme_percase_columns", f"{tag}: column {k}")
        if hasattr(srcs[0], "srs"):
            for q in cats[c]["Qs"]:
                env = None
                for k, src in enumerate(srcs):
                    R.check(ref.arr_same(x_.srs.srs[q][k], src.srs.ext[q]), "extreme_srs_percase", f"{tag}: Q={q} col {k}")
                    env = np.array(src.srs.ext[q]) if env is None else np.fmax(env, src.srs.ext[q])
                R.check(ref.arr_same(x_.srs.ext[q], env), "extreme_srs_envelope", f"{tag}: Q={q}")
        if tagp.startswith("top|"):
            R.check(x_.event == tagp.split("|")[1], "extreme_event_name", f"{tag}: {x_.event}")

    for c in range(len(cats)):
        nm = f"cat{c}"
        if groups is None:
            parts = [leaf_set(c, [k], members[k]) for k in sel]
            check_level(top["extreme"][nm], c, sel, parts, f"top|{case['ext_name']}",
                        [top[k][nm] for k in sel])
        else:
            for g, grp in enumerate(groups):
                G = top[f"G{g}"]
                gk = [keyof[i] for i in grp]
                # inside a group the path starts at the event key
                parts = [[_relabel(lf, _compose([keyof[i]], lf.lab[0][0], da)) for lf in ev_leaves[i][c]]
                         for i in grp]
                check_level(G["extreme"][nm], c, gk, parts, f"group|G{g}", [G[k][nm] for k in gk])
            parts = [leaf_set(c, [k], members[k]) for k in sel]
            check_level(top["extreme"][nm], c, sel, parts, f"top|{case['ext_name']}",
                        [top[k]["extreme"][nm] for k in sel])
    # the parts are not modified by forming the envelope
    for res, sn in zip(ev_results, snap):
        for nm, (e0, x0, mc, nc) in sn.items():
            r_ = res[nm]
            R.check(ref.arr_same(r_.ext, e0) and ref.arr_same(r_.ext_x, x0) and r_.maxcase == mc and r_.mincase == nc,
                    "form_extreme_modified_parts", nm)


UFVALS = [0.0, 0.5, 1.0, 1.0, 1.0, 1.25, 1.5, 2.0]


@st.composite
def _pvspec(draw, rows):
    k = draw(st.sampled_from(["none", "all", "idx", "mask"]))
    if k == "none":
        return None
    if k == "all":
        return "all"
    if k == "idx":
        return {"idx": draw(st.lists(st.integers(0, rows - 1), min_size=1, max_size=rows, unique=True))}
    m = [draw(st.booleans()) for _ in range(rows)]
    if not any(m):
        m[draw(st.integers(0, rows - 1))] = True
    return {"mask": m}


@st.composite
def rec_cases(draw, split_relabel=False):
    domain = draw(st.sampled_from(["time", "time", "frf", "psd"]))
    nmodes = draw(st.integers(1, 4))
    nrb = draw(st.integers(0, min(2, nmodes)))
    cats = []
    for c in range(draw(st.integers(1, 3))):
        rows = draw(st.integers(1, 4))
        uf = [draw(st.sampled_from(UFVALS)) for _ in range(4)] if draw(st.booleans()) else [1.0, 1.0, 1.0, 1.0]
        cats.append({"rows": rows, "uf": uf, "hist": draw(_pvspec(rows)), "srs": draw(_pvspec(rows)),
                     "Qs": draw(st.sampled_from([[10], [25], [10, 25]])), "eqsine": draw(st.booleans()),
                     "conv": draw(st.sampled_from([1.0, 1.0, 2.0]))})
    nev = 1 if split_relabel else draw(st.integers(1, 3))
    events = []
    for e in range(nev):
        n = draw(st.integers(1, 6))
        events.append({"n": n, "order": list(draw(st.permutations(list(range(n)))))})
    groups = None
    if nev >= 2 and draw(st.integers(0, 2)) == 0:
        cut = draw(st.integers(1, nev - 1))
        p = list(draw(st.permutations(list(range(nev)))))
        groups = [p[:cut], p[cut:]]
    ntop = nev if groups is None else 2
    co = None
    if draw(st.booleans()):
        co = draw(st.lists(st.integers(0, ntop - 1), min_size=1, max_size=ntop, unique=True))
    return {"seed": draw(st.integers(0, 2 ** 31)), "domain": domain, "nmodes": nmodes, "nrb": nrb,
            "nx": draw(st.integers(2, 7)), "cats": cats, "events": events, "groups": groups,
            "solmode": draw(st.sampled_from(["hand", "frf_apply_uf"])), "dosrs": draw(st.integers(0, 3)) > 0,
            "nanp": draw(st.sampled_from([0.0, 0.15])), "small": draw(st.booleans()),
            "peak_factor": draw(st.sampled_from([3.0, 3.0, 2.0])),
            "merge_order": list(draw(st.permutations(list(range(nev))))), "rename": draw(st.booleans()),
            "case_order": co, "doappend": draw(st.integers(0, 3)),
            "ext_name": draw(st.sampled_from(["Envelope", "All events"])),
            "split": split_relabel or draw(st.booleans()), "split_event": draw(st.integers(0, 2)),
            "split_da": draw(st.sampled_from([1, 3])) if split_relabel else draw(st.sampled_from([2, 2, 0]))}


# =========================================================================== apply_uf

def _build_uf_system(case):
    rng = util.rng_of(case["seed"])
    nrb, nel, nrf = case["nrb"], case["nel"], case["nrf"]
    n = nrb + nel + nrf
    nonrb = list(range(nrb, n))
    if case["rfpos"] == "end" or nrf == 0:
        rf = nonrb[len(nonrb) - nrf:] if nrf else []
    else:
        rf = sorted(rng.choice(nonrb, nrf, replace=False).tolist())
    el = [i for i in nonrb if i not in rf]
    rb = list(range(nrb))

    def spd(m, full, lo, hi, wide=False):
        if m == 0:
            return np.zeros((0, 0))
        dg = rng.uniform(lo, hi, m)
        if wide and not full:
            dg = 10.0 ** rng.uniform(0.0, 12.0, m)     # soft and very stiff modes side by side (diagonal only)
        if not full or m == 1:
            return np.diag(dg)
        Q, _ = np.linalg.qr(rng.standard_normal((m, m)))
        A = Q @ np.diag(dg) @ Q.T
        return (A + A.T) / 2

    def assemble(full, lo, hi, rbval, wide=False):
        A = np.zeros((n, n))
        if rb:
            A[np.ix_(rb, rb)] = np.diag(np.full(nrb, rbval))
        A[np.ix_(el, el)] = spd(len(el), full, lo, hi, wide)
        A[np.ix_(rf, rf)] = spd(len(rf), full, lo, hi, wide)
        return A

    M = assemble(case["mform"] == "full", 0.5, 2.0, 1.0) if case["mform"] != "none" else np.eye(n)
    B = assemble(case["bform"] == "full", 0.1, 1.0, 0.0)
    K = assemble(case["kform"] == "full", 1.0, 30.0, 0.0, wide=bool(case.get("kwide")))
    nt = case["nt"]

    def data():
        if case["cplx"]:
            return (rng.integers(-4, 5, (n, nt)) + 1j * rng.integers(-4, 5, (n, nt))).astype(complex)
        return rng.integers(-4, 5, (n, nt)).astype(float)

    sols = []
    for _ in range(3):
        s = NS(a=data(), v=data(), d=data() * 0.25, t=np.arange(nt) * H, h=H)
        if case["pg"]:
            s.pg = rng.integers(-3, 4, (2, nt)).astype(float)
        sols.append(s)
    m_in = None if case["mform"] == "none" else (np.diag(M).copy() if case["mform"] == "vec" else M.copy())
    b_in = np.diag(B).copy() if case["bform"] == "vec" else B.copy()
    k_in = np.diag(K).copy() if case["kform"] == "vec" else K.copy()
    if not rf:
        rf_in = None
    elif case["rfspec"] == "bool":
        rf_in = np.zeros(n, bool)
        rf_in[rf] = True
    else:
        rf_in = np.array(rf)
    return dict(n=n, rb=rb, el=el, rf=rf, M=M, B=B, K=K, sols=sols, m_in=m_in, b_in=b_in, k_in=k_in, rf_in=rf_in)


def _cmp_uf(R, S, sol0, out, uf, tag):
    """one apply_uf output against the documented table"""
    want = ref.apply_uf_ref(sol0.a, sol0.v, sol0.d, getattr(sol0, "pg", None), uf, S["M"], S["B"], S["K"],
                            len(S["rb"]), S["rf"])
    ufs = max(1.0, abs(uf[1] * uf[2]), abs(uf[1] * uf[3]))
    tol = CT * EPS * want["condk"] * max(want["dscale"], 1e-300) * ufs
    for nm in ("a", "v"):
        got = np.asarray(getattr(out, nm))
        R.check(got.shape == want[nm].shape and ref.arr_same(got, want[nm], 4 * EPS), f"uf_{nm}",
                f"{tag}: got={got.tolist()} want={want[nm].tolist()}")
    for nm in ("d_static", "d_dynamic", "d"):
        got = getattr(out, nm, None)
        if got is None or np.shape(got) != want[nm].shape:
            R.fail(f"uf_{nm}_missing_or_shape", tag)
            continue
        err = float(np.abs(np.asarray(got) - want[nm]).max()) if want[nm].size else 0.0
        if not np.isfinite(err):
            err = np.inf
        R.metric("uf_disp_err/tol", err / tol)
        R.check(err <= tol, f"uf_{nm}", f"{tag}: err={err:.3e} tol={tol:.3e} got={np.asarray(got).tolist()} "
                                        f"want={want[nm].tolist()}")
    # diagonal stiffness: the documented d_dynamic = -euf*duf*inv(k)*(m*a + b*v) is a row-by-row quotient, accurate
    # relative to that row's own inertia + damping force over its own stiffness (however large k*d is next to it)
    el_ = S["el"]
    Kee = S["K"][np.ix_(el_, el_)] if el_ else np.zeros((0, 0))
    if el_ and getattr(out, "d_dynamic", None) is not None and np.array_equal(Kee, np.diag(np.diag(Kee))) \
            and np.shape(out.d_dynamic) == want["d_dynamic"].shape:
        ix = np.ix_(el_, el_)
        mag = (np.abs(S["M"][ix]) @ np.abs(sol0.a[el_]) + np.abs(S["B"][ix]) @ np.abs(sol0.v[el_])) \
            / np.diag(Kee)[:, None] * abs(uf[1] * uf[2])
        err = np.abs(np.asarray(out.d_dynamic)[el_] - want["d_dynamic"][el_])
        rowtol = CT * EPS * mag
        worst = float((err / np.maximum(rowtol, 1e-300)).max()) if err.size else 0.0
        if np.any(mag > 0):
            R.metric("uf_d_dynamic_rowwise/tol", worst)
        R.check(bool(np.all(err <= rowtol)), "uf_d_dynamic_rowwise",
                f"{tag}: worst err/tol={worst:.3g}; k={np.diag(Kee).tolist()}")
        R.label("kdiag:wide" if np.diag(Kee).max() > 1e6 * np.diag(Kee).min() else "kdiag:narrow")
    if getattr(out, "d", None) is not None and hasattr(out, "d_static") and hasattr(out, "d_dynamic"):
        s_ = np.asarray(out.d_static) + np.asarray(out.d_dynamic)
        R.check(bool(np.all(np.abs(out.d - s_) <= 4 * EPS * np.maximum(np.abs(out.d), np.abs(s_)))),
                "uf_d_is_static_plus_dynamic", tag)
    if want["pg"] is None:
        R.check(not hasattr(out, "pg"), "uf_pg_invented", tag)
    else:
        R.check(hasattr(out, "pg") and ref.arr_same(out.pg, want["pg"]), "uf_pg", tag)
    if tuple(uf) == (1, 1, 1, 1):
        keep = S["rb"] + S["el"]
        R.check(ref.arr_same(np.asarray(out.a)[keep], sol0.a[keep]) and ref.arr_same(np.asarray(out.v)[keep], sol0.v[keep]),
                "uf_unit_factors_change_a_v", tag)
        nr = S["el"] + S["rf"]
        err = float(np.abs(np.asarray(out.d)[nr] - sol0.d[nr]).max()) if nr else 0.0
        R.check(err <= tol, "uf_unit_factors_change_d", f"{tag}: err={err:.3e} tol={tol:.3e}")
        R.check(not np.asarray(out.d)[S["rb"]].any(), "uf_d_rb_not_zero", tag)
    return tol


def _snap(o):
    return {k: np.array(v, copy=True) for k, v in vars(o).items() if isinstance(v, np.ndarray)}


def _same_snap(o, sn):
    cur = _snap(o)
    return cur.keys() == sn.keys() and all(np.array_equal(cur[k], sn[k], equal_nan=True) and
                                           cur[k].dtype == sn[k].dtype for k in sn)


def oracle_apply_uf(case, R):
    from pyyeti import cla
    S = _build_uf_system(case)
    ufs = [tuple(u) for u in case["ufs"]]
    nrb = len(S["rb"])
    args = (S["m_in"], S["b_in"], S["k_in"], nrb, S["rf_in"])
    mats0 = [None if x is None else np.array(x, copy=True) for x in args[:3]]
    rf0 = None if S["rf_in"] is None else S["rf_in"].copy()
    sol = S["sols"][0]
    sol_sn = [_snap(s) for s in S["sols"]]
    outs = []
    shared = 0
    if case["route"] == "function":
        save = {}
        used_shared = set()
        for step, op in enumerate(case["ops"]):
            uf = ufs[op["uf"] % len(ufs)]
            tag = f"step {step} uf={uf} cache={op['cache']} partitions rb={S['rb']} el={S['el']} rf={S['rf']}"
            if op["cache"] == "shared":
                out = cla.apply_uf(sol, uf, *args, save)
                used_shared.add(uf)
            elif op["cache"] == "fresh":
                out = cla.apply_uf(sol, uf, *args, {})
            else:
                out = cla.apply_uf(sol, uf, *args)
            tol = _cmp_uf(R, S, sol, out, uf, tag)
            if op["cache"] == "shared":
                fresh = cla.apply_uf(sol, uf, *args, None)
                for nm in ("a", "v", "d", "d_static", "d_dynamic"):
                    err = float(np.abs(np.asarray(getattr(out, nm)) - np.asarray(getattr(fresh, nm))).max())
                    R.check(err <= tol, "uf_cache_reuse_changes_result", f"{tag}: {nm} differs by {err:.3e}")
            outs.append((out, _snap(out), tag))
            R.check(_same_snap(sol, sol_sn[0]), "uf_input_solution_modified", tag)
        shared = len(used_shared)
    else:
        drdefs = cla.DR_Def()
        for i, uf in enumerate(ufs):
            drdefs.add(name=f"c{i}", labels=1, drfunc="sol.a[:1]", uf_reds=uf)
        DR = cla.DR_Event()
        DR.add(None, drdefs)
        uniq = list(dict.fromkeys(ufs))
        R.check(list(DR.UF_reds) == uniq, "UF_reds_list", f"{DR.UF_reds} vs {uniq}")
        for step, si in enumerate(case["solseq"]):
            s0 = S["sols"][si % len(S["sols"])]
            res = DR.apply_uf(s0, *args)
            R.check(list(res) == uniq, "uf_event_keys", f"{list(res)}")
            for uf in uniq:
                if uf in res:
                    tag = f"DR_Event.apply_uf call {step} on solution {si} uf={uf} rb={S['rb']} el={S['el']} rf={S['rf']}"
                    _cmp_uf(R, S, s0, res[uf], uf, tag)
                    outs.append((res[uf], _snap(res[uf]), tag))
            R.check(all(_same_snap(s, sn) for s, sn in zip(S["sols"], sol_sn)), "uf_input_solution_modified",
                    f"call {step}")
        shared = len(uniq)
    # later calls do not disturb earlier outputs; system matrices untouched
    for out, sn, tag in outs:
        R.check(_same_snap(out, sn), "uf_earlier_output_modified_by_later_call", tag)
    R.check(all((x is None and y is None) or np.array_equal(x, y) for x, y in zip(args[:3], mats0)) and
            (rf0 is None or np.array_equal(rf0, S["rf_in"])), "uf_system_matrices_modified")
    R.label(f"route={case['route']}", f"m={case['mform']}", f"b={case['bform']}", f"k={case['kform']}",
            f"nrb={nrb}", f"nel={min(len(S['el']), 3)}", f"nrf={len(S['rf'])}", "cplx" if case["cplx"] else "real",
            "pg" if case["pg"] else "no-pg", f"rfspec={case['rfspec'] if S['rf'] else 'None'}",
            "rf-interleaved" if S["rf"] and S["el"] and min(S["rf"]) < max(S["el"]) else "rf-last-or-none")
    R.nontrivial(shared >= 2 and len(S["el"]) >= 1)


@st.composite
def uf_cases(draw):
    nrb = draw(st.integers(0, 3))
    nel = draw(st.integers(0, 4))
    nrf = draw(st.integers(0, 2))
    if nrb + nel + nrf == 0:
        nel = 1
    nuf = draw(st.integers(3, 8))
    ufs = [[draw(st.sampled_from(UFVALS)) for _ in range(4)] for _ in range(nuf)]
    ufs[draw(st.integers(0, nuf - 1))] = [1.0, 1.0, 1.0, 1.0]
    route = draw(st.sampled_from(["function", "function", "DR_Event"]))
    case = {"seed": draw(st.integers(0, 2 ** 31)), "nrb": nrb, "nel": nel, "nrf": nrf,
            "rfpos": draw(st.sampled_from(["end", "mixed"])), "rfspec": draw(st.sampled_from(["index", "bool"])),
            "nt": draw(st.integers(1, 5)), "mform": draw(st.sampled_from(["none", "vec", "full"])),
            "bform": draw(st.sampled_from(["vec", "full"])), "kform": draw(st.sampled_from(["vec", "full"])),
            "pg": draw(st.booleans()), "cplx": draw(st.integers(0, 3)) == 0, "ufs": ufs, "route": route,
            "kwide": draw(st.booleans())}
    if route == "function":
        case["ops"] = [{"uf": draw(st.integers(0, nuf - 1)),
                        "cache": draw(st.sampled_from(["shared", "shared", "shared", "fresh", "none"]))}
                       for _ in range(draw(st.integers(3, 10)))]
    else:
        case["solseq"] = draw(st.lists(st.integers(0, 2), min_size=2, max_size=4))
    return case


# =========================================================================== rows identified by label
def oracle_roworder(case, R):
    """Load cycles that recover the same rows but list them in different orders (differently sorted recovery
    matrices): merge + form_extreme line the rows up by LABEL; the envelope, the governing case labels and the
    per-cycle columns are those of the rows with that label, whatever the order of rows or of cycles"""
    import warnings
    from pyyeti import cla
    rng = util.rng_of(case["seed"])
    nrows, cycles, events = case["nrows"], case["cycles"], case["events"]
    base = [f"LTM Row {i + 1:3d}" for i in range(nrows)]
    # distinct values throughout (no ties: the governing case is then unique)
    vals = rng.permutation(2 * nrows * len(cycles) * len(events)).astype(float) + 1.0
    vals = vals.reshape(len(cycles), len(events), nrows, 2)
    true = {}
    for ci, cyc in enumerate(cycles):
        for ei, ev in enumerate(events):
            true[(cyc["name"], ev)] = np.column_stack((vals[ci, ei, :, 0], -vals[ci, ei, :, 1]))

    def make_cycle(cyc):
        order = cyc["order"]
        drdefs = cla.DR_Def(dict(se=0, uf_reds=(1, 1, 1.2, 1.0)))
        drdefs.add(name="LTM", desc="loads", units="N", labels=[base[i] for i in order], drfunc="no-func")
        DR = cla.DR_Event()
        DR.add(None, drdefs)
        res = cla.DR_Results()
        for ev in events:
            res[ev] = DR.prepare_results("mission", ev)
            res[ev].add_maxmin("LTM", true[(cyc["name"], ev)][order], ev, domain="time")
        res.form_extreme(cyc["name"])
        return res

    with warnings.catch_warnings():
        warnings.simplefilter("ignore")
        top = cla.DR_Results()
        names = top.merge([make_cycle(cycles[i]) for i in case["merge_order"]])
        top.form_extreme()
    want_names = [cycles[i]["name"] for i in case["merge_order"]]
    R.check(names == want_names, "roworder_merge_names", f"{names}")
    cat = top["extreme"]["LTM"]
    labels = list(cat.drminfo.labels)
    R.label(f"cycles={len(cycles)}", "rows_reordered" if any(c["order"] != list(range(nrows)) for c in cycles)
            else "rows_same_order")
    R.nontrivial(any(c["order"] != cycles[0]["order"] for c in cycles))
    if not R.check(sorted(labels) == sorted(base) and list(cat.cases) == want_names, "roworder_labels_cases",
                   f"{labels} / {cat.cases}"):
        return
    for r, lbl in enumerate(labels):
        i = base.index(lbl)
        best_mx = max(((true[(c["name"], e)][i, 0], f"{c['name']},{e}") for c in cycles for e in events))
        best_mn = min(((true[(c["name"], e)][i, 1], f"{c['name']},{e}") for c in cycles for e in events))
        cyc_mx = [max(true[(nm, e)][i, 0] for e in events) for nm in want_names]
        cyc_mn = [min(true[(nm, e)][i, 1] for e in events) for nm in want_names]
        got = (float(cat.ext[r, 0]), float(cat.ext[r, 1]), cat.maxcase[r], cat.mincase[r],
               [float(x) for x in cat.mx[r]], [float(x) for x in cat.mn[r]])
        want = (best_mx[0], best_mn[0], best_mx[1], best_mn[1], cyc_mx, cyc_mn)
        R.check(got == want, "envelope_not_by_row_label", f"row '{lbl}': got {got} want {want}")


@st.composite
def roworder_cases(draw):
    nrows = draw(st.integers(2, 7))
    ncyc = draw(st.integers(2, 4))
    cycles = []
    for c in range(ncyc):
        order = list(range(nrows)) if draw(st.integers(0, 3)) == 0 else list(draw(st.permutations(list(range(nrows)))))
        cycles.append({"name": ["FLAC", "VLC", "VLC2", "DCLA"][c], "order": order})
    return {"seed": draw(st.integers(0, 2 ** 31)), "nrows": nrows, "cycles": cycles,
            "events": ["Liftoff", "MECO", "Sep"][: draw(st.integers(1, 3))],
            "merge_order": list(draw(st.permutations(list(range(ncyc)))))}


PARTS = [
    Part("extrema", oracle_extrema, strategy=lambda: ext_cases(2, ["all", "all", "none"]),
         quick=(4, 500), thorough=(16, 2000)),
    Part("recovery", oracle_recovery, strategy=rec_cases, quick=(8, 80), thorough=(16, 600)),
    Part("roworder", oracle_roworder, strategy=roworder_cases, quick=(2, 60), thorough=(8, 300)),
    Part("apply_uf", oracle_apply_uf, strategy=uf_cases, quick=(4, 150), thorough=(16, 600)),
    # input classes that exposed defects F1 and F24 (both fixed in /repo): kept as their own parts
    Part("extrema_onecol", oracle_extrema, strategy=lambda: ext_cases(1, ["all", "none"]),
         quick=(2, 300), thorough=(8, 1500)),
    Part("extrema_mixed_x", oracle_extrema, strategy=lambda: ext_cases(2, ["mixed"]),
         quick=(2, 300), thorough=(8, 1500)),
    # (split() documents maxcase/mincase = None on the split parts; re-labelling such parts with
    #  form_extreme(doappend=1|3) is outside the property and is not generated: DESIGN 4.2)
    # documented defaults: leaving a keyword out = passing its documented value (vlib/defaults.py)
    Part("defaults", defaults.make_oracle("C16"), enum=defaults.make_enum(), quick=(1, None), thorough=(1, None),
         exhaustive=True),
]
