"""C06 - Craig-Bampton checks: cbcheck on valid and faulty models, cbtf, cgmass, cbconvert/cbreorder."""
import io
import math
import re

import numpy as np
import scipy.linalg as la
from hypothesis import strategies as st

from refs import cbmodel as cm
from refs import coordsys as cs
from vlib import util
from vlib.core import Part

PROPERTY = "C06"
RULE = ("cbcheck*: hypothesis draws model parameters + an integer seed; refs/cbmodel.py expands them into a "
        "free 3-D structure (3..10 grids in a box of half-size 0.5..50, connected random graph of 6-DOF "
        "joints K_e = B^T k_e B, B = [-R_ij, I], k_e SPD with eigenvalue spread 3..300, lumped 6x6 masses "
        "with SPD inertia and optional CG offsets, stiffness scaled so that the FIRST ELASTIC FREE-FREE "
        "FREQUENCY IS 1..50 Hz), reduces it (own constraint modes, scipy eigh fixed-interface modes, "
        "0..all retained) for 1..3 boundary grids in basic / cylindrical / spherical output systems, and "
        "embeds Mcb/Kcb in a b-first, b-last or interleaved DOF layout.  The USET table comes from "
        "n2p.addgrid (cross-checked against the reference geometry) in matrix order, optionally with "
        "extra non-b grids; bseto = identity or a swap of two boundary grids; bref = one grid or a "
        "statically determinate mix over several grids (rb_norm None/True/False); uref = grid id / xyz / "
        "default; conv None / 'm2e' / 'e2m' / random pair; reorder True/False; n_freefree_modes 6..40; "
        "report to StringIO or a file.  Domain restriction imposed by the code (verified in "
        "cb._solve_eig): eigsh(k, p, m, sigma=1.0) returns the p eigenvalues nearest 1 (rad/s)^2 in "
        "ascending order and cbcheck takes the first six as rigid-body modes, so K - 1.0 M must be well "
        "conditioned and fewer than p-6 elastic eigenvalues may lie in (0, 2): guaranteed by elastic "
        "free-free frequencies >= 1 Hz (lambda >= 39).  Oracle: rbg = analytic rigid rows G^T[I, -[x-P]x] "
        "about uref, rbs = rbe = same about the reference grid in its local frame (or about uref with "
        "rb_norm) on b rows, 0 on modal rows; rb^T M rb = analytic 6x6 rigid mass from the lumped data; "
        "cgmass of it = total mass, sum(m x)/sum(m), parallel-axis inertia; K rb = 0 relative to |K||rb|; "
        "effmass = (Phi^T (M rb)_i)^2, cb_frq, sum(effmass) + (boundary-grid mass + truncated modes) = "
        "total per direction, percent table, 100 % when all modes kept and boundary massless; returned "
        "m, k, uset = own permutation / dimensional analysis; printed movement checks 1.000, refpoint "
        "PASS, printed RB'*K*RB sums 0.  cbcheck_faulty: spring on one boundary DOF of Kcb (printed "
        "geometry-based RB'*K*RB = kappa rb_d^T rb_d, refpoint FAIL), spring on an interior physical DOF "
        "before reduction, or one boundary grid moved in the USET only (rbg rows and printed K*RB sums "
        "= those of the moved geometry, stiffness/eigen-based modes and masses still the true ones).  "
        "cbcheck_perm3 / cbcheck_noreorder_split / cbcheck_noreorder_rbnorm: input classes on which "
        "cbcheck is suspected defective (3-cycles of boundary grids; reorder=False with a non-contiguous "
        "b-set or with rb_norm and a b-set not starting at 0), same oracle.  cbtf: random symmetric "
        "(optionally complex) m, k in CB form (k_bq = 0, modal parts full), b none / diagonal modal / "
        "full modal / fully coupled, b-set = any index subset in any order, 1..10 frequencies incl. 0 Hz "
        "and points 1e-3 off a fixed-base resonance, complex boundary acceleration as vector or matrix, "
        "with/without `save`: residual of both block rows of the documented equations, a[bset] = input, "
        "v = i W d, a = -W^2 d (W > 0), own dense solve of the q rows (tolerance ~ eps cond).  cgmass: "
        "(m or m_x,m_y,m_z; cg; inertia) -> documented 6x6 -> recovered incl. radii of gyration and "
        "principal values; ValueError for non-symmetric.  convert_reorder: reference CB models: "
        "cbconvert o inverse = id (M, K, DRM), string forms = documented pairs, symmetry and Mqq = I kept, "
        "Mbb/Kbb = those of the reference model re-built in the new units, mass properties x (mc, L, "
        "mc L^2), eigh(K, M) unchanged, cbtf responses recovered through the converted/reordered DRM "
        "unchanged and interface force x D; cbreorder = own symmetric permutation, columns only for a "
        "DRM, last=True, undone by the inverse permutation, commutes with cbconvert.  Non-trivial: >= 2 "
        "boundary grids or a non-basic output system or retained modes > 0 (cbcheck*, convert_reorder); "
        ">= 1 modal DOF, >= 2 frequencies and damping present (cbtf); non-zero cg offset and products of "
        "inertia (cgmass); distinct by case hash.")
ASSUME = ["refs/cbmodel.py (numpy/scipy float64: assembled K, M, solve, eigh) is accurate to ~1e-13 relative; "
          "rigid-body vectors are compared at 1e-8 x max(1, model length), masses at 1e-8 of their "
          "dimensional scale (observed <= 1e-11, see worst_normalised_error)",
          "local displacement frames of cylindrical/spherical output systems come from refs/coordsys.py (C14)",
          "the report text is parsed only for documented tables (movement checks, refpoint PASS/FAIL, "
          "RB'*K*RB sums) with the print precision 0.001 as tolerance",
          "cbtf: residuals are measured against the magnitude of the terms of each equation; "
          "undamped resonances are kept 1e-3 away"]
KNOWN = {}

EPS = util.EPS
TOL_RB = 1e-8        # rigid-body vectors / max(1, length)          (observed <= 3e-12)
TOL_MASS = 1e-8      # 6x6 masses, mass properties, dimensional scale (observed <= 1e-11)
TOL_KRB = 1e-9       # |K rb| / (|K|max |rb|max n)                    (observed <= 1e-13)
TOL_EXACT = 1e-12    # permutation / unit factors / round trips       (observed <= 5e-16)
TOL_PRINT = 0.00051  # 3 decimals in the report
TOL_TF = 2000.0      # cbtf: x eps x conditioning                     (observed <= 20)

CONV_TABLE = {"m2e": (39.37007874015748, 0.005710147154735817),
              "e2m": (0.0254, 175.12683524637913)}


def _conv_pair(conv):
    if conv is None:
        return 1.0, 1.0
    if isinstance(conv, str):
        return CONV_TABLE[conv]
    return float(conv[0]), float(conv[1])


def _inv_conv(conv):
    if conv == "m2e":
        return "e2m"
    if conv == "e2m":
        return "m2e"
    return [1.0 / conv[0], 1.0 / conv[1]]


# ---------------------------------------------------------------- model from a case

def _systems(case, length):
    rng = util.rng_of(case["seed"] + 7919)
    systems = {0: cs.BASIC}
    cards = {}
    for k, t in enumerate(case.get("systems", [])):
        cid = 11 + k
        A = rng.uniform(-1, 1, 3) * length
        z = cs.unit(rng.standard_normal(3))
        v = cs.unit(rng.standard_normal(3))
        for _ in range(50):
            if np.linalg.norm(np.cross(z, v)) >= 0.3:
                break
            v = cs.unit(rng.standard_normal(3))
        B = A + z * length * rng.uniform(0.5, 2.0)
        C = A + v * length * rng.uniform(0.5, 2.0)
        systems[cid] = cs.define(cid, t, cs.BASIC, A, B, C)
        cards[cid] = np.vstack(([cid, t, 0], A, B, C))
    return systems, cards


def make_model(case):
    """-> dict(S, mat (boundary grids, matrix order), couts, systems, cards, gids)"""
    S = cm.build(case["seed"], case["ngrids"], case["nextra"], case["length"], case["kspread"],
                 case["offsets"], case["f1"])
    mat = [int(g) for g in case["bgrids"]]
    systems, cards = _systems(case, case["length"])
    frames = [np.eye(3)] * S.n
    couts = []
    for j, g in enumerate(mat):
        c = case.get("cout", [0] * len(mat))[j]
        cid = 10 + c if 0 < c <= len(cards) else 0
        if cid:
            sy = systems[cid]
            rho = cs.axis_distance(sy, S.xyz[g])
            rr = float(np.linalg.norm(cs.local_rect(sy, S.xyz[g])))
            if rho < 0.05 * case["length"] or (sy.ctype == cs.SPH and rho < rr * math.sin(2 * cs.D2R)):
                cid = 0          # displacement directions undefined near the polar axis
        couts.append(cid)
        frames[g] = cs.local_frame(systems[cid], S.xyz[g])
    S = S.with_frames(frames)
    if case.get("bmass0"):
        masses = [((0.0, np.zeros((3, 3)), np.zeros(3)) if k in mat else mm) for k, mm in enumerate(S.masses)]
        S = cm.Structure(S.xyz, S.frames, S.edges, masses)
    rng = util.rng_of(case["seed"] + 31)
    gids = [int(t) for t in rng.choice(np.arange(1, 900), size=S.n, replace=False)]
    return dict(S=S, mat=mat, couts=couts, systems=systems, cards=cards, gids=gids)


def make_uset(n2p, mdl, xyz_override=None, extra=False):
    """b-set USET table in matrix order through n2p.addgrid (optionally with extra o-set grids woven in)"""
    S, mat = mdl["S"], mdl["mat"]
    coordref = {}
    for cid, card in mdl["cards"].items():
        n2p.addgrid(None, 1, "b", 0, [0.0, 0.0, 0.0], card, coordref)
    rows = []
    for j, g in enumerate(mat):
        x = S.xyz[g] if xyz_override is None or j not in xyz_override else xyz_override[j]
        rows.append((mdl["gids"][g], "b", x, mdl["couts"][j]))
    if extra:
        others = [g for g in range(S.n) if g not in mat][:2]
        for t, g in enumerate(others):
            rows.insert(min(len(rows), 2 * t), (mdl["gids"][g], "o", S.xyz[g], 0))
    return n2p.addgrid(None, [r[0] for r in rows], [r[1] for r in rows], 0,
                       np.array([r[2] for r in rows]), [r[3] for r in rows], coordref)


def pick_bref(case, mdl, order, nb):
    """-> (positions in the desired-order b-set, kind)"""
    br = case["bref"]
    if br["kind"] == "grid" or len(order) == 1:
        k = br.get("k", 0) % len(order)
        return np.arange(6 * k, 6 * k + 6), "grid"
    S = mdl["S"]
    rb = S.rb_local(np.zeros(3), [mdl["mat"][p] for p in order])
    sc = np.array([1, 1, 1] + [1.0 / S.length_scale()] * 3)
    rng = util.rng_of(br["seed"])
    for _ in range(60):
        pos = np.sort(rng.choice(nb, 6, replace=False))
        if len({int(p) // 6 for p in pos}) < 2:
            continue
        if np.linalg.cond(rb[pos] * sc) <= 30.0:
            return pos, "mix"
    return np.arange(6), "grid"


# ---------------------------------------------------------------- report parsing

_NUM = r"[-+]?(?:\d+\.\d*|\.\d+|\d+)(?:[eE][-+]?\d+)?|nan|inf"


def _floats(line):
    return [float(t) for t in re.findall(_NUM, line)]


def parse_sum(text, rbtype):
    hdr = f"Summation of {rbtype}-based rb-forces: RB'*K*RB:"
    i = text.find(hdr)
    if i < 0:
        return None
    rows = []
    for ln in text[i + len(hdr):].splitlines():
        if not ln.strip():
            if rows:
                break
            continue
        v = _floats(ln)
        if len(v) != 6:
            break
        rows.append(v)
    return np.array(rows) if len(rows) == 6 else None


def parse_move(text, title, nbg):
    i = text.find(title)
    if i < 0:
        return None
    rows = []
    for ln in text[i:].splitlines()[5:5 + nbg]:
        v = _floats(ln)
        if len(v) != 10:
            return None
        rows.append(v)
    return np.array(rows)


# ---------------------------------------------------------------- cbcheck oracle

def _mass_err(got, want, mtot, slen):
    s = np.sqrt(max(mtot, 1e-300)) * np.array([1, 1, 1, slen, slen, slen])
    return float(np.abs((np.asarray(got) - want) / np.outer(s, s)).max())


def _blk(G):
    T = np.zeros((6, 6))
    T[:3, :3] = G
    T[3:, 3:] = G
    return T


def oracle_cbcheck(case, R):
    from pyyeti import cb
    from pyyeti.nastran import n2p

    mdl = make_model(case)
    S, mat = mdl["S"], mdl["mat"]
    nbg = len(mat)
    fault = case.get("fault")
    grounded = bool(fault) and fault["kind"].startswith("ground")
    order = [int(p) for p in case["perm"]]                 # desired order: positions in `mat`
    dgrids = [mat[p] for p in order]
    # ---- reduction (matrix order) and layout
    dK = None
    if fault and fault["kind"] == "ground_i":
        ig = [g for g in range(S.n) if g not in mat]
        g = ig[fault["grid"] % len(ig)]
        d = 6 * g + fault["dof"] % 6
        Kl, _ = S.km_local()
        kappa = fault["kappa_rel"] * float(np.abs(np.diag(Kl)[d]))
        dK = np.zeros_like(Kl)
        dK[d, d] = kappa
    red = cm.cb_reduce(S, mat, case["nq"], dK=dK)
    nb, nq = red["nb"], red["nq"]
    n = nb + nq
    bpos, qpos = cm.layout_positions(util.rng_of(case["seed"] + 5), nbg, nq, case["layout"])
    Mcb = cm.embed(red["M"], nb, nq, bpos, qpos)
    Kcb = cm.embed(red["K"], nb, nq, bpos, qpos)
    bseto = np.concatenate([bpos[6 * p:6 * p + 6] for p in order])
    bref_new, bkind = pick_bref(case, mdl, order, nb)
    bref = bseto[bref_new]
    reorder = case["reorder"]
    conv = case["conv"]
    L, mc = _conv_pair(conv)
    # ---- USET
    moved = None
    if fault and fault["kind"] == "moved":
        cand = [j for j in range(nbg) if not any(order[int(p) // 6] == j for p in bref_new)]
        if case["uref"]["kind"] == "grid":
            cand = [j for j in cand if j != order[case["uref"]["k"] % nbg]]
        if not cand:
            R.label("out_of_domain:no_grid_to_move")
            return
        jm = cand[fault["k"] % len(cand)]
        delta = np.array(fault["delta"], float) * case["length"]
        moved = {jm: S.xyz[mat[jm]] + delta}
    uset = make_uset(n2p, mdl, moved, case.get("uset_extra", False))
    ub = uset[n2p.mksetpv(uset, "p", "b")]
    for j, g in enumerate(mat):
        x = S.xyz[g] if not moved or j not in moved else moved[j]
        got = ub.iloc[6 * j:6 * j + 6, 1:].values
        sy = mdl["systems"][mdl["couts"][j]]
        e = max(float(np.abs(got[0] - x).max()), float(np.abs(got[2] - sy.origin).max())) / case["length"]
        e = max(e, float(np.abs(got[3:] - sy.T).max()))
        R.check(e <= 1e-12 and int(ub.index[6 * j][0]) == mdl["gids"][g], "uset_vs_reference_geometry",
                f"grid {j}: err={e:.3g}")
    # ---- uref
    ur = case["uref"]
    if ur["kind"] == "grid":
        ju = order[ur["k"] % nbg]
        uref_arg = mdl["gids"][mat[ju]]
        P_g = S.xyz[mat[ju]].copy()
    elif ur["kind"] == "xyz":
        uref_arg = [float(t) * case["length"] for t in ur["xyz"]]
        P_g = np.array(uref_arg)
    else:
        uref_arg = None
        P_g = np.zeros(3)
    # ---- expected quantities live in the NEW unit system
    Sn = S.in_units(L, mc) if conv is not None else S
    P_g = P_g * L
    slen = max(Sn.length_scale(), float(np.abs(Sn.xyz - P_g).max()))
    mtot = Sn.total_mass()
    xyz_g = Sn.xyz.copy()                      # geometry as the USET tells it
    if moved:
        for j, x in moved.items():
            xyz_g[mat[j]] = x * L
    rbg_exp = np.vstack([cs.rigid_rows(Sn.frames[g], xyz_g[g] - P_g) for g in dgrids])
    rbtrue_g = Sn.rb_local(P_g, dgrids)
    rb_norm = case["rb_norm"]
    norm_eff = bool(rb_norm) if rb_norm is not None else bool(np.any(np.diff(bref_new) != 1))
    if norm_eff:
        Nrm = np.eye(6)
        if moved:
            Nrm = la.solve(rbtrue_g[bref_new], rbg_exp[bref_new])   # identity: the moved grid holds no ref DOF
    else:
        Nrm = la.inv(rbtrue_g[bref_new])
    rbs_exp = rbtrue_g @ Nrm
    Mrig_g = Sn.rigid_mass(P_g)
    ms_exp = Nrm.T @ Mrig_g @ Nrm
    # ---- label
    R.label(f"nbg{nbg}", "layout:" + (case["layout"] if nq else "noq"), "bref:" + bkind,
            "rb_norm:" + str(rb_norm), "uref:" + ur["kind"], "reorder" if reorder else "noreorder",
            "conv:" + ("none" if conv is None else conv if isinstance(conv, str) else "pair"),
            "perm:" + ("id" if order == sorted(order) else "swap" if [order[p] for p in order] == sorted(order)
                       else "cycle"),
            "nq:" + ("0" if nq == 0 else "all" if nq == len(red["i"]) else "some"),
            "n>25" if n > 25 else "n<=25")
    for c in mdl["couts"]:
        R.label("out:" + "BRCS"[mdl["systems"][c].ctype if c else 0])
    if fault:
        R.label("fault:" + fault["kind"])
    if case.get("bmass0"):
        R.label("bmass0")
    R.nontrivial(nbg >= 2 or any(mdl["couts"]) or nq > 0)
    # ---- ground_b: spring straight on a boundary DOF of the CB stiffness
    kappa_b = None
    if fault and fault["kind"] == "ground_b":
        dnew = fault["dof"] % nb
        dabs = bseto[dnew]
        kappa_b = fault["kappa_rel"] * float(np.abs(np.diag(red["K"])[:nb]).max())
        Kcb = Kcb.copy()
        Kcb[dabs, dabs] += kappa_b
    if grounded:
        # domain of the free-free solution (eigsh about sigma = 1): no eigenvalue of the grounded model near 1
        lam_g = la.eigh(Kcb, Mcb, eigvals_only=True)
        if np.any(np.abs(lam_g - 1.0) < 0.5):
            R.label("out_of_domain:grounded_eigenvalue_near_sigma")
            return
    # ---- call
    kw = dict(conv=conv, em_filt=case.get("em_filt", 0), rb_norm=rb_norm, reorder=reorder,
              n_freefree_modes=case.get("nff", 25))
    if uref_arg is not None:
        kw["uref"] = uref_arg
    if case.get("to_file"):
        path = util.tmpfile("cbcheck.out")
        out = cb.cbcheck(path, Mcb, Kcb, bseto, bref, uset, **kw)
        with open(path) as fh:
            text = fh.read()
    else:
        f = io.StringIO()
        out = cb.cbcheck(f, Mcb, Kcb, bseto, bref, uset, **kw)
        text = f.getvalue()
    # ---- returned b-set, matrices, uset
    if reorder:
        bs = np.arange(nb)
        pv = np.concatenate((bseto, np.sort(qpos)))
    else:
        bs = np.sort(bseto)
        pv = np.arange(n)
    if not R.check(np.array_equal(np.asarray(out.bset), bs), "bset_returned", f"{out.bset}"):
        return
    bs_d = bs if reorder else bseto                # rows of the desired-order grids in the returned matrices
    C, D = cm.unit_vectors(n, bseto, L, mc)
    m_exp = (D[:, None] * Mcb * C[None, :])[np.ix_(pv, pv)]
    k_exp = (D[:, None] * Kcb * C[None, :])[np.ix_(pv, pv)]
    for nm, got, want in (("m", out.m, m_exp), ("k", out.k, k_exp)):
        e = util.relerr(got, want)
        R.metric("returned_matrix_relerr", e)
        R.check(e <= TOL_EXACT, f"returned_{nm}", f"relerr={e:.3g} conv={conv} reorder={reorder}")
    want_ids = [mdl["gids"][g] for g in (dgrids if reorder else mat)]
    got_ids = [int(t) for t in out.uset.index.get_level_values("id")[::6]]
    ok_ids = R.check(got_ids == want_ids, "returned_uset_order",
                     f"bseto grid order {order}: returned uset grids {got_ids}, matrices are in order {want_ids}")
    if ok_ids:
        gx = out.uset.iloc[::6, 1:].values
        wx = np.array([xyz_g[g] for g in (dgrids if reorder else mat)])
        e = float(np.abs(gx - wx).max()) / slen
        R.metric("returned_uset_xyz/len", e)
        R.check(e <= TOL_EXACT, "returned_uset_xyz", f"err={e:.3g}")
    # ---- rigid-body modes
    srb = max(1.0, slen)
    rbg, rbs, rbe = np.asarray(out.rbg), np.asarray(out.rbs), np.asarray(out.rbe)
    if not R.check(rbg.shape == (nb, 6) and rbs.shape == (n, 6) and rbe.shape == (n, 6), "rb_shapes",
                   f"{rbg.shape} {rbs.shape} {rbe.shape}"):
        return
    if not reorder:
        # rows of rbg follow the (sorted) b-set = matrix order
        inv = np.argsort(np.argsort(bseto))
        rbg_d = rbg[inv]
    else:
        rbg_d = rbg
    e = float(np.abs(rbg_d - rbg_exp).max()) / srb
    R.metric("rbg_err/len", e)
    R.check(e <= TOL_RB, "rbg_vs_geometry", f"err={e:.3g} order={order} uref={ur} conv={conv}")
    qrows = np.setdiff1d(np.arange(n), bs)
    ground_at_ref = grounded and fault["kind"] == "ground_b" and (fault["dof"] % nb) in set(int(p) for p in bref_new)
    if not grounded or ground_at_ref:
        e = float(np.abs(rbs[bs_d] - rbs_exp).max()) / srb
        R.metric("rbs_err/len", e)
        R.check(e <= TOL_RB, "rbs_vs_analytic",
                f"err={e:.3g} bref={bkind} rb_norm={rb_norm} layout={case['layout']} reorder={reorder}")
        R.check(not rbs[qrows].any(), "rbs_modal_rows_nonzero")
    if not grounded:
        e = float(np.abs(rbe[bs_d] - rbs_exp).max()) / srb
        R.metric("rbe_err/len", e)
        R.check(e <= TOL_RB, "rbe_vs_analytic",
                f"err={e:.3g} bref={bkind} rb_norm={rb_norm} n={n} nff={case.get('nff', 25)}")
        if nq:
            e = float(np.abs(rbe[qrows]).max()) / (math.sqrt(mtot) * srb)
            R.metric("rbe_modal_rows/(sqrt(m) len)", e)
            R.check(e <= TOL_RB, "rbe_modal_rows_nonzero", f"err={e:.3g}")
    # ---- mass properties
    B = np.ix_(bs_d, bs_d)
    mg = rbg_d.T @ out.m[B] @ rbg_d
    if moved:
        mbb_n = (D[:, None] * Mcb * C[None, :])[np.ix_(bseto, bseto)]
        mg_exp = rbg_exp.T @ mbb_n @ rbg_exp
    else:
        mg_exp = Mrig_g
    e = _mass_err(mg, mg_exp, mtot, slen)
    R.metric("mass6_err", e)
    R.check(e <= TOL_MASS, "mass_geometry_based", f"err={e:.3g} conv={conv}")
    fams = [("geometry", mg, mg_exp, np.eye(6))]
    if not grounded or ground_at_ref:
        fams.append(("stiffness", rbs.T @ out.m @ rbs, ms_exp, Nrm))
    if not grounded:
        fams.append(("eigen", rbe.T @ out.m @ rbe, ms_exp, Nrm))
    for nm, got, want, N_ in fams[1:]:
        e = _mass_err(got, want, mtot, slen * max(1.0, float(np.abs(N_).max())))
        R.metric("mass6_err", e)
        R.check(e <= TOL_MASS, f"mass_{nm}_based", f"err={e:.3g} conv={conv} rb_norm={rb_norm}")
    # cgmass of those: total mass, CG, inertia about CG of the underlying structure
    single = bkind == "grid"
    for nm, got, want, N_ in fams:
        if nm == "geometry" and moved:
            continue
        if nm != "geometry" and not (norm_eff or single):
            continue
        if nm == "geometry" or norm_eff:
            G, P = np.eye(3), P_g
        else:
            G, P = Sn.frames[dgrids[int(bref_new[0]) // 6]], Sn.xyz[dgrids[int(bref_new[0]) // 6]]
        gm = (np.asarray(got) + np.asarray(got).T) / 2
        mcg, dxyz, gyr, pgyr, I, pI = cb.cgmass(gm, all6=True)
        em = float(np.abs(np.diag(mcg)[:3] - mtot).max()) / mtot
        ec = float(np.abs(dxyz - G.T @ (Sn.cg() - P)).max()) / slen
        Iw = G.T @ Sn.inertia_cg() @ G
        ei = float(np.abs(I - Iw).max()) / (mtot * slen * slen)
        eo = float(np.abs(mcg[:3, 3:]).max()) / (mtot * slen)
        ep = float(np.abs(np.sort(np.diag(pI)) - np.linalg.eigvalsh(Iw)).max()) / (mtot * slen * slen)
        for q_, v in (("total_mass", em), ("cg", ec), ("inertia", ei), ("coupling", eo), ("principal", ep)):
            R.metric("massprop_err", v)
            R.check(v <= TOL_MASS, f"massprop_{q_}_{nm}", f"err={v:.3g} conv={conv}")
    # ---- rigid-body motion produces no stiffness force
    kmax = float(np.abs(out.k).max()) or 1.0
    kcol = np.array([1, 1, 1, srb, srb, srb])
    tests = []
    if not fault:
        tests = [("geometry", out.k[B] @ rbg_d, 1.0), ("stiffness", out.k @ rbs, float(np.abs(Nrm).max())),
                 ("eigen", out.k @ rbe, float(np.abs(Nrm).max()))]
    elif moved:
        tests = [("stiffness", out.k @ rbs, float(np.abs(Nrm).max())), ("eigen", out.k @ rbe, float(np.abs(Nrm).max()))]
    for nm, frc, ns in tests:
        e = float(np.abs(frc / kcol).max()) / (kmax * n * max(1.0, ns))
        R.metric("K_rb/(|K| n)", e)
        R.check(e <= TOL_KRB, f"grounding_{nm}_based", f"|K rb|/(|K| n)={e:.3g}")
    # ---- printed report
    for title in ("RB Translation Movement Check", "RB Rotation Movement Check"):
        tb = parse_move(text, title, nbg)
        if not R.check(tb is not None, "report_movement_table_missing", title):
            continue
        cols = slice(1, 10)
        if grounded:
            cols = slice(1, 7) if ground_at_ref else slice(4, 7)
        if bkind == "mix" and not norm_eff:
            cols = slice(4, 7)       # un-normalised modes of a multi-grid reference are not unit motions
        R.check(bool(np.all(tb[:, cols] == 1.0)), "report_movement_not_1",
                f"{title}: {tb[:, 1:].tolist()} rb_norm={rb_norm} bref={bkind}")
    kscale = kmax * n * max(1.0, float(np.abs(Nrm).max())) ** 2
    sg = parse_sum(text, "geometry")
    if R.check(sg is not None, "report_summation_missing", "geometry"):
        kbb_n = (D[:, None] * Kcb * C[None, :])[np.ix_(bseto, bseto)]
        if kappa_b is not None:
            dnew = fault["dof"] % nb
            kap_n = kappa_b * D[bseto[dnew]] * C[bseto[dnew]]
            want = kap_n * np.outer(rbg_exp[dnew], rbg_exp[dnew])
        elif fault:
            want = rbg_exp.T @ kbb_n @ rbg_exp
        else:
            want = np.zeros((6, 6))
        e = float(np.abs(sg - want).max())
        tol = TOL_PRINT + 1e-13 * kscale + 1e-9 * float(np.abs(want).max())
        R.metric("printed_sum_err/tol", e / tol)
        R.check(e <= tol, "report_geometry_RBtKRB",
                f"fault={fault and fault['kind']}: printed {sg.tolist()} expected {np.round(want, 4).tolist()}")
        if fault:
            R.label("fault_visible" if float(np.abs(want).max()) > 100 * tol else "fault_below_print")
    if not fault:
        for nm in ("stiffness", "eigensolution"):
            sm = parse_sum(text, nm)
            if R.check(sm is not None, "report_summation_missing", nm):
                tol = TOL_PRINT + 1e-13 * kscale
                R.check(float(np.abs(sm).max()) <= tol, f"report_{nm}_RBtKRB_nonzero", f"{sm.tolist()}")
    if nbg >= 2:
        has_pass, has_fail = "Check: PASS." in text, "Check: FAIL." in text
        if not grounded:
            R.check(has_pass and not has_fail, "report_refpoint_check_not_PASS", f"pass={has_pass} fail={has_fail}")
        else:
            # Schur complement of the boundary stiffness on the reference DOF = grounding seen from there
            kbb_d = (D[:, None] * Kcb * C[None, :])[np.ix_(bseto, bseto)]
            o = np.setdiff1d(np.arange(nb), bref_new)
            r_ = np.asarray(bref_new)
            sch = kbb_d[np.ix_(r_, r_)] - kbb_d[np.ix_(r_, o)] @ la.solve(kbb_d[np.ix_(o, o)], kbb_d[np.ix_(o, r_)])
            rel = float(np.abs(sch).max()) / float(np.abs(kbb_d[np.ix_(r_, r_)]).max())
            if rel >= 1e-3:
                R.label("refpoint_fail_expected")
                R.check(has_fail and not has_pass, "report_refpoint_check_not_FAIL",
                        f"relative Schur complement {rel:.3g}")
    # ---- stiffness-based coordinates (cbcoordchk on the returned stiffness)
    if not grounded:
        co = cb.cbcoordchk(out.k, bs_d if reorder else bs, bs_d[bref_new] if reorder else np.sort(bref),
                           verbose=False, outfile=io.StringIO(), rb_normalizer=None)
        if bkind == "grid":
            kref = int(bref_new[0]) // 6
            Gr, xr = Sn.frames[dgrids[kref]], Sn.xyz[dgrids[kref]]
            glist = dgrids if reorder else mat
            wc = np.array([Gr.T @ (Sn.xyz[g] - xr) for g in glist])
            e = float(np.abs(co.coords - wc).max()) / slen
            R.metric("cbcoordchk_coords/len", e)
            R.check(e <= TOL_RB, "cbcoordchk_coords", f"err={e:.3g}")
            R.check(co.refpoint_chk == "pass", "cbcoordchk_refpoint_chk", co.refpoint_chk)
    # ---- fixed-base modes and effective mass
    frq = np.sqrt(red["lam"]) / (2 * math.pi)
    e = util.relerr(np.asarray(out.cb_frq), frq)
    R.metric("cb_frq_relerr", e)
    R.check(e <= TOL_EXACT, "cb_frq", f"relerr={e:.3g}")
    em = np.asarray(out.effmass.values if hasattr(out.effmass, "values") else out.effmass)
    ep = np.asarray(out.effmass_percent.values if hasattr(out.effmass_percent, "values") else out.effmass_percent)
    if not R.check(em.shape == (nq, 6) and ep.shape == (nq, 6), "effmass_shape", f"{em.shape} {ep.shape}"):
        return
    if grounded and fault["kind"] == "ground_i":
        return
    # physical participation factors (about uref; for a moved grid the geometry-based vectors of the USET)
    if moved:
        Lq = (D[:, None] * Mcb * C[None, :])[np.ix_(np.sort(qpos), bseto)] @ rbg_exp
        Lall = None
    else:
        Lq, Lall = cm.participation(Sn, cm.cb_reduce(Sn, mat, case["nq"]) if conv is not None else red, P_g)
        if conv is not None:
            # fixed-interface modes of the re-scaled model may differ in sign: compare squares only
            pass
    mscale = mtot * np.array([1, 1, 1, slen * slen, slen * slen, slen * slen])
    if nq:
        e = float(np.abs((em - Lq ** 2) / mscale).max())
        R.metric("effmass_err", e)
        R.check(e <= TOL_MASS, "effmass_vs_participation", f"err={e:.3g} uref={ur['kind']} rb_norm={rb_norm}")
        R.check(list(out.effmass.columns) == ["T1", "T2", "T3", "R1", "R2", "R3"], "effmass_columns")
        R.check(util.relerr(np.asarray(out.effmass.index, float), frq) <= TOL_EXACT, "effmass_index_not_cb_frq")
        tot = np.diag(mg_exp)
        e = float(np.abs(ep - 100.0 * Lq ** 2 / tot).max()) / 100.0
        R.metric("effmass_percent_err", e)
        R.check(e <= TOL_MASS * max(1.0, float((mscale / tot).max())), "effmass_percent", f"err={e:.3g}")
    if Lall is not None:
        # modal effective mass + boundary residual (mass lumped on the boundary grids + truncated modes) = total
        resid = np.diag(Sn.grid_rigid_mass(mat, P_g)) + (Lall[nq:] ** 2).sum(axis=0)
        lhs = em.sum(axis=0) + resid
        e = float(np.abs((lhs - np.diag(Mrig_g)) / mscale).max())
        R.metric("effmass_sum_identity", e)
        R.check(e <= TOL_MASS, "effmass_plus_residual_not_total", f"err={e:.3g}")
        # the same bookkeeping on the returned matrices
        Q = np.ix_(qrows, bs_d)
        r2 = np.diag(rbg_d.T @ (out.m[B] - out.m[Q].T @ out.m[Q]) @ rbg_d)
        R.check(float(np.abs((em.sum(axis=0) + r2 - np.diag(mg)) / mscale).max()) <= TOL_MASS and
                bool(np.all(r2 >= -TOL_MASS * mscale)), "effmass_residual_bookkeeping", f"{r2.tolist()}")
        if case.get("bmass0") and nq == len(red["i"]):
            R.label("effmass_100_percent")
            e = float(np.abs(ep.sum(axis=0) - 100.0).max()) / 100.0
            R.metric("effmass_100_err", e)
            R.check(e <= 1e-7, "effmass_total_not_100_percent", f"{ep.sum(axis=0).tolist()}")


# ---------------------------------------------------------------- cbcheck generators

def _f(lo, hi):
    return st.floats(lo, hi, allow_nan=False, allow_infinity=False, allow_subnormal=False)


@st.composite
def cb_cases(draw, variant="valid"):
    ngrids = draw(st.integers(3, 10))
    nbg_max = min(3, ngrids - 1)
    if variant == "perm3":
        ngrids = max(ngrids, 4)
        nbg = 3
    elif variant in ("noreorder_split", "noreorder_rbnorm"):
        nbg = draw(st.integers(2, min(3, ngrids - 1)))
    elif variant == "faulty":
        nbg = draw(st.integers(1, nbg_max))
    else:
        nbg = draw(st.sampled_from([1, 2, 2, 3, 3])) if nbg_max >= 3 else draw(st.integers(1, nbg_max))
    bgrids = draw(st.lists(st.integers(0, ngrids - 1), min_size=nbg, max_size=nbg, unique=True))
    nint = ngrids - nbg
    nq = draw(st.sampled_from([None, None, 0, 1, 3, 7, 12, 20]))
    if variant in ("noreorder_split",):
        nq = draw(st.sampled_from([None, 2, 5, 9]))
    systems = draw(st.lists(st.sampled_from([1, 2, 3]), min_size=0, max_size=2))
    cout = [draw(st.integers(0, len(systems))) for _ in range(nbg)]
    case = dict(seed=draw(st.integers(0, 2 ** 31 - 1)), ngrids=ngrids,
                nextra=draw(st.integers(0, 6)), length=draw(st.sampled_from([0.5, 2.0, 10.0, 50.0])),
                kspread=draw(st.sampled_from([3.0, 30.0, 300.0])), offsets=draw(st.booleans()),
                f1=draw(st.sampled_from([1.0, 1.5, 4.0, 12.0, 50.0])), bgrids=bgrids, nq=nq,
                systems=systems, cout=cout, layout=draw(st.sampled_from(["bfirst", "blast", "split"])),
                perm=list(range(nbg)), reorder=True,
                conv=draw(st.sampled_from([None, None, "m2e", "e2m", "pair"])),
                rb_norm=draw(st.sampled_from([None, None, True, False])),
                nff=draw(st.sampled_from([25, 25, 6, 10, 40])), em_filt=draw(st.sampled_from([0, 0, 2.0])),
                to_file=draw(st.integers(0, 5)) == 0, uset_extra=draw(st.booleans()),
                bmass0=False)
    if case["conv"] == "pair":
        case["conv"] = [draw(st.sampled_from([1000.0, 0.001, 1 / 25.4, 3.0, 0.3])),
                        draw(st.sampled_from([1000.0, 0.001, 0.005710147154735817, 2.0, 0.5]))]
    # boundary order: identity or a swap of two grids (3-cycles: part cbcheck_perm3)
    if nbg >= 2 and draw(st.booleans()):
        a, b = draw(st.lists(st.integers(0, nbg - 1), min_size=2, max_size=2, unique=True))
        case["perm"][a], case["perm"][b] = case["perm"][b], case["perm"][a]
    if variant == "perm3":
        case["perm"] = draw(st.sampled_from([[1, 2, 0], [2, 0, 1]]))
    # reference DOF
    if nbg >= 2 and draw(st.integers(0, 2)) == 0:
        case["bref"] = {"kind": "mix", "seed": draw(st.integers(0, 10 ** 6))}
        case["rb_norm"] = draw(st.sampled_from([None, True]))
    else:
        case["bref"] = {"kind": "grid", "k": draw(st.integers(0, nbg - 1))}
    uk = draw(st.sampled_from(["grid", "xyz", "default"]))
    case["uref"] = ({"kind": "grid", "k": draw(st.integers(0, nbg - 1))} if uk == "grid" else
                    {"kind": "xyz", "xyz": [draw(_f(-2, 2)), draw(_f(-2, 2)), draw(_f(-2, 2))]} if uk == "xyz"
                    else {"kind": "default"})
    if variant == "valid":
        # all the mass on the interior: 100 % effective mass when every mode is kept
        if nint >= nbg + 1 and draw(st.integers(0, 4)) == 0:
            case["bmass0"] = True
            case["nq"] = draw(st.sampled_from([None, None, 5]))
        # reorder=False: documented for an ascending b-set; (non-contiguous b-set, or rb_norm with a b-set
        # that does not start at 0: parts cbcheck_noreorder_*)
        if draw(st.integers(0, 3)) == 0:
            case["reorder"] = False
            case["perm"] = list(range(nbg))
            case["layout"] = draw(st.sampled_from(["bfirst", "blast"]))
            if case["layout"] == "blast" and case["nq"] != 0:
                case["bref"] = {"kind": "grid", "k": draw(st.integers(0, nbg - 1))}
                case["rb_norm"] = draw(st.sampled_from([None, False]))
    elif variant == "noreorder_split":
        case.update(reorder=False, perm=list(range(nbg)), layout="split", rb_norm=False,
                    bref={"kind": "grid", "k": draw(st.integers(0, nbg - 1))})
    elif variant == "noreorder_rbnorm":
        case.update(reorder=False, perm=list(range(nbg)), layout="blast", rb_norm=True,
                    nq=draw(st.sampled_from([None, 1, 4, 9])))
    elif variant == "faulty":
        kind = draw(st.sampled_from(["ground_b", "ground_b", "ground_i", "moved"] if nbg >= 2 else
                                    ["ground_b", "ground_i"]))
        if kind == "moved":
            case["fault"] = {"kind": "moved", "k": draw(st.integers(0, 2)),
                             "delta": [draw(st.sampled_from([-0.3, -0.05, 0.0, 0.02, 0.2])) for _ in range(3)]}
            if not any(case["fault"]["delta"]):
                case["fault"]["delta"][draw(st.integers(0, 2))] = 0.1
        else:
            case["fault"] = {"kind": kind, "dof": draw(st.integers(0, 17)), "grid": draw(st.integers(0, 9)),
                             "kappa_rel": draw(st.sampled_from([1e-3, 1e-2, 0.1, 1.0, 10.0]))}
    return case


def split_is_contiguous(case):
    """layout 'split' may by chance come out contiguous: then the case belongs to the main part"""
    nbg = len(case["bgrids"])
    S_n = case["ngrids"]
    ni = 6 * (S_n - nbg)
    nq = ni if case["nq"] is None else min(case["nq"], ni)
    bpos, _ = cm.layout_positions(util.rng_of(case["seed"] + 5), nbg, nq, case["layout"])
    return bool(np.all(np.diff(bpos) == 1)), int(bpos[0])
