"""C06 - Craig-Bampton checks: cbcheck on valid and faulty models, cbtf, cgmass, cbconvert/cbreorder."""
import io
import math
import warnings
import re

import numpy as np
import scipy.linalg as la
from hypothesis import strategies as st

from refs import cbmodel as cm
from refs import coordsys as cs
from vlib import util
from vlib import defaults
from vlib.core import Part

PROPERTY = "C06"
RULE = ("cbcheck*: hypothesis draws model parameters + an integer seed; refs/cbmodel.py expands them into a "
        "free 3-D structure (3..10 grids in a box of half-size 0.5..50, connected random graph of 6-DOF "
        "joints K_e = B^T k_e B, B = [-R_ij, I], k_e SPD with eigenvalue spread 3..300, lumped 6x6 masses "
        "with SPD inertia and optional CG offsets, stiffness scaled so that the FIRST ELASTIC FREE-FREE "
        "FREQUENCY IS 1..50 Hz), reduces it (own constraint modes, scipy eigh fixed-interface modes, "
        "1..all retained) for 1..3 boundary grids in basic / cylindrical / spherical output systems (optionally "
        "turned so that a boundary grid sits exactly at azimuth 0 / 90 / 180 / 270 degrees), and "
        "embeds Mcb/Kcb in a b-first, b-last or interleaved DOF layout.  The USET table comes from "
        "n2p.addgrid (cross-checked against the reference geometry) in matrix order, optionally with "
        "extra non-b grids; bseto = identity or a swap of two boundary grids; bref = one grid or a "
        "statically determinate mix over several grids (rb_norm None/True/False); uref = grid id / xyz / "
        "default; conv None / 'm2e' / 'e2m' / (length, mass) pair; reorder True/False (then b-first, or b-last "
        "without rb_norm); n_freefree_modes 25 / 40 / 100; boundary masses optionally x 1e-3 (effective mass "
        "~100 %); report to StringIO or a file.  Domain restriction imposed by the code (verified in "
        "cb._solve_eig): eigsh(k, p, m, sigma=1.0) returns the p eigenvalues nearest 1 (rad/s)^2 in "
        "ascending order and cbcheck takes the first six as rigid-body modes, so K - 1.0 M must be well "
        "conditioned and fewer than p-6 elastic eigenvalues may lie in (0, 2): guaranteed by elastic "
        "free-free frequencies >= 1 Hz (lambda >= 39).  Oracle: rbg = analytic rigid rows G^T[I, -[x-P]x] "
        "about uref, rbs = rbe = same about the reference grid in its local frame (or about uref with "
        "rb_norm) on b rows, 0 on modal rows; rb^T M rb = analytic 6x6 rigid mass from the lumped data; "
        "cgmass of it = total mass, sum(m x)/sum(m), parallel-axis inertia; K rb = 0 relative to |K||rb|; "
        "effmass = (Phi^T (M rb)_i)^2, cb_frq, sum(effmass) + (boundary-grid mass + truncated modes) = "
        "total per direction, percent table = 100 effmass / diag(rigid mass); returned "
        "m, k, uset = own permutation / dimensional analysis; printed movement checks 1.000, refpoint "
        "PASS, printed RB'*K*RB sums 0.  cbcheck_faulty: spring on one boundary DOF of Kcb (printed "
        "geometry-based RB'*K*RB = kappa rb_d^T rb_d, refpoint FAIL), spring on an interior physical DOF "
        "before reduction, or one boundary grid moved in the USET only (rbg rows and printed K*RB sums "
        "= those of the moved geometry, stiffness/eigen-based modes and masses still the true ones).  "
        "cbcheck_perm3 / cbcheck_noreorder_split / cbcheck_noreorder_rbnorm / cbcheck_nomodes / cbcheck_bigunits "
        "/ cbtf_noq_order: focused generators for the input classes on which defects F34-F39 were found (now "
        "fixed; the same classes are also drawn by the main parts), same oracles "
        "(3-cycles of boundary grids; reorder=False with a non-contiguous b-set, or with rb_norm and a "
        "b-set not starting at 0; no retained mode; conv to units with mass x length ~1e8; cbtf without "
        "modal DOF and a b-set other than arange(n)).  cbtf: random symmetric "
        "(optionally complex) m, k in CB form (k_bq = 0, modal parts full), b none / diagonal modal / "
        "full modal / fully coupled, b-set = any index subset in any order, 1..10 frequencies incl. 0 Hz "
        "and points 1e-3 off a fixed-base resonance, complex boundary acceleration as vector or matrix, "
        "with/without `save`: residual of both block rows of the documented equations, a[bset] = input, "
        "v = i W d, a = -W^2 d (W > 0), own dense solve of the q rows (tolerance ~ eps cond).  cgmass: "
        "(m or m_x,m_y,m_z; cg; inertia) -> documented 6x6 -> recovered incl. radii of gyration and "
        "principal values; ValueError for non-symmetric.  convert_reorder: reference CB models: "
        "cbconvert o inverse = id (M, K, DRM), string forms = documented pairs, symmetry and Mqq = I kept, "
        "Mbb/Kbb = those of the reference model re-built in the new units, mass properties x (mc, L, "
        "mc L^2), eigh(K, M) unchanged, cbtf responses recovered through the converted/reordered DRM "
        "unchanged and interface force x D; cbreorder = own symmetric permutation, columns only for a "
        "DRM, last=True, undone by the inverse permutation, commutes with cbconvert.  Non-trivial: >= 2 "
        "boundary grids or a non-basic output system or retained modes > 0 (cbcheck*, convert_reorder); "
        ">= 1 modal DOF, >= 2 frequencies and damping present (cbtf); non-zero cg offset and products of "
        "inertia (cgmass); distinct by case hash.")
ASSUME = ["refs/cbmodel.py (numpy/scipy float64: assembled K, M, solve, eigh) is accurate to ~1e-13 relative; "
          "geometry-/stiffness-based rigid-body vectors are compared at 1e-7 x max(1, model length), masses "
          "at 1e-7 of their dimensional scale (observed <= 5e-10), everything derived from the "
          "eigenvalue-based modes at 1e-4 (observed <= 5e-7; eigsh uses a random start vector, so that "
          "error varies from run to run), see worst_normalised_error",
          "n_freefree_modes is the default 25 or larger: with smaller values ARPACK was seen to return "
          "only five of the six coincident zero eigenvalues in ~5 % of the runs on some models "
          "(non-deterministic, reported, not generated)",
          "local displacement frames of cylindrical/spherical output systems come from refs/coordsys.py (C14)",
          "the report text is parsed only for documented tables (movement checks, refpoint PASS/FAIL, "
          "RB'*K*RB sums) with the print precision 0.001 as tolerance",
          "cbtf: residuals are measured against the magnitude of the terms of each equation; "
          "undamped resonances are kept 1e-3 away"]
KNOWN = {}

EPS = util.EPS
TOL_RB = 1e-7        # geometry-/stiffness-based rigid-body vectors / max(1, length) (observed <= 2e-10)
TOL_MASS = 1e-7      # 6x6 masses, mass properties, effective mass / dimensional scale (observed <= 5e-10)
TOL_EIG = 1e-4       # everything derived from the eigenvalue-based modes (observed <= 5e-7)
TOL_KRB = 1e-10      # |K rb| / (|K| n), K and rb made dimensionless   (observed <= 6e-14)
TOL_EXACT = 1e-12    # permutation / unit factors / round trips       (observed <= 5e-16)
TOL_PRINT = 0.00051  # 3 decimals in the report
TOL_TF = 2.0e4       # cbtf: x eps x conditioning                     (observed <= 100)

CONV_TABLE = {"m2e": (39.37007874015748, 0.005710147154735817),
              "e2m": (0.0254, 175.12683524637913)}


def _conv_pair(conv):
    if conv is None:
        return 1.0, 1.0
    if isinstance(conv, str):
        return CONV_TABLE[conv]
    return float(conv[0]), float(conv[1])


def _inv_conv(conv):
    if conv == "m2e":
        return "e2m"
    if conv == "e2m":
        return "m2e"
    return [1.0 / conv[0], 1.0 / conv[1]]


# ---------------------------------------------------------------- model from a case

def _systems(case, length, pins=None):
    """pins: {system index k: point}: with case['cardinal'] = angle (degrees) the x axis of system k is turned so
    that the point sits exactly at that azimuth (structured interfaces: bolts at 0/90/180/270 degrees)"""
    rng = util.rng_of(case["seed"] + 7919)
    systems = {0: cs.BASIC}
    cards = {}
    for k, t in enumerate(case.get("systems", [])):
        cid = 11 + k
        A = rng.uniform(-1, 1, 3) * length
        z = cs.unit(rng.standard_normal(3))
        v = cs.unit(rng.standard_normal(3))
        for _ in range(50):
            if np.linalg.norm(np.cross(z, v)) >= 0.3:
                break
            v = cs.unit(rng.standard_normal(3))
        if pins and k in pins and case.get("cardinal") is not None:
            d = np.asarray(pins[k], float) - A
            er = d - (d @ z) * z
            if np.linalg.norm(er) > 0.05 * length:
                er = cs.unit(er)
                a = math.radians(float(case["cardinal"]))
                v = math.cos(a) * er - math.sin(a) * np.cross(z, er)
        B = A + z * length * rng.uniform(0.5, 2.0)
        C = A + v * length * rng.uniform(0.5, 2.0)
        systems[cid] = cs.define(cid, t, cs.BASIC, A, B, C)
        cards[cid] = np.vstack(([cid, t, 0], A, B, C))
    return systems, cards


def make_model(case):
    """-> dict(S, mat (boundary grids, matrix order), couts, systems, cards, gids)"""
    S = cm.build(case["seed"], case["ngrids"], case["nextra"], case["length"], case["kspread"],
                 case["offsets"], case["f1"])
    mat = [int(g) for g in case["bgrids"]]
    if case.get("adapter") and len(mat) >= 2:
        # the last boundary grid becomes a massless adapter: everything that was attached to it is attached to the
        # first boundary grid instead, and it hangs on that grid alone through one joint.  Its columns of the CB mass
        # matrix are exactly zero, its stiffness is not (cbcheck reduces such DOF out statically)
        ga, g0 = mat[-1], mat[0]
        edges, kad = [], None
        for i_, j_, ke_ in S.edges:
            if ga in (i_, j_) and kad is None:
                kad = ke_
            i2, j2 = (g0 if i_ == ga else i_), (g0 if j_ == ga else j_)
            if i2 != j2:
                edges.append((i2, j2, ke_))
        edges.append((g0, ga, kad))
        masses = list(S.masses)
        masses[ga] = (0.0, np.zeros((3, 3)), np.zeros(3))
        S = cm.Structure(S.xyz, S.frames, edges, masses)
    pins = {}
    for j, g in enumerate(mat):
        c = case.get("cout", [0] * len(mat))[j]
        if c > 0 and (c - 1) not in pins:
            pins[c - 1] = S.xyz[g]
    systems, cards = _systems(case, case["length"], pins)
    frames = [np.eye(3)] * S.n
    couts = []
    for j, g in enumerate(mat):
        c = case.get("cout", [0] * len(mat))[j]
        cid = 10 + c if 0 < c <= len(cards) else 0
        if cid:
            sy = systems[cid]
            rho = cs.axis_distance(sy, S.xyz[g])
            rr = float(np.linalg.norm(cs.local_rect(sy, S.xyz[g])))
            if rho < 0.05 * case["length"] or (sy.ctype == cs.SPH and rho < rr * math.sin(2 * cs.D2R)):
                cid = 0          # displacement directions undefined near the polar axis
        couts.append(cid)
        frames[g] = cs.local_frame(systems[cid], S.xyz[g])
    S = S.with_frames(frames)
    if case.get("bmass_small"):
        # (a massless boundary with all modes kept makes Mcb singular: outside cbcheck's eigensolution)
        masses = [((mm[0] * 1e-3, mm[1] * 1e-3, mm[2]) if k in mat else mm) for k, mm in enumerate(S.masses)]
        S = cm.Structure(S.xyz, S.frames, S.edges, masses)
    rng = util.rng_of(case["seed"] + 31)
    gids = [int(t) for t in rng.choice(np.arange(1, 900), size=S.n, replace=False)]
    return dict(S=S, mat=mat, couts=couts, systems=systems, cards=cards, gids=gids)


def make_uset(n2p, mdl, xyz_override=None, extra=False):
    """b-set USET table in matrix order through n2p.addgrid (optionally with extra o-set grids woven in)"""
    S, mat = mdl["S"], mdl["mat"]
    coordref = {}
    for cid, card in mdl["cards"].items():
        n2p.addgrid(None, 1, "b", 0, [0.0, 0.0, 0.0], card, coordref)
    rows = []
    for j, g in enumerate(mat):
        x = S.xyz[g] if xyz_override is None or j not in xyz_override else xyz_override[j]
        rows.append((mdl["gids"][g], "b", x, mdl["couts"][j]))
    if extra:
        others = [g for g in range(S.n) if g not in mat][:2]
        for t, g in enumerate(others):
            rows.insert(min(len(rows), 2 * t), (mdl["gids"][g], "o", S.xyz[g], 0))
    return n2p.addgrid(None, [r[0] for r in rows], [r[1] for r in rows], 0,
                       np.array([r[2] for r in rows]), [r[3] for r in rows], coordref)


def pick_bref(case, mdl, order, nb):
    """-> (positions in the desired-order b-set, kind)"""
    br = case["bref"]
    if br["kind"] == "grid" or len(order) == 1:
        k = br.get("k", 0) % len(order)
        return np.arange(6 * k, 6 * k + 6), "grid"
    S = mdl["S"]
    rb = S.rb_local(np.zeros(3), [mdl["mat"][p] for p in order])
    sc = np.array([1, 1, 1] + [1.0 / S.length_scale()] * 3)
    rng = util.rng_of(br["seed"])
    for _ in range(60):
        pos = np.sort(rng.choice(nb, 6, replace=False))
        if len({int(p) // 6 for p in pos}) < 2 or not np.any(np.diff(pos) != 1):
            continue      # (a contiguous multi-grid reference needs rb_norm=True by the docstring)
        if np.linalg.cond(rb[pos] * sc) <= 30.0:
            return pos, "mix"
    return np.arange(6), "grid"


# ---------------------------------------------------------------- report parsing

_NUM = r"[-+]?(?:\d+\.\d*|\.\d+|\d+)(?:[eE][-+]?\d+)?|nan|inf"


def _floats(line):
    return [float(t) for t in re.findall(_NUM, line)]


def parse_sum(text, rbtype):
    hdr = f"Summation of {rbtype}-based rb-forces: RB'*K*RB:"
    i = text.find(hdr)
    if i < 0:
        return None
    rows = []
    for ln in text[i + len(hdr):].splitlines():
        if not ln.strip():
            if rows:
                break
            continue
        v = _floats(ln)
        if len(v) != 6:
            break
        rows.append(v)
    return np.array(rows) if len(rows) == 6 else None


def parse_move(text, title, nbg):
    i = text.find(title)
    if i < 0:
        return None
    rows = []
    for ln in text[i:].splitlines()[5:5 + nbg]:
        v = _floats(ln)
        if len(v) != 10:
            return None
        rows.append(v)
    return np.array(rows)


# ---------------------------------------------------------------- cbcheck oracle

def _mass_err(got, want, mtot, slen):
    s = np.sqrt(max(mtot, 1e-300)) * np.array([1, 1, 1, slen, slen, slen])
    return float(np.abs((np.asarray(got) - want) / np.outer(s, s)).max())


def _blk(G):
    T = np.zeros((6, 6))
    T[:3, :3] = G
    T[3:, 3:] = G
    return T


def oracle_cbcheck(case, R):
    from pyyeti import cb
    from pyyeti.nastran import n2p

    mdl = make_model(case)
    S, mat = mdl["S"], mdl["mat"]
    nbg = len(mat)
    fault = case.get("fault")
    grounded = bool(fault) and fault["kind"].startswith("ground")
    order = [int(p) for p in case["perm"]]                 # desired order: positions in `mat`
    dgrids = [mat[p] for p in order]
    # ---- reduction (matrix order) and layout
    dK = None
    if fault and fault["kind"] == "ground_i":
        ig = [g for g in range(S.n) if g not in mat]
        g = ig[fault["grid"] % len(ig)]
        d = 6 * g + fault["dof"] % 6
        Kl, _ = S.km_local()
        kappa = fault["kappa_rel"] * float(np.abs(np.diag(Kl)[d]))
        dK = np.zeros_like(Kl)
        dK[d, d] = kappa
    red = cm.cb_reduce(S, mat, case["nq"], dK=dK)
    nb, nq = red["nb"], red["nq"]
    n = nb + nq
    bpos, qpos = cm.layout_positions(util.rng_of(case["seed"] + 5), nbg, nq, case["layout"])
    Mcb = cm.embed(red["M"], nb, nq, bpos, qpos)
    Kcb = cm.embed(red["K"], nb, nq, bpos, qpos)
    bseto = np.concatenate([bpos[6 * p:6 * p + 6] for p in order])
    bref_new, bkind = pick_bref(case, mdl, order, nb)
    bref = bseto[bref_new]
    reorder = case["reorder"]
    conv = case["conv"]
    L, mc = _conv_pair(conv)
    # ---- USET
    moved = None
    if fault and fault["kind"] == "moved":
        cand = [j for j in range(nbg) if not any(order[int(p) // 6] == j for p in bref_new)]
        if case["uref"]["kind"] == "grid":
            cand = [j for j in cand if j != order[case["uref"]["k"] % nbg]]
        if not cand:
            R.label("out_of_domain:no_grid_to_move")
            return
        jm = cand[fault["k"] % len(cand)]
        delta = np.array(fault["delta"], float) * case["length"]
        moved = {jm: S.xyz[mat[jm]] + delta}
    uset = make_uset(n2p, mdl, moved, case.get("uset_extra", False))
    ub = uset[n2p.mksetpv(uset, "p", "b")]
    for j, g in enumerate(mat):
        x = S.xyz[g] if not moved or j not in moved else moved[j]
        got = ub.iloc[6 * j:6 * j + 6, 1:].values
        sy = mdl["systems"][mdl["couts"][j]]
        e = max(float(np.abs(got[0] - x).max()), float(np.abs(got[2] - sy.origin).max())) / case["length"]
        e = max(e, float(np.abs(got[3:] - sy.T).max()))
        R.check(e <= 1e-12 and int(ub.index[6 * j][0]) == mdl["gids"][g], "uset_vs_reference_geometry",
                f"grid {j}: err={e:.3g}")
    # ---- uref
    ur = case["uref"]
    if ur["kind"] == "grid":
        ju = order[ur["k"] % nbg]
        uref_arg = mdl["gids"][mat[ju]]
        P_g = S.xyz[mat[ju]].copy()
    elif ur["kind"] == "xyz":
        uref_arg = [float(t) * case["length"] for t in ur["xyz"]]
        P_g = np.array(uref_arg)
    else:
        uref_arg = None
        P_g = np.zeros(3)
    # ---- expected quantities live in the NEW unit system
    Sn = S.in_units(L, mc) if conv is not None else S
    P_g = P_g * L
    slen = max(Sn.length_scale(), float(np.abs(Sn.xyz - P_g).max()))
    mtot = Sn.total_mass()
    xyz_g = Sn.xyz.copy()                      # geometry as the USET tells it
    frames_g = list(Sn.frames)
    if moved:
        for j, x in moved.items():
            xyz_g[mat[j]] = x * L
            sy = mdl["systems"][mdl["couts"][j]]
            if sy.ctype != cs.RECT:
                # the local directions of a cylindrical/spherical system follow the (moved) location
                rho = cs.axis_distance(sy, x)
                rr = float(np.linalg.norm(cs.local_rect(sy, x)))
                if rho < 0.05 * case["length"] or (sy.ctype == cs.SPH and rho < rr * math.sin(2 * cs.D2R)):
                    R.label("out_of_domain:moved_onto_polar_axis")
                    return
                frames_g[mat[j]] = cs.local_frame(sy, x)
    rbg_exp = np.vstack([cs.rigid_rows(frames_g[g], xyz_g[g] - P_g) for g in dgrids])
    rbtrue_g = Sn.rb_local(P_g, dgrids)
    rb_norm = case["rb_norm"]
    # the six reference DOF may be listed in any order ("6-element subset of bseto"); without normalisation
    # and without reordering the order defines the columns of the stiffness-based modes, so that one
    # combination keeps the ascending list
    bref_call = bref
    if case.get("bref_order") is not None and not fault and (reorder or rb_norm is not False):
        bref_call = bref[util.rng_of(case["bref_order"]).permutation(6)]
        R.label("bref:listed_unordered" if np.any(np.diff(bref_call) < 0) else "bref:listed_ascending")
    if rb_norm is not None:
        norm_eff = bool(rb_norm)
    elif reorder:
        norm_eff = bool(np.any(np.diff(bref_new) != 1))       # (re-derived in ascending order internally)
    else:
        norm_eff = bool(np.any(np.diff(bref_call) != 1))
    if norm_eff:
        Nrm = np.eye(6)
        if moved:
            Nrm = la.solve(rbtrue_g[bref_new], rbg_exp[bref_new])   # identity: the moved grid holds no ref DOF
    else:
        Nrm = la.inv(rbtrue_g[bref_new])
    rbs_exp = rbtrue_g @ Nrm
    Mrig_g = Sn.rigid_mass(P_g)
    ms_exp = Nrm.T @ Mrig_g @ Nrm
    # ---- label
    if case.get("adapter") and nbg >= 2:
        R.label("massless_adapter_grid")
    R.label(f"nbg{nbg}", "layout:" + (case["layout"] if nq else "noq"), "bref:" + bkind,
            "rb_norm:" + str(rb_norm), "uref:" + ur["kind"], "reorder" if reorder else "noreorder",
            "conv:" + ("none" if conv is None else conv if isinstance(conv, str) else "pair"),
            "perm:" + ("id" if order == sorted(order) else "swap" if [order[p] for p in order] == sorted(order)
                       else "cycle"),
            "nq:" + ("0" if nq == 0 else "all" if nq == len(red["i"]) else "some"),
            "n>25" if n > 25 else "n<=25")
    for c in mdl["couts"]:
        R.label("out:" + "BRCS"[mdl["systems"][c].ctype if c else 0])
    if fault:
        R.label("fault:" + fault["kind"])
    if case.get("bmass_small"):
        R.label("bmass_small")
    R.nontrivial(nbg >= 2 or any(mdl["couts"]) or nq > 0)
    # ---- ground_b: spring straight on a boundary DOF of the CB stiffness
    kappa_b = None
    if fault and fault["kind"] == "ground_b":
        dnew = fault["dof"] % nb
        dabs = bseto[dnew]
        kappa_b = fault["kappa_rel"] * float(np.abs(np.diag(red["K"])[:nb]).max())
        Kcb = Kcb.copy()
        Kcb[dabs, dabs] += kappa_b
    if grounded:
        # domain of the free-free solution (eigsh about sigma = 1): no eigenvalue of the grounded model near 1
        lam_g = la.eigh(Kcb, Mcb, eigvals_only=True)
        if np.any(np.abs(lam_g - 1.0) < 0.5):
            R.label("out_of_domain:grounded_eigenvalue_near_sigma")
            return
    # ---- call
    kw = dict(conv=conv, em_filt=case.get("em_filt", 0), rb_norm=rb_norm, reorder=reorder,
              n_freefree_modes=case.get("nff", 25))
    if uref_arg is not None:
        kw["uref"] = uref_arg
    if case.get("to_file"):
        path = util.tmpfile("cbcheck.out")
        out = cb.cbcheck(path, Mcb, Kcb, bseto, bref_call, uset, **kw)
        with open(path) as fh:
            text = fh.read()
    else:
        f = io.StringIO()
        out = cb.cbcheck(f, Mcb, Kcb, bseto, bref_call, uset, **kw)
        text = f.getvalue()
    # ---- reorder=False with a b-set that is NOT ascending: documented ValueError.  The same model handed over
    # with two boundary grids exchanged in `bseto` AND in the USET table (so that table row i still describes matrix
    # position bseto[i]) is either refused, or - should an implementation come to accept it - answered like the
    # ascending call: never accepted and paired with the wrong geometry
    if not reorder and not fault and nbg >= 3 and uset is not None and case.get("try_unordered", True):
        ga, gb = (case["seed"] % nbg), ((case["seed"] // 7) % nbg)
        if ga != gb:
            prm = np.arange(nb)
            prm[6 * ga:6 * ga + 6], prm[6 * gb:6 * gb + 6] = np.arange(6 * gb, 6 * gb + 6), np.arange(6 * ga, 6 * ga + 6)
            try:
                ob = cb.cbcheck(io.StringIO(), Mcb, Kcb, bseto[prm], bref_call, uset.iloc[prm], **kw)
            except ValueError:
                R.label("unordered_noreorder:refused")
            else:
                R.label("unordered_noreorder:accepted")
                for nm_ in ("rbg", "rbs", "rbe"):
                    a_, b_ = np.asarray(getattr(out, nm_)), np.asarray(getattr(ob, nm_))
                    e = float(np.abs(a_ - b_).max()) / max(float(np.abs(a_).max()), 1e-300) if a_.shape == b_.shape else np.inf
                    R.check(e <= 1e-6, "unordered_bseto_accepted_without_reordering_and_answered_wrongly",
                            f"{nm_}: differs from the ascending call by {e:.3g} (grids {ga} and {gb} exchanged)")
    # ---- returned b-set, matrices, uset
    if reorder:
        bs = np.arange(nb)
        pv = np.concatenate((bseto, np.sort(qpos)))
    else:
        bs = np.sort(bseto)
        pv = np.arange(n)
    if not R.check(np.array_equal(np.asarray(out.bset), bs), "bset_returned", f"{out.bset}"):
        return
    bs_d = bs if reorder else bseto                # rows of the desired-order grids in the returned matrices
    C, D = cm.unit_vectors(n, bseto, L, mc)
    m_exp = (D[:, None] * Mcb * C[None, :])[np.ix_(pv, pv)]
    k_exp = (D[:, None] * Kcb * C[None, :])[np.ix_(pv, pv)]
    for nm, got, want in (("m", out.m, m_exp), ("k", out.k, k_exp)):
        e = util.relerr(got, want)
        R.metric("returned_matrix_relerr", e)
        R.check(e <= TOL_EXACT, f"returned_{nm}", f"relerr={e:.3g} conv={conv} reorder={reorder}")
    want_ids = [mdl["gids"][g] for g in (dgrids if reorder else mat)]
    got_ids = [int(t) for t in out.uset.index.get_level_values("id")[::6]]
    ok_ids = R.check(got_ids == want_ids, "returned_uset_order",
                     f"bseto grid order {order}: returned uset grids {got_ids}, matrices are in order {want_ids}")
    if not ok_ids:
        return                       # everything below would only repeat this
    if ok_ids:
        gx = out.uset.iloc[::6, 1:].values
        wx = np.array([xyz_g[g] for g in (dgrids if reorder else mat)])
        e = float(np.abs(gx - wx).max()) / slen
        R.metric("returned_uset_xyz/len", e)
        R.check(e <= TOL_EXACT, "returned_uset_xyz", f"err={e:.3g}")
    # ---- rigid-body modes
    srb = max(1.0, slen)
    rbg, rbs, rbe = np.asarray(out.rbg), np.asarray(out.rbs), np.asarray(out.rbe)
    if not R.check(rbg.shape == (nb, 6) and rbs.shape == (n, 6) and rbe.shape == (n, 6), "rb_shapes",
                   f"{rbg.shape} {rbs.shape} {rbe.shape}"):
        return
    if not reorder:
        # rows of rbg follow the (sorted) b-set = matrix order
        inv = np.argsort(np.argsort(bseto))
        rbg_d = rbg[inv]
    else:
        rbg_d = rbg
    e = float(np.abs(rbg_d - rbg_exp).max()) / srb
    R.metric("rbg_err/len", e)
    R.check(e <= TOL_RB, "rbg_vs_geometry", f"err={e:.3g} order={order} uref={ur} conv={conv}")
    qrows = np.setdiff1d(np.arange(n), bs)
    ground_at_ref = grounded and fault["kind"] == "ground_b" and (fault["dof"] % nb) in set(int(p) for p in bref_new)
    if not grounded or ground_at_ref:
        e = float(np.abs(rbs[bs_d] - rbs_exp).max()) / srb
        R.metric("rbs_err/len", e)
        R.check(e <= TOL_RB, "rbs_vs_analytic",
                f"err={e:.3g} bref={bkind} rb_norm={rb_norm} layout={case['layout']} reorder={reorder}")
        R.check(not rbs[qrows].any(), "rbs_modal_rows_nonzero")
    # null vectors of an eigensolution (eigh, or ARPACK with a random start vector: run-to-run variable)
    # are far less accurate than the other two families: own fixed tolerance
    tol_e = TOL_EIG
    if not grounded:
        e = float(np.abs(rbe[bs_d] - rbs_exp).max()) / srb
        R.metric("rbe_err/len", e)
        R.check(e <= tol_e, "rbe_vs_analytic",
                f"err={e:.3g} tol={tol_e:.3g} bref={bkind} rb_norm={rb_norm} n={n} nff={case.get('nff', 25)}")
        if nq:
            e = float(np.abs(rbe[qrows]).max()) / (math.sqrt(mtot) * srb)
            R.metric("rbe_modal_rows/(sqrt(m) len)", e)
            R.check(e <= tol_e, "rbe_modal_rows_nonzero", f"err={e:.3g} tol={tol_e:.3g}")
    if R.fails:
        return                       # masses, grounding and effective mass derive from these vectors
    # ---- mass properties
    B = np.ix_(bs_d, bs_d)
    mg = rbg_d.T @ out.m[B] @ rbg_d
    ground_i = grounded and fault["kind"] == "ground_i"
    if moved or ground_i:
        # (an interior spring changes the constraint modes, hence Mbb: not the rigid mass any more)
        mbb_n = (D[:, None] * Mcb * C[None, :])[np.ix_(bseto, bseto)]
        mg_exp = rbg_exp.T @ mbb_n @ rbg_exp
    else:
        mg_exp = Mrig_g
    e = _mass_err(mg, mg_exp, mtot, slen)
    R.metric("mass6_err", e)
    R.check(e <= TOL_MASS, "mass_geometry_based", f"err={e:.3g} conv={conv}")
    fams = [("geometry", mg, mg_exp, np.eye(6))]
    if not grounded or ground_at_ref:
        fams.append(("stiffness", rbs.T @ out.m @ rbs, ms_exp, Nrm))
    if not grounded:
        fams.append(("eigen", rbe.T @ out.m @ rbe, ms_exp, Nrm))
    for nm, got, want, N_ in fams[1:]:
        e = _mass_err(got, want, mtot, slen * max(1.0, float(np.abs(N_).max())))
        R.metric(f"mass6_err_{nm}", e)
        tol = tol_e if nm == "eigen" else TOL_MASS
        R.check(e <= tol, f"mass_{nm}_based", f"err={e:.3g} tol={tol:.3g} conv={conv} rb_norm={rb_norm}")
    # cgmass of those: total mass, CG, inertia about CG of the underlying structure
    single = bkind == "grid"
    for nm, got, want, N_ in fams:
        if nm == "geometry" and (moved or ground_i):
            continue
        if nm != "geometry" and not (norm_eff or single):
            continue
        if nm == "geometry" or norm_eff:
            G, P = np.eye(3), P_g
        else:
            G, P = Sn.frames[dgrids[int(bref_new[0]) // 6]], Sn.xyz[dgrids[int(bref_new[0]) // 6]]
        gm = (np.asarray(got) + np.asarray(got).T) / 2
        mcg, dxyz, gyr, pgyr, I, pI = cb.cgmass(gm, all6=True)
        em = float(np.abs(np.diag(mcg)[:3] - mtot).max()) / mtot
        ec = float(np.abs(dxyz - G.T @ (Sn.cg() - P)).max()) / slen
        Iw = G.T @ Sn.inertia_cg() @ G
        ei = float(np.abs(I - Iw).max()) / (mtot * slen * slen)
        eo = float(np.abs(mcg[:3, 3:]).max()) / (mtot * slen)
        ep = float(np.abs(np.sort(np.diag(pI)) - np.linalg.eigvalsh(Iw)).max()) / (mtot * slen * slen)
        for q_, v in (("total_mass", em), ("cg", ec), ("inertia", ei), ("coupling", eo), ("principal", ep)):
            R.metric(f"massprop_err_{nm}", v)
            R.check(v <= (tol_e if nm == "eigen" else TOL_MASS), f"massprop_{q_}_{nm}", f"err={v:.3g} conv={conv}")
    # ---- rigid-body motion produces no stiffness force
    kmax = float(np.abs(out.k).max()) or 1.0
    kcol = np.array([1, 1, 1, srb, srb, srb])
    # dimensionless stiffness: rotations x length, modal DOF / sqrt(mass)
    srow = np.full(n, 1.0 / math.sqrt(mtot))
    srow[bs_d] = np.tile(kcol, nbg)
    ksmax = float(np.abs(out.k / np.outer(srow, srow)).max()) or 1.0
    # a statically determinate interface without modal DOF has K = 0 up to round-off of the reduction:
    # the natural scale of that round-off is the stiffness of the unreduced structure
    sphys = np.tile(kcol, Sn.n)
    kphys = Sn.km_local()[0]
    ksmax = max(ksmax, float(np.abs(kphys / np.outer(sphys, sphys)).max()))
    kmax = max(kmax, float(np.abs(kphys).max()))
    tests = []
    if not fault:
        tests = [("geometry", out.k[B] @ rbg_d, 1.0), ("stiffness", out.k @ rbs, float(np.abs(Nrm).max())),
                 ("eigen", out.k @ rbe, float(np.abs(Nrm).max()))]
    elif moved:
        tests = [("stiffness", out.k @ rbs, float(np.abs(Nrm).max())), ("eigen", out.k @ rbe, float(np.abs(Nrm).max()))]
    for nm, frc, ns in tests:
        rs = srow[bs_d] if frc.shape[0] == nb else srow
        e = float(np.abs(frc / kcol / rs[:, None]).max()) / (ksmax * n * max(1.0, ns))
        R.metric(f"K_rb/(|K| n) {nm}", e)
        R.check(e <= (max(TOL_KRB, tol_e) if nm == "eigen" else TOL_KRB), f"grounding_{nm}_based",
                f"|K rb|/(|K| n)={e:.3g}")
    # ---- printed report
    for title in ("RB Translation Movement Check", "RB Rotation Movement Check"):
        tb = parse_move(text, title, nbg)
        if not R.check(tb is not None, "report_movement_table_missing", title):
            continue
        cols = slice(1, 10)
        if grounded:
            cols = slice(1, 7) if ground_at_ref else slice(4, 7)
        if bkind == "mix" and not norm_eff:
            cols = slice(4, 7)       # un-normalised modes of a multi-grid reference are not unit motions
        R.check(bool(np.all(tb[:, cols] == 1.0)), "report_movement_not_1",
                f"{title}: {tb[:, 1:].tolist()} rb_norm={rb_norm} bref={bkind}")
    kscale = kmax * n * srb * srb * max(1.0, float(np.abs(Nrm).max())) ** 2
    sg = parse_sum(text, "geometry")
    if R.check(sg is not None, "report_summation_missing", "geometry"):
        kbb_n = (D[:, None] * Kcb * C[None, :])[np.ix_(bseto, bseto)]
        if kappa_b is not None:
            dnew = fault["dof"] % nb
            kap_n = kappa_b * D[bseto[dnew]] * C[bseto[dnew]]
            want = kap_n * np.outer(rbg_exp[dnew], rbg_exp[dnew])
        elif fault:
            want = rbg_exp.T @ kbb_n @ rbg_exp
        else:
            want = np.zeros((6, 6))
        e = float(np.abs(sg - want).max())
        tol = TOL_PRINT + 0.1 * TOL_KRB * kscale + 1e-9 * float(np.abs(want).max())
        R.metric("printed_sum_err/tol", e / tol)
        R.check(e <= tol, "report_geometry_RBtKRB",
                f"fault={fault and fault['kind']}: printed {sg.tolist()} expected {np.round(want, 4).tolist()}")
        if fault:
            R.label("fault_visible" if float(np.abs(want).max()) > 100 * tol else "fault_below_print")
    if not fault:
        for nm in ("stiffness", "eigensolution"):
            sm = parse_sum(text, nm)
            if R.check(sm is not None, "report_summation_missing", nm):
                tol = TOL_PRINT + (0.1 * TOL_KRB if nm == "stiffness" else tol_e) * kscale
                R.check(float(np.abs(sm).max()) <= tol, f"report_{nm}_RBtKRB_nonzero", f"{sm.tolist()}")
    if nbg >= 2:
        has_pass, has_fail = "Check: PASS." in text, "Check: FAIL." in text
        if not grounded:
            R.check(has_pass and not has_fail, "report_refpoint_check_not_PASS", f"pass={has_pass} fail={has_fail}")
        else:
            # Schur complement of the boundary stiffness on the reference DOF = grounding seen from there
            kbb_d = (D[:, None] * Kcb * C[None, :])[np.ix_(bseto, bseto)]
            o = np.setdiff1d(np.arange(nb), bref_new)
            r_ = np.asarray(bref_new)
            sch = kbb_d[np.ix_(r_, r_)] - kbb_d[np.ix_(r_, o)] @ la.solve(kbb_d[np.ix_(o, o)], kbb_d[np.ix_(o, r_)])
            rel = float(np.abs(sch).max()) / float(np.abs(kbb_d[np.ix_(r_, r_)]).max())
            if rel >= 1e-3:
                R.label("refpoint_fail_expected")
                R.check(has_fail and not has_pass, "report_refpoint_check_not_FAIL",
                        f"relative Schur complement {rel:.3g}")
    # ---- stiffness-based coordinates (cbcoordchk on the returned stiffness)
    if not grounded and bkind == "grid":
        co = cb.cbcoordchk(out.k, bs_d if reorder else bs, bs_d[bref_new] if reorder else np.sort(bref),
                           verbose=False, outfile=io.StringIO(), rb_normalizer=None)
        kref = int(bref_new[0]) // 6
        Gr, xr = Sn.frames[dgrids[kref]], Sn.xyz[dgrids[kref]]
        glist = dgrids if reorder else mat
        wc = np.array([Gr.T @ (Sn.xyz[g] - xr) for g in glist])
        e = float(np.abs(co.coords - wc).max()) / slen
        R.metric("cbcoordchk_coords/len", e)
        R.check(e <= TOL_RB, "cbcoordchk_coords", f"err={e:.3g}")
        R.check(co.refpoint_chk == "pass", "cbcoordchk_refpoint_chk", co.refpoint_chk)
        # reference DOF listed in another order, normaliser rows in the same order: same normalised modes
        prm = util.rng_of(case["seed"] + 77).permutation(6)
        Nz = np.eye(6) + 0.2 * util.rng_of(case["seed"] + 78).standard_normal((6, 6))
        refs = np.asarray(bs_d[bref_new] if reorder else np.sort(bref))
        ca = cb.cbcoordchk(out.k, bs_d if reorder else bs, refs, verbose=False, outfile=io.StringIO(),
                           rb_normalizer=Nz)
        cp = cb.cbcoordchk(out.k, bs_d if reorder else bs, refs[prm], verbose=False, outfile=io.StringIO(),
                           rb_normalizer=Nz[prm])
        e = float(np.abs(ca.rbmodes - cp.rbmodes).max()) / max(float(np.abs(ca.rbmodes).max()), 1e-300)
        R.metric("cbcoordchk_refpoint_order", e)
        R.check(e <= TOL_RB, "cbcoordchk_depends_on_refpoint_order", f"relerr={e:.3g} order={prm.tolist()}")
    # ---- fixed-base modes and effective mass
    frq = np.sqrt(red["lam"]) / (2 * math.pi)
    e = util.relerr(np.asarray(out.cb_frq), frq)
    R.metric("cb_frq_relerr", e)
    R.check(e <= TOL_EXACT, "cb_frq", f"relerr={e:.3g}")
    em = np.asarray(out.effmass.values if hasattr(out.effmass, "values") else out.effmass)
    ep = np.asarray(out.effmass_percent.values if hasattr(out.effmass_percent, "values") else out.effmass_percent)
    if not R.check(em.shape == (nq, 6) and ep.shape == (nq, 6), "effmass_shape", f"{em.shape} {ep.shape}"):
        return
    if grounded and fault["kind"] == "ground_i":
        return
    # physical participation factors (about uref; for a moved grid the geometry-based vectors of the USET)
    if moved:
        Lq = (D[:, None] * Mcb * C[None, :])[np.ix_(np.sort(qpos), bseto)] @ rbg_exp
        Lall = None
    else:
        Lq, Lall = cm.participation(Sn, cm.cb_reduce(Sn, mat, case["nq"]) if conv is not None else red, P_g)
        if conv is not None:
            # fixed-interface modes of the re-scaled model may differ in sign: compare squares only
            pass
    mscale = mtot * np.array([1, 1, 1, slen * slen, slen * slen, slen * slen])
    if nq:
        e = float(np.abs((em - Lq ** 2) / mscale).max())
        R.metric("effmass_err", e)
        R.check(e <= TOL_MASS, "effmass_vs_participation", f"err={e:.3g} uref={ur['kind']} rb_norm={rb_norm}")
        R.check(list(out.effmass.columns) == ["T1", "T2", "T3", "R1", "R2", "R3"], "effmass_columns")
        R.check(util.relerr(np.asarray(out.effmass.index, float), frq) <= TOL_EXACT, "effmass_index_not_cb_frq")
        tot = np.diag(mg_exp)
        e = float(np.abs(ep - 100.0 * Lq ** 2 / tot).max()) / 100.0
        R.metric("effmass_percent_err", e)
        R.check(e <= TOL_MASS * max(1.0, float((mscale / tot).max())), "effmass_percent", f"err={e:.3g}")
    if Lall is not None:
        # modal effective mass + boundary residual (mass lumped on the boundary grids + truncated modes) = total
        resid = np.diag(Sn.grid_rigid_mass(mat, P_g)) + (Lall[nq:] ** 2).sum(axis=0)
        lhs = em.sum(axis=0) + resid
        e = float(np.abs((lhs - np.diag(Mrig_g)) / mscale).max())
        R.metric("effmass_sum_identity", e)
        R.check(e <= TOL_MASS, "effmass_plus_residual_not_total", f"err={e:.3g}")
        # the same bookkeeping on the returned matrices
        Q = np.ix_(qrows, bs_d)
        r2 = np.diag(rbg_d.T @ (out.m[B] - out.m[Q].T @ out.m[Q]) @ rbg_d)
        R.check(float(np.abs((em.sum(axis=0) + r2 - np.diag(mg)) / mscale).max()) <= TOL_MASS and
                bool(np.all(r2 >= -TOL_MASS * mscale)), "effmass_residual_bookkeeping", f"{r2.tolist()}")
        if nq:
            R.check(bool(np.all(ep >= 0)) and bool(np.all(ep.sum(axis=0) <= 100.0 * (1 + 1e-9))),
                    "effmass_percent_out_of_range", f"{ep.sum(axis=0).tolist()}")
        if case.get("bmass_small") and nq == len(red["i"]):
            R.label("effmass_near_100_percent")
            R.metric("100-min_total_effmass_percent(bmass_small)", 100.0 - float(ep.sum(axis=0).min()))


# ---------------------------------------------------------------- cbcheck generators

def _f(lo, hi):
    return st.floats(lo, hi, allow_nan=False, allow_infinity=False, allow_subnormal=False)


@st.composite
def cb_cases(draw, variant="valid"):
    ngrids = draw(st.integers(3, 10))
    nbg_max = min(3, ngrids - 1)
    if variant == "perm3":
        ngrids = max(ngrids, 4)
        nbg = 3
    elif variant in ("noreorder_split", "noreorder_rbnorm"):
        nbg = draw(st.integers(2, min(3, ngrids - 1)))
    elif variant == "faulty":
        nbg = draw(st.sampled_from([1, 2, 2, 3, 3])) if nbg_max >= 3 else draw(st.integers(1, nbg_max))
    else:
        nbg = draw(st.sampled_from([1, 2, 2, 3, 3])) if nbg_max >= 3 else draw(st.integers(1, nbg_max))
    bgrids = draw(st.lists(st.integers(0, ngrids - 1), min_size=nbg, max_size=nbg, unique=True))
    nint = ngrids - nbg
    nq = draw(st.sampled_from([None, None, 0, 1, 2, 3, 7, 12, 20]))
    if variant == "nomodes":
        nq = 0
    if variant in ("noreorder_split",):
        nq = draw(st.sampled_from([None, 2, 5, 9]))
    systems = draw(st.lists(st.sampled_from([1, 2, 3]), min_size=0, max_size=2))
    cout = [draw(st.integers(0, len(systems))) for _ in range(nbg)]
    case = dict(seed=draw(st.integers(0, 2 ** 31 - 1)), ngrids=ngrids,
                nextra=draw(st.integers(0, 6)), length=draw(st.sampled_from([0.5, 2.0, 10.0, 50.0])),
                kspread=draw(st.sampled_from([3.0, 30.0, 300.0])), offsets=draw(st.booleans()),
                f1=draw(st.sampled_from([1.0, 1.5, 4.0, 12.0, 50.0])), bgrids=bgrids, nq=nq,
                systems=systems, cout=cout, layout=draw(st.sampled_from(["bfirst", "blast", "split"])),
                perm=list(range(nbg)), reorder=True,
                conv=draw(st.sampled_from([None, None, "m2e", "e2m", "pair"])),
                rb_norm=draw(st.sampled_from([None, None, True, False])),
                nff=draw(st.sampled_from([25, 25, 25, 40, 100])), em_filt=draw(st.sampled_from([0, 0, 2.0])),
                to_file=draw(st.integers(0, 5)) == 0, uset_extra=draw(st.booleans()),
                bmass_small=False)
    if systems:
        case["cardinal"] = draw(st.sampled_from([None, None, 0.0, 90.0, 180.0, 270.0, 180.0]))
    if case["conv"] == "pair":
        case["conv"] = draw(st.sampled_from([[1000.0, 0.001], [0.001, 1000.0], [1 / 25.4, 0.005710147154735817],
                                             [3.0, 2.0], [0.3, 0.5], [0.001, 0.001], [1 / 25.4, 2.0],
                                             [3.0, 0.5], [1000.0, 0.005710147154735817], [1000.0, 1000.0],
                                             [100.0, 1000.0]]))
    if variant == "bigunits":
        # mass x length of order 1e8 and more in the new units (e.g. kg -> g with m -> mm)
        case["conv"] = draw(st.sampled_from([[1000.0, 1000.0], [1000.0, 100.0], [100.0, 1000.0]]))
        case["length"] = draw(st.sampled_from([10.0, 50.0]))
    # boundary order: identity, a swap of two grids or (3 grids) a 3-cycle
    if nbg >= 2 and draw(st.booleans()):
        a, b = draw(st.lists(st.integers(0, nbg - 1), min_size=2, max_size=2, unique=True))
        case["perm"][a], case["perm"][b] = case["perm"][b], case["perm"][a]
        if nbg == 3 and draw(st.integers(0, 2)) == 0:
            case["perm"] = draw(st.sampled_from([[1, 2, 0], [2, 0, 1]]))
    if variant == "perm3":
        case["perm"] = draw(st.sampled_from([[1, 2, 0], [2, 0, 1]]))
    # reference DOF
    if nbg >= 2 and draw(st.integers(0, 2)) == 0:
        case["bref"] = {"kind": "mix", "seed": draw(st.integers(0, 10 ** 6))}
        case["rb_norm"] = draw(st.sampled_from([None, True]))
    else:
        case["bref"] = {"kind": "grid", "k": draw(st.integers(0, nbg - 1))}
    case["bref_order"] = draw(st.one_of(st.none(), st.integers(0, 10 ** 6)))
    case["adapter"] = nbg >= 2 and variant == "valid" and draw(st.integers(0, 4)) == 0
    uk = draw(st.sampled_from(["grid", "xyz", "default"]))
    case["uref"] = ({"kind": "grid", "k": draw(st.integers(0, nbg - 1))} if uk == "grid" else
                    {"kind": "xyz", "xyz": [draw(_f(-2, 2)), draw(_f(-2, 2)), draw(_f(-2, 2))]} if uk == "xyz"
                    else {"kind": "default"})
    if variant in ("valid", "nomodes"):
        # nearly all the mass on the interior: ~100 % effective mass when every mode is kept
        if draw(st.integers(0, 4)) == 0 and variant == "valid":
            case["bmass_small"] = True
            case["nq"] = draw(st.sampled_from([None, None, 5]))
        # reorder=False: documented for an ascending b-set (any layout, contiguous or not)
        if draw(st.integers(0, 3)) == 0:
            case["reorder"] = False
            case["perm"] = list(range(nbg))
    elif variant == "noreorder_split":
        case.update(reorder=False, perm=list(range(nbg)), layout="split", rb_norm=False,
                    bref={"kind": "grid", "k": draw(st.integers(0, nbg - 1))})
    elif variant == "noreorder_rbnorm":
        case.update(reorder=False, perm=list(range(nbg)), layout="blast", rb_norm=True,
                    nq=draw(st.sampled_from([None, 1, 4, 9])))
    elif variant == "faulty":
        kind = draw(st.sampled_from(["ground_b", "ground_i", "moved", "moved"] if nbg >= 2 else
                                    ["ground_b", "ground_i"]))
        if kind == "moved":
            case["fault"] = {"kind": "moved", "k": draw(st.integers(0, 2)),
                             "delta": [draw(st.sampled_from([-0.3, -0.05, 0.0, 0.02, 0.2])) for _ in range(3)]}
            if not any(case["fault"]["delta"]):
                case["fault"]["delta"][draw(st.integers(0, 2))] = 0.1
        else:
            case["fault"] = {"kind": kind, "dof": draw(st.integers(0, 17)), "grid": draw(st.integers(0, 9)),
                             "kappa_rel": draw(st.sampled_from([1e-3, 1e-2, 0.1, 1.0, 10.0]))}
    return case


def split_is_contiguous(case):
    """layout 'split' may by chance come out contiguous: then the case belongs to the main part"""
    nbg = len(case["bgrids"])
    S_n = case["ngrids"]
    ni = 6 * (S_n - nbg)
    nq = ni if case["nq"] is None else min(case["nq"], ni)
    bpos, _ = cm.layout_positions(util.rng_of(case["seed"] + 5), nbg, nq, case["layout"])
    return bool(np.all(np.diff(bpos) == 1)), int(bpos[0])


# ---------------------------------------------------------------- cbtf

def build_tf(case):
    rng = util.rng_of(case["seed"])
    nb, nq = case["nb"], case["nq"]
    n = nb + nq
    w = np.zeros(0)
    if nq:
        lf = np.sort(rng.uniform(0.0, 2.0, nq))
        for j in range(1, nq):
            lf[j] = max(lf[j], lf[j - 1] + 0.02)          # >= 4.7 % apart
        w = 2 * math.pi * 10.0 ** lf
    if case["qform"] == "diag" or nq == 0:
        iP = np.eye(nq)
    else:
        q1, _ = np.linalg.qr(rng.standard_normal((nq, nq)))
        q2, _ = np.linalg.qr(rng.standard_normal((nq, nq)))
        iP = q1 @ np.diag(10.0 ** rng.uniform(-0.3, 0.3, nq)) @ q2.T      # inverse modal matrix
    zeta = rng.choice([0.005, 0.02, 0.1, 0.5], nq) if nq else np.zeros(0)
    M = np.zeros((n, n))
    K = np.zeros((n, n), dtype=complex if case["cplx"] else float)
    Bm = np.zeros((n, n))
    A = rng.standard_normal((nb, nb))
    M[:nb, :nb] = A @ A.T + nb * np.eye(nb)
    M[:nb, nb:] = rng.standard_normal((nb, nq))
    M[nb:, :nb] = M[:nb, nb:].T
    M[nb:, nb:] = iP.T @ iP
    A = rng.standard_normal((nb, nb))
    wref = float(w.mean()) if nq else 2 * math.pi * 10.0
    K[:nb, :nb] = (A @ A.T) * wref ** 2
    K[nb:, nb:] = iP.T @ np.diag(w ** 2) @ iP
    if case["cplx"]:
        K *= (1 + 0.04j)
    damp = case["damp"]
    if damp != "none" and nq:
        Bm[nb:, nb:] = iP.T @ np.diag(2 * zeta * w) @ iP
        if damp in ("modal_full", "full"):
            X = rng.standard_normal((nq, nq))
            P = X @ X.T
            sc = np.sqrt(2 * zeta * w)
            P = 0.5 * P / np.abs(P).max() * np.outer(sc, sc)
            Bm[nb:, nb:] += iP.T @ P @ iP
    if damp == "full":
        sc = 0.1 * wref
        A = rng.standard_normal((nb, nb))
        Bm[:nb, :nb] = (A @ A.T) * sc
        Bm[:nb, nb:] = rng.standard_normal((nb, nq)) * sc
        Bm[nb:, :nb] = Bm[:nb, nb:].T if case.get("bsym", True) else rng.standard_normal((nq, nb)) * sc
    # b-set location
    if case["bpos"] == "first":
        bset = np.arange(nb)
    elif case["bpos"] == "last":
        bset = nq + np.arange(nb)
    else:
        bset = rng.permutation(n)[:nb]
    qset = np.setdiff1d(np.arange(n), bset)
    # frequencies
    freq = []
    for fs in case["freq"]:
        if fs["kind"] == "zero":
            f = 0.0
        elif fs["kind"] == "near" and nq:
            f = float(w[fs["mode"] % nq]) / (2 * math.pi) * (1 + fs["off"])
        else:
            f = float(fs.get("f", 10.0))
        if damp == "none" and not case["cplx"]:
            for wj in w:                                  # stay 1e-3 away from undamped resonances
                if abs(f * 2 * math.pi / wj - 1) < 1e-3:
                    f = float(wj) / (2 * math.pi) * 1.002
        freq.append(f)
    freq = np.array(freq)
    nf = len(freq)
    a = rng.integers(-4, 5, (nb, nf)) + 1j * rng.integers(-4, 5, (nb, nf))
    if not a.any():
        a[0, 0] = 1.0
    if case["a_kind"] == "real":
        a = a.real.astype(float)
        if not a.any():
            a[0, 0] = 1.0
    if case["a_kind"] in ("vec", "col"):
        a = a[:, :1] @ np.ones((1, nf))
    ts_ = float(case.get("tunit", 1.0))
    if ts_ != 1.0:
        # the same component on another time scale (s -> ms): stiffness x s^2, damping x s, frequencies x s.  Modal
        # stiffnesses of the q-set then fall below 1e-2 as NUMBERS; nothing in a Craig-Bampton solution hangs on that
        K = K * ts_ ** 2
        Bm = Bm * ts_
        w = w * ts_
        freq = freq * ts_
    return dict(M=M, K=K, B=Bm, nb=nb, nq=nq, bset=bset, qset=qset, freq=freq, a=a, w=w, iP=iP, zeta=zeta)


def tf_reference(T, a=None):
    nb, nq = T["nb"], T["nq"]
    n = nb + nq
    a = T["a"] if a is None else a
    M, K, B = T["M"], T["K"], T["B"]
    nf = len(T["freq"])
    d = np.zeros((n, nf), complex)
    v = np.zeros((n, nf), complex)
    acc = np.zeros((n, nf), complex)
    cnd = np.ones(nf)
    b = slice(0, nb)
    q = slice(nb, n)
    for j, f in enumerate(T["freq"]):
        W = 2 * math.pi * f
        acc[b, j] = a[:, j]
        if W != 0:
            v[b, j] = a[:, j] / (1j * W)
            d[b, j] = -a[:, j] / W ** 2
        if nq:
            H = -W * W * M[q, q] + 1j * W * B[q, q] + K[q, q]
            rhs = -(M[q, b] @ acc[b, j] + B[q, b] @ v[b, j])
            d[q, j] = la.solve(H, rhs)
            cnd[j] = np.linalg.cond(H)
            v[q, j] = 1j * W * d[q, j]
            acc[q, j] = -W * W * d[q, j]
    frc = M[b] @ acc + B[b] @ v + K[b, b] @ d[b]
    return d, v, acc, frc, cnd


def oracle_cbtf(case, R):
    from pyyeti import cb
    T = build_tf(case)
    nb, nq = T["nb"], T["nq"]
    n = nb + nq
    pos = np.concatenate((T["bset"], T["qset"]))
    M = cm.embed(T["M"], nb, nq, T["bset"], T["qset"])
    K = cm.embed(T["K"], nb, nq, T["bset"], T["qset"])
    B = cm.embed(T["B"], nb, nq, T["bset"], T["qset"])
    freq = T["freq"]
    nf = len(freq)
    a_in = T["a"]
    if case["a_kind"] == "vec":
        a_arg = a_in[:, 0].copy()
    elif case["a_kind"] == "col":
        a_arg = a_in[:, :1].copy()
    else:
        a_arg = a_in.copy()
    R.label(f"damp:{case['damp']}", f"bpos:{case['bpos']}", f"a:{case['a_kind']}", "noq" if nq == 0 else "q",
            "zeroHz" if 0.0 in freq else "nozero", "cplx" if case["cplx"] else "real", "qform:" + case["qform"],
            "save" if case["save"] else "nosave")
    R.nontrivial(nq >= 1 and nf >= 2 and case["damp"] != "none")
    save = {} if case["save"] else None
    Mc, Bc, Kc = M.copy(), B.copy(), K.copy()
    tf = cb.cbtf(M, B, K, a_arg, freq, T["bset"], save)
    R.check(np.array_equal(M, Mc) and np.array_equal(B, Bc) and np.array_equal(K, Kc), "cbtf_modified_input")
    ok = R.check(tf.a.shape == (n, nf) and tf.d.shape == (n, nf) and tf.v.shape == (n, nf)
                 and tf.frc.shape == (nb, nf), "cbtf_shapes",
                 f"{tf.a.shape} {tf.d.shape} {tf.v.shape} {tf.frc.shape}")
    if not ok:
        return
    R.check(np.array_equal(tf.freq, freq) and np.array_equal(tf.f, freq), "cbtf_freq_vector")
    if not R.check(np.array_equal(tf.a[T["bset"]], a_in), "cbtf_boundary_accel_not_input",
                   f"nq={nq} bset={T['bset'].tolist()}"):
        return
    if case["save"] and nq:
        R.check("tf" in save, "cbtf_save_not_filled")
    d, v, acc = tf.d[pos], tf.v[pos], tf.a[pos]          # [b; q] order of the reference
    dr, vr, ar, fr, cnd = tf_reference(T)
    kap = float(np.linalg.cond(T["iP"])) ** 2 if nq else 1.0
    if nq and case["damp"] in ("modal_full", "full"):
        # SolveUnc goes through the complex eigensolution of the modal state matrix
        q_ = slice(nb, n)
        iM = la.inv(T["M"][q_, q_])
        Ast = np.block([[-iM @ T["B"][q_, q_], -iM @ T["K"][q_, q_]], [np.eye(nq), np.zeros((nq, nq))]])
        Ds = np.concatenate((np.ones(nq) * float(np.sqrt(np.abs(T["w"]).mean() ** 2)), np.ones(nq)))
        lam_, V_ = la.eig(Ast / Ds[:, None] * Ds[None, :])
        V_ = V_ / np.linalg.norm(V_, axis=0)
        kap *= float(np.linalg.cond(V_))
    b, q = slice(0, nb), slice(nb, n)
    Mr, Br, Kr = T["M"], T["B"], T["K"]
    for j, f in enumerate(freq):
        W = 2 * math.pi * f
        # derivative relations
        if W > 0:
            sc = max(float(np.abs(acc[:, j]).max()), 1e-300)
            e = max(float(np.abs(v[:, j] - 1j * W * d[:, j]).max()) * W, float(np.abs(acc[:, j] + W * W * d[:, j]).max())) / sc
            R.metric("derivative_relations/eps", e / EPS)
            R.check(e <= 100 * EPS, "cbtf_v_a_d_relations", f"f={f} err={e:.3g}")
        # full equations of motion: rows q = 0, rows b = frc
        if nq:
            terms = np.abs(Mr[q]) @ np.abs(acc[:, j]) + np.abs(Br[q]) @ np.abs(v[:, j]) + np.abs(Kr[q, q]) @ np.abs(d[q, j])
            res = Mr[q] @ acc[:, j] + Br[q] @ v[:, j] + Kr[q, q] @ d[q, j]
            e = float(np.abs(res).max()) / max(float(terms.max()), 1e-300)
            R.metric("eom_q_residual/(eps kap)", e / (EPS * kap))
            R.check(e <= TOL_TF * EPS * kap, "cbtf_eom_modal_rows",
                    f"f={f} damp={case['damp']} residual={e:.3g} (terms {terms.max():.3g})")
        terms = np.abs(Mr[b]) @ np.abs(acc[:, j]) + np.abs(Br[b]) @ np.abs(v[:, j]) + np.abs(Kr[b, b]) @ np.abs(d[b, j])
        res = Mr[b] @ acc[:, j] + Br[b] @ v[:, j] + Kr[b, b] @ d[b, j] - tf.frc[:, j]
        e = float(np.abs(res).max()) / max(float(terms.max()), 1e-300)
        R.metric("eom_b_residual/eps", e / EPS)
        R.check(e <= 100 * EPS, "cbtf_eom_boundary_rows", f"f={f} damp={case['damp']} residual={e:.3g}")
        # own dense solve
        tol = TOL_TF * EPS * cnd[j] * kap
        for nm, got, ref in (("d", d[:, j], dr[:, j]), ("v", v[:, j], vr[:, j]), ("a", acc[:, j], ar[:, j]),
                             ("frc", tf.frc[:, j], fr[:, j])):
            sc = float(np.abs(ref).max())
            if nm == "frc":
                sc = max(sc, float(terms.max()))
            if sc == 0:
                R.check(not np.abs(got).max() > 0, f"cbtf_{nm}_not_zero", f"f={f}")
                continue
            e = float(np.abs(got - ref).max()) / sc
            R.metric("vs_dense_solve/(eps cond kap)", e / (EPS * cnd[j] * kap))
            R.check(e <= tol, f"cbtf_{nm}_vs_dense_solve", f"f={f} damp={case['damp']} relerr={e:.3g} tol={tol:.3g}")
    if case["save"]:
        # second input through the saved solver == fresh call
        a2 = np.conj(a_in[::-1]) * 0.5 + 1.0
        t2 = cb.cbtf(M, B, K, a2, freq, T["bset"], save)
        t3 = cb.cbtf(M, B, K, a2, freq, T["bset"])
        e = max(util.relerr(t2.frc, t3.frc), util.relerr(t2.a, t3.a), util.relerr(t2.d, t3.d))
        R.metric("save_vs_fresh", e)
        R.check(e <= 1e-12, "cbtf_save_changes_result", f"relerr={e:.3g}")


@st.composite
def tf_cases(draw, noq_order=False):
    nb = draw(st.sampled_from([1, 2, 3, 6, 6, 7, 12]))
    nq = draw(st.sampled_from([0, 1, 2, 4, 8, 15]))
    if noq_order:
        nb, nq = draw(st.sampled_from([2, 3, 6, 12])), 0
    damp = draw(st.sampled_from(["none", "modal_diag", "modal_diag", "modal_full", "full", "full"]))
    nf = draw(st.integers(1, 10))
    freq = []
    for _ in range(nf):
        k = draw(st.sampled_from(["abs", "abs", "near", "zero"]))
        if k == "zero":
            freq.append({"kind": "zero"})
        elif k == "near":
            off = draw(st.sampled_from([1e-3, -1e-3, 0.01, -0.05, 0.0] if damp != "none" else
                                       [1e-3, -1e-3, 0.01, -0.05]))
            freq.append({"kind": "near", "mode": draw(st.integers(0, 20)), "off": off, "f": 10.0})
        else:
            freq.append({"kind": "abs", "f": 10.0 ** draw(_f(-1.5, 2.5))})
    bpos = draw(st.sampled_from(["first", "last", "random"]))
    if nq == 0 and noq_order:
        bpos = "random"
    return dict(seed=draw(st.integers(0, 2 ** 31 - 1)), nb=nb, nq=nq, damp=damp,
                qform=draw(st.sampled_from(["diag", "full"])), cplx=draw(st.integers(0, 3)) == 0,
                bpos=bpos, freq=freq,
                a_kind=draw(st.sampled_from(["vec", "col", "mat", "mat", "real"])),
                save=draw(st.booleans()), bsym=draw(st.booleans()), tunit=draw(st.sampled_from([1.0, 1.0, 1e-3])))


# ---------------------------------------------------------------- cgmass

def oracle_cgmass(case, R):
    from pyyeti import cb
    rng = util.rng_of(case["seed"])
    scale_l = case["length"]
    m = float(rng.uniform(0.5, 20.0)) * case["mass"]
    mxyz = np.array([m, m, m])
    if case["aniso"]:
        mxyz = m * rng.uniform(0.5, 2.0, 3)
    rho = rng.uniform(0.1, 1.0) * scale_l
    Ic = cm.random_spd(rng, 3, case["ispread"]) * m * rho * rho
    if case["diag_inertia"]:
        Ic = np.diag(np.diag(Ic))
    d = rng.uniform(-1, 1, 3) * scale_l * case["offset"]
    R.label("aniso" if case["aniso"] else "iso", "offset0" if case["offset"] == 0 else "offset",
            "diagI" if case["diag_inertia"] else "fullI", "frame" if case["frame"] else "noframe")
    R.nontrivial(case["offset"] > 0 and not case["diag_inertia"])
    if case["aniso"]:
        M6 = cm.mass6_general(mxyz, Ic, d)
        Iw = Ic
    else:
        M6 = cm.mass6(m, Ic, d)
        Iw = Ic
        if case["frame"]:
            # the same body seen from a rotated reference frame: d and I in that frame
            G = cm.random_rotation(rng)
            T = np.zeros((6, 6))
            T[:3, :3] = T[3:, 3:] = G
            M6 = T.T @ M6 @ T
            M6 = (M6 + M6.T) / 2
            d = G.T @ d
            Iw = G.T @ Ic @ G
    if case["nonsym"]:
        M6 = M6.copy()
        M6[0, 4] += 0.01 * m * scale_l
        try:
            cb.cgmass(M6)
        except ValueError:
            R.label("nonsym:ValueError")
            return
        R.fail("cgmass_accepts_nonsymmetric")
        return
    keep = M6.copy()
    mcg, dxyz = cb.cgmass(M6)
    out6 = cb.cgmass(M6, all6=True)
    R.check(np.array_equal(M6, keep), "cgmass_modified_input")
    R.check(len(out6) == 6 and np.array_equal(out6[0], mcg) and np.array_equal(out6[1], dxyz), "cgmass_all6_differs")
    _, _, gyr, pgyr, I, pI = out6
    sm, sl = float(mxyz.max()), max(scale_l, 1e-300)
    want = np.zeros((6, 6))
    want[:3, :3] = np.diag(mxyz)
    want[3:, 3:] = Iw
    s = np.sqrt(sm) * np.array([1, 1, 1, sl, sl, sl])
    e = float(np.abs((mcg - want) / np.outer(s, s)).max())
    R.metric("mcg_err", e)
    R.check(e <= 1e-10, "cgmass_mcg", f"err={e:.3g} d={d.tolist()}")
    e = float(np.abs(dxyz - d).max()) / sl
    R.metric("dxyz_err", e)
    R.check(e <= 1e-12, "cgmass_dxyz", f"got {dxyz.tolist()} want {d.tolist()}")
    e = float(np.abs(I - Iw).max()) / (sm * sl * sl)
    R.metric("I_err", e)
    R.check(e <= 1e-10, "cgmass_I", f"err={e:.3g}")
    e = float(np.abs(gyr - np.sqrt(np.diag(Iw) / mxyz)).max()) / sl
    R.metric("gyr_err", e)
    R.check(e <= 1e-10, "cgmass_gyr", f"err={e:.3g}")
    wv = np.linalg.eigvalsh(Iw)
    gap = float(np.min(np.diff(wv))) / float(wv.max())
    e = float(np.abs(np.diag(pI) - wv).max()) / (sm * sl * sl)
    R.metric("princ_I_err", e)
    R.check(e <= 1e-10 and not (pI - np.diag(np.diag(pI))).any(), "cgmass_princ_I", f"err={e:.3g}")
    if not case["aniso"]:
        e = float(np.abs(pgyr - np.sqrt(wv / m)).max()) / sl
        R.metric("princ_gyr_err", e)
        R.check(e <= 1e-10, "cgmass_princ_gyr", f"err={e:.3g} gap={gap:.3g}")


@st.composite
def cg_cases(draw):
    aniso = draw(st.integers(0, 3)) == 0
    return dict(seed=draw(st.integers(0, 2 ** 31 - 1)), length=draw(st.sampled_from([0.01, 1.0, 40.0, 1000.0])),
                mass=draw(st.sampled_from([1e-3, 1.0, 1e3])), aniso=aniso,
                ispread=draw(st.sampled_from([1.5, 10.0, 100.0])), diag_inertia=draw(st.integers(0, 4)) == 0,
                offset=draw(st.sampled_from([0.0, 0.1, 1.0, 10.0])), frame=draw(st.booleans()),
                nonsym=draw(st.integers(0, 9)) == 0)


# ---------------------------------------------------------------- cbconvert / cbreorder / uset_convert

def oracle_convert(case, R):
    from pyyeti import cb
    from pyyeti.nastran import n2p
    mdl = make_model(case)
    S, mat = mdl["S"], mdl["mat"]
    nbg = len(mat)
    red = cm.cb_reduce(S, mat, case["nq"])
    nb, nq = red["nb"], red["nq"]
    n = nb + nq
    rng = util.rng_of(case["seed"] + 5)
    bpos, qpos = cm.layout_positions(rng, nbg, nq, case["layout"])
    order = [int(p) for p in case["perm"]]
    bseto = np.concatenate([bpos[6 * p:6 * p + 6] for p in order])
    dgrids = [mat[p] for p in order]
    M = cm.embed(red["M"], nb, nq, bpos, qpos)
    K = cm.embed(red["K"], nb, nq, bpos, qpos)
    zeta = 0.02
    Bd = np.zeros(n)
    Bd[qpos] = 2 * zeta * np.sqrt(red["lam"])
    Bm = np.diag(Bd)
    # DRM: physical accelerations of a few DOF (local coordinates) from CB accelerations
    rows = rng.choice(6 * S.n, size=min(8, 6 * S.n), replace=False)
    drm = np.zeros((len(rows), n))
    drm[:, np.concatenate((bpos, qpos))] = red["T"][rows]
    conv = case["conv"]
    L, mc = _conv_pair(conv)
    R.label(f"nbg{nbg}", "layout:" + (case["layout"] if nq else "noq"),
            "conv:" + (conv if isinstance(conv, str) else "pair"),
            "perm:" + ("id" if order == sorted(order) else "other"))
    for c in mdl["couts"]:
        R.label("out:" + "BRCS"[mdl["systems"][c].ctype if c else 0])
    R.nontrivial(nbg >= 2 or any(mdl["couts"]) or nq > 0)
    keepM = M.copy()
    # ---- cbconvert: own dimensional analysis, round trip, documented string forms
    C, D = cm.unit_vectors(n, bseto, L, mc)
    M2 = cb.cbconvert(M, bseto, conv)
    K2 = cb.cbconvert(K, bseto, conv)
    B2 = cb.cbconvert(Bm, bseto, conv)
    drm2 = cb.cbconvert(drm, bseto, conv, drm=True)
    R.check(np.array_equal(M, keepM), "cbconvert_modified_input")
    for nm, got, want in (("M", M2, D[:, None] * M * C), ("K", K2, D[:, None] * K * C), ("drm", drm2, drm * C)):
        e = util.relerr(got, want)
        R.metric("convert_vs_dimensional_analysis", e)
        R.check(e <= TOL_EXACT, f"cbconvert_{nm}_factors", f"relerr={e:.3g} conv={conv}")
    if isinstance(conv, str):
        e = max(util.relerr(cb.cbconvert(M, bseto, list(CONV_TABLE[conv])), M2),
                abs(CONV_TABLE[conv][0] / cm.CONV[conv][0] - 1), abs(CONV_TABLE[conv][1] / cm.CONV[conv][1] - 1) * 1e-3)
        R.check(e <= 1e-9, "cbconvert_string_form_not_documented_pair", f"{conv}: {e:.3g}")
    inv = _inv_conv(conv)
    for nm, a0, a2, isdrm in (("M", M, M2, False), ("K", K, K2, False), ("drm", drm, drm2, True)):
        back = cb.cbconvert(a2, bseto, inv, drm=isdrm)
        e = util.relerr(back, a0)
        R.metric("convert_roundtrip", e)
        R.check(e <= TOL_EXACT, f"cbconvert_{nm}_roundtrip", f"relerr={e:.3g} conv={conv}")
    e = max(util.relerr(M2.T, M2), util.relerr(K2.T, K2))
    R.metric("convert_symmetry", e)
    R.check(e <= TOL_EXACT, "cbconvert_symmetry_lost", f"relerr={e:.3g}")
    Q = np.ix_(qpos, qpos)
    if nq:
        e = max(float(np.abs(M2[Q] - np.eye(nq)).max()), util.relerr(K2[Q], K[Q]))
        R.metric("convert_modal_block", e)
        R.check(e <= TOL_EXACT, "cbconvert_modal_block_changed", f"err={e:.3g}")
    # boundary partitions = those of the structure re-built in the new unit system
    Sn = S.in_units(L, mc)
    redn = cm.cb_reduce(Sn, dgrids, case["nq"])
    BB = np.ix_(bseto, bseto)
    Kn_, Mn_ = Sn.km_local()
    for nm, got, want, phys in (("Mbb", M2[BB], redn["M"][:nb, :nb], Mn_), ("Kbb", K2[BB], redn["K"][:nb, :nb], Kn_)):
        sc = np.sqrt(np.diag(phys)[redn["b"]])           # uncondensed diagonal: > 0 even where Kbb = 0
        e = float(np.abs((got - want) / np.outer(sc, sc)).max())
        R.metric("convert_vs_rebuilt_model", e)
        R.check(e <= TOL_MASS, f"cbconvert_{nm}_vs_model_in_new_units", f"err={e:.3g} conv={conv}")
    lam0 = la.eigh(K, M, eigvals_only=True)
    lam2 = la.eigh((K2 + K2.T) / 2, (M2 + M2.T) / 2, eigvals_only=True)
    e = float(np.abs(lam2 - lam0).max()) / float(np.abs(lam0).max())
    R.metric("frequencies_changed", e)
    R.check(e <= 1e-9, "cbconvert_frequencies_changed", f"err={e:.3g}")
    # ---- uset_convert and mass properties in the new units
    uset = make_uset(n2p, mdl)                       # matrix order
    refxyz = [float(t) * case["length"] for t in case["ref"]]
    u2, ref2 = cb.uset_convert(uset, refxyz, conv)
    R.check(uset.equals(make_uset(n2p, mdl)), "uset_convert_modified_input")
    e = float(np.abs(np.asarray(ref2) - np.array(refxyz) * L).max()) / (case["length"] * L)
    R.check(e <= TOL_EXACT, "uset_convert_ref", f"{ref2}")
    u3, ref3 = cb.uset_convert(u2, None, inv)
    R.check(ref3 is None, "uset_convert_ref_none")
    e = float(np.abs(u3.values - uset.values).max()) / max(1.0, case["length"])
    R.metric("uset_roundtrip", e)
    R.check(e <= TOL_EXACT and u3.index.equals(uset.index), "uset_convert_roundtrip", f"err={e:.3g}")
    for j, g in enumerate(mat):
        got = u2.iloc[6 * j:6 * j + 6, 1:].values
        sy = mdl["systems"][mdl["couts"][j]]
        e = max(float(np.abs(got[0] - Sn.xyz[g]).max()), float(np.abs(got[2] - sy.origin * L).max())) / (case["length"] * L)
        e = max(e, float(np.abs(got[3:] - sy.T).max()), float(np.abs(got[1] - [sy.cid, sy.ctype, 0]).max()))
        R.metric("uset_convert_err", e)
        R.check(e <= TOL_EXACT and np.array_equal(u2["nasset"].values, uset["nasset"].values),
                "uset_convert_geometry", f"grid {j} err={e:.3g}")
    P = np.array(refxyz) * L
    rb_n = Sn.rb_local(P, dgrids)                    # rows in bseto order
    rb_u = n2p.rbgeom_uset(u2, ref2)                 # rows in matrix order
    rb_u = np.vstack([rb_u[6 * p:6 * p + 6] for p in order])
    slen = max(Sn.length_scale(), float(np.abs(Sn.xyz - P).max()))
    e = float(np.abs(rb_u - rb_n).max()) / max(1.0, slen)
    R.metric("rb_converted_uset/len", e)
    R.check(e <= TOL_RB, "uset_convert_rigid_body_modes", f"err={e:.3g}")
    mtot = Sn.total_mass()
    M6 = rb_u.T @ M2[BB] @ rb_u
    e = _mass_err(M6, Sn.rigid_mass(P), mtot, slen)
    R.metric("mass6_err", e)
    R.check(e <= TOL_MASS, "converted_mass_matrix", f"err={e:.3g} conv={conv}")
    mcg, dxyz, _, _, I, _ = cb.cgmass((M6 + M6.T) / 2, all6=True)
    e1 = abs(mcg[0, 0] - S.total_mass() * mc) / mtot
    e2 = float(np.abs(dxyz - (S.cg() * L - P)).max()) / slen
    e3 = float(np.abs(I - S.inertia_cg() * mc * L * L).max()) / (mtot * slen * slen)
    for nm, e in (("mass", e1), ("cg", e2), ("inertia", e3)):
        R.metric("massprop_err", e)
        R.check(e <= TOL_MASS, f"converted_massprop_{nm}", f"err={e:.3g} conv={conv}")
    # ---- cbreorder: symmetric permutation, DRM columns only, inverse permutation, last
    qs = np.sort(qpos)
    pv = np.concatenate((bseto, qs))
    pvl = np.concatenate((qs, bseto))
    Mr = cb.cbreorder(M, bseto)
    Kr = cb.cbreorder(K, bseto)
    Br = cb.cbreorder(Bm, bseto)
    dr = cb.cbreorder(drm, bseto, drm=True)
    R.check(np.array_equal(M, keepM), "cbreorder_modified_input")
    R.check(np.array_equal(Mr, M[np.ix_(pv, pv)]) and np.array_equal(Kr, K[np.ix_(pv, pv)]), "cbreorder_not_symmetric_permutation")
    R.check(np.array_equal(dr, drm[:, pv]), "cbreorder_drm_columns")
    Ml = cb.cbreorder(M, bseto, last=True)
    dl = cb.cbreorder(drm, bseto, drm=True, last=True)
    R.check(np.array_equal(Ml, M[np.ix_(pvl, pvl)]) and np.array_equal(dl, drm[:, pvl]), "cbreorder_last")
    ipv = np.argsort(pv)
    R.check(np.array_equal(cb.cbreorder(Mr, ipv), M) and np.array_equal(cb.cbreorder(dr, ipv, drm=True), drm),
            "cbreorder_inverse_permutation")
    if nq:
        # b-first <-> b-last are undone by each other
        back = cb.cbreorder(Ml, nq + np.arange(nb))
        R.check(np.array_equal(back, Mr), "cbreorder_last_then_first")
    if drm.shape[0] != n:
        try:
            cb.cbreorder(drm, bseto)
            R.fail("cbreorder_nonsquare_accepted")
        except ValueError:
            pass
    # reorder and convert commute
    bn = np.arange(nb)
    e = max(util.relerr(cb.cbconvert(Mr, bn, conv), cb.cbreorder(M2, bseto)),
            util.relerr(cb.cbconvert(dr, bn, conv, drm=True), cb.cbreorder(drm2, bseto, drm=True)))
    R.metric("reorder_convert_commute", e)
    R.check(e <= TOL_EXACT, "cbreorder_cbconvert_do_not_commute", f"relerr={e:.3g}")
    e = float(np.abs(la.eigh(Kr, Mr, eigvals_only=True) - lam0).max()) / float(np.abs(lam0).max())
    R.check(e <= 1e-9, "cbreorder_frequencies_changed", f"err={e:.3g}")
    # ---- recovered responses: base drive in the original model == converted == reordered model
    w = np.sqrt(red["lam"]) / (2 * math.pi) if nq else np.array([10.0])
    freq = np.array([0.5 * w[0], w[0] * 0.98, w[min(1, len(w) - 1)] * 1.01, 3.0 * w[-1]])
    a = (rng.integers(-3, 4, (nb, len(freq))) + 1j * rng.integers(-3, 4, (nb, len(freq)))).astype(complex)
    a[0, 0] += 1.0
    if nq == 0 and not np.array_equal(bseto, np.arange(nb)):
        R.label("noq_unordered_bset")
    tf0 = cb.cbtf(M, Bm, K, a, freq, bseto)
    y0 = drm @ tf0.a
    ysc = float(np.abs(y0).max()) or 1.0
    a_new = a / C[bseto][:, None]                  # x_old = C x_new
    tf2 = cb.cbtf(M2, B2, K2, a_new, freq, bseto)
    y2 = drm2 @ tf2.a
    e = float(np.abs(y2 - y0).max()) / ysc
    R.metric("response_after_convert", e)
    R.check(e <= 1e-8, "converted_recovered_response_changed", f"relerr={e:.3g} conv={conv}")
    fsc = np.abs(tf0.frc).max(axis=1, keepdims=True)
    fsc[fsc == 0] = 1.0
    e = float(np.abs((tf2.frc / D[bseto][:, None] - tf0.frc) / fsc).max())
    R.metric("force_after_convert", e)
    R.check(e <= 1e-8, "converted_interface_force", f"relerr={e:.3g} conv={conv}")
    tfr = cb.cbtf(Mr, Br, Kr, a, freq, bn)
    yr = dr @ tfr.a
    e = max(float(np.abs(yr - y0).max()) / ysc, float(np.abs((tfr.frc - tf0.frc) / fsc).max()))
    R.metric("response_after_reorder", e)
    R.check(e <= 1e-8, "reordered_recovered_response_changed", f"relerr={e:.3g}")


@st.composite
def conv_cases(draw):
    ngrids = draw(st.integers(3, 8))
    nbg = draw(st.integers(1, min(3, ngrids - 1)))
    systems = draw(st.lists(st.sampled_from([1, 2, 3]), min_size=0, max_size=2))
    conv = draw(st.sampled_from(["m2e", "e2m", "pair", "pair"]))
    if conv == "pair":
        conv = [draw(st.sampled_from([1000.0, 0.001, 1 / 25.4, 3.0, 0.3, 1.0])),
                draw(st.sampled_from([1000.0, 0.001, 0.005710147154735817, 2.0, 0.5]))]
    return dict(seed=draw(st.integers(0, 2 ** 31 - 1)), ngrids=ngrids, nextra=draw(st.integers(0, 4)),
                length=draw(st.sampled_from([0.5, 2.0, 10.0, 50.0])), kspread=draw(st.sampled_from([3.0, 30.0, 300.0])),
                offsets=draw(st.booleans()), f1=draw(st.sampled_from([1.0, 4.0, 20.0])),
                bgrids=draw(st.lists(st.integers(0, ngrids - 1), min_size=nbg, max_size=nbg, unique=True)),
                nq=draw(st.sampled_from([None, 0, 2, 6, 12])), systems=systems,
                cout=[draw(st.integers(0, len(systems))) for _ in range(nbg)],
                layout=draw(st.sampled_from(["bfirst", "blast", "split"])),
                perm=draw(st.permutations(list(range(nbg)))), conv=conv,
                ref=[draw(_f(-2, 2)), draw(_f(-2, 2)), draw(_f(-2, 2))])


# ---------------------------------------------------------------- cbcoordchk with null-stiffness boundary DOF

def _rbt(frm, to):
    """6x6: motion of a grid at `to` caused by the six rigid motions of a point at `frm` (basic system)"""
    r = np.asarray(to, float) - np.asarray(frm, float)
    T = np.eye(6)
    T[:3, 3:] = -np.array([[0.0, -r[2], r[1]], [r[2], 0.0, -r[0]], [-r[1], r[0], 0.0]])
    return T


def oracle_coordchk_null(case, R):
    """cb.cbcoordchk on a free structure of which one or two boundary grids hang on a single joint, located at the
    grid, that carries no moment about one axis: that boundary DOF has an all-zero row in Kbb and the routine trims it
    before its static solve.  Oracle: with rb_normalizer = (geometric rigid-body modes)[refpoint], the returned
    stiffness-based modes are the geometric ones on every DOF that has stiffness (documented meaning of
    `rb_normalizer`), the coordinates are the grid locations, and refpoint_chk is 'pass'; a reference set that
    contains the null DOF is refused (RuntimeError).  Built here from joints, independent of vcheck's structure model
    """
    from pyyeti import cb
    rng = util.rng_of(case["seed"])
    L = case["length"]
    nbg, nin = case["nbg"], case["nint"]
    ng = nbg + nin
    n = 6 * ng
    xyz = rng.uniform(-1, 1, (ng, 3)) * L
    for _ in range(20):
        d = np.linalg.norm(xyz[:, None] - xyz[None], axis=2) + np.eye(ng) * L
        if d.min() > 0.2 * L:
            break
        xyz = rng.uniform(-1, 1, (ng, 3)) * L
    nulls = {}                  # boundary grid -> null rotation axis (3, 4 or 5)
    for g, a in zip(case["nullgrids"], case["nullaxes"]):
        if g < nbg and g not in nulls and len(nulls) < nbg - 1:
            nulls[g] = a
    if not nulls:
        nulls[0] = case["nullaxes"][0]
    kt = case["kscale"]

    def kj():
        k = kt * rng.uniform(1.0, case["kspread"], 6)
        k[3:] *= L * L
        return k
    joints = []
    interior = list(range(nbg, ng))
    for g in range(nbg):
        j = interior[int(rng.integers(nin))]
        k = kj()
        if g in nulls:
            k[nulls[g]] = 0.0
            joints.append((g, j, xyz[g], k))
        else:
            joints.append((g, j, xyz[g] + rng.uniform(-0.3, 0.3, 3) * L, k))
            j2 = interior[int(rng.integers(nin))]
            if j2 != j:
                joints.append((g, j2, 0.5 * (xyz[g] + xyz[j2]), kj()))
    for a in range(nin):
        for b in range(a + 1, nin):
            if b == a + 1 or rng.uniform() < 0.5:
                joints.append((interior[a], interior[b], rng.uniform(-1, 1, 3) * L, kj()))
    K = np.zeros((n, n))
    for i, j, loc, k in joints:
        G = np.zeros((6, n))
        G[:, 6 * i:6 * i + 6] = _rbt(xyz[i], loc)
        G[:, 6 * j:6 * j + 6] = -_rbt(xyz[j], loc)
        K += G.T @ (k[:, None] * G)
    nb = 6 * nbg
    bd, od = np.arange(nb), np.arange(nb, n)
    Koo, Kob = K[np.ix_(od, od)], K[np.ix_(od, bd)]
    Kbb = K[np.ix_(bd, bd)] - Kob.T @ np.linalg.solve(Koo, Kob)
    Kbb = (Kbb + Kbb.T) / 2
    nullpos = sorted(6 * g + a for g, a in nulls.items())
    # the null rows are zero by construction; remove the round-off of the reduction (Nastran's AUTOSPC/zero terms)
    R.check(float(np.abs(Kbb[nullpos]).max()) <= 1e-9 * float(np.abs(Kbb).max()), "harness:null_row_not_null")
    Kbb[nullpos, :] = 0.0
    Kbb[:, nullpos] = 0.0
    nq = case["nq"]
    lt = nb + nq
    if case["layout"] == "bfirst":
        bset = np.arange(nb)
    elif case["layout"] == "blast":
        bset = nq + np.arange(nb)
    else:
        bset = np.sort(rng.choice(lt, nb, replace=False))
    qset = np.setdiff1d(np.arange(lt), bset)
    Kcb = np.zeros((lt, lt))
    Kcb[np.ix_(bset, bset)] = Kbb
    Kcb[qset, qset] = kt * rng.uniform(1.0, 100.0, nq)
    org = rng.uniform(-1, 1, 3) * L if case["origin"] else np.zeros(3)
    RB = np.vstack([_rbt(org, xyz[g]) for g in range(nbg)])
    sc = np.array([1.0, 1.0, 1.0, L, L, L])
    # reference DOF (positions in the b-set)
    g0 = sorted(nulls)[case["refgrid"] % len(nulls)]
    kind = case["refkind"]
    ref = None
    if kind in ("span", "withnull"):
        base = [6 * g0 + c for c in range(6) if c != nulls[g0]]
        cands = [6 * g + c for g in range(nbg) if g != g0 for c in range(3)]
        order = rng.permutation(len(cands))
        for t in order:
            pos = np.sort(np.array(base + [cands[t]]))
            if np.linalg.cond(RB[pos] / sc) <= 100.0:
                ref = pos
                break
        if ref is not None and kind == "withnull":
            ref = np.arange(6 * g0, 6 * g0 + 6)
    if ref is None:
        kind = "grid"
        others = [g for g in range(nbg) if g not in nulls]
        g1 = others[case["refgrid"] % len(others)]
        ref = np.arange(6 * g1, 6 * g1 + 6)
    between = any(ref.min() < p < ref.max() for p in nullpos)
    before = any(p < ref.min() for p in nullpos)
    R.label(f"ref:{kind}", f"nnull:{len(nullpos)}", "null_between_ref" if between else "null_outside_ref",
            "null_before_ref" if before else "no_null_before_ref", f"layout:{case['layout']}",
            "nq0" if nq == 0 else "nq>0", "normalizer" if case["normalizer"] or kind != "grid" else "no_normalizer")
    R.nontrivial(between)
    use_norm = case["normalizer"] or kind != "grid"
    rbn = RB[ref] if use_norm else None
    keep = Kcb.copy()
    buf = io.StringIO()
    if kind == "withnull":
        try:
            cb.cbcoordchk(Kcb, bset, bset[ref], verbose=False, outfile=buf, rb_normalizer=rbn)
        except RuntimeError:
            R.label("withnull:RuntimeError")
            return
        R.fail("coordchk_accepts_null_reference_dof")
        return
    with warnings.catch_warnings():
        warnings.simplefilter("ignore")
        out = cb.cbcoordchk(Kcb, bset, bset[ref], verbose=case["verbose"], outfile=buf, rb_normalizer=rbn)
    R.check(np.array_equal(Kcb, keep), "coordchk_modified_input")
    want = RB if use_norm else RB @ np.linalg.inv(RB[ref])
    xyzw = xyz[:nbg] - org if use_norm else xyz[:nbg] - xyz[ref[0] // 6]
    got = out.rbmodes
    R.check(got.shape == (lt, 6), "coordchk_rbmodes_shape", str(got.shape))
    if got.shape != (lt, 6):
        return
    R.check(not got[qset].any(), "coordchk_rbmodes_q_rows_not_zero")
    gb = got[bset]
    live = np.setdiff1d(np.arange(nb), nullpos)
    S_ = np.ones((nb, 6))
    S_[np.ix_([r for r in range(nb) if r % 6 < 3], [3, 4, 5])] = L      # translation caused by a unit rotation ~ L
    e = float(np.abs((gb[live] - want[live]) / S_[live]).max())
    R.metric("rbmodes_err", e)
    R.check(e <= 1e-7, "coordchk_rbmodes_vs_geometry", f"err={e:.3g} ref={ref.tolist()} null={nullpos}")
    R.check(out.refpoint_chk == "pass", "coordchk_refpoint_chk", out.refpoint_chk)
    e = float(np.abs(Kcb @ got).max()) / float(np.abs(Kbb).max()) / L
    R.metric("K_rb", e)
    R.check(e <= 1e-7, "coordchk_K_times_rb", f"{e:.3g}")
    if use_norm or kind == "grid":
        e = float(np.abs(out.coords - xyzw).max()) / L
        R.metric("coords_err", e)
        R.check(e <= 1e-6, "coordchk_coords", f"err={e:.3g}")
    if case["verbose"]:
        R.check("PASS" in buf.getvalue(), "coordchk_report_says_fail")


@st.composite
def coordnull_cases(draw):
    nbg = draw(st.integers(2, 4))
    return dict(seed=draw(st.integers(0, 2 ** 31 - 1)), nbg=nbg, nint=draw(st.integers(2, 4)),
                length=draw(st.sampled_from([0.5, 2.0, 10.0, 50.0])), kscale=draw(st.sampled_from([1.0, 1e4, 1e7])),
                kspread=draw(st.sampled_from([2.0, 10.0])),
                nullgrids=draw(st.lists(st.integers(0, nbg - 1), min_size=1, max_size=2)),
                nullaxes=draw(st.lists(st.integers(3, 5), min_size=2, max_size=2)),
                refkind=draw(st.sampled_from(["span", "span", "span", "grid", "withnull"])),
                refgrid=draw(st.integers(0, 3)), nq=draw(st.sampled_from([0, 0, 3, 7])),
                layout=draw(st.sampled_from(["bfirst", "blast", "split"])), origin=draw(st.booleans()),
                normalizer=draw(st.booleans()), verbose=draw(st.booleans()))


# ---------------------------------------------------------------- parts

REQUIRED_CLASSES = {"thorough": ["cbcheck:out:C", "cbcheck:out:S", "cbcheck:bref:mix", "cbcheck:perm:swap",
                                 "cbcheck:conv:m2e", "cbcheck:conv:pair", "cbcheck:noreorder", "cbcheck:n>25",
                                 "cbcheck:nq:some", "cbcheck:nq:all", "cbcheck:effmass_near_100_percent",
                                 "cbcheck_faulty:fault:ground_b", "cbcheck_faulty:fault:ground_i",
                                 "cbcheck_faulty:fault:moved", "cbcheck_faulty:fault_visible",
                                 "cbcheck_faulty:refpoint_fail_expected", "cbtf:damp:full", "cbtf:zeroHz",
                                 "cbtf:noq", "cgmass:aniso", "cgmass:nonsym:ValueError",
                                 "coordchk_null:null_between_ref", "coordchk_null:null_before_ref",
                                 "coordchk_null:withnull:RuntimeError"]}

PARTS = [
    Part("cbcheck", oracle_cbcheck, strategy=lambda: cb_cases("valid"), quick=(12, 150), thorough=(16, 1100)),
    Part("cbcheck_faulty", oracle_cbcheck, strategy=lambda: cb_cases("faulty"), quick=(4, 120), thorough=(8, 600)),
    Part("cbtf", oracle_cbtf, strategy=tf_cases, quick=(2, 300), thorough=(8, 750)),
    Part("cgmass", oracle_cgmass, strategy=cg_cases, quick=(1, 500), thorough=(2, 2500)),
    Part("convert_reorder", oracle_convert, strategy=conv_cases, quick=(2, 150), thorough=(8, 400)),
    # focused generators for the input classes of the fixed findings F34-F39 (also drawn by the parts above)
    Part("cbtf_noq_order", oracle_cbtf, strategy=lambda: tf_cases(noq_order=True), quick=(1, 20), thorough=(1, 80)),
    Part("cbcheck_bigunits", oracle_cbcheck, strategy=lambda: cb_cases("bigunits"), quick=(1, 15), thorough=(1, 60)),
    Part("cbcheck_nomodes", oracle_cbcheck, strategy=lambda: cb_cases("nomodes"), quick=(1, 15), thorough=(1, 60)),
    Part("cbcheck_perm3", oracle_cbcheck, strategy=lambda: cb_cases("perm3"), quick=(1, 15), thorough=(1, 60)),
    Part("cbcheck_noreorder_split", oracle_cbcheck, strategy=lambda: cb_cases("noreorder_split"),
         quick=(1, 15), thorough=(1, 60)),
    Part("cbcheck_noreorder_rbnorm", oracle_cbcheck, strategy=lambda: cb_cases("noreorder_rbnorm"),
         quick=(1, 15), thorough=(1, 60)),
    # null-stiffness boundary DOF between the reference DOF (seeded C06j): cbcoordchk trims them before its solve
    Part("coordchk_null", oracle_coordchk_null, strategy=coordnull_cases, quick=(1, 150), thorough=(4, 600)),
    # documented defaults: leaving a keyword out = passing its documented value (vlib/defaults.py)
    Part("defaults", defaults.make_oracle("C06"), enum=defaults.make_enum(), quick=(1, None), thorough=(1, None),
         exhaustive=True),
]
