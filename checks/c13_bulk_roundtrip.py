"""C13 - bulk-data writers and their readers are mutual inverses."""
import io
import os

import numpy as np
from hypothesis import assume
from hypothesis import strategies as st

from refs import bulk_ref as br
from refs import coordsys as cs
from vlib import util
from vlib import defaults
from vlib.core import Part

PROPERTY = "C13"
RULE = ("hypothesis, constructive: id lists of 1..40 (SET: 1..60) positive ints < 1e8, length uniform, "
        "assembled from runs (2..12 long), singletons and gaps (1 = touching) so that every length mod 8 / "
        "mod 4 and every THRU pattern occurs, sorted / segment-shuffled / reversed / fully shuffled, list or "
        "ndarray; one part "
        "per writer-reader family: dmig (1..3 matrices per file; 1..6 nodes = grids with dof subsets + scalar "
        "points with dof 0, sorted or shuffled labels; exactly symmetric / clearly unsymmetric / square with "
        "other column labels / rectangular / form 9; float32/64, complex64/128; patterns dense/sparse/diag/"
        "band/single/offdiag/zero rows+cols; value classes unit/int/wide/3-digit exponents/round-up nines, "
        "restricted to what '%16.9E' renders in 16 characters; read plain/expanded/square/by name), grids "
        "(scalar/vector cp, cd, ps, seid, 1 or N xyz rows, 8 and 16 wide forms), tabled1 (1..3 tables, "
        ">=4 points small field / >=2 large field, 8 pair formats, title, TABLED1/TABLEM1), tabled1_short "
        "(fewer points than one vectorised line), sets (1..3 SETs, max_length 30..72 and default), spoints, "
        "csuper, extrn (expand True/False), coords (CORD2R/C/S chains of depth 1..5 through wtcoordcards/"
        "rdcord2cards), uset (0..5 systems, 1..8 grids through uset2bulk/bulk2uset and mkcordcardinfo), "
        "each through io.StringIO, a file name or an open handle.  Oracle: identifiers, order, dof labels, "
        "forms/types exact; numbers within half a unit of the last written digit (explicit per format); "
        "DMIG index = sorted set of referenced (id,dof), zeros elsewhere; coordinate systems against "
        "refs/coordsys.py resolved from the 9-digit card values (tight) or with the conditioning factor "
        "(2|A|+1) of the A/B/C construction (uset).  Non-trivial: id list with a run >= 3 and a singleton; "
        "table whose last line is exactly full or shorter than one line; DMIG with partial dof; grid cards "
        "with vector cp/cd; chain system referencing a non-basic system.")
ASSUME = ["Python str.format / float() are correctly rounded (used to decide what a field can hold)",
          "pandas MultiIndex/DataFrame construction is correct",
          "refs/coordsys.py resolves CORD2x chains correctly (validated against pyyeti by C14)"]
KNOWN = {}

REQUIRED_CLASSES = {"thorough": (
    [f"{p}:n%8={k}" for p in ("spoints", "csuper", "sets") for k in range(8)]
    + [f"extrn:2n%8={k}" for k in (0, 2, 4, 6)]
    + [f"tabled1:n%4={k}" for k in range(4)] + ["tabled1:n%2=0", "tabled1:n%2=1"]
    + [f"dmig:form{k}" for k in (1, 2, 6, 9)] + [f"dmig:type{k}" for k in (1, 2, 3, 4)]
    + ["dmig:has_spoint", "dmig:by_name", "dmig:variant=expanded", "dmig:variant=square",
       "sets:wrapped", "sets:thru", "spoints:thru", "coords:depth=4", "uset:depth=0", "uset:depth=3",
       "grids:ps", "grids:seid", "grids:n=1"])}

NASSET_B = 2097154          # 'b' set membership word (docstring of make_uset / addgrid)


# ---------------------------------------------------------------- text sinks

class Sink:
    """where the writers put their text: io.StringIO ('sio'), a file name handed to a
    single writer call ('path') or a handle opened here ('handle')"""

    def __init__(self, mode, tag):
        self.mode = mode
        self.path = None
        self.f = None
        if mode == "sio":
            self.f = io.StringIO()
        else:
            self.path = util.tmpfile(f"c13-{tag}-{os.getpid()}.bdf")
            if mode == "handle":
                self.f = open(self.path, "w")

    def wtarget(self):
        """argument for a writer (the only call when mode == 'path')"""
        return self.path if self.mode == "path" else self.f

    def rtarget(self):
        """argument for a reader"""
        if self.mode == "sio":
            return self.f
        if self.f is not None and not self.f.closed:
            self.f.close()
        return self.path

    def text(self):
        if self.mode == "sio":
            return self.f.getvalue()
        if self.f is not None and not self.f.closed:
            self.f.flush()
        with open(self.path) as fh:
            return fh.read()

    def close(self):
        try:
            if self.f is not None and not self.f.closed:
                self.f.close()
            if self.path is not None and os.path.exists(self.path):
                os.remove(self.path)
        except OSError:
            pass


def _mode(case, multi=False):
    m = case.get("mode", "sio")
    if multi and m == "path":
        return "handle"
    return m


def _seq(ids, asarray):
    return np.array(ids, dtype=np.int64) if asarray else [int(i) for i in ids]


def _label_ids(R, ids):
    runs = br.run_structure(ids)
    R.nontrivial(any(r >= 3 for r in runs) and any(r == 1 for r in runs))
    R.label(f"n%8={len(ids) % 8}", "has_run" if any(r >= 2 for r in runs) else "no_run",
            "sorted" if list(ids) == sorted(ids) else "unsorted")


def _lines_ok(R, text, limit, kind):
    for ln in text.splitlines():
        if len(ln) > limit:
            R.fail(kind, f"line of {len(ln)} characters (limit {limit}): {ln!r}")
            return False
    return True


# ---------------------------------------------------------------- DMIG

DTYPES = {"f4": np.float32, "f8": np.float64, "c8": np.complex64, "c16": np.complex128}
MTYPE = {"f4": 1, "f8": 2, "c8": 3, "c16": 4}
FORM = {"sym": 6, "unsym": 1, "sqdiff": 1, "rect": 2, "form9": 9}


def build_dmig(spec):
    """-> (matrix of the requested dtype, row labels, column labels)"""
    rng = util.rng_of(spec["seed"])
    rows = [tuple(x) for x in spec["rows"]]
    kind = spec["kind"]
    if kind in ("sym", "unsym"):
        cols = rows
    elif kind == "form9":
        cols = [int(c) for c in spec["cols"]]
    else:
        cols = [tuple(x) for x in spec["cols"]]
    nr, nc = len(rows), len(cols)
    cplx = spec["dtype"].startswith("c")
    mask = br.dmig_mask(rng, spec["pattern"], nr, nc)

    def part():
        a = np.zeros((nr, nc))
        a[mask] = br.dmig_draw(rng, spec["vals"], int(mask.sum()))
        return br.dmig_make_representable(a)

    A = part()
    if cplx:
        B = part()
        if spec.get("imag_holes"):
            B[rng.random((nr, nc)) < 0.4] = 0.0
        if spec.get("real_holes"):
            A[rng.random((nr, nc)) < 0.4] = 0.0            # purely imaginary entries (structural damping i*g*K)
        A = A + 1j * B
    if kind == "sym":
        A = np.tril(A) + np.tril(A, -1).T
    if kind in ("unsym", "sqdiff"):
        i, j = spec["pair"][0] % nr, spec["pair"][1] % nc
        if i == j:
            j = (i + 1) % nc
        v = float(spec["pairval"])
        A[i, j] = v * (1 + 1j) if cplx and spec.get("imag_holes") else v
        A[j, i] = 0.0
    if not A.any():
        A[0, 0] = 2.0
    A = A.astype(DTYPES[spec["dtype"]])
    if not A.any():                        # (float32 underflow cannot happen with the classes used)
        A[0, 0] = 2.0
    return A, rows, cols


def _dmig_frame(pd, spec, A, rows, cols):
    names = ["id", "dof"] if spec.get("named", True) else None
    ri = pd.MultiIndex.from_tuples(rows, names=names)
    if spec["kind"] == "form9":
        ci = pd.Index(cols)
    else:
        ci = pd.MultiIndex.from_tuples(cols, names=names)
    return pd.DataFrame(A, index=ri, columns=ci)


def _dmig_header(text, name):
    """fields of the header card of matrix `name`, parsed by column position"""
    for ln in text.splitlines():
        if ln.startswith("DMIG    ") and ln[8:16].strip() == name.upper():
            return [ln[k:k + 8].strip() for k in range(16, 72, 8)]
    return None


def _dmig_compare(R, got, A, rows, cols, form, variant, tag):
    expanded = "expanded" in variant
    square = "square" in variant
    ncol = max(cols) if form == 9 else None
    nz = A != 0
    wr, wc = br.dmig_expected_labels(rows, cols, nz, form, expanded, square, ncol)
    gr = [tuple(int(v) for v in t) for t in got.index.tolist()]
    if form == 9:
        gc = [int(v) for v in list(got.columns)]
    else:
        gc = [tuple(int(v) for v in t) for t in got.columns.tolist()]
    ok = R.check(gr == wr, f"dmig_row_index{tag}", f"form={form} variant={variant} got={gr} want={wr}")
    ok &= R.check(gc == wc, f"dmig_col_index{tag}", f"form={form} variant={variant} got={gc} want={wc}")
    R.check(list(got.index.names) == ["id", "dof"], "dmig_index_names", f"{list(got.index.names)}")
    if form != 9:
        R.check(list(got.columns.names) == ["id", "dof"], "dmig_index_names", f"{list(got.columns.names)}")
    if not ok:
        return
    rpos = {lab: k for k, lab in enumerate(rows)}
    cpos = {lab: k for k, lab in enumerate(cols)}
    W = np.zeros((len(wr), len(wc)), complex)
    A64 = A.astype(complex)
    for a, lab in enumerate(wr):
        if lab not in rpos:
            continue
        for b, lc in enumerate(wc):
            if lc in cpos:
                W[a, b] = A64[rpos[lab], cpos[lc]]
    G = np.asarray(got.values)
    if not R.check(G.shape == W.shape, f"dmig_shape{tag}", f"{G.shape} vs {W.shape}"):
        return
    if np.iscomplexobj(A):
        if not R.check(np.iscomplexobj(G), "dmig_complex_lost", f"dtype {G.dtype}"):
            return
    elif np.iscomplexobj(G):
        R.check(not np.any(G.imag), "dmig_spurious_imag")
    G = G.astype(complex)
    worst = 0.0
    for gp, wp, nm in ((G.real, W.real, "real"), (G.imag, W.imag, "imag")):
        z = wp == 0
        if not R.check(not np.any(gp[z] != 0), f"dmig_zero_term{tag}",
                       f"{nm}: {int(np.sum(gp[z] != 0))} terms that were never written are non-zero"):
            return
        nzp = ~z
        if nzp.any():
            hu = 5e-10 * np.abs(wp[nzp])             # half a unit of the 10th significant digit, at worst
            e = np.abs(gp[nzp] - wp[nzp]) / hu
            e = np.where(np.isfinite(e), e, np.inf)
            worst = max(worst, float(e.max()))
    R.metric("dmig_err_half_units", worst)
    R.check(worst <= 1.0 + 1e-5, f"dmig_values{tag}",
            f"form={form} variant={variant}: worst error {worst:.4g} half units of the 10th digit")


def oracle_dmig(case, R):
    import pandas as pd
    from pyyeti import nastran
    mats = case["mats"]
    dct = {}
    built = {}
    for spec in mats:
        A, rows, cols = build_dmig(spec)
        dct[spec["name"]] = _dmig_frame(pd, spec, A, rows, cols)
        built[spec["name"].lower()] = (spec, A, rows, cols)
    sink = Sink(_mode(case), "dmig")
    try:
        nastran.wtdmig(sink.wtarget(), dct)
        text = sink.text()
        _lines_ok(R, text, 72, "dmig_line_length")
        variant = case.get("variant", "")
        kw = dict(expanded="expanded" in variant, square="square" in variant)
        got = nastran.rddmig(sink.rtarget(), **kw)
        want_names = [s["name"].lower() for s in mats]
        if not R.check(list(got.keys()) == want_names, "dmig_names", f"{list(got.keys())} vs {want_names}"):
            return
        partial = False
        for nm in want_names:
            spec, A, rows, cols = built[nm]
            form = FORM[spec["kind"]]
            hdr = _dmig_header(text, nm)
            if R.check(hdr is not None, "dmig_header_missing", nm):
                ncol = max(cols) if form == 9 else A.shape[1]
                R.check(hdr[:5] == ["0", str(form), str(MTYPE[spec["dtype"]]), "0", "0"]
                        and hdr[6] == str(ncol), "dmig_header",
                        f"{nm}: header fields {hdr}, want form={form} type={MTYPE[spec['dtype']]} ncol={ncol}")
            _dmig_compare(R, got[nm], A, rows, cols, form, variant, "")
            R.label(f"form{form}", f"type{MTYPE[spec['dtype']]}", f"vals={spec['vals']}",
                    f"pattern={spec['pattern']}", f"variant={variant or 'plain'}")
            dofs = {}
            for nid, dof in rows:
                dofs.setdefault(nid, set()).add(dof)
            if any(0 < len(d) < 6 and 0 not in d for d in dofs.values()):
                partial = True
            if any(0 in d for d in dofs.values()):
                R.label("has_spoint")
        # selection by name
        pick = case.get("pick")
        if pick is not None and len(want_names) > 1:
            sel = want_names[pick % len(want_names)]
            arg = sel.upper() if case.get("pick_upper") else sel
            g2 = nastran.rddmig(sink.rtarget(), arg if case.get("pick_str") else [arg], **kw)
            if R.check(list(g2.keys()) == [sel], "dmig_by_name", f"{list(g2.keys())} vs {[sel]}"):
                spec, A, rows, cols = built[sel]
                _dmig_compare(R, g2[sel], A, rows, cols, FORM[spec["kind"]], variant, "_by_name")
            R.label("by_name")
        R.nontrivial(partial)
        R.label(f"mode={sink.mode}", f"nmats={len(mats)}")
    finally:
        sink.close()


# ---------------------------------------------------------------- GRID

GRID_FORMS = ["16.8f", "8.2f", "8.3f", "8.1f", "16.9E", "16.4f", "8.1E", "16.10f"]


def _vec_or_scalar(v, asarray):
    if isinstance(v, list):
        return np.array(v, dtype=np.int64) if asarray else list(v)
    return v


def oracle_grids(case, R):
    from pyyeti import nastran
    if case.get("ids_range"):
        a_, n_ = case["ids_range"]
        case = dict(case, ids=list(range(a_, a_ + n_)))
    ids = case["ids"]
    n = len(ids)
    field = case.get("form") or "16.8f"
    rng = util.rng_of(case["seed"])
    nrows = n if case["xyz_rows"] == "N" else 1
    xyz = br.draw_field_values(rng, field, 3 * nrows).reshape(nrows, 3)
    asarray = case.get("asarray", False)
    kw = {}
    if case.get("form"):
        kw["form"] = br.FIELDS[field][0]
    for key in ("cp", "cd"):
        if case.get(key) is not None:
            kw[key] = _vec_or_scalar(case[key], asarray)
    for key in ("ps", "seid"):
        if case.get(key) is not None:
            kw[key] = _vec_or_scalar(case[key], case.get("ps_array", False))
    if case.get("xyz_default"):
        xyz = np.zeros((1, 3))
    else:
        kw["xyz"] = xyz if not case.get("xyz_list") else xyz.tolist()
    sink = Sink(_mode(case), "grid")
    try:
        nastran.wtgrids(sink.wtarget(), _seq(ids, asarray), **kw)
        text = sink.text()
        _lines_ok(R, text, 72, "grid_line_length")
        got = nastran.rdgrids(sink.rtarget())
        if not R.check(got is not None and np.shape(got) == (n, 8), "grid_shape",
                       f"{None if got is None else np.shape(got)} want {(n, 8)}: {text[:200]!r}"):
            return

        def col(key):
            v = case.get(key)
            if v is None or v == "":
                return [0] * n
            return list(v) if isinstance(v, list) else [v] * n
        R.check(got[:, 0].tolist() == [float(i) for i in ids], "grid_ids",
                f"{got[:, 0].tolist()} vs {ids}")
        for k, key in ((1, "cp"), (5, "cd"), (6, "ps"), (7, "seid")):
            R.check(got[:, k].tolist() == [float(v) for v in col(key)], f"grid_{key}",
                    f"{got[:, k].tolist()} vs {col(key)}: {text[:300]!r}")
        worst = 0.0
        for i in range(n):
            for k in range(3):
                want = xyz[i if nrows > 1 else 0, k]
                ok, e = br.field_err(field, got[i, 2 + k], want)
                worst = max(worst, e)
                if not ok:
                    R.fail("grid_xyz", f"form={field} grid {ids[i]} coordinate {k}: wrote {want!r} read "
                                       f"{got[i, 2 + k]!r} ({e:.3g} half units)")
                    break
        R.metric("grid_err_half_units", worst)
        R.nontrivial(n >= 2 and (isinstance(case.get("cp"), list) or isinstance(case.get("cd"), list)))
        R.label(f"form={field}", f"n={'1' if n == 1 else '2' if n == 2 else 'more'}",
                "ps" if case.get("ps") not in (None, "") else "no_ps",
                "seid" if case.get("seid") not in (None, "") else "no_seid",
                f"xyz_rows={case['xyz_rows']}", f"mode={sink.mode}")
    finally:
        sink.close()


# ---------------------------------------------------------------- TABLED1

TABLE_FORMS = {
    "default": ("16.9E", "16.9E"),
    "s25": ("8.2f", "8.5f"),
    "s34": ("8.3f", "8.4f"),
    "s1#0": ("8.1f", "#8.0f"),
    "s4E": ("8.4f", "8.1E"),
    "l25": ("16.2f", "16.5f"),
    "l8E": ("16.8f", "16.6E"),
    "l10e": ("16.10f", "16.9e"),
    "lEE": ("16.9E", "16.9E"),
}


def oracle_tabled1(case, R):
    from pyyeti import nastran
    sink = Sink(_mode(case, multi=True), "tab")
    try:
        f = sink.wtarget()
        expect = {}
        tablestr = case.get("tablestr", "TABLED1")
        nontriv = False
        for tb in case["tables"]:
            fx, fy = TABLE_FORMS[tb["form"]]
            n = tb["n"]
            rng = util.rng_of(tb["seed"])
            t = br.draw_field_values(rng, fx, n)
            if tb.get("sorted_t", True):
                t = np.sort(t)
            d = br.draw_field_values(rng, fy, n)
            kw = {}
            if tb["form"] != "default":
                kw["form"] = br.FIELDS[fx][0] + br.FIELDS[fy][0]
            if tb.get("title"):
                kw["title"] = tb["title"]
            if tablestr != "TABLED1":
                kw["tablestr"] = tablestr
            targ, darg = (t.tolist(), d.tolist()) if tb.get("aslist") else (t, d)
            if n == 1 and tb.get("scalar"):
                targ, darg = float(t[0]), float(d[0])
            nastran.wttabled1(f, tb["tid"], targ, darg, **kw)
            expect[tb["tid"]] = (fx, fy, t, d)
            per_line = 4 if br.FIELDS[fx][1] == 8 else 2
            if n % per_line == 0 or n < per_line:
                nontriv = True
            R.label(f"form={tb['form']}", f"n%{per_line}={n % per_line}",
                    "short" if n < per_line else "one_line" if n < 2 * per_line else "multi_line")
        text = sink.text()
        _lines_ok(R, text, 72, "table_line_length")
        got = nastran.rdtabled1(sink.rtarget(), tablestr.lower()) if tablestr != "TABLED1" \
            else nastran.rdtabled1(sink.rtarget())
        if not R.check(list(got.keys()) == [tb["tid"] for tb in case["tables"]], "table_ids",
                       f"{list(got.keys())} vs {[tb['tid'] for tb in case['tables']]}"):
            return
        worst = 0.0
        for tid, (fx, fy, t, d) in expect.items():
            g = np.asarray(got[tid])
            if not R.check(g.shape == (len(t), 2), "table_shape",
                           f"table {tid}: {g.shape} want {(len(t), 2)}: {text[:300]!r}"):
                continue
            for k in range(len(t)):
                ok1, e1 = br.field_err(fx, g[k, 0], t[k])
                ok2, e2 = br.field_err(fy, g[k, 1], d[k])
                worst = max(worst, e1, e2)
                if not (ok1 and ok2):
                    R.fail("table_values", f"table {tid} point {k} forms {fx},{fy}: wrote "
                                           f"({t[k]!r}, {d[k]!r}) read ({g[k, 0]!r}, {g[k, 1]!r})")
                    break
        R.metric("table_err_half_units", worst)
        R.nontrivial(nontriv)
        R.label(f"mode={sink.mode}", f"ntables={len(case['tables'])}", tablestr)
    finally:
        sink.close()


# ---------------------------------------------------------------- SET

def oracle_sets(case, R):
    from pyyeti import nastran
    sink = Sink(_mode(case, multi=True), "set")
    try:
        f = sink.wtarget()
        asarray = case.get("asarray", False)
        for k, s in enumerate(case["sets"]):
            if k:
                f.write("\n")               # wtset does not terminate its last line
            p0 = len(sink.text())
            if s.get("maxlen") is None:
                nastran.wtset(f, s["sid"], _seq(s["ids"], asarray))
                lim = 72
            else:
                nastran.wtset(f, s["sid"], _seq(s["ids"], asarray), s["maxlen"])
                lim = s["maxlen"]
            seg = sink.text()[p0:]
            _lines_ok(R, seg, lim, "set_line_length")
            R.label("wrapped" if "\n" in seg.strip("\n") else "one_line",
                    "thru" if "THRU" in seg else "no_thru")
            _label_ids(R, s["ids"])
        if case.get("trailer"):
            f.write("\nBEGIN BULK\nGRID,1\n")
        got = nastran.rdsets(sink.rtarget())
        want = {s["sid"]: [int(i) for i in s["ids"]] for s in case["sets"]}
        if R.check(list(got.keys()) == list(want.keys()), "set_ids",
                   f"{list(got.keys())} vs {list(want.keys())}"):
            for sid in want:
                g = [int(v) for v in got[sid]]
                R.check(g == want[sid], "set_members",
                        f"set {sid}: read {g[:60]} wrote {want[sid][:60]}: {sink.text()[:300]!r}")
        R.label(f"mode={sink.mode}", f"nsets={len(case['sets'])}")
    finally:
        sink.close()


# ---------------------------------------------------------------- SPOINT / CSUPER / EXTRN

def oracle_spoints(case, R):
    from pyyeti import nastran
    sink = Sink(_mode(case), "sp")
    try:
        ids = case["ids"]
        nastran.wtspoints(sink.wtarget(), _seq(ids, case.get("asarray", False)))
        text = sink.text()
        _lines_ok(R, text, 72, "spoint_line_length")
        got = nastran.rdspoints(sink.rtarget())
        R.check(isinstance(got, np.ndarray) and got.ndim == 1 and got.tolist() == [int(i) for i in ids],
                "spoint_ids", f"read {np.asarray(got).tolist()[:60]} wrote {ids[:60]}: {text[:300]!r}")
        _label_ids(R, ids)
        R.label("thru" if "THRU" in text else "no_thru", f"mode={sink.mode}")
    finally:
        sink.close()


def oracle_csuper(case, R):
    from pyyeti import nastran
    sink = Sink(_mode(case, multi=True), "cs")
    try:
        f = sink.wtarget()
        asarray = case.get("asarray", False)
        for c in case["cards"]:
            nastran.wtcsuper(f, c["seid"], _seq(c["ids"], asarray))
        text = sink.text()
        _lines_ok(R, text, 72, "csuper_line_length")
        got = nastran.rdcsupers(sink.rtarget())
        want = {c["seid"]: [c["seid"], 0] + [int(i) for i in c["ids"]] for c in case["cards"]}
        if R.check(list(got.keys()) == list(want.keys()), "csuper_ids",
                   f"{list(got.keys())} vs {list(want.keys())}"):
            for k in want:
                g = np.asarray(got[k]).tolist()
                R.check(g == want[k], "csuper_members",
                        f"csuper {k}: read {g[:60]} wrote {want[k][:60]}: {text[:300]!r}")
        for c in case["cards"]:
            _label_ids(R, c["ids"])
            R.label(f"(n+2)%8={(len(c['ids']) + 2) % 8}")
        R.label(f"mode={sink.mode}", f"ncards={len(case['cards'])}")
    finally:
        sink.close()


def oracle_extrn(case, R):
    from pyyeti import nastran
    sink = Sink(_mode(case), "ex")
    try:
        ids, dof = case["ids"], case["dof"]
        asarray = case.get("asarray", False)
        nastran.wtextrn(sink.wtarget(), _seq(ids, asarray), _seq(dof, asarray))
        text = sink.text()
        _lines_ok(R, text, 72, "extrn_line_length")
        pairs = [[int(a), int(b)] for a, b in zip(ids, dof)]
        g0 = nastran.rdextrn(sink.rtarget(), expand=False)
        R.check(np.asarray(g0).tolist() == pairs, "extrn_pairs",
                f"read {np.asarray(g0).tolist()[:40]} wrote {pairs[:40]}: {text[:300]!r}")
        g1 = nastran.rdextrn(sink.rtarget())
        want = br.expand_dof(pairs)
        R.check(np.asarray(g1).tolist() == want, "extrn_expanded",
                f"read {np.asarray(g1).tolist()[:40]} want {want[:40]}")
        R.nontrivial(len(ids) >= 4 and any(d == 0 for d in dof) and any(d > 6 for d in dof))
        R.label(f"2n%8={(2 * len(ids)) % 8}", f"mode={sink.mode}",
                "lines>1" if len(ids) > 4 else "one_line")
    finally:
        sink.close()


# ---------------------------------------------------------------- CORD2x chains

CNAME = {1: "CORD2R", 2: "CORD2C", 3: "CORD2S"}


def _round9(v):
    """the value a '%16.8e' field holds"""
    return float(f"{float(v):.8e}")


def _check_system(R, got, ref, S, tolT, what):
    got = np.asarray(got, float)
    if not R.check(got.shape == (5, 3), f"{what}_shape", f"cid={ref.cid} shape={got.shape}"):
        return
    R.check(got[0, 0] == ref.cid and got[0, 1] == ref.ctype and got[0, 2] == 0, f"{what}_header",
            f"cid={ref.cid} type={ref.ctype} got={got[0].tolist()}")
    eo = float(np.abs(got[1] - ref.origin).max()) / S
    eT = float(np.abs(got[2:] - ref.T).max()) / tolT
    R.metric(f"{what}_origin_err", eo)
    R.metric(f"{what}_T_err", eT)
    return eo, eT


def oracle_coords(case, R):
    from pyyeti import nastran
    cards = case["systems"]
    ci = {}
    for k in case.get("order", range(len(cards))):
        c = cards[k]
        ci[c["cid"]] = [CNAME[c["type"]],
                        np.array([[c["cid"], c["type"], c["ref"]], c["A"], c["B"], c["C"]], float)]
    sink = Sink(_mode(case), "cord")
    try:
        nastran.wtcoordcards(sink.wtarget(), ci)
        text = sink.text()
        _lines_ok(R, text, 73, "coord_line_length")      # continuation '*' sits in column 73
        got = nastran.rdcord2cards(sink.rtarget())
        rounded = [dict(c, A=[_round9(v) for v in c["A"]], B=[_round9(v) for v in c["B"]],
                        C=[_round9(v) for v in c["C"]]) for c in cards]
        # the definition must survive the rounding of the format (generator keeps clear of degeneracy)
        ref = cs.resolve(rounded)
        want_ids = sorted(c["cid"] for c in cards)
        if not R.check(sorted(k for k in got if k != 0) == want_ids, "coord_ids",
                       f"{sorted(got)} vs {want_ids}"):
            return
        S = max([1.0] + [float(np.abs(ref[c].origin).max()) for c in want_ids])
        for cid in want_ids:
            r = _check_system(R, got[cid], ref[cid], S, 1.0, "coord")
            if r is None:
                continue
            eo, eT = r
            R.check(eo <= 1e-9, "coord_origin",
                    f"cid={cid} depth={ref[cid].depth} got={np.asarray(got[cid])[1].tolist()} "
                    f"ref={ref[cid].origin.tolist()}")
            R.check(eT <= 1e-9, "coord_T", f"cid={cid} depth={ref[cid].depth} err={eT:.3g}")
        depth = max(ref[c].depth for c in want_ids)
        R.nontrivial(any(c["ref"] != 0 for c in cards))
        R.label(f"depth={depth}", f"mode={sink.mode}", *(f"type{c['type']}" for c in cards))
        # what was read belongs to the caller: shifting / overwriting the returned arrays in place (the entry of the
        # basic system included) leaves a second read of the same text what the first one was
        keep = {k_: np.array(v_, copy=True) for k_, v_ in got.items()}
        for v_ in got.values():
            np.asarray(v_)[...] = -31.0
        again = nastran.rdcord2cards(io.StringIO(text))
        R.check(sorted(again) == sorted(keep) and all(np.array_equal(np.asarray(again[k_]), keep[k_]) for k_ in again),
                "coord_second_read_differs_after_editing_first_result", "")
    finally:
        sink.close()


# ---------------------------------------------------------------- USET <-> bulk

def _make_uset(pd, systems, grids):
    """USET table built from the reference geometry (no pyyeti)"""
    idx, data = [], []
    for g in grids:
        so = systems[g["cd"]]
        p = cs.to_basic(systems[g["cp"]], g["xyz"])
        info = so.info5x3()
        for k in range(6):
            idx.append((g["gid"], k + 1))
        data.append([NASSET_B, *p])
        for row in info:
            data.append([NASSET_B, *row])
    ind = pd.MultiIndex.from_tuples(idx, names=["id", "dof"])
    df = pd.DataFrame(np.array(data, float), index=ind, columns=["nasset", "x", "y", "z"])
    df["nasset"] = df["nasset"].astype(np.int64)
    return df


def oracle_uset(case, R):
    import pandas as pd
    from pyyeti import nastran
    from pyyeti.nastran import n2p
    systems = cs.resolve(case["systems"])
    grids = case["grids"]
    uset = _make_uset(pd, systems, grids)
    used = sorted({g["cd"] for g in grids if g["cd"] != 0})
    sink = Sink(_mode(case), "uset")
    try:
        nastran.uset2bulk(sink.wtarget(), uset)
        text = sink.text()
        _lines_ok(R, text, 73, "uset_line_length")
        got, coordref = nastran.bulk2uset(sink.rtarget())
        gids_sorted = sorted(g["gid"] for g in grids)
        want_index = [(gid, k) for gid in gids_sorted for k in range(1, 7)]
        gi = [(int(a), int(b)) for a, b in got.index.tolist()]
        if not R.check(gi == want_index, "uset_index", f"{gi[:14]} vs {want_index[:14]}"):
            return
        R.check(list(got.columns) == ["nasset", "x", "y", "z"], "uset_columns", f"{list(got.columns)}")
        R.check(np.all(got["nasset"].values == NASSET_B), "uset_nasset", f"{set(got['nasset'].values)}")
        R.check(sorted(int(k) for k in coordref if k != 0) == used, "uset_coordref_ids",
                f"{sorted(coordref)} vs {used}")
        G = got.loc[:, "x":"z"].values
        pos = {gid: 6 * k for k, gid in enumerate(gids_sorted)}
        worst_x = worst_o = worst_T = 0.0
        for g in grids:
            blk = G[pos[g["gid"]]: pos[g["gid"]] + 6]
            so = systems[g["cd"]]
            p = cs.to_basic(systems[g["cp"]], g["xyz"])
            for k in range(3):
                ok, e = br.field_err("16.8f", blk[0, k], p[k])
                worst_x = max(worst_x, e)
                if not ok:
                    R.fail("uset_location", f"grid {g['gid']} axis {k}: wrote {p[k]!r} read {blk[0, k]!r}")
            R.check(blk[1].tolist() == [float(so.cid), float(so.ctype), 0.0], "uset_cd",
                    f"grid {g['gid']}: {blk[1].tolist()} want cd={so.cid} type={so.ctype}")
            # CORD2x written as A = origin, B = A + z, C = A + x with 9 significant digits:
            # every component of A/B/C is off by at most 5e-9 (|A_i| + 1)
            amax = float(np.abs(so.origin).max())
            unit = 5e-9 * (2 * amax + 1)
            # (wtcoordcards also zeroes components below 1e-15 of the largest one)
            tol_o = 5e-9 * np.abs(so.origin) + 1e-15 * (amax + 1)
            eo = float((np.abs(blk[2] - so.origin) / tol_o).max())
            eT = float(np.abs(blk[3:] - so.T).max()) / unit
            if so.cid == 0:
                R.check(np.array_equal(blk[2:], np.vstack((np.zeros(3), np.eye(3)))), "uset_basic_info")
                continue
            worst_o = max(worst_o, eo)
            worst_T = max(worst_T, eT)
            R.check(eo <= 1.0 + 1e-6, "uset_origin",
                    f"grid {g['gid']} cd={so.cid}: origin read {blk[2].tolist()} want {so.origin.tolist()}")
            R.check(eT <= 4.0, "uset_T",
                    f"grid {g['gid']} cd={so.cid}: T error {eT:.3g} x 5e-9(2|A|+1), |A|={amax:.4g}")
        R.metric("uset_xyz_err_half_units", worst_x)
        R.metric("uset_origin_err_half_units", worst_o)
        R.metric("uset_T_err/(5e-9(2|A|+1))", worst_T)
        # coordinate card info -> cards -> coordinate dictionary
        ci = n2p.mkcordcardinfo(uset)
        R.check(sorted(int(k) for k in ci) == used, "cordcardinfo_ids", f"{sorted(ci)} vs {used}")
        if used:
            s2 = io.StringIO()
            nastran.wtcoordcards(s2, ci)
            c2 = nastran.rdcord2cards(s2)
            for cid in used:
                if not R.check(cid in c2, "cordcards_missing", f"{cid} not in {sorted(c2)}"):
                    continue
                so = systems[cid]
                amax = float(np.abs(so.origin).max())
                got5 = np.asarray(c2[cid], float)
                R.check(got5[0].tolist() == [float(cid), float(so.ctype), 0.0], "cordcards_header",
                        f"{got5[0].tolist()}")
                tol_o = (5e-9 * np.abs(so.origin) + 1e-15 * (amax + 1)) * (1 + 1e-6)
                R.check(bool(np.all(np.abs(got5[1] - so.origin) <= tol_o)), "cordcards_origin",
                        f"cid={cid}: {got5[1].tolist()} vs {so.origin.tolist()}")
                R.check(float(np.abs(got5[2:] - so.T).max()) <= 4 * 5e-9 * (2 * amax + 1), "cordcards_T",
                        f"cid={cid}")
        depth = max([systems[c].depth for c in used] + [0])
        R.nontrivial(any(systems[c].depth >= 2 and systems[c].ctype != cs.RECT for c in used))
        R.label(f"depth={depth}", f"mode={sink.mode}", f"ngrids={min(len(grids), 3)}+",
                "sorted" if [g["gid"] for g in grids] == gids_sorted else "unsorted")
    finally:
        sink.close()


# ================================================================ generators

MODES = st.sampled_from(["sio", "sio", "path", "handle"])
BASES = [1, 1, 2, 7, 100, 1001, 99990, 9999900, 99999000]
GAPS = [1, 2, 2, 3, 10, 97, 1000]
IDMAX = 99999999


@st.composite
def idlists(draw, maxn=40, orders=("sorted", "sorted", "segshuffle", "reverse", "shuffle")):
    # (a large integer modulo maxn: every length, hence every residue mod 8, is about equally likely)
    n = 1 + draw(st.integers(0, 2 ** 30)) % maxn
    cur = draw(st.sampled_from(BASES)) - 1
    segs = []
    total = 0
    first = True
    while total < n:
        kind = draw(st.sampled_from(["single", "single", "pair", "run", "run"]))
        gap = 1 if first else draw(st.sampled_from(GAPS))
        first = False
        L = 1 if kind == "single" else 2 if kind == "pair" else draw(st.integers(3, 12))
        L = min(L, n - total)
        start = cur + gap
        segs.append(list(range(start, start + L)))
        cur = start + L - 1
        total += L
    if cur > IDMAX:
        shift = cur - IDMAX
        segs = [[i - shift for i in s] for s in segs]
    order = draw(st.sampled_from(orders))
    if order == "segshuffle" and len(segs) > 1:
        segs = draw(st.permutations(segs))
    ids = [i for s in segs for i in s]
    if order == "reverse":
        ids = ids[::-1]
    elif order == "shuffle" and len(ids) > 1:
        ids = draw(st.permutations(ids))
    return list(ids)


# ---- DMIG

LETTERS = "ABCDEFGHIJKLMNOPQRSTUVWXYZ"
FORBIDDEN = {"INF", "INFINITY", "NAN"}
dmig_names = st.builds(lambda a, b: a + b, st.sampled_from(LETTERS + LETTERS.lower()),
                       st.text(LETTERS + LETTERS.lower() + "0123456789", max_size=7)).filter(
                           lambda s: s.upper() not in FORBIDDEN)
DOFSETS = [[1, 2, 3, 4, 5, 6], [1, 2, 3], [1], [6], [2, 4], [1, 3, 5], [4, 5, 6], [1, 2, 3, 4, 5], [3]]
NODE_IDS = st.one_of(st.integers(1, 30), st.integers(1, 30), st.integers(100, 120),
                     st.integers(1000000, 1000020), st.integers(99999990, 99999999))


@st.composite
def label_sets(draw, nmin=1, nmax=6, exclude=()):
    n = draw(st.integers(nmin, nmax))
    ids = draw(st.lists(NODE_IDS.filter(lambda i: i not in exclude), min_size=n, max_size=n, unique=True))
    labels = []
    for nid in ids:
        if draw(st.integers(0, 3)) == 0:
            labels.append([nid, 0])
        else:
            for d in draw(st.sampled_from(DOFSETS)):
                labels.append([nid, d])
    labels.sort()
    if draw(st.integers(0, 3)) == 0 and len(labels) > 1:
        labels = [list(x) for x in draw(st.permutations(labels))]
    return labels


@st.composite
def dmig_spec(draw, name):
    kind = draw(st.sampled_from(["sym", "sym", "unsym", "sqdiff", "rect", "rect", "form9"]))
    dtype = draw(st.sampled_from(["f8", "f8", "c16", "f4", "c8"]))
    rows = draw(label_sets())
    if kind in ("unsym", "sqdiff") and len(rows) < 2:
        kind = "sym"
    spec = {"name": name, "kind": kind, "dtype": dtype, "rows": rows,
            "seed": draw(st.integers(0, 2 ** 31)),
            "pattern": draw(st.sampled_from(["dense", "dense", "sparse", "diag", "band", "single",
                                             "offdiag", "zero_rc", "lastcol"])),
            "named": draw(st.booleans())}
    if dtype in ("f4", "c8"):
        spec["vals"] = draw(st.sampled_from(["unit", "int", "wide32", "mixed"]))
    else:
        spec["vals"] = draw(st.sampled_from(["unit", "int", "wide", "exp3", "nines", "mixed"]))
    if dtype.startswith("c"):
        spec["imag_holes"] = draw(st.booleans())
        spec["real_holes"] = draw(st.booleans())
    if kind == "sqdiff":
        cols = draw(label_sets(exclude=tuple(r[0] for r in rows)))
        # same number of columns as rows: trim, or pad with scalar points 5000, 5001, ...
        k = 0
        while len(cols) < len(rows):
            cols = cols + [[5000 + k, 0]]
            k += 1
        spec["cols"] = cols[:len(rows)]
    elif kind == "rect":
        cols = draw(label_sets())
        if len(cols) == len(rows):
            cols = cols + [[7777, 0]]
        spec["cols"] = cols
    elif kind == "form9":
        nc = draw(st.integers(1, 8))
        spec["cols"] = draw(st.lists(st.integers(1, 12), min_size=nc, max_size=nc, unique=True))
        if draw(st.booleans()):
            spec["cols"] = sorted(spec["cols"])
    if kind in ("unsym", "sqdiff"):
        spec["pair"] = [draw(st.integers(0, 40)), draw(st.integers(0, 40))]
        spec["pairval"] = draw(st.sampled_from([1.0, -1.0, 2.5, -7.25, 1000.0, -0.5, 123456.0]))
    return spec


@st.composite
def dmig_cases(draw):
    nm = draw(st.integers(1, 3))
    names = draw(st.lists(dmig_names, min_size=nm, max_size=nm, unique_by=lambda s: s.lower()))
    # a name must not be the beginning of "dmig"-looking data; any identifier is fine
    mats = [draw(dmig_spec(n)) for n in names]
    case = {"mats": mats, "mode": draw(MODES),
            "variant": draw(st.sampled_from(["", "", "expanded", "square", "expanded+square"]))}
    if nm > 1 and draw(st.booleans()):
        case["pick"] = draw(st.integers(0, 2))
        case["pick_upper"] = draw(st.booleans())
        case["pick_str"] = draw(st.booleans())
    return case


# ---- GRID

PS_VALUES = [123456, 123, 456, 1, 6, 0, 1246, 35]


@st.composite
def grid_cases(draw, ps_array=False):
    form = draw(st.sampled_from([None, None] + GRID_FORMS))
    ids = draw(idlists(maxn=12))
    if ps_array and len(ids) < 2:
        ids = ids + [ids[-1] + 5]
    n = len(ids)

    def intcol(pool):
        if draw(st.booleans()):
            return draw(pool)
        return [draw(pool) for _ in range(n)]
    csys = st.one_of(st.integers(0, 9), st.integers(0, 99999999))
    case = {"ids": ids, "form": form, "seed": draw(st.integers(0, 2 ** 31)), "mode": draw(MODES),
            "xyz_rows": draw(st.sampled_from(["N", "N", "1"])),
            "asarray": draw(st.booleans()), "xyz_list": draw(st.booleans())}
    if draw(st.integers(0, 4)) > 0:
        case["cp"] = intcol(csys)
    if draw(st.integers(0, 4)) > 0:
        case["cd"] = intcol(csys)
    which = draw(st.sampled_from(["none", "none", "ps", "seid", "both"])) if not ps_array else \
        draw(st.sampled_from(["ps", "seid", "both"]))
    if which in ("ps", "both"):
        case["ps"] = intcol(st.sampled_from(PS_VALUES))
    if which in ("seid", "both"):
        case["seid"] = intcol(st.integers(0, 999))
    if ps_array:
        case["ps_array"] = True
        keys = [k for k in ("ps", "seid") if k in case]
        k = draw(st.sampled_from(keys))
        if not isinstance(case[k], list):
            case[k] = [case[k]] * n
    if draw(st.integers(0, 9)) == 0:
        case["xyz_default"] = True
        case["xyz_rows"] = "1"
    return case


def grid_ps_array_cases():
    return grid_cases(ps_array=True)


# ---- TABLED1

SMALL_FORMS = ["s25", "s34", "s1#0", "s4E"]
LARGE_FORMS = ["default", "l25", "l8E", "l10e", "lEE"]


@st.composite
def table_specs(draw, short, tid):
    form = draw(st.sampled_from(SMALL_FORMS + LARGE_FORMS))
    per_line = 4 if form in SMALL_FORMS else 2
    if short:
        n = draw(st.integers(1, per_line - 1))
    else:
        n = per_line + draw(st.integers(0, 2 ** 30)) % (26 - per_line)        # per_line .. 25, uniform
        if draw(st.integers(0, 5)) == 0:
            n = per_line * draw(st.sampled_from([1, 2, 3, 5]))                # last line exactly full
    tb = {"tid": tid, "form": form, "n": n, "seed": draw(st.integers(0, 2 ** 31)),
          "sorted_t": draw(st.booleans()), "aslist": draw(st.booleans())}
    if draw(st.booleans()):
        tb["title"] = draw(st.sampled_from(["3 Hz Sine Wave", "x", "load, case 2 = ramp"]))
    if n == 1:
        tb["scalar"] = draw(st.booleans())
    return tb


@st.composite
def table_cases(draw, short=False):
    nt = draw(st.sampled_from([1, 1, 2, 3]))
    tids = draw(st.lists(st.one_of(st.integers(1, 50), st.integers(1, 99999999)), min_size=nt,
                         max_size=nt, unique=True))
    return {"tables": [draw(table_specs(short, t)) for t in tids], "mode": draw(MODES),
            "tablestr": draw(st.sampled_from(["TABLED1", "TABLED1", "TABLEM1"]))}


def table_short_cases():
    return table_cases(short=True)


# card lists longer than any plausible internal block of the writers (1024 / 4096 lines)
@st.composite
def grid_long_cases(draw):
    c = draw(grid_cases())
    for k in ("cp", "cd", "ps", "seid"):
        if isinstance(c.get(k), list):
            c[k] = c[k][0]
    c.pop("ps_array", None)
    c["ids_range"] = [draw(st.sampled_from([1, 1001, 500000])), draw(st.sampled_from([1024, 1025, 2500, 4097, 5000]))]
    c["ids"] = []
    return c


@st.composite
def table_long_cases(draw):
    c = draw(table_cases())
    c["tables"] = c["tables"][:1]
    c["tables"][0]["n"] = draw(st.sampled_from([2048, 2049, 4096, 4100, 5000, 8200, 9001]))
    c["tables"][0].pop("scalar", None)
    return c


# ---- SET / SPOINT / CSUPER / EXTRN

@st.composite
def set_cases(draw):
    ns = draw(st.sampled_from([1, 1, 2, 3]))
    sids = draw(st.lists(st.one_of(st.integers(1, 200), st.integers(1, 99999999)), min_size=ns,
                         max_size=ns, unique=True))
    sets = []
    for sid in sids:
        sets.append({"sid": sid, "ids": draw(idlists(maxn=60)),
                     "maxlen": draw(st.one_of(st.none(), st.integers(30, 72), st.integers(30, 40)))})
    return {"sets": sets, "mode": draw(MODES), "asarray": draw(st.booleans()),
            "trailer": draw(st.booleans())}


@st.composite
def spoint_cases(draw):
    return {"ids": draw(idlists(maxn=40)), "mode": draw(MODES), "asarray": draw(st.booleans())}


@st.composite
def csuper_cases(draw):
    nc = draw(st.sampled_from([1, 1, 2, 3]))
    seids = draw(st.lists(st.integers(1, 9999), min_size=nc, max_size=nc, unique=True))
    return {"cards": [{"seid": s, "ids": draw(idlists(maxn=40))} for s in seids],
            "mode": draw(MODES), "asarray": draw(st.booleans())}


EXTRN_DOF = [123456, 123456, 0, 0, 123, 456, 1, 6, 135, 246, 3]


@st.composite
def extrn_cases(draw):
    ids = draw(idlists(maxn=30))
    dof = [draw(st.sampled_from(EXTRN_DOF)) for _ in ids]
    return {"ids": ids, "dof": dof, "mode": draw(MODES), "asarray": draw(st.booleans())}


# ---- coordinate systems

def _f(lo, hi):
    return st.floats(lo, hi, allow_nan=False, allow_infinity=False, allow_subnormal=False)


@st.composite
def point_in(draw, ctype, scale=1.0):
    """coordinates of a point in a system of the given type, away from the polar singularities"""
    s = scale
    if ctype == cs.RECT:
        return [draw(_f(-10 * s, 10 * s)), draw(_f(-10 * s, 10 * s)), draw(_f(-10 * s, 10 * s))]
    if ctype == cs.CYL:
        return [draw(_f(0.1 * s, 10 * s)), draw(_f(-360, 360)), draw(_f(-10 * s, 10 * s))]
    return [draw(_f(0.1 * s, 10 * s)), draw(_f(5, 175)), draw(_f(-360, 360))]


@st.composite
def chains(draw, nmin=1, maxn=5):
    n = draw(st.integers(nmin, maxn))
    cids = draw(st.lists(st.one_of(st.integers(1, 60), st.integers(1, 99999999)), min_size=n,
                         max_size=n, unique=True))
    linear = draw(st.booleans())
    scale = draw(st.sampled_from([1.0, 1.0, 30.0, 1000.0]))
    systems = []
    for k in range(n):
        ctype = draw(st.sampled_from([1, 2, 3]))
        j = k - 1 if linear else draw(st.integers(-1, k - 1))
        ref, rtype = (0, cs.RECT) if j < 0 else (systems[j]["cid"], systems[j]["type"])
        A = draw(point_in(rtype, scale))
        B = draw(point_in(rtype, scale))
        C = draw(point_in(rtype, scale))
        lab, lac, sn = cs.definition_quality(rtype, A, B, C)
        assume(lab >= 0.5 * scale and lac >= 0.5 * scale and sn >= 0.1)
        systems.append({"cid": cids[k], "type": ctype, "ref": ref, "A": A, "B": B, "C": C})
    return systems, scale


@st.composite
def coord_cases(draw):
    systems, _ = draw(chains())
    return {"systems": systems, "order": list(draw(st.permutations(range(len(systems))))),
            "mode": draw(MODES)}


@st.composite
def uset_cases(draw):
    systems, scale = draw(chains(nmin=0))
    resolved = cs.resolve(systems)
    choices = [0] + [s["cid"] for s in systems]
    n = draw(st.integers(1, 8))
    gids = draw(st.lists(st.one_of(st.integers(1, 999), st.integers(1, 99999999)), min_size=n,
                         max_size=n, unique=True))
    if draw(st.integers(0, 2)) > 0:
        gids = sorted(gids)
    grids = []
    for gid in gids:
        cp = draw(st.sampled_from(choices))
        cd = draw(st.sampled_from(choices[::-1]))
        xyz = draw(point_in(resolved[cp].ctype, scale))
        grids.append({"gid": gid, "cp": cp, "cd": cd, "xyz": xyz})
    return {"systems": systems, "grids": grids, "mode": draw(MODES)}


PARTS = [
    Part("dmig", oracle_dmig, strategy=dmig_cases, quick=(4, 300), thorough=(16, 1000)),
    Part("grids", oracle_grids, strategy=grid_cases, quick=(2, 400), thorough=(16, 600)),
    Part("grids_ps_array", oracle_grids, strategy=grid_ps_array_cases, quick=(1, 40), thorough=(2, 250)),
    Part("tabled1", oracle_tabled1, strategy=table_cases, quick=(2, 400), thorough=(16, 600)),
    Part("grids_long", oracle_grids, strategy=grid_long_cases, quick=(2, 6), thorough=(8, 20)),
    Part("tabled1_long", oracle_tabled1, strategy=table_long_cases, quick=(2, 6), thorough=(8, 20)),
    Part("tabled1_short", oracle_tabled1, strategy=table_short_cases, quick=(1, 40), thorough=(2, 250)),
    Part("sets", oracle_sets, strategy=set_cases, quick=(2, 400), thorough=(16, 600)),
    Part("spoints", oracle_spoints, strategy=spoint_cases, quick=(1, 500), thorough=(8, 800)),
    Part("csuper", oracle_csuper, strategy=csuper_cases, quick=(1, 500), thorough=(8, 800)),
    Part("extrn", oracle_extrn, strategy=extrn_cases, quick=(1, 500), thorough=(8, 800)),
    Part("coords", oracle_coords, strategy=coord_cases, quick=(2, 200), thorough=(16, 350)),
    Part("uset", oracle_uset, strategy=uset_cases, quick=(2, 200), thorough=(16, 350)),
    # coverage-guided (atheris / libFuzzer) tier over the same strategies and oracles
    Part("fuzz_dmig", oracle_dmig, strategy=dmig_cases, quick=(1, 600), thorough=(4, 20000),
         fuzz=dict(modules=["pyyeti.nastran.bulk"], time=25, time_thorough=300), tmax_thorough=400),
    Part("fuzz_sets", oracle_sets, strategy=set_cases, quick=(1, 800), thorough=(4, 30000),
         fuzz=dict(modules=["pyyeti.nastran.bulk"], time=25, time_thorough=300), tmax_thorough=400),
    Part("fuzz_tabled1", oracle_tabled1, strategy=table_cases, quick=(1, 800), thorough=(4, 30000),
         fuzz=dict(modules=["pyyeti.nastran.bulk"], time=25, time_thorough=300), tmax_thorough=400),
    # documented defaults: leaving a keyword out = passing its documented value (vlib/defaults.py)
    Part("defaults", defaults.make_oracle("C13"), enum=defaults.make_enum(), quick=(1, None), thorough=(1, None),
         exhaustive=True),
]
