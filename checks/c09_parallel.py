"""C09 - parallel execution of srs / fdepsd is bit-identical to serial execution."""
import time

import numpy as np
from hypothesis import strategies as st

from vlib import util
from vlib import defaults
from vlib.core import Part

PROPERTY = "C09"
RULE = ("signals of 200..3000 samples x 1..3 columns, 2..24 oscillator frequencies, every stype, ic in "
        "{zero, shift, mshift, steady}, getresp, time window, peak statistic, maxcpu 1..16 (and None); "
        "per-frequency task delays (none / reverse-sorted / random / one straggler, 0..15 ms) are injected by "
        "replacing the module-level worker functions (srs._dosrs*, fdepsd._dofde) with importable wrappers "
        "that sleep, call the original and take a completion ticket from a shared counter, so the schedule of "
        "imap_unordered is forced and observed without any hook in pyyeti.  Oracle: every array / frame / "
        "series / scalar of the parallel result is bit-identical (values, dtype, shape, index) to the "
        "parallel='no' result.  Non-trivial: >= 2 workers and a completion order different from the task "
        "order; distinct by case hash; the number of distinct completion orders is reported.")
ASSUME = ["multiprocessing start method is fork (worker wrappers and their shared ticket state are inherited)",
          "completion orders are sampled (forced by delays), not enumerated",
          "the serial results themselves are decided by C03 / C10"]
KNOWN = {}

# ---- state shared with forked pool workers (set before the pool is created)
_DELAYS = None
_TICKET = None
_ORDER = None
_ORIG = {}


def _wrapped(name, args):
    j = args[0]
    dl = _DELAYS[j] if _DELAYS is not None and j < len(_DELAYS) else 0.0
    if dl:
        time.sleep(dl)
    out = _ORIG[name](args)
    with _TICKET.get_lock():
        k = _TICKET.value
        _TICKET.value = k + 1
    _ORDER[j] = k
    return out


def _w_dosrs(args):
    return _wrapped("_dosrs", args)


def _w_dosrs_nohist(args):
    return _wrapped("_dosrs_nohist", args)


def _w_dosrs_ic(args):
    return _wrapped("_dosrs_ic", args)


def _w_dosrs_nohist_ic(args):
    return _wrapped("_dosrs_nohist_ic", args)


def _w_dofde(args):
    return _wrapped("_dofde", args)


WRAPPERS = {"_dosrs": _w_dosrs, "_dosrs_nohist": _w_dosrs_nohist, "_dosrs_ic": _w_dosrs_ic,
            "_dosrs_nohist_ic": _w_dosrs_nohist_ic}


def delays_for(case, LF):
    kind = case["delay"]
    rng = util.rng_of(case["seed"] + 3)
    base = np.array([0.0, 0.002, 0.005, 0.015])
    if kind == "none":
        return np.zeros(LF)
    if kind == "reverse":
        return np.linspace(0.015, 0.0, LF)
    if kind == "straggler":
        d = np.zeros(LF)
        d[int(rng.integers(0, LF))] = 0.03
        return d
    return rng.choice(base, LF)


def make_signal(case):
    rng = util.rng_of(case["seed"])
    n, ncol = case["n"], case["ncol"]
    t = np.arange(n) / case["sr"]
    cols = []
    for c in range(ncol):
        f1, f2 = rng.uniform(5, 60, 2)
        x = np.sin(2 * np.pi * f1 * t) + 0.5 * np.sin(2 * np.pi * f2 * t + 1.0) + rng.integers(-8, 9, n) / 8.0
        cols.append(x + case["offset"])
    sig = np.column_stack(cols)
    return sig[:, 0] if (ncol == 1 and case["onedim"]) else sig


def same(a, b):
    """bit-identical comparison of arbitrary result objects -> (ok, why)"""
    import pandas as pd
    if isinstance(a, (pd.DataFrame, pd.Series)):
        if type(a) is not type(b) or a.shape != b.shape:
            return False, "frame type/shape"
        if not a.index.equals(b.index):
            return False, "index"
        if isinstance(a, pd.DataFrame) and not a.columns.equals(b.columns):
            return False, "columns"
        return same(a.values, b.values)
    if isinstance(a, np.ndarray):
        if not isinstance(b, np.ndarray) or a.shape != b.shape or a.dtype != b.dtype:
            return False, f"array shape/dtype {getattr(b, 'shape', None)} {getattr(b, 'dtype', None)}"
        if a.dtype.kind in "fc":
            eq = (a == b) | (np.isnan(a) & np.isnan(b))
            return bool(eq.all()), f"{int((~eq).sum())} of {a.size} values differ"
        return bool(np.array_equal(a, b)), "values differ"
    if isinstance(a, dict):
        if not isinstance(b, dict) or set(a) != set(b):
            return False, "dict keys"
        for k in a:
            ok, why = same(a[k], b[k])
            if not ok:
                return False, f"[{k}] {why}"
        return True, ""
    if isinstance(a, (list, tuple)):
        if len(a) != len(b):
            return False, "length"
        for x, y in zip(a, b):
            ok, why = same(x, y)
            if not ok:
                return False, why
        return True, ""
    if isinstance(a, float) and isinstance(b, float) and np.isnan(a) and np.isnan(b):
        return True, ""
    return a == b, f"{a!r} vs {b!r}"


def run_patched(mod, names, LF, delays, call):
    """run `call()` with the worker functions of `mod` replaced; -> (result, completion order)"""
    import multiprocessing as mp
    global _DELAYS, _TICKET, _ORDER
    _DELAYS = delays
    _TICKET = mp.Value("i", 0)
    _ORDER = mp.RawArray("i", [-1] * LF)
    saved = {}
    try:
        for nm, wrap in names.items():
            saved[nm] = getattr(mod, nm)
            _ORIG[nm] = saved[nm]
            setattr(mod, nm, wrap)
        out = call()
    finally:
        for nm, fn in saved.items():
            setattr(mod, nm, fn)
    return out, list(_ORDER)


def oracle_srs(case, R):
    from pyyeti import srs
    sig = make_signal(case)
    if case.get("intsig"):
        sig = np.round(np.asarray(sig) * 50.0).astype(np.int64)   # raw counts of a digitiser held in an integer array
        R.label("sig:int64_counts")
    sig, lab_ = util.repack(sig, case.get("spack", "same"))     # same container for the serial and the parallel run
    R.label("sig:" + lab_)
    sr = case["sr"]
    freq = np.array(case["freq"], float)
    LF = len(freq)
    kw = dict(ic=case["ic"], stype=case["stype"], peak=case["peak"], time=case["time"],
              getresp=case["getresp"], eqsine=case["eqsine"])
    ser = srs.srs(sig, sr, freq, case["Q"], parallel="no", **kw)
    delays = delays_for(case, LF)
    par, order = run_patched(srs, WRAPPERS, LF, delays,
                             lambda: srs.srs(sig, sr, freq, case["Q"], parallel="yes", maxcpu=case["maxcpu"], **kw))
    ran = [o for o in order if o >= 0]
    R.check(sorted(ran) == list(range(LF)), "harness_tasks_not_all_observed", f"order={order}")
    ncpu = case["maxcpu"] or 12
    identity = order == list(range(LF))
    R.label(f"stype={case['stype']}", f"ic={case['ic']}", f"getresp={case['getresp']}", f"time={case['time']}",
            f"delay={case['delay']}", f"ncpu={min(ncpu, 16)}", "order=identity" if identity else "order=permuted")
    R.label("orderhash=" + "-".join(map(str, order))[:60])
    R.nontrivial(ncpu >= 2 and not identity)
    ok, why = same(ser, par)
    R.check(ok, "srs_parallel_differs_from_serial",
            f"{why}; stype={case['stype']} ic={case['ic']} getresp={case['getresp']} time={case['time']} "
            f"maxcpu={case['maxcpu']} completion order={order}")
    # a result that was handed out stays what it was: a later parallel call of the same size on other data must
    # not reach into arrays returned earlier (shared-memory buffers are per call)
    if case.get("second_call", True):
        sig2 = -0.5 * np.asarray(sig, float)[::-1].copy()
        par2 = srs.srs(sig2, sr, freq, case["Q"], parallel="yes", maxcpu=case["maxcpu"], **kw)
        ok, why = same(ser, par)
        R.check(ok, "srs_parallel_result_changed_by_later_call", f"{why}; getresp={case['getresp']}")
        ser2 = srs.srs(sig2, sr, freq, case["Q"], parallel="no", **kw)
        ok, why = same(ser2, par2)
        R.check(ok, "srs_second_parallel_call_differs_from_serial", f"{why}; getresp={case['getresp']}")
        R.label("second_call")


def _peak_with_limit(resp, limit=np.inf):
    """a caller's peak function that refuses responses beyond a limit (documented: `peak` may be a function)"""
    m = abs(resp).max(axis=0)
    if np.any(m > limit):
        raise ValueError("response beyond the qualification limit")
    return m


def _in_child(fn, timeout):
    """run fn() in a forked child; -> its (small, picklable) result, or ("timeout", "")"""
    import multiprocessing as mp
    import os
    ctx = mp.get_context("fork")
    rd, wr = ctx.Pipe(duplex=False)

    def target():
        try:
            out = fn()
        except BaseException as ex:      # noqa: BLE001
            out = ("raised", type(ex).__name__)
        try:
            wr.send(out)
            wr.close()
        finally:
            os._exit(0)

    p = ctx.Process(target=target)
    p.start()
    wr.close()
    try:
        res = rd.recv() if rd.poll(timeout) else ("timeout", "")
    except EOFError:
        res = ("timeout", "")
    if p.is_alive():
        p.kill()
    p.join()
    return res


def oracle_srs_error(case, R):
    """an error in one per-frequency task reaches the caller in both modes: what the serial run refuses, the
    parallel run does not hand out as a result"""
    import functools
    from pyyeti import srs
    sig = make_signal(case)
    sr = case["sr"]
    freq = np.array(case["freq"], float)
    freq = freq[freq > 0]                 # (the 0 Hz oscillator has no finite relative response to set a limit by)
    kw = dict(ic=case["ic"], stype=case["stype"], time=case["time"], getresp=case["getresp"])
    sh = np.atleast_2d(np.asarray(srs.srs(sig, sr, freq, case["Q"], parallel="no", peak="abs",
                                           **dict(kw, getresp=False))))
    per_f = np.abs(sh).reshape(len(freq), -1).max(axis=1)
    if per_f.max() <= per_f.min() * (1 + 1e-9):
        R.label("skipped:all_frequencies_alike")
        return
    limit = 0.5 * (float(per_f.min()) + float(per_f.max()))        # some frequencies beyond it, some not
    pk = functools.partial(_peak_with_limit, limit=limit)
    nbad = int((per_f > limit).sum())
    R.label(f"stype={case['stype']}", f"ic={case['ic']}", f"getresp={case['getresp']}")
    R.nontrivial(0 < nbad < len(freq))

    def run(**par):
        try:
            return ("ok", srs.srs(sig, sr, freq, case["Q"], peak=pk, **par, **kw))
        except Exception as ex:           # noqa: BLE001 - which exception is the library's business
            return ("raised", type(ex).__name__)

    a = run(parallel="no")
    # (multiprocessing.Pool can dead-lock while it is torn down after a task has raised - a stdlib hazard that has
    # nothing to do with the property: the parallel call runs in a child with a time limit, no answer = inconclusive)
    b = _in_child(lambda: (run(parallel="yes", maxcpu=case["maxcpu"])[0], ""), 30.0)
    if b[0] == "timeout":
        R.label("inconclusive:pool_teardown_hang")
        return
    R.check(a[0] == "raised", "harness_serial_run_did_not_raise", f"{nbad} of {len(freq)} frequencies beyond the limit")
    R.check(b[0] == a[0], "srs_parallel_swallows_worker_error",
            f"serial: {a[0]} ({a[1] if a[0] == 'raised' else 'result'}), parallel: {b[0]}; {nbad} of {len(freq)} "
            f"per-frequency tasks fail; getresp={case['getresp']} ic={case['ic']}")
    # and a limit nobody reaches changes nothing: same bits as the built-in 'abs'
    ok_pk = functools.partial(_peak_with_limit, limit=float(per_f.max()) * 2 + 1)
    c = srs.srs(sig, sr, freq, case["Q"], peak=ok_pk, parallel="yes", maxcpu=case["maxcpu"], **kw)
    d = srs.srs(sig, sr, freq, case["Q"], peak="abs", parallel="no", **kw)
    ok, why = same(d, c)
    R.check(ok, "srs_parallel_peak_function_differs_from_serial_abs", why)


def oracle_fdepsd(case, R):
    from pyyeti import fdepsd
    sig = make_signal(dict(case, ncol=1, onedim=True))
    if case.get("two_events"):
        # the same short transient twice, the second at an exact multiple of the first, quiet in between and no
        # pre-processing: cycle amplitudes of the first event fall EXACTLY on bin boundaries of the amplitude grid
        # (k/nbins of the largest), where serial and parallel must still count alike
        n = int(case["n"])
        ev = util.rng_of(case["seed"]).integers(-8, 9, 7).astype(float)
        sig = np.zeros(max(n, 4000))
        sig[100:107] = ev
        h2 = len(sig) // 2
        sig[h2:h2 + 7] = ev * float(case["two_events"])
        R.label("sig:two_events")
    if case.get("creep"):
        # a slow creep up to the largest value (steps near the top far below 1e-6 of the largest step elsewhere),
        # then a drop; no pre-processing, so that the plateau survives into the responses
        k_ = np.arange(4000)
        sig = np.r_[float(case["creep"]) * (1.0 - np.exp(-k_ / 250.0)), np.zeros(600)]
        R.label("sig:creep")
    sr = case["sr"]
    freq = np.array(case["freq"], float)
    LF = len(freq)
    kw = dict(resp=case["resp"], nbins=case["nbins"], T0=case["T0"], hpfilter=case["hpfilter"],
              winends=case["winends"], verbose=False)
    if case.get("two_events") or case.get("creep"):
        kw.update(detrend=False, winends=None, hpfilter=None, rolloff="none")
    ser = fdepsd.fdepsd(sig, sr, freq, case["Q"], parallel="no", **kw)
    delays = delays_for(case, LF)
    par, order = run_patched(fdepsd, {"_dofde": _w_dofde}, LF, delays,
                             lambda: fdepsd.fdepsd(sig, sr, freq, case["Q"], parallel="yes",
                                                   maxcpu=case["maxcpu"], **kw))
    identity = order == list(range(LF))
    ncpu = case["maxcpu"] or 12
    R.label(f"resp={case['resp']}", f"delay={case['delay']}", "order=identity" if identity else "order=permuted")
    R.label("orderhash=" + "-".join(map(str, order))[:60])
    R.nontrivial(ncpu >= 2 and not identity)
    R.check(sorted(order) == list(range(LF)), "harness_tasks_not_all_observed", f"order={order}")
    skip = {"parallel", "ncpu"}
    keys_s = set(vars(ser)) - skip
    keys_p = set(vars(par)) - skip
    R.check(keys_s == keys_p, "fdepsd_fields_differ", f"{keys_s ^ keys_p}")
    for k in sorted(keys_s & keys_p):
        ok, why = same(getattr(ser, k), getattr(par, k))
        R.check(ok, "fdepsd_parallel_differs_from_serial", f"field {k}: {why}; completion order={order}")
    R.check(par.parallel == "yes" and ser.parallel == "no", "fdepsd_parallel_flag")
    # an earlier result is not touched by a later parallel call of the same size on other data
    sig2 = -0.5 * np.asarray(sig, float)[::-1].copy()
    fdepsd.fdepsd(sig2, sr, freq, case["Q"], parallel="yes", maxcpu=case["maxcpu"], **kw)
    for k in sorted(keys_s & keys_p):
        ok, why = same(getattr(ser, k), getattr(par, k))
        R.check(ok, "fdepsd_parallel_result_changed_by_later_call", f"field {k}: {why}")


STYPES = ["absacce", "relacce", "relvelo", "reldisp", "pvelo", "pacce"]


@st.composite
def srs_cases(draw):
    sr = draw(st.sampled_from([1000.0, 2000.0, 5000.0]))
    nf = draw(st.integers(2, 24))
    freq = sorted(set(round(draw(st.floats(5.0, sr / 2.5)), 3) for _ in range(nf)))
    if len(freq) < 2:
        freq = [10.0, 50.0]
    # "any frequency vector": a fifth of the vectors repeat an entry (consecutively), a fifth are unsorted
    shape = draw(st.sampled_from(["sorted", "sorted", "sorted", "repeat", "shuffled", "zero"]))
    if shape == "zero":
        # a 0 Hz entry (the rigid oscillator) anywhere in the vector
        i0 = draw(st.integers(0, len(freq)))
        freq = freq[:i0] + [0.0] + freq[i0:]
    if shape == "repeat":
        i = draw(st.integers(0, len(freq) - 1))
        freq = freq[: i + 1] + [freq[i]] * draw(st.integers(1, 2)) + freq[i + 1:]
    elif shape == "shuffled":
        freq = draw(st.permutations(freq))
    return {"n": draw(st.integers(200, 3000)), "ncol": draw(st.integers(1, 3)), "onedim": draw(st.booleans()),
            "sr": sr, "freq": freq, "Q": draw(st.sampled_from([10.0, 25.0, 5.0, 0.7])),
            "stype": draw(st.sampled_from(STYPES)), "ic": draw(st.sampled_from(["zero", "shift", "mshift", "steady"])),
            "peak": draw(st.sampled_from(["abs", "pos", "neg", "poss", "negs", "rms"])),
            "time": draw(st.sampled_from(["primary", "total", "residual"])), "getresp": draw(st.booleans()),
            "eqsine": draw(st.booleans()), "maxcpu": draw(st.sampled_from([1, 2, 3, 4, 7, 16, None])),
            "delay": draw(st.sampled_from(["none", "reverse", "random", "random", "straggler"])),
            "offset": draw(st.sampled_from([0.0, 3.0])), "seed": draw(st.integers(0, 2 ** 31)),
            "spack": draw(st.sampled_from(["same", "same", "fortran", "strided", "readonly", "list"])),
            "intsig": draw(st.integers(0, 3)) == 0}


@st.composite
def fde_cases(draw):
    sr = 1000.0
    nf = draw(st.integers(2, 8))
    freq = sorted(set(round(draw(st.floats(8.0, 120.0)), 2) for _ in range(nf)))
    if len(freq) < 2:
        freq = [10.0, 50.0]
    c = {"n": draw(st.integers(400, 3000)), "sr": sr, "freq": freq, "Q": draw(st.sampled_from([10.0, 25.0])),
            "resp": draw(st.sampled_from(["absacce", "pvelo"])), "nbins": draw(st.integers(5, 40)),
            "T0": draw(st.sampled_from([60.0, 10.0])), "hpfilter": draw(st.sampled_from([5.0, None])),
            "winends": draw(st.sampled_from(["auto", None])), "maxcpu": draw(st.sampled_from([2, 3, 8, None])),
            "delay": draw(st.sampled_from(["none", "reverse", "random", "straggler"])), "offset": 0.0,
            "seed": draw(st.integers(0, 2 ** 31)),
            "two_events": draw(st.sampled_from([None, None, 2.0, 4.0, 1.5, 3.0]))}
    if c["two_events"]:
        c["nbins"] = draw(st.sampled_from([4, 6, 8, 12, 24, 36, 300]))      # the level ratio lands on a bin boundary
    elif draw(st.integers(0, 4)) == 0:
        c["creep"] = draw(st.sampled_from([1.0, 3.0, -2.0]))
        c["Q"] = 10.0
    return c


def enum_grid(shard, nshards, tier):
    """every stype x ic x getresp x time combination once, with a forced reverse completion order"""
    i = 0
    for stype in STYPES:
        for ic in ("zero", "shift", "mshift", "steady"):
            for getresp in (False, True):
                for tm in ("primary", "total", "residual"):
                    i += 1
                    if i % nshards == shard:
                        yield {"n": 400 + 7 * i, "ncol": 1 + i % 3, "onedim": bool(i % 2), "sr": 1000.0,
                               "freq": ([0.0] if i % 2 else []) + [10.0, 35.0, 35.0, 80.0, 150.0, 220.0][: 3 + i % 4],
                               "Q": 10.0, "stype": stype,
                               "ic": ic, "peak": ["abs", "pos", "neg", "poss", "negs", "rms"][i % 6], "time": tm,
                               "getresp": getresp, "eqsine": False, "maxcpu": [2, 3, 4][i % 3],
                               "delay": "reverse", "offset": 3.0, "seed": i, "intsig": i % 3 == 0}


PARTS = [
    Part("grid", oracle_srs, enum=enum_grid, quick=(16, None), thorough=(16, None), exhaustive=True),
    Part("srs", oracle_srs, strategy=srs_cases, quick=(8, 12), thorough=(16, 120)),
    Part("srs_error", oracle_srs_error, strategy=srs_cases, quick=(4, 6), thorough=(8, 40)),
    Part("fdepsd", oracle_fdepsd, strategy=fde_cases, quick=(4, 8), thorough=(16, 40)),
    # documented defaults: leaving a keyword out = passing its documented value (vlib/defaults.py)
    Part("defaults", defaults.make_oracle("C09"), enum=defaults.make_enum(), quick=(1, None), thorough=(1, None),
         exhaustive=True),
]
