"""C18 - Nastran DOF-set partitions (mkusetmask / mksetpv / mkdofpv / expanddof /
make_uset / addgrid) against a plain-set model of the documented hierarchy, and
the pyyeti.locate index helpers against their defining equations."""
import itertools

import numpy as np
from hypothesis import strategies as st

from refs import setlattice as SL
from vlib import defaults
from vlib.core import Part

PROPERTY = "C18"
RULE = ("lattice (exhaustive): every ordered (major, minor) pair of '+' expressions over the 18 "
        "documented set names (quick: all pairs of expressions with <= 2 names plus 3-name x "
        "1-name both ways; thorough: <= 3 names against <= 2 names both ways) on a 32-DOF table "
        "holding every base set (addgrid 6-letter grids + make_uset scalar points), on a table "
        "written with Nastran-style full bit words, and on 8 tables that each lack one base set.  "
        "sets/dofpv/build (hypothesis): USET tables of 1..8 grids and 0..4 scalar points, single "
        "letters or per-DOF 6-letter strings, built by make_uset (compact / expanded / id form / "
        "integer NDDL words with user sets) or addgrid (+concat), random row order; random "
        "expression pairs as strings or integer masks; DOF requests as id vectors or (id, packed "
        "component) rows with duplicates, missing neighbours, bad digits, strict or not, "
        "grids_only or not, DataFrame or ndarray table.  locate (hypothesis): integer / float "
        "vectors and matrices drawn from small row pools (duplicates, +-0.0, int/float mixes), "
        "index vectors (sorted, unsorted, constant step, negative), lists of hashables with "
        "overlaps.  edge (enumerated): degenerate inputs kept out of the generators (empty / "
        "one-element vector, empty haystack, empty set, sub-sequence longer than sequence, "
        "ndarray of set strings, grid split over two incomplete rows).  Oracle: refs/setlattice "
        "(membership by atoms: mksetpv has |major| entries, True exactly at minor members in "
        "table order, ValueError iff minor has a DOF outside major on that table; every DOF in "
        "exactly one base set; every superset the disjoint union of its two documented members; "
        "mkdofpv == positions of the expanded request in request order, strict refuses any "
        "missing DOF, non-strict drops them) and brute-force definitions of each locate helper "
        "taken from its docstring.  Non-trivial: table with >= 3 base sets and (for requests) a "
        "packed component or a dropped/refused DOF; lattice pair that selects something or is "
        "refused; locate input with a repeated / colliding element; distinct by hash of the case.")
ASSUME = ["the set diagram in the mkusetmask/mksetpv/addgrid docstrings is the contract "
          "(transcribed in refs/setlattice.py)",
          "NDDL bit positions (quoted in the mkusetmask source comments) are used only to build "
          "Nastran-style tables, never to decide an answer",
          "numpy fancy indexing / Python list.index / set semantics",
          "locate helpers are exercised on finite values without NaN; find_subseq on integers and "
          "binary fractions (exact correlation)"]
KNOWN = {}
_REQ = ["lattice:T0:refused", "lattice:T0:selects", "lattice:N1:selects", "lattice:no_:refused",
        "sets:pair:refused", "sets:pair:selects", "sets:perm", "sets:how:ag", "sets:how:int",
        "sets:nbase:4", "dofpv:missing", "dofpv:packed", "dofpv:strict", "dofpv:nonstrict",
        "dofpv:ndarray", "dofpv:bad_component", "build:addgrid", "build:make_uset",
        "build:make_uset_err", "build:expanddof", "locate:mi:negzero", "locate:mi:if",
        "locate:dups:some", "locate:i2s:slice", "locate:i2s:cannot", "locate:fs:decoy",
        "locate:ml:noconflict", "edge:find_duplicates"]
REQUIRED_CLASSES = {"quick": _REQ, "thorough": _REQ}

BASIC = [[0.0, 1.0, 0.0], [0.0, 0.0, 0.0], [1.0, 0.0, 0.0], [0.0, 1.0, 0.0], [0.0, 0.0, 1.0]]


# ====================================================================== tables

def node_rows(nodes):
    """[(id, dof, atoms)] in the order the nodes are given"""
    rows = []
    for nd in nodes:
        nid, kind, sets = nd[0], nd[1], nd[2]
        users = tuple(nd[3]) if len(nd) > 3 else ()
        if kind == "g":
            letters = sets if len(sets) == 6 else sets * 6
            for d in range(1, 7):
                rows.append((nid, d, (letters[d - 1],) + users))
        else:
            rows.append((nid, 0, (sets,) + users))
    return rows


def mu_inputs(tb):
    """arguments of one make_uset call that describe the nodes (2-column form)"""
    opt = tb.get("opt", 0)
    dof, atoms = [], []
    for k, nd in enumerate(tb["nodes"]):
        nid, kind, sets = nd[0], nd[1], nd[2]
        users = tuple(nd[3]) if len(nd) > 3 else ()
        if kind == "g":
            if len(sets) == 1 and not (opt >> (k + 3)) & 1:
                dof.append([nid, 123456])
                atoms.append((sets,) + users)
            else:
                letters = sets if len(sets) == 6 else sets * 6
                for d in range(1, 7):
                    dof.append([nid, d])
                    atoms.append((letters[d - 1],) + users)
        else:
            dof.append([nid, 0])
            atoms.append((sets,) + users)
    return dof, atoms


def xyz_of(nid, k=0):
    return [float(nid), 0.5 * nid + k, -1.0 * nid]


def build_table(tb, R):
    """-> (uset DataFrame, rows [(id, dof, atoms)]) ; checks the (id, dof) index"""
    import pandas as pd
    from pyyeti.nastran import n2p
    nodes = tb["nodes"]
    how = tb["how"]
    opt = tb.get("opt", 0)
    rows = node_rows(nodes)
    if how == "mu1" and all(nd[1] == "g" and len(nd[2]) == 1 for nd in nodes):
        uset = n2p.make_uset([nd[0] for nd in nodes], [nd[2] for nd in nodes])
    elif how in ("mu2", "mu1"):
        dof, atoms = mu_inputs(tb)
        nas = [a[0] for a in atoms]
        if len(set(nas)) == 1 and opt & 1:
            nas = nas[0]
        uset = n2p.make_uset(dof, nas)
    elif how == "int":
        dof, atoms = mu_inputs(tb)
        nas = [SL.nddl_word(a[0], a[1:], full=bool(opt & 1), variant=(opt >> 1) + k)
               for k, a in enumerate(atoms)]
        uset = n2p.make_uset(dof, nas)
    elif how == "ag":
        uset = None
        i = 0
        while i < len(nodes):
            j = i + 1
            if not opt & 4:
                while j < len(nodes) and nodes[j][1] == nodes[i][1]:
                    j += 1
            seg = nodes[i:j]
            if seg[0][1] == "g":
                gids = [nd[0] for nd in seg]
                ns = [nd[2] for nd in seg]
                xyz = [xyz_of(nd[0]) for nd in seg]
                if len(seg) == 1 and opt & 1:
                    uset = n2p.addgrid(uset, gids[0], ns[0], 0, xyz[0], 0)
                else:
                    if len(set(ns)) == 1 and opt & 2:
                        ns = ns[0]
                    uset = n2p.addgrid(uset, gids, ns, 0, xyz, 0)
            else:
                sp = n2p.make_uset([[nd[0], 0] for nd in seg], [nd[2] for nd in seg],
                                   xyz=[[0.0, 0.0, 0.0]] * len(seg))
                uset = sp if uset is None else pd.concat((uset, sp), axis=0)
            i = j
    else:
        raise ValueError(how)
    if tb.get("perm") is not None:
        order = np.random.default_rng(tb["perm"]).permutation(len(rows))
        uset = uset.iloc[order]
        rows = [rows[i] for i in order]
    got = list(zip(uset.index.get_level_values("id").tolist(),
                   uset.index.get_level_values("dof").tolist()))
    R.check(got == [(r[0], r[1]) for r in rows], "table_index",
            f"how={how} index={got[:14]} want={[(r[0], r[1]) for r in rows][:14]}")
    return uset, rows


def check_pair(n2p, uset, arows, maj, mi, R, mode=0, tag=""):
    """mksetpv(uset, maj, mi) against the atom model; mode bit0/bit1: pass the
    major/minor as integer bit mask"""
    try:
        want = SL.partition(arows, maj, mi)
    except SL.NotContained:
        want = None
    a_maj = n2p.mkusetmask(maj) if mode & 1 else maj
    a_mi = n2p.mkusetmask(mi) if mode & 2 else mi
    try:
        got = n2p.mksetpv(uset, a_maj, a_mi)
    except ValueError:
        got = None
    what = f"{tag}major={maj!r} minor={mi!r} mode={mode}"
    if want is None or got is None:
        R.check(want is None and got is None, "refusal_iff_not_contained",
                f"{what}: model {'refuses' if want is None else 'accepts'}, "
                f"mksetpv {'refuses' if got is None else 'accepts'}")
        return "refused"
    if not R.check(isinstance(got, np.ndarray) and got.ndim == 1 and got.dtype == bool,
                   "pv_type", f"{what}: {type(got).__name__} {getattr(got, 'dtype', None)}"):
        return "ok"
    if R.check(len(got) == len(want), "pv_length_is_major",
               f"{what}: len {len(got)} want {len(want)}"):
        R.check(got.tolist() == want, "pv_selects_minor",
                f"{what}: got {got.astype(int).tolist()} want {[int(w) for w in want]}")
    return "selects" if any(want) else "ok"


# ---------------------------------------------------------------- lattice (exhaustive)

T0_NODES = [[10, "g", "msoqrc"], [31, "s", "e"], [32, "s", "b"], [20, "g", "bemsoq"],
            [33, "s", "c"], [34, "s", "r"], [40, "g", "b"], [35, "s", "q"], [36, "s", "o"],
            [37, "s", "s"], [38, "s", "m"], [50, "g", "eeccrr"]]


def lattice_tables():
    tabs = {"T0": {"how": "ag", "nodes": T0_NODES, "opt": 0},
            "N1": {"how": "int", "opt": 1,
                   "nodes": [[k + 1, "s", x] for k, x in enumerate(SL.BASE + SL.BASE + ("b", "s"))]
                   + [[70, "g", "sbsbqe"]]}}
    for x in SL.BASE:
        rest = [y for y in SL.BASE if y != x]
        tabs["no_" + x] = {"how": "mu2", "opt": 0,
                           "nodes": [[k + 1, "s", y] for k, y in enumerate(rest)]
                           + [[90, "g", "".join(rest[:6])], [91, "g", rest[6]]]}
    return tabs


_CACHE = {}


def lattice_table(tid, R):
    if tid not in _CACHE:
        uset, rows = build_table(lattice_tables()[tid], R)
        _CACHE[tid] = (uset, [r[2] for r in rows])
    return _CACHE[tid]


def oracle_lattice(case, R):
    from pyyeti.nastran import n2p
    uset, arows = lattice_table(case["t"], R)
    res = check_pair(n2p, uset, arows, case["maj"], case["min"], R, tag=f"table={case['t']} ")
    R.label(f"{case['t'][:3]}:{res}")
    R.nontrivial(res != "ok")


def enum_lattice(shard, nshards, tier):
    E3 = SL.expressions(3)
    E1, E2, E3o = E3[:18], E3[:171], E3[171:]
    plan = []
    if tier == "quick":
        plan.append(("T0", itertools.chain(itertools.product(E2, E2), itertools.product(E3o, E1),
                                           itertools.product(E1, E3o))))
        plan.append(("N1", itertools.chain(itertools.product(E2, E1),
                                           itertools.product(E1, E2[18:]))))
        for x in SL.BASE:
            plan.append(("no_" + x, itertools.product(E1, E1)))
    else:
        plan.append(("T0", itertools.chain(itertools.product(E3, E2), itertools.product(E2, E3o))))
        plan.append(("N1", itertools.product(E2, E2)))
        for x in SL.BASE:
            plan.append(("no_" + x, itertools.chain(itertools.product(E2, E1),
                                                    itertools.product(E1, E2[18:]))))
    i = 0
    for tid, pairs in plan:
        for maj, mi in pairs:
            i += 1
            if i % nshards == shard:
                yield {"t": tid, "maj": maj, "min": mi}


# ---------------------------------------------------------------- random tables

letters = st.sampled_from(SL.BASE)


def one_in(draw, n):
    """True about once in n (hypothesis over-samples the end points of a range, so the
    True sits in the middle of the list)"""
    return draw(st.sampled_from([False] * (n // 2) + [True] + [False] * (n - 1 - n // 2)))


@st.composite
def tables(draw, hows=("mu2", "mu2", "mu1", "ag", "ag", "int")):
    how = draw(st.sampled_from(hows))
    ng = draw(st.integers(1, 8) if draw(st.booleans()) else st.integers(1, 3))
    ns = 0 if how == "mu1" else draw(st.integers(0, 4))
    ids = draw(st.lists(st.integers(1, 60) if draw(st.booleans()) else st.integers(1, 100000),
                        min_size=ng + ns, max_size=ng + ns, unique=True))
    few = draw(st.booleans())
    lt = st.sampled_from(draw(st.lists(letters, min_size=3, max_size=5))) if few else letters
    nodes = []
    for k, nid in enumerate(ids):
        if k < ng:
            if how != "mu1" and draw(st.booleans()):
                sets = "".join(draw(st.lists(lt, min_size=6, max_size=6)))
            else:
                sets = draw(lt)
            nodes.append([nid, "g", sets])
        else:
            nodes.append([nid, "s", draw(lt)])
    if how != "mu1":
        nodes = draw(st.permutations(nodes))
    if how == "int":
        for nd in nodes:
            if one_in(draw, 4):
                nd.append(sorted(draw(st.sets(st.sampled_from(SL.USER), min_size=1, max_size=2))))
    tb = {"how": how, "nodes": [list(n) for n in nodes], "opt": draw(st.integers(0, 2 ** 12 - 1)),
          "perm": draw(st.one_of(st.none(), st.integers(0, 2 ** 31 - 1)))}
    return tb


def base_present(tb):
    return {r[2][0] for r in node_rows(tb["nodes"])}


names = st.sampled_from(SL.NAMES)
names_u = st.sampled_from(SL.NAMES + SL.USER)


@st.composite
def exprs(draw, user=False):
    n = draw(st.sampled_from([1, 1, 1, 2, 2, 3, 4]))
    return "+".join(draw(st.lists(names_u if user else names, min_size=n, max_size=n)))


@st.composite
def set_cases(draw):
    tb = draw(tables())
    user = tb["how"] == "int"
    pairs = []
    for _ in range(draw(st.integers(3, 8))):
        kind = draw(st.integers(0, 3))
        if kind == 0:           # minor inside major by construction
            mi = draw(exprs(user))
            maj = "+".join([mi.split("+")[0], draw(exprs(user))] + mi.split("+")[1:])
        else:
            maj, mi = draw(exprs(user)), draw(exprs(user))
        pairs.append([maj, mi, draw(st.sampled_from([0, 0, 0, 1, 2, 3]))])
    return {"table": tb, "pairs": pairs}


def oracle_sets(case, R):
    from pyyeti.nastran import n2p
    uset, rows = build_table(case["table"], R)
    arows = [r[2] for r in rows]
    n = len(rows)
    present = sorted({a[0] for a in arows})
    # every DOF in exactly one base set, the one it was given
    cols = {}
    for x in SL.BASE:
        pv = n2p.mksetpv(uset, "p", x)
        if not R.check(isinstance(pv, np.ndarray) and pv.shape == (n,) and pv.dtype == bool,
                       "p_partition_shape", f"base {x}: shape {getattr(pv, 'shape', None)} n={n}"):
            return
        cols[x] = pv
        R.check(pv.tolist() == [a[0] == x for a in arows], "base_membership",
                f"base {x}: got {pv.astype(int).tolist()} atoms {[a[0] for a in arows]}")
    count = sum(cols[x].astype(int) for x in SL.BASE)
    R.check(bool(np.all(count == 1)), "base_exactly_one", f"counts {count.tolist()}")
    # every superset is the disjoint union of its two documented members
    for s, (a, b) in SL.MEMBERS.items():
        ps, pa, pb = (n2p.mksetpv(uset, "p", z) for z in (s, a, b))
        R.check(np.array_equal(ps, pa | pb) and not bool((pa & pb).any()), "superset_union",
                f"{s} = {a} u {b}: {ps.astype(int).tolist()} vs {pa.astype(int).tolist()} "
                f"{pb.astype(int).tolist()}")
        qa, qb = n2p.mksetpv(uset, s, a), n2p.mksetpv(uset, s, b)
        R.check(len(qa) == int(ps.sum()) == len(qb) and np.array_equal(qa, ~qb)
                and np.array_equal(qa, pa[ps]), "superset_split",
                f"{s}: {qa.astype(int).tolist()} {qb.astype(int).tolist()}")
        cols[s] = ps
    outcomes = set()
    for maj, mi, mode in case["pairs"]:
        outcomes.add(check_pair(n2p, uset, arows, maj, mi, R, mode))
    R.label(f"how:{case['table']['how']}", f"nbase:{min(len(present), 4)}",
            "perm" if case["table"].get("perm") is not None else "ordered",
            *(f"pair:{o}" for o in sorted(outcomes)))
    R.nontrivial(len(present) >= 3)


# ---------------------------------------------------------------- mkdofpv

def packed(draw):
    kind = draw(st.integers(0, 9))
    if kind == 0:
        return 0
    if kind <= 2:
        return draw(st.integers(1, 6))
    if kind == 3:
        return 123456
    digs = draw(st.lists(st.integers(1, 6), min_size=2, max_size=6, unique=True))
    if kind <= 7:
        digs = sorted(digs)
    return int("".join(map(str, digs)))


@st.composite
def dof_cases(draw):
    tb = draw(tables())
    rows = node_rows(tb["nodes"])
    arows = [r[2] for r in rows]
    nduset = one_in(draw, 8)
    if nduset:
        expr = draw(exprs()) if one_in(draw, 6) else "p"
    else:
        expr = draw(st.one_of(st.just("p"), exprs(tb["how"] == "int"), st.sampled_from(
            ["a", "b", "q", "o", "m", "f", "n", "g", "b+q", "a+o", "l"])))
        if not any(SL.membership(arows, expr)):
            expr = "p"          # requests into an empty set are the 'edge' part's business
    inset = [(r[0], r[1]) for r, f in zip(rows, SL.membership(arows, expr)) if f] \
        if not nduset else [(r[0], r[1]) for r in rows]
    ids_all = sorted({r[0] for r in rows})
    near = sorted({i + d for i in ids_all for d in (-1, 1)} - set(ids_all) | {0, max(ids_all) + 7})
    form = draw(st.sampled_from(["ids", "pairs", "pairs", "pairs"]))
    honest = draw(st.booleans())        # request only what is there (strict succeeds)
    case = {"table": tb, "set": expr, "strict": draw(st.booleans()), "nduset": nduset,
            "setint": (not nduset) and one_in(draw, 6),
            "grids_only": True, "pack": "list"}
    if form == "ids":
        case["grids_only"] = draw(st.sampled_from([True, True, False]))
        if honest:
            full = [i for i in ids_all if all((i, d) in inset for d in range(1, 7))]
            pool = full or ids_all
        else:
            pool = ids_all + near
        case["req"] = draw(st.lists(st.sampled_from(pool), min_size=0, max_size=5))
        case["pack"] = draw(st.sampled_from(["list", "array", "col"]))
    else:
        req = []
        if honest and inset:
            for _ in range(draw(st.integers(1, 5))):
                nid = draw(st.sampled_from(sorted({p[0] for p in inset})))
                have = [p[1] for p in inset if p[0] == nid]
                sub = draw(st.lists(st.sampled_from(have), min_size=1, max_size=len(have),
                                    unique=True))
                if not one_in(draw, 4):
                    sub = sorted(sub)
                if sub == [0] or one_in(draw, 5) or 0 in sub:
                    req.extend([nid, d] for d in sub)
                else:
                    req.append([nid, int("".join(map(str, sub)))])
        else:
            for _ in range(draw(st.integers(0, 6))):
                nid = draw(st.sampled_from(ids_all + ids_all + near))
                req.append([nid, packed(draw)])
            if one_in(draw, 8):
                req.insert(draw(st.integers(0, len(req))),
                           [draw(st.sampled_from(ids_all)),
                            draw(st.sampled_from([7, 8, 9, 17, 1237, 123457, 91]))])
        case["req"] = req
        case["pack"] = draw(st.sampled_from(["list", "array"]))
    return case


def oracle_dofpv(case, R):
    from pyyeti.nastran import n2p
    uset, rows = build_table(case["table"], R)
    arows = [r[2] for r in rows]
    expr = case["set"]
    req = case["req"]
    strict, go = case["strict"], case["grids_only"]
    if case["nduset"]:
        table = [(r[0], r[1]) for r in rows]
        uarg = np.array([[r[0], r[1], 7 * k + 1] for k, r in enumerate(rows)])
    else:
        table = [(r[0], r[1]) for r, f in zip(rows, SL.membership(arows, expr)) if f]
        uarg = uset
    sarg = n2p.mkusetmask(expr) if case.get("setint") else expr
    if case["pack"] == "array":
        darg = np.array(req, dtype=np.int64) if req else np.zeros(0, np.int64)
    elif case["pack"] == "col":
        darg = np.array(req, dtype=np.int64).reshape(-1, 1)
    else:
        darg = req
    try:
        pv, outdof = n2p.mkdofpv(uarg, sarg, darg, strict=strict, grids_only=go)
        err = None
    except ValueError as e:
        err = e
    what = (f"set={expr!r} req={req} strict={strict} grids_only={go} pack={case['pack']} "
            f"table={table[:20]}")
    nb = len({a[0] for a in arows})
    if case["nduset"] and expr != "p":
        R.check(err is not None, "ndarray_table_needs_p", what)
        R.label("ndarray:not_p")
        return
    try:
        wanted = SL.expand_request(req, go)
    except SL.BadComponent:
        R.check(err is not None, "bad_component_accepted", what)
        R.label("bad_component")
        R.nontrivial(nb >= 3)
        return
    pos = SL.lookup(table, wanted)
    nmiss = sum(p is None for p in pos)
    is_packed = bool(req) and isinstance(req[0], list) and any(c > 6 for _, c in req)
    R.nontrivial(nb >= 3 and (is_packed or nmiss > 0))
    R.label("strict" if strict else "nonstrict", "missing" if nmiss else "all_found",
            "packed" if is_packed else "plain", "ndarray" if case["nduset"] else "frame",
            "ids" if req and not isinstance(req[0], list) else "pairs")
    if strict and nmiss:
        R.check(err is not None, "strict_missing_not_refused",
                f"{what} -> {None if err else pv.tolist()}")
        return
    if err is not None:
        R.fail("unexpected_refusal", f"{what}: {err!r}"[:500])
        return
    want_pv = [p for p in pos if p is not None]
    want_dof = [list(w) for w, p in zip(wanted, pos) if p is not None]
    pv = np.asarray(pv)
    outdof = np.asarray(outdof)
    ok = R.check(pv.ndim == 1 and pv.dtype.kind in "iu" and pv.tolist() == want_pv,
                 "dofpv_positions", f"{what}: got {pv.tolist()} want {want_pv}")
    R.check(outdof.shape == (len(want_dof), 2) and outdof.tolist() == want_dof,
            "dofpv_outdof", f"{what}: got {outdof.tolist()} want {want_dof}")
    if ok and not case["nduset"] and len(want_pv):
        # the defining statement itself: the rows selected from the set carry the request
        sub = uset.loc[n2p.mksetpv(uset, "p", sarg)] if expr != "p" else uset
        sel = sub.iloc[pv]
        got = [list(t) for t in zip(sel.index.get_level_values("id").tolist(),
                                    sel.index.get_level_values("dof").tolist())]
        R.check(got == want_dof, "dofpv_rows_carry_request", f"{what}: rows {got}")


# ---------------------------------------------------------------- expanddof / make_uset / addgrid

@st.composite
def build_cases(draw):
    k = draw(st.sampled_from(["expanddof", "expanddof", "make_uset", "make_uset", "addgrid",
                              "make_uset_err", "masks"]))
    if k == "expanddof":
        if draw(st.booleans()):
            req = draw(st.lists(st.integers(0, 999), min_size=0, max_size=6))
            pack = draw(st.sampled_from(["list", "array", "col"]))
        else:
            req = [[draw(st.integers(0, 999)), packed(draw)]
                   for _ in range(draw(st.integers(0, 6)))]
            if one_in(draw, 6):
                req.append([draw(st.integers(0, 999)),
                            draw(st.sampled_from([7, 8, 19, 1273, 66677, 9]))])
            pack = draw(st.sampled_from(["list", "array"]))
        return {"k": k, "req": req, "grids_only": draw(st.booleans()), "pack": pack}
    if k == "make_uset":
        return {"k": k, "table": draw(tables(("mu2", "mu2", "mu1", "int"))),
                "xyz": draw(st.booleans())}
    if k == "addgrid":
        tb = draw(tables(("ag",)))
        tb["nodes"] = [nd for nd in tb["nodes"] if nd[1] == "g"]
        return {"k": k, "table": tb, "dup": one_in(draw, 4),
                "first": draw(st.integers(0, len(tb["nodes"])))}
    if k == "make_uset_err":
        why = draw(st.sampled_from(["incomplete", "nasset_len", "xyz_len"]))
        tb = draw(tables(("mu2",)))
        c = {"k": k, "why": why, "table": tb}
        if why == "incomplete":
            digs = draw(st.lists(st.integers(1, 6), min_size=1, max_size=5, unique=True))
            c["comp"] = int("".join(map(str, sorted(digs))))
            c["at"] = draw(st.integers(0, 60))
            c["gid"] = max(nd[0] for nd in tb["nodes"]) + 3
        else:
            c["delta"] = draw(st.sampled_from([-1, 1, 2]))
        return c
    return {"k": "masks", "expr": draw(exprs(True))}


def oracle_build(case, R):
    from pyyeti.nastran import n2p
    k = case["k"]
    R.label(k)
    if k == "expanddof":
        req, go = case["req"], case["grids_only"]
        if case["pack"] == "array":
            darg = np.array(req, dtype=np.int64) if req else np.zeros(0, np.int64)
        elif case["pack"] == "col":
            darg = np.array(req, dtype=np.int64).reshape(-1, 1)
        else:
            darg = req
        try:
            got = n2p.expanddof(darg, go)
        except ValueError:
            got = None
        try:
            want = [list(w) for w in SL.expand_request(req, go)]
        except SL.BadComponent:
            R.check(got is None, "expanddof_accepts_digit_gt_6", f"req={req} -> {got}")
            R.label("bad_component")
            R.nontrivial(True)
            return
        if not R.check(got is not None, "expanddof_refuses_valid", f"req={req}"):
            return
        got = np.asarray(got)
        R.check(got.ndim == 2 and got.shape == (len(want), 2) and got.dtype.kind in "iu"
                and got.tolist() == want, "expanddof_value",
                f"req={req} grids_only={go}: got {got.tolist()} want {want}")
        R.nontrivial(bool(req) and isinstance(req[0], list) and any(c > 6 for _, c in req))
        return
    if k == "masks":
        full = n2p.mkusetmask()
        R.check(set(SL.NAMES + SL.USER) <= set(full), "mask_names", sorted(full))
        R.check(n2p.mkusetmask("q") == 4194304 and n2p.mkusetmask("b") == 2097154
                and n2p.mkusetmask("q+b") == 6291458, "documented_mask_values")
        e = case["expr"]
        acc = 0
        for nm in e.split("+"):
            acc |= full[nm]
            R.check(n2p.mkusetmask(nm) == full[nm], "mask_single_vs_dict", nm)
        R.check(n2p.mkusetmask(e) == acc, "mask_plus_is_or", e)
        # the table handed out belongs to the caller (the docstring itself edits it: "masks['b'] = ..."): whatever is
        # done to it, the next look-up starts from the documented table again
        keep = dict(full)
        nm0 = e.split("+")[0]
        full[nm0] = 0
        full["a"] = full.get("a", 0) | full.get("o", 0)
        full.pop("u6", None)
        again = n2p.mkusetmask()
        R.check(again == keep, "mask_table_edited_by_caller_changes_later_calls",
                f"after editing the returned dict: {sorted(k_ for k_ in keep if again.get(k_) != keep[k_])} differ")
        R.check(n2p.mkusetmask(e) == acc and n2p.mkusetmask("a") == keep["a"],
                "mask_lookup_after_caller_edit", e)
        R.nontrivial("+" in e)
        return
    tb = case["table"]
    if k == "make_uset":
        rows = node_rows(tb["nodes"])
        if tb["how"] == "mu1":
            dof = [nd[0] for nd in tb["nodes"]]
            atoms = [(nd[2],) for nd in tb["nodes"]]
            inrows = [[i, 123456] for i in dof]
        else:
            dof, atoms = mu_inputs(tb)
            inrows = dof
        if tb["how"] == "int":
            nas = [SL.nddl_word(a[0], a[1:], full=bool(tb["opt"] & 1), variant=j)
                   for j, a in enumerate(atoms)]
        else:
            nas = [a[0] for a in atoms]
        xyz = [xyz_of(r[0], j) for j, r in enumerate(inrows)] if case["xyz"] else None
        uset = n2p.make_uset(dof, nas, xyz)
        masks = n2p.mkusetmask()
        want_nas, want_xyz = [], []
        for j, (r, v) in enumerate(zip(inrows, nas)):
            m = masks[v] if isinstance(v, str) else v
            if r[1] == 123456:
                want_nas += [m] * 6
                want_xyz += [xyz_of(r[0], j)] + BASIC
            else:
                want_nas.append(m)
                want_xyz.append(xyz_of(r[0], j))
        got_idx = list(zip(uset.index.get_level_values("id").tolist(),
                           uset.index.get_level_values("dof").tolist()))
        R.check(got_idx == [(r[0], r[1]) for r in rows] and list(uset.index.names) == ["id", "dof"],
                "make_uset_index", f"{got_idx[:14]}")
        R.check(list(uset.columns) == ["nasset", "x", "y", "z"], "make_uset_columns")
        R.check(uset["nasset"].tolist() == want_nas, "make_uset_nasset",
                f"dof={dof} nasset={nas}: got {uset['nasset'].tolist()} want {want_nas}")
        vals = uset[["x", "y", "z"]].values
        if xyz is None:
            R.check(bool(np.isnan(vals).all()), "make_uset_xyz_nan")
        else:
            R.check(vals.tolist() == want_xyz, "make_uset_xyz",
                    f"dof={dof}: got {vals.tolist()[:8]} want {want_xyz[:8]}")
        # and the table means what was asked for
        arows = [r[2] for r in rows]
        for x in sorted({a[0] for a in arows}):
            R.check(n2p.mksetpv(uset, "p", x).tolist() == [a[0] == x for a in arows],
                    "make_uset_membership", f"base {x}")
        R.label(f"how:{tb['how']}", "xyz" if xyz else "noxyz")
        R.nontrivial(len({a[0] for a in arows}) >= 3)
        return
    if k == "make_uset_err":
        dof, atoms = mu_inputs(tb)
        nas = [a[0] for a in atoms]
        xyz = None
        if case["why"] == "incomplete":
            # one extra grid that lists only part of 1..6: the number of grid DOF is then
            # not a multiple of six wherever the row is put
            pos = case["at"] % (len(dof) + 1)
            dof = dof[:pos] + [[case["gid"], case["comp"]]] + dof[pos:]
            nas = nas[:pos] + ["b"] + nas[pos:]
        elif case["why"] == "nasset_len":
            n = len(nas) + case["delta"]
            if n in (1, len(nas)) or n < 0:
                n = len(nas) + 2
            nas = (nas * 3)[:n]
        else:
            n = max(0, len(dof) + case["delta"])
            if n == len(dof):
                n += 1
            xyz = [[0.0, 0.0, 0.0]] * n if n else np.zeros((0, 3))
        try:
            n2p.make_uset(dof, nas, xyz)
            R.fail(f"make_uset_accepts_{case['why']}", f"dof={dof} nasset={nas} "
                   f"xyz rows={None if xyz is None else len(xyz)}")
        except ValueError:
            pass
        R.nontrivial(True)
        return
    if k == "addgrid":
        nodes = tb["nodes"]
        opt = tb["opt"]
        first = min(case["first"], len(nodes))
        uset = None
        for seg in (nodes[:first], nodes[first:]):
            if not seg:
                continue
            ns = [nd[2] for nd in seg]
            if len(set(ns)) == 1 and opt & 2:
                ns = ns[0]
            uset = n2p.addgrid(uset, [nd[0] for nd in seg], ns, 0,
                               [xyz_of(nd[0]) for nd in seg], 0)
        rows = node_rows(nodes)
        masks = n2p.mkusetmask()
        got_idx = list(zip(uset.index.get_level_values("id").tolist(),
                           uset.index.get_level_values("dof").tolist()))
        R.check(got_idx == [(r[0], r[1]) for r in rows], "addgrid_order", f"{got_idx[:14]}")
        R.check(uset["nasset"].tolist() == [masks[r[2][0]] for r in rows], "addgrid_nasset",
                f"nodes={nodes}: got {uset['nasset'].tolist()}")
        want_xyz = []
        for nd in nodes:
            want_xyz += [xyz_of(nd[0])] + BASIC
        R.check(uset[["x", "y", "z"]].values.tolist() == want_xyz, "addgrid_xyz",
                f"{uset[['x', 'y', 'z']].values.tolist()[:7]}")
        if case["dup"]:
            again = nodes[opt % len(nodes)][0]
            try:
                n2p.addgrid(uset, [max(r[0] for r in rows) + 1, again], "b", 0,
                            [[0, 0, 0], [1, 1, 1]], 0)
                R.fail("addgrid_accepts_duplicate_id", f"id {again}")
            except ValueError:
                pass
            R.label("dup")
        R.nontrivial(len({r[2][0] for r in rows}) >= 3)
        return
    raise ValueError(k)


# ====================================================================== locate

IVALS = st.integers(-3, 5)
FVALS = st.sampled_from([0.0, -0.0, 1.0, -1.0, 0.5, 2.0, 2.5, -3.0, 1e-3, 1e300])


def _vals(draw, typ):
    return IVALS if typ == "int" else FVALS


@st.composite
def locate_cases(draw):
    fn = draw(st.sampled_from(["find_vals", "find_duplicates", "find_duplicates", "mat_intersect",
                               "mat_intersect", "mat_intersect", "index2bool", "flippv",
                               "index2slice", "index2slice", "find_rows", "find_subseq",
                               "find_subseq", "list_intersect", "merge_lists", "merge_lists"]))
    c = {"fn": fn}
    if fn == "find_vals":
        typ = draw(st.sampled_from(["int", "float"]))
        V = _vals(draw, typ)
        if draw(st.booleans()):
            r, cc = draw(st.integers(1, 4)), draw(st.integers(1, 4))
            c["m"] = [[draw(V) for _ in range(cc)] for _ in range(r)]
        else:
            c["m"] = draw(st.lists(V, min_size=0, max_size=10))
        c["v"] = draw(V) if draw(st.booleans()) else draw(st.lists(V, min_size=0, max_size=4))
    elif fn == "find_duplicates":
        kind = draw(st.sampled_from(["int", "quarter", "float"]))
        n = draw(st.integers(2, 12))
        if kind == "int":
            c["v"] = draw(st.lists(st.integers(-4, 8), min_size=n, max_size=n))
            c["tol"] = draw(st.sampled_from([0.0, 0.0, 1, 0.5, 2]))
        elif kind == "quarter":
            c["v"] = [q / 4 for q in draw(st.lists(st.integers(-12, 12), min_size=n, max_size=n))]
            c["tol"] = draw(st.sampled_from([0.0, 0.25, 0.3, 0.5, 1.0]))
        else:
            pool = draw(st.lists(st.floats(-1e3, 1e3, allow_nan=False), min_size=1, max_size=6))
            c["v"] = draw(st.lists(st.sampled_from(pool), min_size=n, max_size=n))
            c["tol"] = draw(st.sampled_from([0.0, 0.0, 1e-9, 0.1, 10.0]))
        c["usetol"] = draw(st.booleans()) or c["tol"] != 0.0
        c["arr"] = draw(st.booleans())
    elif fn == "mat_intersect":
        t1, t2 = draw(st.sampled_from([("int", "int"), ("float", "float"), ("float", "float"),
                                       ("int", "float"), ("float", "int")]))
        cc = draw(st.sampled_from([0, 1, 2, 2, 3]))     # 0: vectors
        w = max(cc, 1)
        alpha = [0, 1, 2, -1] if "int" in (t1, t2) else [0.0, 1.0, 0.5, -1.0, 2.0]
        pool = draw(st.lists(st.lists(st.sampled_from(alpha), min_size=w, max_size=w),
                             min_size=2, max_size=6))
        mats = []
        for typ in (t1, t2):
            r = draw(st.integers(1, 7))
            rowsel = draw(st.lists(st.sampled_from(pool), min_size=r, max_size=r))
            m = []
            for row in rowsel:
                if typ == "int":
                    m.append([int(x) for x in row])
                elif "int" in (t1, t2):
                    # integer table against float rows: fractional values next to the integers (2.5 is not 2)
                    m.append([(-0.0 if (x == 0 and draw(st.booleans())) else
                               float(x) + draw(st.sampled_from([0.0, 0.0, 0.0, 0.5, -0.25, 1e-9])))
                              for x in row])
                else:
                    m.append([(-0.0 if (x == 0 and draw(st.booleans())) else float(x))
                              for x in row])
            mats.append(m)
        if cc == 0:
            mats = [[row[0] for row in m] for m in mats]
        elif one_in(draw, 10):
            mats[1] = [row + [row[0]] for row in mats[1]]     # column count mismatch
        c.update(D1=mats[0], D2=mats[1], t1=t1, t2=t2, keep=draw(st.sampled_from([0, 0, 1, 2])),
                 kw=draw(st.booleans()))
    elif fn in ("index2bool", "flippv"):
        n = draw(st.integers(0, 12))
        c["n"] = n
        # numpy index vectors: from-the-end (negative) positions are legal (index2slice documents
        # pv=[-1]); a third of the cases mix them in
        lo = -n if draw(st.sampled_from([False, False, True])) else 0
        c["pv"] = draw(st.lists(st.integers(lo, n - 1), min_size=0, max_size=n + 2)) if n else []
        c["arr"] = draw(st.booleans())
    elif fn == "index2slice":
        kind = draw(st.sampled_from(["step", "step", "down", "rand", "neg", "single", "empty",
                                     "2d", "almost"]))
        if kind in ("step", "almost"):
            a, d, m = draw(st.integers(0, 12)), draw(st.integers(-4, 4)), draw(st.integers(2, 6))
            pv = [a + d * i for i in range(m)]
            if min(pv) < 0:
                pv = [p - min(pv) for p in pv]
            if kind == "almost":
                pv[draw(st.integers(0, m - 1))] += draw(st.sampled_from([1, 2]))
        elif kind == "down":        # descending, last index 0, 1 .. step (slice stop at 0 / below)
            d, m = draw(st.integers(1, 4)), draw(st.integers(2, 5))
            last = draw(st.integers(0, d))
            pv = [last + d * i for i in range(m - 1, -1, -1)]
        elif kind == "rand":
            pv = draw(st.lists(st.integers(0, 9), min_size=2, max_size=6))
        elif kind == "neg":
            a, d, m = draw(st.integers(-8, 3)), draw(st.integers(-2, 2)), draw(st.integers(2, 4))
            pv = [a + d * i for i in range(m)]
        elif kind == "single":
            pv = [draw(st.integers(-5, 9))]
        elif kind == "empty":
            pv = []
        else:
            pv = [[0, 1], [2, 3]]
        c.update(pv=pv, strict=draw(st.booleans()), arr=draw(st.booleans()))
    elif fn == "find_rows":
        typ = draw(st.sampled_from(["int", "float"]))
        cc = draw(st.integers(1, 3))
        alpha = [0, 1, 2, -1] if typ == "int" else [0.0, -0.0, 1.0, 0.5, -1.0]
        pool = draw(st.lists(st.lists(st.sampled_from(alpha), min_size=cc, max_size=cc),
                             min_size=1, max_size=4))
        r = draw(st.integers(1, 8))
        c["matrix"] = draw(st.lists(st.sampled_from(pool), min_size=r, max_size=r))
        row = draw(st.one_of(st.sampled_from(pool),
                             st.lists(st.sampled_from(alpha), min_size=cc, max_size=cc)))
        if one_in(draw, 8):
            row = row + [row[0]]
        c["row"] = row
    elif fn == "find_subseq":
        typ = draw(st.sampled_from(["int", "int", "half"]))
        V = st.integers(-3, 5) if typ == "int" else st.sampled_from(
            [0.0, 0.5, 1.0, -1.5, 2.0, -0.5, 3.0])
        n = draw(st.integers(1, 40))
        seq = draw(st.lists(V, min_size=n, max_size=n))
        m = draw(st.integers(1, min(4, n)))
        if draw(st.booleans()):
            s = draw(st.integers(0, n - m))
            sub = seq[s:s + m]
        else:
            sub = draw(st.lists(V, min_size=m, max_size=m))
        c.update(seq=seq, sub=sub, shape2=(n % 2 == 0 and draw(st.booleans())))
    elif fn == "list_intersect":
        items = st.sampled_from(["a", "b", "c", "d", "z", 1, 2, 3, 10, "aa"])
        uniq = draw(st.booleans())
        c["L1"] = draw(st.lists(items, min_size=0, max_size=8, unique=uniq))
        c["L2"] = draw(st.lists(items, min_size=0, max_size=8, unique=uniq))
    else:
        items = st.sampled_from(["one", "two", "four", "five", "ten", "zero", 1, 2, 3, 4])
        uniq = not one_in(draw, 4)
        c["L1"] = draw(st.lists(items, min_size=0, max_size=7, unique=uniq))
        c["L2"] = draw(st.lists(items, min_size=0, max_size=7, unique=uniq))
        if uniq and draw(st.booleans()):
            # conflict-free: common elements in the same relative order
            common = [x for x in c["L1"] if x in c["L2"]]
            it = iter(common)
            c["L2"] = [next(it) if x in common else x for x in c["L2"]]
        c["uniq"] = uniq
    return c


def _arr(rows, typ):
    return np.array(rows, dtype=np.int64 if typ == "int" else np.float64)


def _is_int_array(a):
    return isinstance(a, np.ndarray) and a.ndim == 1 and a.dtype.kind in "iu"


def oracle_locate(case, R):
    from pyyeti import locate
    fn = case["fn"]
    R.label(fn)
    if fn == "find_vals":
        m, v = case["m"], case["v"]
        marr = np.array(m)
        got = locate.find_vals(m if not m or not isinstance(m[0], list) else marr, v)
        flat = marr.ravel(order="F").tolist()
        vs = v if isinstance(v, list) else [v]
        want = [any(x == y for y in vs) for x in flat]
        R.check(isinstance(got, np.ndarray) and got.dtype == bool and got.tolist() == want,
                "find_vals", f"m={m} v={v}: got {np.asarray(got).tolist()} want {want}")
        R.nontrivial(any(want) and not all(want))
    elif fn == "find_duplicates":
        v, tol = case["v"], case["tol"]
        varr = np.array(v)
        arg = varr if case["arr"] else v
        got = locate.find_duplicates(arg, tol) if case["usetol"] else locate.find_duplicates(arg)
        n = len(v)
        want = [any(j != i and abs(varr[i] - varr[j]) <= tol for j in range(n)) for i in range(n)]
        R.check(isinstance(got, np.ndarray) and got.shape == (n,) and got.dtype == bool
                and got.tolist() == want, "find_duplicates",
                f"v={v} tol={tol}: got {np.asarray(got).tolist()} want {want}")
        R.label("dups:some" if any(want) and not all(want) else "dups:flat")
        R.nontrivial(any(want) and not all(want))
    elif fn == "mat_intersect":
        D1, D2, keep = _arr(case["D1"], case["t1"]), _arr(case["D2"], case["t2"]), case["keep"]
        if case["t1"] != case["t2"] or case["kw"]:
            pv1, pv2 = locate.mat_intersect(D1, D2, keep=keep)
        else:
            pv1, pv2 = locate.mat_intersect(case["D1"], case["D2"], keep)
        what = f"D1={case['D1']} D2={case['D2']} keep={keep} -> {np.asarray(pv1).tolist()} " \
               f"{np.asarray(pv2).tolist()}"
        if not R.check(_is_int_array(pv1) and _is_int_array(pv2) and len(pv1) == len(pv2),
                       "mat_intersect_type", what):
            return
        M1 = D1.reshape(len(D1), -1)
        M2 = D2.reshape(len(D2), -1)
        if M1.shape[1] != M2.shape[1]:
            R.check(len(pv1) == 0, "mat_intersect_column_mismatch", what)
            R.label("mi:colmismatch")
            return
        r1, r2 = len(M1), len(M2)
        in_range = bool(np.all((pv1 >= 0) & (pv1 < r1)) and np.all((pv2 >= 0) & (pv2 < r2)))
        if not R.check(in_range, "mat_intersect_index_range", what):
            return
        R.check(all(bool(np.all(M1[i] == M2[j])) for i, j in zip(pv1, pv2)),
                "mat_intersect_rows_equal", what)

        def occurs(row, M):
            return any(bool(np.all(row == other)) for other in M)

        w1 = [i for i in range(r1) if occurs(M1[i], M2)]
        w2 = [j for j in range(r2) if occurs(M2[j], M1)]
        loop1 = pv1.tolist() == w1      # looped over D1: every D1 row that occurs, in order
        loop2 = pv2.tolist() == w2
        if keep == 1 or (keep == 0 and r1 < r2):
            R.check(loop1, "mat_intersect_complete", f"{what} want pv1={w1}")
        elif keep == 2 or (keep == 0 and r1 > r2):
            R.check(loop2, "mat_intersect_complete", f"{what} want pv2={w2}")
        else:
            R.check(loop1 or loop2, "mat_intersect_complete", f"{what} want pv1={w1} or pv2={w2}")
        negz = any(x == 0 and np.signbit(x) for x in M1.ravel().tolist() + M2.ravel().tolist()) \
            if "float" in (case["t1"], case["t2"]) else False
        R.label(f"mi:keep{keep}", "mi:negzero" if negz else "mi:plain",
                f"mi:{case['t1'][0]}{case['t2'][0]}")
        R.nontrivial(0 < len(w1) and (len(w1) < r1 or len(w2) < r2))
    elif fn == "index2bool":
        pv, n = case["pv"], case["n"]
        arg = np.array(pv, dtype=np.int64) if case["arr"] else pv
        got = locate.index2bool(arg, n)
        sel = {p % n for p in pv}                # positions numpy indexing selects
        want = [i in sel for i in range(n)]
        R.check(isinstance(got, np.ndarray) and got.dtype == bool and got.tolist() == want,
                "index2bool", f"pv={pv} n={n}: {np.asarray(got).tolist()}")
        R.label("pv:negative" if any(p < 0 for p in pv) else "pv:nonneg")
        R.nontrivial(len(set(pv)) < len(pv))
    elif fn == "flippv":
        pv, n = case["pv"], case["n"]
        arg = np.array(pv, dtype=np.int64) if case["arr"] else pv
        got = locate.flippv(arg, n)
        sel = {p % n for p in pv}
        want = [i for i in range(n) if i not in sel]
        R.check(_is_int_array(got) and got.tolist() == want, "flippv",
                f"pv={pv} n={n}: {np.asarray(got).tolist()} want {want}")
        R.label("pv:negative" if any(p < 0 for p in pv) else "pv:nonneg")
        R.nontrivial(len(set(pv)) < len(pv) or pv != sorted(pv))
    elif fn == "index2slice":
        pv, strict = case["pv"], case["strict"]
        arg = np.array(pv, dtype=np.int64) if case["arr"] else pv
        try:
            res = locate.index2slice(arg, strict)
            err = False
        except ValueError:
            res, err = None, True
        what = f"pv={pv} strict={strict} -> {'ValueError' if err else res!r}"
        if pv and isinstance(pv[0], list):
            R.check(err, "index2slice_2d_accepted", what)
            return
        d = [b - a for a, b in zip(pv, pv[1:])]
        const = len(pv) >= 2 and d[0] != 0 and all(x == d[0] for x in d)
        must = len(pv) <= 1 or (const and min(pv) >= 0)
        cannot = len(pv) >= 2 and not const
        if cannot:
            if strict:
                R.check(err, "index2slice_strict_no_error", what)
            else:
                R.check(not err and isinstance(res, np.ndarray) and res.tolist() == pv,
                        "index2slice_not_unchanged", what)
            R.label("i2s:cannot")
            return
        if must:
            if not R.check(not err and isinstance(res, slice), "index2slice_not_converted", what):
                return
        elif err:
            R.check(strict, "index2slice_error_when_not_strict", what)
            R.label("i2s:refused")
            return
        if isinstance(res, slice):
            need = max([p + 1 for p in pv] + [-p for p in pv] + [0])
            for n in (need, need + 1, need + 4):
                x = np.arange(n) * 3 + 1
                R.check(x[res].tolist() == x[np.array(pv, dtype=np.int64)].tolist(),
                        "index2slice_selects_other_elements",
                        f"{what}: on length {n} slice gives {x[res].tolist()} "
                        f"pv gives {x[np.array(pv, dtype=np.int64)].tolist()}")
            R.label("i2s:slice")
            R.nontrivial(len(pv) >= 2)
        else:
            R.check(isinstance(res, np.ndarray) and res.tolist() == pv,
                    "index2slice_not_unchanged", what)
            R.label("i2s:kept")
    elif fn == "find_rows":
        M = np.array(case["matrix"])
        row = np.array(case["row"])
        got = locate.find_rows(M, row)
        what = f"matrix={case['matrix']} row={case['row']} -> {np.asarray(got).tolist()}"
        if len(case["row"]) != M.shape[1]:
            # documented: "all False"; the returned vector must select nothing
            R.check(isinstance(got, np.ndarray) and not got.any() and M[got].shape[0] == 0,
                    "find_rows_column_mismatch", what)
            R.label("fr:mismatch")
            return
        want = [bool(np.all(r == row)) for r in M]
        R.check(isinstance(got, np.ndarray) and got.dtype == bool and got.tolist() == want,
                "find_rows", f"{what} want {want}")
        R.nontrivial(sum(want) >= 1 and not all(want))
    elif fn == "find_subseq":
        seq, sub = case["seq"], case["sub"]
        arg = np.array(seq).reshape(2, -1) if case["shape2"] else seq
        got = locate.find_subseq(arg, sub)
        m = len(sub)
        want = [i for i in range(len(seq) - m + 1) if seq[i:i + m] == sub]
        R.check(_is_int_array(got) and got.tolist() == want, "find_subseq",
                f"seq={seq} sub={sub}: got {np.asarray(got).tolist()} want {want}")
        # a window with the same correlation that is not an occurrence
        t = sum(x * x for x in sub)
        decoy = any(sum(a * b for a, b in zip(seq[i:i + m], sub)) == t and seq[i:i + m] != sub
                    for i in range(len(seq) - m + 1))
        R.label("fs:decoy" if decoy else "fs:nodecoy")
        R.nontrivial(len(want) >= 1 and m >= 2 or decoy)
    elif fn == "list_intersect":
        L1, L2 = case["L1"], case["L2"]
        pv1, pv2 = locate.list_intersect(list(L1), list(L2))
        what = f"L1={L1} L2={L2} -> {np.asarray(pv1).tolist()} {np.asarray(pv2).tolist()}"
        if not R.check(_is_int_array(pv1) and _is_int_array(pv2) and len(pv1) == len(pv2),
                       "list_intersect_type", what):
            return
        a = [L1[i] for i in pv1]
        b = [L2[i] for i in pv2]
        R.check(a == b, "list_intersect_equation", what)
        R.check(sorted(map(repr, a)) == sorted(map(repr, set(L1) & set(L2))),
                "list_intersect_complete", what)
        R.check(all(x < y for x, y in zip(pv1, pv1[1:])), "list_intersect_order_of_L1", what)
        R.nontrivial(len(a) >= 2 and pv2.tolist() != sorted(pv2.tolist()))
    elif fn == "merge_lists":
        L1, L2 = case["L1"], case["L2"]
        l1, l2 = list(L1), list(L2)
        ml, pv1, pv2 = locate.merge_lists(l1, l2)
        what = f"L1={L1} L2={L2} -> {ml} {pv1} {pv2}"
        R.check(l1 == L1 and l2 == L2, "merge_lists_mutates_input", what)
        R.check(isinstance(ml, list) and ml is not l1 and ml is not l2, "merge_lists_not_new", what)
        if not R.check(len(pv1) == len(L1) and len(pv2) == len(L2)
                       and all(0 <= i < len(ml) for i in list(pv1) + list(pv2)),
                       "merge_lists_index_shape", what):
            return
        R.check([ml[i] for i in pv1] == L1, "merge_lists_list1_equation", what)
        R.check([ml[i] for i in pv2] == L2, "merge_lists_list2_equation", what)
        R.check(set(map(repr, ml)) == set(map(repr, L1 + L2)), "merge_lists_invented_element", what)
        R.check(all(x <= y for x, y in zip(pv1, pv1[1:])), "merge_lists_list1_order", what)
        if case["uniq"]:
            R.check(len(ml) == len(set(map(repr, ml))), "merge_lists_duplicates", what)
            R.check(all(x < y for x, y in zip(pv1, pv1[1:])), "merge_lists_list1_order", what)
            common1 = [x for x in L1 if x in L2]
            common2 = [x for x in L2 if x in L1]
            if common1 == common2:      # no conflict: order of list2 is maintained too
                R.check(all(x < y for x, y in zip(pv2, pv2[1:])), "merge_lists_list2_order", what)
                R.label("ml:noconflict")
            if not common1:             # ambiguous merge: list1 first
                R.check(ml == L1 + L2, "merge_lists_list1_first", what)
            R.nontrivial(len(common1) >= 1 and len(L2) > len(common2))
    else:
        raise ValueError(fn)


# ====================================================================== edge

EDGE = [
    {"what": "find_duplicates", "v": []},
    {"what": "find_duplicates", "v": [3]},
    {"what": "find_duplicates", "v": [2.5], "tol": 1.0},
    {"what": "mat_intersect_empty_haystack", "D1": [1, 2], "D2": [], "keep": 1},
    {"what": "mat_intersect_empty_haystack", "D1": [], "D2": [4], "keep": 2},
    {"what": "mat_intersect_empty_haystack", "D1": [[1, 2], [3, 4]], "D2": 2, "keep": 1},
    {"what": "find_subseq_longer", "seq": [5, 0], "sub": [5, 0, 0]},
    {"what": "find_subseq_longer", "seq": [1, 2], "sub": [1, 2, 3]},
    {"what": "mkdofpv_empty_set", "strict": False},
    {"what": "mkdofpv_empty_set", "strict": True},
    {"what": "addgrid_nasset_ndarray", "sets": ["b", "m", "q"]},
    {"what": "addgrid_nasset_ndarray", "sets": ["b", "m"]},
    {"what": "make_uset_split_grid", "dof": [[1, 123], [2, 456]]},
]


def enum_edge(shard, nshards, tier):
    for i, c in enumerate(EDGE):
        if i % nshards == shard:
            yield c


def oracle_edge(case, R):
    """Degenerate inputs; every expectation is the docstring read literally."""
    from pyyeti import locate
    from pyyeti.nastran import n2p
    w = case["what"]
    R.label(w)
    R.nontrivial(True)
    if w == "find_duplicates":
        v = case["v"]
        got = locate.find_duplicates(v, case["tol"]) if "tol" in case \
            else locate.find_duplicates(v)
        R.check(np.asarray(got).tolist() == [False] * len(v), "find_duplicates_short",
                f"v={v}: {got!r}")
    elif w == "mat_intersect_empty_haystack":
        D1 = np.zeros((0, case["D1"])) if isinstance(case["D1"], int) else np.array(case["D1"])
        D2 = np.zeros((0, case["D2"])) if isinstance(case["D2"], int) else np.array(case["D2"])
        pv1, pv2 = locate.mat_intersect(D1, D2, case["keep"])
        R.check(len(pv1) == 0 and len(pv2) == 0, "mat_intersect_empty", f"{pv1!r} {pv2!r}")
    elif w == "find_subseq_longer":
        got = locate.find_subseq(case["seq"], case["sub"])
        R.check(len(got) == 0, "find_subseq_longer", f"{got!r}")
    elif w == "mkdofpv_empty_set":
        uset = n2p.addgrid(None, [1, 2], "b", 0, [[0, 0, 0], [1, 0, 0]], 0)
        try:
            pv, dof = n2p.mkdofpv(uset, "q", [[1, 1]], strict=case["strict"])
        except ValueError:
            R.check(case["strict"], "mkdofpv_empty_set_nonstrict_refused")
            return
        R.check(not case["strict"] and len(pv) == 0 and np.asarray(dof).shape == (0, 2),
                "mkdofpv_empty_set", f"strict={case['strict']}: {pv!r} {dof!r}")
    elif w == "addgrid_nasset_ndarray":
        sets = case["sets"]
        n = len(sets)
        uset = n2p.addgrid(None, list(range(1, n + 1)), np.array(sets), 0,
                           [[float(i), 0.0, 0.0] for i in range(n)], 0)
        for x in sorted(set(sets)):
            want = [s == x for s in sets for _ in range(6)]
            R.check(n2p.mksetpv(uset, "p", x).tolist() == want, "addgrid_nasset_ndarray",
                    f"sets={sets}: grid sets come out as "
                    f"{uset['nasset'].values.reshape(-1, 6)[:, 0].tolist()}")
    elif w == "make_uset_split_grid":
        try:
            u = n2p.make_uset(case["dof"], "b")
            # observation only: make_uset's documented input validation misses this shape, but
            # input validation of make_uset is not part of the property statement (DESIGN 4.2)
            R.label("obs:make_uset_accepts_incomplete_grids")
            _ = u
        except ValueError:
            pass
    else:
        raise ValueError(w)


PARTS = [
    Part("lattice", oracle_lattice, enum=enum_lattice, quick=(8, None), thorough=(16, None),
         exhaustive=True),
    Part("sets", oracle_sets, strategy=set_cases, quick=(8, 200), thorough=(16, 2000)),
    Part("dofpv", oracle_dofpv, strategy=dof_cases, quick=(8, 280), thorough=(16, 3000)),
    Part("build", oracle_build, strategy=build_cases, quick=(4, 320), thorough=(8, 4000)),
    Part("locate", oracle_locate, strategy=locate_cases, quick=(8, 2000), thorough=(16, 15000)),
    Part("edge", oracle_edge, enum=enum_edge, quick=(1, None), thorough=(1, None)),
    # coverage-guided (atheris / libFuzzer) tier over the same strategies and oracles
    Part("fuzz_locate", oracle_locate, strategy=locate_cases, quick=(2, 3000), thorough=(4, 100000),
         fuzz=dict(modules=["pyyeti.locate"], time=25, time_thorough=300), tmax_thorough=400),
    Part("fuzz_dofpv", oracle_dofpv, strategy=dof_cases, quick=(1, 600), thorough=(4, 20000),
         fuzz=dict(modules=["pyyeti.nastran.n2p"], time=25, time_thorough=300), tmax_thorough=400),
    # documented defaults: leaving a keyword out = passing its documented value (vlib/defaults.py)
    Part("defaults", defaults.make_oracle("C18"), enum=defaults.make_enum(), quick=(1, None), thorough=(1, None),
         exhaustive=True),
]
