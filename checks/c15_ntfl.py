"""C15 - Norton-Thevenin coupling (frclim.calcAM / ntfl) reproduces the directly coupled system."""
import numpy as np
import scipy.linalg as la
from hypothesis import strategies as st

from vlib import util
from vlib import defaults
from vlib.core import Part

PROPERTY = "C15"
RULE = ("Source and Load are free-free spring-mass-damper networks (3..8 and 2..7 scalar DOF, connected random "
        "graphs, proportional or element-wise random damping > 0) sharing 1..3 interface DOF; the boundary is "
        "given as (a) a recovery matrix on the physical model or on its modal form (m=I, k=diag, b full, "
        "bdof = rows of the mode shapes) or (b) a partition vector on the Craig-Bampton form produced by an "
        "own CB transformation with all modes kept, its DOF b-first or in a random order (partition vector then "
        "non-contiguous and non-ascending); optionally a skew-symmetric (gyroscopic) part in either damping "
        "matrix (non-reciprocal model: non-symmetric accelerance); 2..15 frequencies log-uniform over the band of the modes "
        "plus near-resonance points; complex external forces on random source DOF.  Oracle: dense complex "
        "solve of the physically coupled system assembled by the check (shared interface DOF merged): "
        "interface acceleration and force transmitted to the Load; free acceleration from the Source alone; "
        "SAM*H_bb = I with the accelerance computed independently; TAM = SAM + LAM exactly; "
        "R = diag(TAM^-1 SAM); apparent mass -> total rigid mass at vanishing frequency (single interface "
        "DOF), exactly at 0 Hz on the cbtf route.  Non-trivial: >= 2 interface DOF or non-proportional damping.")
ASSUME = ["numpy dense complex solves as reference", "scalar (1-D translation) networks: one rigid-body mode"]
KNOWN = {}
REQUIRED_CLASSES = {"thorough": ["ntfl:bdofS:unordered", "ntfl:bdofL:unordered"]}
EPS = util.EPS
CTOL = 1000.0


def network(rng, n, prop, zeta):
    m = rng.choice([0.5, 1.0, 2.0, 4.0, 10.0], n)
    K = np.zeros((n, n))
    C = np.zeros((n, n))
    edges = [(i, int(rng.integers(0, i))) for i in range(1, n)]       # random spanning tree
    for _ in range(int(rng.integers(0, n))):
        i, j = rng.integers(0, n, 2)
        if i != j:
            edges.append((int(i), int(j)))
    for i, j in edges:
        k = float(10.0 ** rng.uniform(2.5, 4.5))
        c = zeta * 2 * np.sqrt(k * min(m[i], m[j])) * (1.0 if prop else rng.uniform(0.3, 3.0))
        if prop:
            c = zeta * 1e-3 * k
        for X, val in ((K, k), (C, c)):
            X[i, i] += val
            X[j, j] += val
            X[i, j] -= val
            X[j, i] -= val
    return np.diag(m), C, K


def cb_form(M, C, K, b):
    """own Craig-Bampton transformation with all fixed-interface modes kept; returns Mcb, Ccb, Kcb"""
    n = M.shape[0]
    i = [x for x in range(n) if x not in b]
    order = list(b) + i
    P = np.eye(n)[:, order]
    Mo, Co, Ko = P.T @ M @ P, P.T @ C @ P, P.T @ K @ P
    nb = len(b)
    if not i:
        return Mo, Co, Ko            # no interior DOF: the boundary-ordered physical matrices are the CB model
    Kii, Kib = Ko[nb:, nb:], Ko[nb:, :nb]
    psi = -la.solve(Kii, Kib)
    w, phi = la.eigh(Kii, Mo[nb:, nb:])
    T = np.block([[np.eye(nb), np.zeros((nb, n - nb))], [psi, phi]])
    return T.T @ Mo @ T, T.T @ Co @ T, T.T @ Ko @ T


def modal_form(M, C, K, b):
    w, phi = la.eigh(K, M)
    w = np.where(np.abs(w) < 1e-8 * np.abs(w).max(), 0.0, w)
    return np.eye(M.shape[0]), phi.T @ C @ phi, np.diag(w), phi[b, :]


def oracle(case, R):
    from pyyeti import frclim
    rng = util.rng_of(case["seed"])
    nS, nL, nb = case["nS"], case["nL"], case["nb"]
    nb = min(nb, nS - 1, nL - 1) if min(nS, nL) > 1 else 1
    nb = max(nb, 1)
    if case.get("load_all_boundary") and nb >= 2:
        nL = nb                  # a Load that consists of its interface DOF only (no interior: no modal DOF at all)
        R.label("load:all_boundary")
    MS, CS, KS = network(rng, nS, case["propS"], case["zeta"])
    ML, CL, KL = network(rng, nL, case["propL"], case["zeta"])
    # the same structures on another time scale (seconds -> milliseconds: stiffness x s^2, damping x s, frequencies
    # x s): physics and apparent masses are the same, the NUMBERS in the stiffness matrix drop below 1e-2
    ts_ = float(case.get("tunit", 1.0))
    if not (case["formS"] == "cb" and case["formL"] == "cb"):
        # (recovery-matrix boundaries go through SolveUnc's automatic rigid-body detection, whose documented rule
        # - stiffness below 0.005 - depends on the units: only the Craig-Bampton route is unit-free)
        ts_ = 1.0
        case = dict(case, tunit=1.0)
    if ts_ != 1.0:
        for K_, C_ in ((KS, CS), (KL, CL)):
            K_ *= ts_ ** 2
            C_ *= ts_
        R.label("tunit:ms")
    # one heavy dashpot (element-wise damping only): some elastic modes become overdamped (real eigenvalue
    # pairs) while the others stay underdamped
    for side, M_, C_, K_ in (("S", MS, CS, KS), ("L", ML, CL, KL)):
        hv = case.get("heavy" + side, 0.0)
        if hv and not case["prop" + side] and C_.shape[0] >= 2:
            r_ = util.rng_of(case["seed"] + (23 if side == "S" else 29))
            i = int(r_.integers(1, C_.shape[0]))
            j = int(r_.integers(0, i))
            c = hv * 2 * np.sqrt(max(abs(K_[i, j]), K_[i, i] / 4) * min(M_[i, i], M_[j, j]))
            C_[i, i] += c
            C_[j, j] += c
            C_[i, j] -= c
            C_[j, i] -= c
            R.label(f"heavy{side}")
    # non-reciprocal models: a skew-symmetric (gyroscopic) part in the damping matrix makes the boundary
    # accelerance non-symmetric (H12 != H21), so a transposed apparent mass is no longer the same matrix
    for side, C_ in (("S", CS), ("L", CL)):
        g = case.get("gyro" + side, 0.0)
        if g and C_.shape[0] >= 2:
            Gs = util.rng_of(case["seed"] + (17 if side == "S" else 19)).standard_normal(C_.shape)
            Gs = Gs - Gs.T
            # internal forces only (no net force, no force from a rigid-body velocity): G 1 = 0 and 1^T G = 0,
            # so the rigid-body mode stays undamped and uncoupled as in a physical network
            Pj = np.eye(C_.shape[0]) - np.ones(C_.shape) / C_.shape[0]
            Gs = Pj @ Gs @ Pj
            C_ += g * np.abs(C_).max() * Gs / max(np.abs(Gs).max(), 1e-300)
            R.label(f"gyro{side}")
    bS = sorted(rng.choice(nS, nb, replace=False).tolist())
    bL = sorted(rng.choice(nL, nb, replace=False).tolist())
    freq = np.array(case["freq"], float) * float(case.get("tunit", 1.0))
    if case.get("freq_long"):
        # a sweep longer than any plausible internal block of the frequency-domain solvers (4096 / 8192 points)
        freq = np.linspace(0.31, 61.7, int(case["freq_long"])) * float(case.get("tunit", 1.0))
    nf = len(freq)
    # external forces on source non-interface DOF (complex)
    fext = np.zeros((nS, nf), complex)
    oS = [i for i in range(nS) if i not in bS] or list(range(nS))
    for i in rng.choice(oS, min(len(oS), case["nforce"]), replace=False):
        fext[i] = rng.integers(-3, 4, nf) + 1j * rng.integers(-3, 4, nf)
    if not np.any(fext):
        fext[oS[0]] = 1.0
    fext *= float(case.get("fscale", 1.0))        # any units: interface acceleration and force are linear in it
    # ---- reference: coupled system, interface DOF merged (load interface DOF j == source interface DOF j)
    oL = [i for i in range(nL) if i not in bL]
    nT = nS + len(oL)
    mapL = {}
    for k_, i in enumerate(bL):
        mapL[i] = bS[k_]
    for k_, i in enumerate(oL):
        mapL[i] = nS + k_
    idxL = [mapL[i] for i in range(nL)]
    A_ref = np.zeros((nb, nf), complex)
    F_ref = np.zeros((nb, nf), complex)
    As = np.zeros((nb, nf), complex)
    As_full = np.zeros(nf)
    Hs = np.zeros((nb, nf, nb), complex)
    Hl = np.zeros((nb, nf, nb), complex)
    cnd = np.ones(nf)
    for j, f in enumerate(freq):
        W = 2 * np.pi * f
        DS = -W * W * MS + 1j * W * CS + KS
        DL = -W * W * ML + 1j * W * CL + KL
        DT = np.zeros((nT, nT), complex)
        DT[:nS, :nS] += DS
        DT[np.ix_(idxL, idxL)] += DL
        fT = np.zeros(nT, complex)
        fT[:nS] = fext[:, j]
        x = la.solve(DT, fT)
        A_ref[:, j] = -W * W * x[bS]
        xL = x[idxL]
        F_ref[:, j] = (DL @ xL)[bL]
        xs = la.solve(DS, fext[:, j])
        As[:, j] = -W * W * xs[bS]
        As_full[j] = W * W * np.abs(xs).max()
        Hs[:, j, :] = -W * W * la.inv(DS)[np.ix_(bS, bS)]
        Hl[:, j, :] = -W * W * la.inv(DL)[np.ix_(bL, bL)]
        cnd[j] = max(np.linalg.cond(DS), np.linalg.cond(DL), np.linalg.cond(DT),
                     np.linalg.cond(Hs[:, j, :]), np.linalg.cond(Hl[:, j, :]),
                     np.linalg.cond(la.inv(Hs[:, j, :]) + la.inv(Hl[:, j, :])))

    def hand(M, C, K, b, form, perm_seed=None):
        if form == "drm":
            T = np.zeros((len(b), M.shape[0]))
            for r_, i in enumerate(b):
                T[r_, i] = 1.0
            return [M, C, K, T]
        if form == "modal":
            m_, c_, k_, T = modal_form(M, C, K, b)
            return [m_, c_, k_, T]
        m_, c_, k_ = cb_form(M, C, K, b)
        if perm_seed is None:
            return [m_, c_, k_, np.arange(len(b))]
        # the Craig-Bampton model lists its DOF in any order: the partition vector names the position of
        # each interface DOF (in interface order) and is in general neither contiguous nor ascending
        perm = util.rng_of(perm_seed).permutation(m_.shape[0])
        P = np.ix_(perm, perm)
        return [m_[P], c_[P], k_[P], np.argsort(perm)[:len(b)]]

    fS, fL = case["formS"], case["formL"]
    Source = hand(MS, CS, KS, bS, fS, case["seed"] + 11 if case.get("cbpermS") else None)
    Load = hand(ML, CL, KL, bL, fL, case["seed"] + 13 if case.get("cbpermL") else None)
    R.label(f"formS={fS}", f"formL={fL}", f"nb={nb}", "propS" if case["propS"] else "nonpropS",
            "propL" if case["propL"] else "nonpropL")
    for side, mdl in (("S", Source), ("L", Load)):
        pv = np.asarray(mdl[3])
        if pv.ndim == 1 and len(pv) > 1:
            R.label(f"bdof{side}:" + ("ascending" if np.all(np.diff(pv) > 0) else "unordered"))
    R.nontrivial(nb >= 2 or not case["propS"] or not case["propL"])
    out = frclim.ntfl(Source, Load, As, freq)
    tol = CTOL * EPS * cnd
    if float(case.get("tunit", 1.0)) != 1.0:
        # (entries of K, C and M then span 6..8 decades; measured errors reach 1.2x the plain bound at 1e-4)
        tol = 4.0 * tol

    def cmp(got, ref, kind, scale=None):
        got = np.asarray(got)
        if got.shape != ref.shape:
            R.fail(kind + "_shape", f"{got.shape} vs {ref.shape}")
            return
        axis = 0 if got.ndim == 2 else (0, 2)
        sc = np.maximum(np.abs(ref).max(axis=axis), 1e-300)
        if scale is not None:
            sc = np.maximum(sc, scale)
        err = np.abs(got - ref).max(axis=axis) / sc
        worst = float((err / tol).max())
        R.metric(kind + "/tol", worst)
        if worst > 1:
            j = int(np.argmax(err / tol))
            R.fail(kind, f"formS={fS} formL={fL} nb={nb} f={freq[j]:.4g} relerr={err[j]:.3e} tol={tol[j]:.3e} cond={cnd[j]:.2e}")

    cmp(out.A, A_ref, "ntfl_interface_acceleration")
    cmp(out.F, F_ref, "ntfl_interface_force")
    SAM_ref = np.stack([la.inv(Hs[:, j, :]) for j in range(nf)], axis=1)
    LAM_ref = np.stack([la.inv(Hl[:, j, :]) for j in range(nf)], axis=1)
    cmp(out.SAM, SAM_ref, "SAM_vs_inverse_accelerance")
    cmp(out.LAM, LAM_ref, "LAM_vs_inverse_accelerance")
    R.check(np.array_equal(out.TAM, out.SAM + out.LAM), "TAM_not_SAM_plus_LAM")
    Rref = np.stack([np.diag(la.solve(out.TAM[:, j, :], out.SAM[:, j, :])) for j in range(nf)], axis=1)
    cmp(out.R, Rref, "R_ratio")
    # SAM * H_bb = I
    for j in range(nf):
        e = np.abs(out.SAM[:, j, :] @ Hs[:, j, :] - np.eye(nb)).max()
        R.metric("SAM_Hbb_identity/tol", e / tol[j])
        R.check(e <= tol[j], "SAM_times_accelerance_not_identity", f"f={freq[j]:.4g} err={e:.2e}")
    # the free acceleration may be given as a real array (undamped or rigid source, real specification):
    # ntfl is linear in As, so the expected answer follows from the independently computed accelerances
    As_r = np.ascontiguousarray(As.real) + 0.0
    if np.any(As_r):
        out_r = frclim.ntfl(Source, Load, As_r, freq)
        Ar = np.zeros((nb, nf), complex)
        Fr = np.zeros((nb, nf), complex)
        for j in range(nf):
            Ar[:, j] = la.solve(SAM_ref[:, j, :] + LAM_ref[:, j, :], SAM_ref[:, j, :] @ As_r[:, j])
            Fr[:, j] = LAM_ref[:, j, :] @ Ar[:, j]
        cmp(out_r.A, Ar, "ntfl_real_As_interface_acceleration")
        cmp(out_r.F, Fr, "ntfl_real_As_interface_force")
        R.check(np.array_equal(As_r, As.real), "ntfl_modifies_As")
    # apparent-mass inputs (3-d arrays) give the same answer as model inputs
    out2 = frclim.ntfl(out.SAM, out.LAM, As, freq)
    R.check(np.array_equal(out2.A, out.A) and np.array_equal(out2.F, out.F), "ntfl_AM_inputs_differ")
    # calcAM directly == what ntfl used
    R.check(np.array_equal(frclim.calcAM(Source, freq), out.SAM), "calcAM_vs_ntfl_SAM")
    # a frequency-domain solver handed in through the documented `fs` argument (recovery-matrix boundary):
    # any SolveUnc / FreqDirect instance for the Source, also one that was set up (and used) for time-domain
    # work; the free acceleration from the same solver object equals the independent one
    fsk = case.get("fs", "none")
    if fsk != "none" and fS in ("drm", "modal"):
        from pyyeti import ode
        m_, c_, k_, T_ = Source
        if fsk == "FreqDirect":
            fs = ode.FreqDirect(m_, c_, k_)
        elif fsk == "SolveUnc":
            fs = ode.SolveUnc(m_, c_, k_, pre_eig=True)
        else:
            fs = ode.SolveUnc(m_, c_, k_, case.get("fs_h", 1e-3), pre_eig=True)
            if fsk == "SolveUnc_h_used":
                fs.tsolve(np.real(T_.T @ np.ones((nb, 3))))
        R.label("fs=" + fsk)
        fmod = fext
        if fS == "modal":
            w_, phi_ = la.eigh(KS, MS)
            fmod = phi_.T @ fext
        As_lib = T_ @ fs.fsolve(fmod, freq).a
        # (an interface response far below the response elsewhere in the Source is a difference of large modal
        # contributions: the error of a modal solver scales with the largest response, not with that entry)
        cmp(As_lib, As, "free_acceleration_from_fs_solver", scale=As_full)
        cmp(frclim.calcAM(Source, freq, fs), SAM_ref, "calcAM_fs_vs_inverse_accelerance")
        out_fs = frclim.ntfl(frclim.calcAM(Source, freq, fs), Load, As, freq)
        cmp(out_fs.A, A_ref, "ntfl_fs_interface_acceleration")
        cmp(out_fs.F, F_ref, "ntfl_fs_interface_force")
        # eigenvalue regime of the Source (label only)
        nS_ = MS.shape[0]
        lamS = la.eigvals(np.block([[-la.solve(MS, CS), -la.solve(MS, KS)], [np.eye(nS_), np.zeros((nS_, nS_))]]))
        lamS = lamS[np.abs(lamS) > 1e-6 * np.abs(lamS).max()]
        nre = int(np.sum(np.abs(lamS.imag) <= 1e-9 * np.abs(lamS)))
        R.label("srcdamp:" + ("under" if nre == 0 else ("over" if nre == len(lamS) else "mixed")))
    # vanishing frequency: rigid mass seen from a single interface DOF
    if nb == 1:
        lam = la.eigvalsh(KS, MS)
        f1 = np.sqrt(max(lam[1], 1e-30)) / (2 * np.pi) if len(lam) > 1 else 1.0   # lowest elastic frequency
        f0 = np.array([1e-2 * f1])
        am0 = frclim.calcAM(Source, f0)[0, 0, 0]
        mt = np.trace(MS)
        e = abs(am0 - mt) / mt
        # physical deviation is O((f0/f1)^2) = 1e-4 (times a modal-mass ratio); round-off is far smaller here
        R.metric("AM_low_frequency_relerr/1e-2", e / 1e-2)
        R.check(e <= 1e-2, "AM_low_frequency_not_rigid_mass", f"formS={fS}: AM={am0} total mass={mt} f0/f1=1e-2")
        if fS == "cb":
            am00 = frclim.calcAM(Source, np.array([0.0]))[0, 0, 0]
            R.check(abs(am00 - mt) <= 1e-9 * mt, "AM_zero_hz_cbtf", f"AM={am00} total mass={mt}")


@st.composite
def cases(draw):
    nS = draw(st.integers(3, 8))
    nL = draw(st.integers(2, 7))
    nf = draw(st.integers(2, 15))
    freq = []
    for _ in range(nf):
        freq.append(float(10.0 ** draw(st.floats(-0.5, 1.8))))
    freq = sorted(set(round(f, 6) for f in freq))
    if len(freq) < 2:
        freq = [1.0, 7.0]
    return {"nS": nS, "nL": nL, "nb": draw(st.integers(1, 3)), "seed": draw(st.integers(0, 2 ** 31)),
            "propS": draw(st.booleans()), "propL": draw(st.booleans()),
            "zeta": draw(st.sampled_from([0.01, 0.05, 0.2])), "freq": freq, "nforce": draw(st.integers(1, 3)),
            "formS": draw(st.sampled_from(["drm", "modal", "cb"])),
            "formL": draw(st.sampled_from(["drm", "modal", "cb"])),
            "cbpermS": draw(st.booleans()), "cbpermL": draw(st.booleans()),
            "gyroS": draw(st.sampled_from([0.0, 0.0, 0.3, 1.0])), "gyroL": draw(st.sampled_from([0.0, 0.0, 0.3, 1.0])),
            "heavyS": draw(st.sampled_from([0.0, 0.0, 1.5, 5.0])), "heavyL": draw(st.sampled_from([0.0, 0.0, 0.0, 3.0])),
            "fs": draw(st.sampled_from(["none", "FreqDirect", "SolveUnc", "SolveUnc_h", "SolveUnc_h_used"])),
            "fs_h": draw(st.sampled_from([1e-3, 1e-2])),
            "fscale": draw(st.sampled_from([1.0, 1.0, 1e-12, 1e10])),
            "tunit": draw(st.sampled_from([1.0, 1.0, 1e-3, 1e-4])),
            "load_all_boundary": draw(st.integers(0, 5)) == 0}


@st.composite
def long_cases(draw):
    c = draw(cases())
    # (well damped, no gyroscopic / heavy-dashpot extras: a sweep of thousands of points passes every resonance
    # closely, where a modal solution of a lightly damped model is limited by the sharpness of the resonance and its
    # eigenvector conditioning rather than by the conditioning of the dynamic stiffness the tolerance is built on)
    c.update(freq_long=draw(st.sampled_from([4097, 5000, 8193])), nS=min(c["nS"], 4), nL=min(c["nL"], 3),
             nb=min(c["nb"], 2), fs="none", gyroS=0.0, gyroL=0.0, heavyS=0.0, heavyL=0.0, zeta=0.2)
    if c["propS"] and c["propL"]:
        c["propS"] = False                       # (at least one model on the coupled, complex-mode path)
    return c


PARTS = [
    Part("ntfl", oracle, strategy=cases, quick=(16, 80), thorough=(16, 2500)),
    Part("ntfl_long", oracle, strategy=long_cases, quick=(8, 2), thorough=(16, 8)),
    # documented defaults: leaving a keyword out = passing its documented value (vlib/defaults.py)
    Part("defaults", defaults.make_oracle("C15"), enum=defaults.make_enum(), quick=(1, None), thorough=(1, None),
         exhaustive=True),
]
