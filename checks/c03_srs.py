"""C03 - shock response spectrum equals the exact single-DOF response peaks.

srs.srs (six response types x four initial-condition rules x six peak rules x three time
windows), the roll-off resampling contract, srs.srs_frf and srs.vrs against refs/sdof_exact.py.
"""
import itertools
import math

import re

import numpy as np
from hypothesis import strategies as st

from refs import sdof_exact as sx
from vlib import util
from vlib import defaults
from vlib.core import Part

PROPERTY = "C03"
RULE = ("hist: signals of 1..400 samples x 1..3 columns from a grammar (impulse, step, half-sine, "
        "two-tone, random integers, constant; all values integer/64, optional offset and overall scale), "
        "sr 50..1e5, 1..5 oscillators with sr/fn log-uniform in [2.2, 2000] (atoms at both ends) plus "
        "fn = 0 where the docstring defines it, Q log-uniform in (0.5, 200] with an atom at 0.5001, "
        "stype x ic x peak x time uniform over the 6x4x6x3 grid, eqsine, rolloff 'none'/None, 1-D/2-D. "
        "Oracle: exact one-step transition of the augmented oscillator (scipy expm on the "
        "non-dimensional 4x4, cross-checked inside the check against a 40-digit mpmath propagation); "
        "resp['hist'], resp['t'], resp['sr'], sh vs the documented statistic of the exact history and "
        "of the returned history; tolerance C*eps*(Ntot + (w/sr)^-3)*scale.  grid: the full 432 option "
        "grid enumerated against a fixed signal family.  relations: abs=max(pos,neg), pos=|poss|, "
        "neg=|negs|, total = primary ++ residual, pvelo=w*reldisp, pacce=w^2*reldisp, eqsine, column "
        "permutation / packaging / 2^k scaling / negation bit-exact, scaling by c to round-off, peak "
        "callable, documented ValueErrors, sr=None.  rolloff: ppc on both sides of sr/fmax, string vs "
        "callable roll function, history = exact response to the roll function's output at its sample "
        "rate.  linroll: the linear roll function against own linear interpolation.  srs_frf / vrs: "
        "closed forms with own interpolation.  Non-trivial: >= 3 samples with >= 2 distinct values "
        "and fn > 0 (frequency-domain parts: >= 3 analysis frequencies); distinct by case hash.")
ASSUME = ["scipy.linalg.expm on the 4x4 non-dimensional augmented matrix (cross-checked against mpmath "
          "at 40 digits inside every flagged case)",
          "peak 'rms' is the root-mean-square (the option name; the table entry says root-sum-square)",
          "the roll functions' resampling accuracy is C19's business: fft / lanczos / prefilter outputs "
          "are taken from srs.fftroll / lanroll / preroll called directly",
          "where the order of ic-shift and roll-off is not documented both orders are accepted",
          "vrs on non-uniform integration grids (geometric `freq`, or response frequencies between the points of "
          "`freq`, which are merged into the grid): the step attached to a sample is not documented, so the sum is "
          "bracketed by the smaller / larger neighbouring step and the mean square must be the trapezoidal area "
          "under the response PSD curve, the two end samples carrying between zero and one full step extra"]
def KNOWN_F26(case, kind, detail):
    """srs.linroll (rolloff='linear') with an up-sampling factor >= 3: N*factor - 1 samples instead of
    (N-1)*factor + 1 (fixing it changes numbers pinned by pyyeti's own tests, so it is recorded, not repaired)"""
    m = re.search(r"factor=(\d+)", detail)
    return kind == "linroll_not_linear_interpolation" and m is not None and int(m.group(1)) >= 3


KNOWN = {"F26": KNOWN_F26}

EPS = 2.0 ** -52
STYPES, ICS, PEAKS, TIMES = sx.STYPES, sx.ICS, sx.PEAKS, sx.TIMES
COMBOS = list(itertools.product(STYPES, ICS, PEAKS, TIMES))

# calibrated constants (normalised errors are recorded with R.metric; see evidence/C03.json)
CH = 2000.0       # history / spectrum vs exact reference, in units of eps*kappa*scale
CREF = 1000.0     # double-precision reference vs mpmath reference (harness self-check)
CREL = 300.0      # pvelo/pacce vs reldisp, scaling by c
CFRF = 1000.0     # srs_frf closed form, units of eps*(1+Q)^2
CVRS = 5000.0     # vrs closed form, units of eps*(1+Q) (includes exp(log) interpolation of the specification)


# ====================================================================== signals

def build_sig(spec):
    """(N, H) signal from grammar parameters; all values are integer/64 times spec['scale']"""
    N = int(spec["N"])
    rng = np.random.default_rng(int(spec["seed"]))
    n = np.arange(N)
    cols = []
    for c in spec["cols"]:
        k = c["kind"]
        amp = c["amp"] / 8.0
        p = int(c["p"])
        if k == "impulse":
            v = np.zeros(N)
            v[p % N] = amp
        elif k == "step":
            v = np.where(n >= p % N, amp, 0.0)
        elif k == "halfsine":
            L = max(2, p)
            v = np.where(n < L, amp * np.sin(np.pi * n / L), 0.0)
        elif k == "twotone":
            L = max(3, p)
            v = amp * (np.sin(2 * np.pi * n / L) + 0.5 * np.sin(2 * np.pi * n * 3.7 / L))
        elif k == "randint":
            v = rng.integers(-8, 9, N) * amp / 8.0
        else:
            v = np.zeros(N)
        cols.append(np.round(v * 64.0) / 64.0 + c["off"] / 8.0)
    return np.column_stack(cols) * float(spec.get("scale", 1.0))


def kappa(x, ntot):
    """conditioning of the ramp-invariant filter: round-off accumulated over ntot steps plus the
    cancellation in the coefficients, eps*(w/sr)^-3 (DESIGN 3/C03 probe); fn = 0: double integrator"""
    if x == 0:
        return float(ntot) ** 1.5
    return ntot + x ** -3


def scales(ref_total, sig, sr, freqs, stype, ntot):
    """(H, LF) error scale: peak of the exact history of that column/oscillator, not below the
    input level times the gain of the response type over the record"""
    a = np.abs(sig).max(axis=0)                       # (H,)
    T = ntot / sr
    g = np.empty(len(freqs))
    for j, fn in enumerate(freqs):
        w = 2 * math.pi * fn
        if stype in ("absacce", "relacce", "pacce"):
            g[j] = 1.0
        elif stype == "relvelo":
            g[j] = min(T, 1.0 / w) if w > 0 else T
        elif stype == "pvelo":
            g[j] = min(T * T * w, 1.0 / w) if w > 0 else 0.0
        else:
            g[j] = min(T * T, 1.0 / (w * w)) if w > 0 else T * T
    sc = np.maximum(np.abs(ref_total).max(axis=0), a[:, None] * g[None, :])
    return np.where(sc > 0, sc, 1.0)


def _m(R, name, v):
    v = float(v)
    if not math.isfinite(v):
        v = 1e300
    R.metric(name, min(v, 1e300))


def call_srs(srs, arr, sr, freqs, Q, **kw):
    kw.setdefault("parallel", "no")
    return srs.srs(arr, sr, freqs, Q, **kw)


def window(time, N, ntot):
    if time == "primary":
        return slice(0, N)
    if time == "residual":
        return slice(N, ntot)
    return slice(0, ntot)


# ====================================================================== hist / grid

def oracle_hist(case, R):
    from pyyeti import srs
    sig = build_sig(case["sig"])
    N, H = sig.shape
    sr = float(case["sr"])
    ratios = [float(r) for r in case["ratios"]]
    freqs = [sr / r for r in ratios]
    if case.get("f0"):
        freqs = freqs[:1] + [0.0] + freqs[1:]
    freqs = np.array(freqs)
    LF = len(freqs)
    Q = float(case["Q"])
    stype, ic, peak, time = case["stype"], case["ic"], case["peak"], case["time"]
    eqsine = bool(case.get("eqsine"))
    oneD = bool(case.get("oneD")) and H == 1
    rolloff = case.get("rolloff", "none")
    R.label(f"{stype}|{ic}|{peak}|{time}", f"stype={stype}", f"ic={ic}", f"peak={peak}", f"time={time}",
            "N=1" if N == 1 else ("N<=3" if N <= 3 else "N>3"), f"H={H}", f"LF={LF}",
            "fn0" if case.get("f0") else "fn>0", "eqsine" if eqsine else "no_eqsine",
            "oneD" if oneD else "twoD", f"rolloff={rolloff}")
    for r in ratios:
        R.label("ratio<=3" if r <= 3 else ("ratio<=30" if r <= 30 else ("ratio<=300" if r <= 300 else "ratio<=2000")))
    R.label("Q<0.51" if Q < 0.51 else ("Q<=5" if Q <= 5 else "Q>5"))
    distinct = any(len(np.unique(sig[:, h])) >= 2 for h in range(H))
    R.nontrivial(N >= 3 and distinct and np.any(freqs > 0))

    arr = sig[:, 0].copy() if oneD else sig.copy()
    arr, lab_ = util.repack(arr, case.get("spack", "same"))
    R.label("sig:" + lab_)
    kw = dict(ic=ic, stype=stype, peak=peak, rolloff=rolloff, eqsine=eqsine, time=time)
    sh, resp = call_srs(srs, arr, sr, freqs, Q, getresp=True, **kw)
    # (one case in eight computes the spectrum-only call with worker processes: the same record, in whatever
    # container / dtype it came, must give the same bits)
    par_ = case.get("par", "no")
    sh_only = call_srs(srs, arr, sr, freqs, Q, getresp=False, parallel=par_, **(dict(kw, maxcpu=2) if par_ == "yes" else kw))
    if par_ == "yes":
        R.label("spectrum_call:parallel")
    if not np.array_equal(np.asarray(arr), sig[:, 0] if oneD else sig):
        R.fail("input_modified", "srs changed its input array")

    npad = 0 if time == "primary" else sx.pad_count(sr, freqs)
    ntot = N + npad
    win = window(time, N, ntot)
    nwin = len(range(*win.indices(ntot)))
    hist = np.asarray(resp["hist"])
    sh = np.asarray(sh)

    # ---- packaging / shapes
    exp_sh_shape = (LF,) if oneD else (LF, H)
    if sh.shape != exp_sh_shape:
        R.fail("sh_shape", f"{sh.shape} vs {exp_sh_shape}")
        return
    if np.asarray(sh_only).shape != sh.shape or not np.array_equal(np.asarray(sh_only), sh, equal_nan=True):
        R.fail("sh_getresp_differs", f"getresp=False gives {np.asarray(sh_only).ravel()[:4]} vs {sh.ravel()[:4]}")
    if hist.shape != (nwin, H, LF):
        alts = sx.pad_count_alternatives(sr, freqs) if time != "primary" else {0}
        ok_alt = any(hist.shape == (len(range(*window(time, N, N + a).indices(N + a))), H, LF) for a in alts)
        if not ok_alt:
            R.fail("hist_shape", f"{hist.shape} vs {(nwin, H, LF)} (N={N} npad={npad})")
            return
        R.label("pad_count_on_integer_boundary")
        return
    sh2 = sh.reshape(LF, H)
    if resp["sr"] != sr:
        R.fail("resp_sr", f"{resp['sr']} vs {sr}")
    t = np.asarray(resp["t"])
    t_ref = np.arange(ntot)[win] / sr
    if t.shape != t_ref.shape or (t.size and np.abs(t - t_ref).max() > 4 * EPS * max(abs(t_ref).max(), 1 / sr)):
        R.fail("resp_t", f"t[:3]={t[:3]} expected {t_ref[:3]} len {t.shape} vs {t_ref.shape}")

    # ---- exact reference
    ref_total = sx.history(sig, sr, freqs, Q, stype, ic, npad)
    if eqsine:
        ref_total = ref_total / Q
    sc = scales(ref_total, sig / (Q if eqsine else 1.0), sr, freqs, stype, ntot)      # (H, LF)
    kap = np.array([kappa(2 * math.pi * f / sr, ntot) for f in freqs])
    ref = ref_total[win]
    if nwin:
        err = np.abs(hist - ref).max(axis=0)                        # (H, LF)
        e_n = err / (EPS * sc * kap[None, :])
        for j in range(LF):
            nm = f"hist_{stype}/(eps*kappa)" if freqs[j] > 0 else f"hist_fn0_{stype}/(eps*N^1.5)"
            _m(R, nm, e_n[:, j].max())
        bad = np.argwhere(~(e_n <= CH))
        if len(bad):
            h, j = bad[0]
            R.fail(f"hist_{stype}_{ic}", f"col {h} fn={freqs[j]:.6g} sr/fn={sr / freqs[j] if freqs[j] else math.inf:.5g} "
                   f"Q={Q} time={time} relerr={err[h, j] / sc[h, j]:.3e} tol={CH * EPS * kap[j]:.3e} "
                   f"first got={hist[:2, h, j]} ref={ref[:2, h, j]}")
    # ---- spectrum: documented statistic of the exact history and of the returned history
    if nwin:
        stat_ref = sx.peak_stat(ref, peak).T                         # (LF, H)
        stat_own = sx.peak_stat(hist, peak).T
        e_s = np.abs(sh2 - stat_ref) / (EPS * sc.T * kap[:, None])
        _m(R, f"sh_{peak}/(eps*kappa)", e_s.max())
        if not np.all(e_s <= CH):
            j, h = np.argwhere(~(e_s <= CH))[0]
            R.fail(f"sh_{peak}_{time}", f"stype={stype} ic={ic} col {h} fn={freqs[j]:.6g} got={sh2[j, h]!r} "
                   f"exact={stat_ref[j, h]!r} tol={CH * EPS * kap[j] * sc[h, j]:.3e}")
        if peak == "rms":
            d = np.abs(sh2 - stat_own) / np.where(stat_own != 0, np.abs(stat_own), 1.0)
            d = np.where(np.abs(sh2 - stat_own) <= 1e-150, 0.0, d)
            _m(R, "sh_rms_vs_own_hist/(eps*n)", d.max() / (EPS * (8 + nwin)))
            # (squares of histories below ~1e-150 underflow: absolute floor)
            d = np.where(np.abs(sh2 - stat_own) <= 1e-150, 0.0, d)
            R.check(np.all(d <= EPS * (8 + nwin)), f"sh_vs_hist_{peak}", f"{sh2.ravel()[:3]} vs {stat_own.ravel()[:3]}")
        else:
            R.check(np.array_equal(sh2, stat_own), f"sh_vs_hist_{peak}",
                    f"sh={sh2.ravel()[:3]} statistic of returned hist={stat_own.ravel()[:3]}")

    # ---- harness self-check: double-precision reference vs 40-digit propagation
    if case.get("mp"):
        j0 = int(case["sig"]["seed"]) % LF
        h0 = int(case["sig"]["seed"] // 7) % H
        nmax = 48
        mp_ = sx.history_mp(sig[:, h0], sr, freqs[j0], Q, stype, ic, npad, nmax=nmax)
        if eqsine:
            mp_ = mp_ / Q
        d = np.abs(ref_total[:len(mp_), h0, j0] - mp_).max() / (EPS * sc[h0, j0] * (8 + len(mp_)))
        _m(R, "harness_ref_double_vs_mp/(eps*n)", d)
        R.check(d <= CREF, "harness_ref_double_vs_mp", f"normalised {d:.3g} fn={freqs[j0]} Q={Q} {stype} {ic}")
        R.label("mp_crosscheck")


@st.composite
def sig_specs(draw, nmin=1, nmax=400, hmax=3, exact=False):
    N = draw(st.one_of(st.integers(nmin, min(nmax, max(nmin, 6))), st.integers(nmin, min(nmax, 60)),
                       st.integers(nmin, nmax)))
    H = draw(st.integers(1, hmax))
    cols = []
    for _ in range(H):
        cols.append({"kind": draw(st.sampled_from(["impulse", "step", "halfsine", "twotone", "randint", "randint",
                                                   "const"])),
                     "amp": draw(st.sampled_from([8, -8, 3, 24, 64, -40])),
                     "p": draw(st.integers(0, 60)),
                     "off": draw(st.sampled_from([0, 0, 0, 8, -3, 40]))})
    scale = 1.0 if exact else draw(st.sampled_from([1.0, 1.0, 1e-3, 1e3, 0.3]))
    return {"N": N, "cols": cols, "seed": draw(st.integers(0, 2 ** 31)), "scale": scale}


def ratio_strategy():
    return st.one_of(st.floats(math.log(2.2), math.log(2000.0)).map(lambda v: float(min(2000.0, max(2.2, math.exp(v))))),
                     st.sampled_from([2.2, 2.5, 4.0, 10.0, 100.0, 1000.0, 2000.0]))


def q_strategy():
    return st.one_of(st.floats(math.log(0.5002), math.log(200.0)).map(lambda v: float(math.exp(v))),
                     st.sampled_from([0.5001, 0.51, 1.0, 10.0, 50.0, 200.0]))


@st.composite
def hist_cases(draw):
    stype, ic, peak, time = draw(st.sampled_from(COMBOS))
    spec = draw(sig_specs())
    ratios = draw(st.lists(ratio_strategy(), min_size=1, max_size=5))
    # fn = 0: free mass; steady state is undefined there and the residual window is tied to the
    # lowest *positive* frequency only in the code, not in the docstring -> primary window only
    f0 = ic != "steady" and time == "primary" and draw(st.integers(0, 2)) == 0
    return {"sig": spec, "sr": draw(st.sampled_from([50.0, 200.0, 1000.0, 1024.0, 4410.0, 1e5, 333.3])),
            "ratios": ratios, "f0": f0, "Q": draw(q_strategy()), "stype": stype, "ic": ic, "peak": peak,
            "time": time, "eqsine": draw(st.booleans()), "oneD": draw(st.booleans()),
            "rolloff": draw(st.sampled_from(["none", "none", None])), "mp": draw(st.integers(0, 3)) == 0,
            "spack": draw(st.sampled_from(["same", "same", "int", "list", "fortran", "strided", "readonly"])),
            "par": draw(st.sampled_from(["no"] * 7 + ["yes"]))}


# fixed signal family for the exhaustive option grid
GRID_FAMILY = [
    # (signal spec, sr, ratios, Q, f0)
    ({"N": 24, "cols": [{"kind": "randint", "amp": 8, "p": 0, "off": 8},
                        {"kind": "halfsine", "amp": 24, "p": 9, "off": -3}], "seed": 11, "scale": 1.0},
     1000.0, [2.5, 11.0, 140.0], 10.0),
    ({"N": 7, "cols": [{"kind": "step", "amp": -8, "p": 2, "off": 3}], "seed": 5, "scale": 1.0},
     200.0, [40.0, 6.0], 0.5001),
    ({"N": 1, "cols": [{"kind": "const", "amp": 8, "p": 0, "off": 8},
                       {"kind": "const", "amp": 8, "p": 0, "off": -3}], "seed": 1, "scale": 1.0},
     50.0, [7.0, 23.0], 5.0),
    ({"N": 90, "cols": [{"kind": "twotone", "amp": 24, "p": 12, "off": 0},
                        {"kind": "impulse", "amp": 64, "p": 4, "off": 8},
                        {"kind": "randint", "amp": 3, "p": 0, "off": 40}], "seed": 3, "scale": 1e-3},
     4410.0, [12.0, 2000.0], 50.0),
    ({"N": 40, "cols": [{"kind": "randint", "amp": 64, "p": 0, "off": -3}], "seed": 8, "scale": 1.0},
     1024.0, [2.2, 500.0, 33.0, 4.0], 1.0),
    ({"N": 3, "cols": [{"kind": "impulse", "amp": 8, "p": 1, "off": 0},
                       {"kind": "step", "amp": 3, "p": 1, "off": 8}], "seed": 2, "scale": 1e3},
     1e5, [1000.0, 64.0], 200.0),
    ({"N": 200, "cols": [{"kind": "halfsine", "amp": -40, "p": 50, "off": 0}], "seed": 4, "scale": 1.0},
     333.3, [100.0], 25.0),
    ({"N": 12, "cols": [{"kind": "randint", "amp": 24, "p": 0, "off": 0},
                        {"kind": "const", "amp": 8, "p": 0, "off": 40}], "seed": 6, "scale": 0.3},
     50.0, [3.0, 9.5], 0.7),
]


def enum_grid(shard, nshards, tier):
    fam = GRID_FAMILY[:2] if tier == "quick" else GRID_FAMILY
    k = 0
    for ci, (stype, ic, peak, time) in enumerate(COMBOS):
        for fi, (spec, sr, ratios, Q) in enumerate(fam):
            k += 1
            if k % nshards != shard:
                continue
            yield {"sig": spec, "sr": sr, "ratios": ratios, "f0": False, "Q": Q, "stype": stype, "ic": ic,
                   "peak": peak, "time": time, "eqsine": (ci + fi) % 3 == 0, "oneD": (ci + fi) % 2 == 0,
                   "rolloff": "none", "mp": (ci * 7 + fi) % 5 == 0}


# ====================================================================== relations

def oracle_rel(case, R):
    from pyyeti import srs
    sig = build_sig(case["sig"])
    N, H = sig.shape
    sr = float(case["sr"])
    freqs = np.array([sr / float(r) for r in case["ratios"]])
    LF = len(freqs)
    Q = float(case["Q"])
    stype, ic, time = case["stype"], case["ic"], case["time"]
    R.label(f"stype={stype}", f"ic={ic}", f"time={time}", f"H={H}", "N=1" if N == 1 else "N>1")
    distinct = any(len(np.unique(sig[:, h])) >= 2 for h in range(H))
    R.nontrivial(N >= 3 and distinct)
    base = dict(ic=ic, stype=stype, rolloff="none", time=time)
    npad = 0 if time == "primary" else sx.pad_count(sr, freqs)
    ntot = N + npad
    xs = 2 * math.pi * freqs / sr
    kap = np.array([kappa(x, ntot) for x in xs])

    def run(arr=sig, **kw):
        a = dict(base)
        a.update(kw)
        return call_srs(srs, arr, sr, freqs, Q, getresp=True, **a)

    # ---- peak rules
    shs = {}
    hists = {}
    for pk in PEAKS:
        shs[pk], r_ = run(peak=pk)
        hists[pk] = r_["hist"]
    h0 = hists["abs"]
    for pk in PEAKS:
        R.check(np.array_equal(hists[pk], h0), "hist_depends_on_peak", pk)
    R.check(np.array_equal(shs["abs"], np.maximum(shs["pos"], shs["neg"])), "abs_ne_max_pos_neg",
            f"abs={shs['abs'].ravel()[:3]} pos={shs['pos'].ravel()[:3]} neg={shs['neg'].ravel()[:3]}")
    R.check(np.array_equal(shs["pos"], np.abs(shs["poss"])), "pos_ne_abs_poss", "")
    R.check(np.array_equal(shs["neg"], np.abs(shs["negs"])), "neg_ne_abs_negs", "")
    R.check(np.all(shs["poss"] >= shs["negs"]), "poss_lt_negs", "")
    R.check(np.all(shs["rms"] <= shs["abs"] * (1 + 4 * EPS)) and np.all(shs["rms"] >= 0), "rms_gt_abs", "")
    # peak given as a function (documented example) == string
    seen = []

    def absmeth(resp_):
        seen.append(resp_.shape)
        return abs(resp_).max(axis=0)
    sh_f = run(peak=absmeth)[0]
    R.check(np.array_equal(sh_f, shs["abs"]), "peak_callable_differs", "")
    R.check(all(s == (h0.shape[0], H) for s in seen) and len(seen) == LF, "peak_callable_shape",
            f"shapes seen {seen[:3]} expected {(h0.shape[0], H)} x {LF}")

    # ---- windows
    tw = {}
    for tm in TIMES:
        tw[tm] = {pk: run(peak=pk, time=tm) for pk in ("abs", "poss", "negs")}
    for pk, cmp_ in (("abs", np.greater_equal), ("poss", np.greater_equal), ("negs", np.less_equal)):
        for tm in ("primary", "residual"):
            R.check(np.all(cmp_(tw["total"][pk][0], tw[tm][pk][0])), f"total_vs_{tm}_{pk}",
                    f"total={tw['total'][pk][0].ravel()[:3]} {tm}={tw[tm][pk][0].ravel()[:3]}")
    hp, hr, ht = (tw[tm]["abs"][1]["hist"] for tm in TIMES)
    if ht.shape[0] == hp.shape[0] + hr.shape[0]:
        R.check(np.array_equal(ht, np.concatenate((hp, hr), axis=0)), "total_ne_primary_residual",
                "total history is not primary followed by residual")
        tt = np.concatenate((tw["primary"]["abs"][1]["t"], tw["residual"]["abs"][1]["t"]))
        R.check(np.array_equal(tt, tw["total"]["abs"][1]["t"]), "t_total_ne_primary_residual", "")
    else:
        R.fail("window_lengths", f"{hp.shape[0]} + {hr.shape[0]} != {ht.shape[0]}")

    # ---- response-type relations on histories
    hd = run(stype="reldisp", peak="abs")[1]["hist"]
    hv = run(stype="pvelo", peak="abs")[1]["hist"]
    ha = run(stype="pacce", peak="abs")[1]["hist"]
    w = 2 * math.pi * freqs
    if hd.size:
        for nm, got, fac in (("pvelo", hv, w), ("pacce", ha, w * w)):
            exp = hd * fac[None, None, :]
            a_in = np.abs(sig).max(axis=0)
            g = fac / (w * w)
            scl = np.maximum(np.abs(exp).max(axis=0), a_in[:, None] * g[None, :])
            scl = np.where(scl > 0, scl, 1.0)
            e = np.abs(got - exp).max(axis=0) / (EPS * scl * kap[None, :])
            _m(R, f"{nm}_vs_reldisp/(eps*kappa)", e.max())
            R.check(np.all(e <= CREL), f"{nm}_ne_w_reldisp", f"normalised {e.max():.3g} fn={freqs}")

    # ---- eqsine
    sh_e, r_e = run(peak=case["peak"], eqsine=True)
    sh_n, r_n = run(peak=case["peak"], eqsine=False)
    de = np.abs(sh_e - sh_n / Q) / np.where(sh_n != 0, np.abs(sh_n / Q), 1.0)
    _m(R, "eqsine/eps", de.max() / EPS if de.size else 0)
    R.check(np.all(de <= 4 * EPS), "eqsine_ne_srs_over_Q", f"{sh_e.ravel()[:3]} vs {(sh_n / Q).ravel()[:3]}")
    R.check(np.array_equal(r_e["hist"], r_n["hist"] / Q), "eqsine_hist", "hist not divided by Q")

    # ---- column permutation, packaging (bit-exact)
    pk = case["peak"]
    sh0, r0 = run(peak=pk)
    R.check(sh0.shape == (LF, H), "sh_shape_2d", f"{sh0.shape}")
    nrow = r0["hist"].shape[0]

    def same_sh(a_, b_):
        # 'rms' sums the squares in an order that depends on the number of columns: round-off only
        if pk == "rms":
            return bool(np.all(np.abs(a_ - b_) <= (8 + nrow) * EPS * np.abs(b_)))
        return np.array_equal(a_, b_, equal_nan=True)
    perm = np.random.default_rng(case["sig"]["seed"] + 1).permutation(H)
    shp, rp = run(arr=sig[:, perm].copy(), peak=pk)
    R.check(np.array_equal(shp, sh0[:, perm], equal_nan=True), "column_permutation_sh", f"perm={perm}")
    R.check(np.array_equal(rp["hist"], r0["hist"][:, perm], equal_nan=True), "column_permutation_hist", f"perm={perm}")
    for h in range(H):
        s1d, r1d = run(arr=sig[:, h].copy(), peak=pk)
        R.check(s1d.shape == (LF,), "sh_shape_1d", f"{s1d.shape}")
        R.check(same_sh(s1d.reshape(-1), sh0[:, h]), "packaging_1d_sh", f"col {h}")
        R.check(r1d["hist"].shape == (r0["hist"].shape[0], 1, LF) and
                np.array_equal(r1d["hist"][:, 0], r0["hist"][:, h], equal_nan=True), "packaging_1d_hist", f"col {h}")
        s2d = run(arr=sig[:, [h]].copy(), peak=pk)[0]
        R.check(s2d.shape == (LF, 1) and same_sh(s2d[:, 0], sh0[:, h]), "packaging_2d_sh", f"col {h}")
    s_list = run(arr=sig.tolist(), peak=pk)[0]
    R.check(np.array_equal(s_list, sh0, equal_nan=True), "packaging_list", "array_like input")

    # ---- scaling: 2^k bit-exact (up to underflow), arbitrary c to round-off, negation
    k2 = int(case["k2"])
    shk, rk = run(arr=sig * 2.0 ** k2, peak=pk)
    R.check(np.all(np.abs(shk - sh0 * 2.0 ** k2) <= 1e-280), "scale_pow2_sh", f"k={k2}")
    R.check(np.all(np.abs(rk["hist"] - r0["hist"] * 2.0 ** k2) <= 1e-280), "scale_pow2_hist", f"k={k2}")
    swap = {"pos": "neg", "neg": "pos", "poss": "negs", "negs": "poss", "abs": "abs", "rms": "rms"}
    shn, rn = run(arr=-sig, peak=swap[pk])
    exp_n = -sh0 if pk in ("poss", "negs") else sh0
    R.check(np.array_equal(shn, exp_n), "negation_sh", f"peak {pk}")
    R.check(np.array_equal(rn["hist"], -r0["hist"]), "negation_hist", "")
    c = float(case["c"])
    shc, rc = run(arr=sig * c, peak=pk)
    a_in = np.abs(sig).max(axis=0)
    ref_t = r0["hist"]
    if ref_t.size:
        scl = scales(ref_t, sig, sr, freqs, stype, ntot)
        e = np.abs(rc["hist"] - c * ref_t).max(axis=0) / (EPS * abs(c) * scl * kap[None, :])
        _m(R, "scale_c_hist/(eps*kappa)", e.max())
        R.check(np.all(e <= CREL), "scale_c_hist", f"c={c} normalised {e.max():.3g}")
        e = np.abs(shc - abs(c) * sh0) / (EPS * abs(c) * scl.T * kap[:, None])
        R.check(np.all(e <= CREL), "scale_c_sh", f"c={c} normalised {e.max():.3g}")

    # ---- documented errors, sr=None
    for badQ in (0.5, 0.25):
        try:
            call_srs(srs, sig, sr, freqs, badQ, **base)
            R.fail("no_error_Q_le_half", f"Q={badQ}")
        except ValueError:
            pass
    try:
        call_srs(srs, sig, None, freqs, Q, **base)
        ok = N == 1 and ic != "zero"
        R.check(ok, "no_error_sr_none", f"N={N} ic={ic}")
    except ValueError:
        R.check(N > 1 or ic == "zero", "error_sr_none_len1", f"ic={ic}")
    if N == 1 and ic != "zero":
        R.label("sr_none")
        a = dict(base, time="primary", peak=pk)
        s_none, r_none = call_srs(srs, sig, None, freqs, Q, getresp=True, **a)
        s_sr, r_sr = call_srs(srs, sig, sr, freqs, Q, getresp=True, **a)
        R.check(np.array_equal(s_none, s_sr) and np.array_equal(r_none["hist"], r_sr["hist"]), "sr_none_differs", "")


@st.composite
def rel_cases(draw):
    stype, ic, peak, time = draw(st.sampled_from(COMBOS))
    spec = draw(sig_specs(nmax=120, exact=True))
    return {"sig": spec, "sr": draw(st.sampled_from([50.0, 1000.0, 1024.0, 4410.0])),
            "ratios": draw(st.lists(ratio_strategy(), min_size=1, max_size=3)), "Q": draw(q_strategy()),
            "stype": stype, "ic": ic, "peak": peak, "time": time, "k2": draw(st.integers(-30, 30)),
            "c": draw(st.sampled_from([3.7, 0.1, 1e5 / 7, 1.0 / 3]))}


# ====================================================================== roll-off contract

ROLLS = ["none", None, "linear", "lanczos", "fft", "prefilter"]


def _factor_alternatives(sr, ppc, fmax):
    r = ppc * fmax / sr
    out = {int(math.ceil(r))}
    if abs(r - round(r)) < 1e-9 * max(1.0, r):
        out |= {int(round(r)), int(round(r)) + 1}
    return {f for f in out if f >= 1}


def _resp_from_rest(drv, sr, freqs, Q, stype, pad):
    """exact response to `drv` followed by the rows of `pad`, from rest one step before drv[0]"""
    full = np.vstack((drv, pad)) if len(pad) else drv
    return sx.history(full, sr, freqs, Q, stype, "zero", 0)


def _steady_offset(stype, s1, freqs):
    w = 2 * math.pi * np.asarray(freqs)
    H = len(s1)
    off = np.zeros((H, len(w)))
    if stype == "absacce":
        off += s1[:, None]
    elif stype == "pacce":
        off -= s1[:, None]
    elif stype == "pvelo":
        off -= s1[:, None] / w[None, :]
    elif stype == "reldisp":
        off -= s1[:, None] / (w * w)[None, :]
    return off


def oracle_roll(case, R):
    from pyyeti import srs
    sig = build_sig(case["sig"])
    N, H = sig.shape
    sr = float(case["sr"])
    ratios = [float(r) for r in case["ratios"]]
    freqs = np.array([sr / r for r in ratios])
    fmax = freqs.max()
    LF = len(freqs)
    Q = float(case["Q"])
    ppc = float(case["ppc"])
    stype, ic, peak, time = case["stype"], case["ic"], case["peak"], case["time"]
    roll = case["rolloff"]
    funcs = {"fft": srs.fftroll, "lanczos": srs.lanroll, "linear": srs.linroll, "prefilter": srs.preroll}
    need = roll in ("fft", "lanczos", "linear") and sr / fmax < ppc
    R.label(f"roll={roll}", "ppc_met" if sr / fmax >= ppc else "ppc_not_met", f"ic={ic}", f"time={time}",
            "N=1" if N == 1 else "N>1", "N_odd" if N & 1 else "N_even")
    R.nontrivial(N >= 3 and any(len(np.unique(sig[:, h])) >= 2 for h in range(H)) and (need or roll == "prefilter"))
    kw = dict(ic=ic, stype=stype, peak=peak, time=time, ppc=ppc)
    sh, resp = call_srs(srs, sig, sr, freqs, Q, rolloff=roll, getresp=True, **kw)
    sh_none, resp_none = call_srs(srs, sig, sr, freqs, Q, rolloff="none", getresp=True, **kw)
    sh_nr = call_srs(srs, sig, sr, freqs, Q, rolloff=roll, getresp=False, **kw)
    R.check(np.array_equal(sh_nr, sh, equal_nan=True), "sh_getresp_differs", "")

    if roll in ("none", None) or (roll != "prefilter" and not need):
        # minimum ppc met (or nothing selected): nothing may be done to the signal
        same = resp["sr"] == sr and np.array_equal(sh, sh_none) and np.array_equal(resp["hist"], resp_none["hist"]) \
            and np.array_equal(resp["t"], resp_none["t"])
        R.check(same, "rolled_although_ppc_met", f"roll={roll} sr/fmax={sr / fmax!r} ppc={ppc!r} resp sr={resp['sr']}")
        if roll in ("fft", "lanczos", "linear"):
            calls = []

            def spy0(s_, sr_, ppc_, frq_):
                calls.append(1)
                return funcs[roll](s_, sr_, ppc_, frq_)
            call_srs(srs, sig, sr, freqs, Q, rolloff=spy0, **kw)
            R.check(not calls, "roll_function_called_although_ppc_met", f"sr/fmax={sr / fmax!r} ppc={ppc!r}")
        return

    # ---- a record of one sample has nothing between its samples: every interpolating roll-off leaves it, and its
    # sample rate, alone (all three roll functions guard their resampling with N > 1; 'none' is the reference)
    if N == 1 and roll != "prefilter":
        same = resp["sr"] == sr and np.array_equal(sh, sh_none, equal_nan=True) \
            and np.array_equal(resp["hist"], resp_none["hist"], equal_nan=True) and np.array_equal(resp["t"], resp_none["t"])
        R.check(same, "one_sample_record_changed_by_rolloff",
                f"roll={roll} resp sr={resp['sr']} (record sr={sr}) sh={np.ravel(sh)[:3]} none={np.ravel(sh_none)[:3]}")
    # ---- a roll function is due: string option == documented function given as a callable
    calls = []
    if roll != "prefilter":
        def spy(s_, sr_, ppc_, frq_):
            calls.append((np.array(s_, copy=True), sr_, ppc_, frq_))
            return funcs[roll](s_, sr_, ppc_, frq_)
        sh_c, resp_c = call_srs(srs, sig, sr, freqs, Q, rolloff=spy, getresp=True, **kw)
        R.check(len(calls) == 1, "roll_function_calls", f"{len(calls)} calls")
        if calls:
            s_in, sr_in, ppc_in, frq_in = calls[0]
            R.check(s_in.ndim == 2 and s_in.shape == (N, H) and sr_in == sr and ppc_in == ppc and frq_in == fmax,
                    "roll_function_args", f"shape {s_in.shape} sr={sr_in} ppc={ppc_in} frq={frq_in} (fmax={fmax})")
        R.check(np.array_equal(sh_c, sh) and np.array_equal(resp_c["hist"], resp["hist"]) and resp_c["sr"] == resp["sr"],
                "string_vs_callable_roll", f"roll={roll}")

    # ---- packaging / column independence with the roll-off active: each signal is resampled on its own, so a
    # column of a multi-column call equals the 1-D call of that column (mean removal, filter state and windows
    # of the resamplers must not mix columns); round-off differences between 1-D and 2-D FFT / mean paths only
    if H >= 2:
        hs_ = np.asarray(resp["hist"])
        tolp = 1e-9
        for hcol in range(H):
            s1d, r1d = call_srs(srs, sig[:, hcol].copy(), sr, freqs, Q, rolloff=roll, getresp=True, **kw)
            h1 = np.asarray(r1d["hist"])
            if h1.shape != (hs_.shape[0], 1, LF):
                R.fail("roll_packaging_1d_shape", f"{h1.shape} vs {(hs_.shape[0], 1, LF)}")
                continue
            sc_ = max(np.abs(hs_[:, hcol]).max(), np.abs(sig[:, hcol]).max() * 1e-3, 1e-300)
            e_ = np.abs(h1[:, 0] - hs_[:, hcol]).max() / sc_
            _m(R, "roll_packaging/1e-9", e_ / tolp)
            R.check(e_ <= tolp, "roll_packaging_1d_hist", f"roll={roll} col {hcol}: rel diff {e_:.3g}")
            shc_ = np.asarray(sh).reshape(LF, H)[:, hcol]
            scs_ = max(np.abs(shc_).max(), sc_)
            R.check(np.abs(np.asarray(s1d).reshape(-1) - shc_).max() <= tolp * scs_ * 10, "roll_packaging_1d_sh",
                    f"roll={roll} col {hcol}")
        R.label("roll_packaging_checked")

    # ---- candidates for the (undocumented) order of ic processing and roll-off
    s1_raw = sig[0].copy()
    cands = []
    def drive(x_):
        # signal that drives the zero-state filter: 'steady' = shift + steady-state add-back
        return x_ - x_[0] if ic == "steady" else sx.apply_ic(x_, ic)[0]
    drvA = drive(sig)
    rolledA, srA = funcs[roll](drvA.copy(), sr, ppc, fmax)
    cands.append(("ic_then_roll", np.asarray(rolledA, float), srA, s1_raw))
    if ic != "zero":
        rolledB, srB = funcs[roll](sig.copy(), sr, ppc, fmax)
        rolledB = np.asarray(rolledB, float)
        cands.append(("roll_then_ic", drive(rolledB), srB, rolledB[0].copy()))
    srn = cands[0][2]
    if roll != "prefilter" and N > 1:
        facs = _factor_alternatives(sr, ppc, fmax)
        R.check(any(srn == sr * f for f in facs), "roll_factor", f"new sr {srn} sr={sr} ppc={ppc} fmax={fmax} factors {facs}")
        R.check(srn / fmax >= ppc * (1 - 1e-12), "ppc_not_met_after_roll", f"{srn / fmax} < {ppc}")
    if roll == "prefilter":
        R.check(srn == sr, "prefilter_changed_sr", f"{srn}")
    R.check(resp["sr"] == srn and resp["sr"] >= sr, "resp_sr", f"resp sr {resp['sr']} roll function sr {srn}")

    hist = np.asarray(resp["hist"])
    best = None
    for name, drv, srx, s1 in cands:
        Nn = drv.shape[0]
        npad = 0 if time == "primary" else sx.pad_count(srx, freqs)
        ntot = Nn + npad
        win = window(time, Nn, ntot)
        pad = np.zeros((npad, H)) - (s1[None, :] if ic == "steady" else 0.0)
        ref_total = _resp_from_rest(drv, srx, freqs, Q, stype, pad)
        if ic == "steady":
            ref_total = ref_total + _steady_offset(stype, s1, freqs)[None, :, :]
        ref = ref_total[win]
        if ref.shape != hist.shape:
            cur = (math.inf, name, f"shape {hist.shape} vs {ref.shape}", None)
        else:
            sc = scales(ref_total, np.abs(drv).max(axis=0, keepdims=True) + np.abs(s1)[None, :], srx, freqs, stype, ntot)
            kap = np.array([kappa(2 * math.pi * f / srx, ntot) for f in freqs])
            e = (np.abs(hist - ref).max(axis=0) / (EPS * sc * kap[None, :])).max() if ref.size else 0.0
            t_ref = np.arange(ntot)[win] / srx
            t_ok = np.asarray(resp["t"]).shape == t_ref.shape and \
                (t_ref.size == 0 or np.abs(resp["t"] - t_ref).max() <= 4 * EPS * max(t_ref.max(), 1 / srx))
            stat = sx.peak_stat(ref, peak).T if ref.size else None
            es = (np.abs(np.asarray(sh).reshape(LF, H) - stat) / (EPS * sc.T * kap[:, None])).max() if ref.size else 0.0
            cur = (max(e, es), name, f"hist normalised {e:.3g} sh normalised {es:.3g}", t_ok)
        if best is None or cur[0] < best[0]:
            best = cur
    R.label("order=" + best[1])
    _m(R, f"roll_{roll}_hist/(eps*kappa)", best[0])
    R.check(best[0] <= CH, f"roll_hist_{roll}", f"ic={ic} stype={stype} time={time}: {best[2]} (best of {[c[0] for c in cands]})")
    if best[3] is not None:
        R.check(best[3], "roll_t", f"t[:3]={np.asarray(resp['t'])[:3]} sr={resp['sr']}")


@st.composite
def roll_cases(draw):
    stype, ic, peak, time = draw(st.sampled_from(COMBOS))
    if draw(st.booleans()):
        ic = "zero"
    roll = draw(st.sampled_from(ROLLS + ["fft", "lanczos", "linear"]))
    spec = draw(sig_specs(nmin=14 if roll == "prefilter" else 1, nmax=120, hmax=2))
    sr = draw(st.sampled_from([1200.0, 1000.0, 96.0, 4410.0]))
    rmax = draw(st.sampled_from([2.4, 3.0, 4.0, 6.0, 8.0, 12.0, 16.0]))
    ratios = [rmax] + draw(st.lists(st.sampled_from([20.0, 50.0, 7.5, 300.0, 16.0]), max_size=2))
    ppc = draw(st.sampled_from([rmax, rmax * 1.5, rmax * 2.0, rmax * 3.3, rmax * 0.75, 12.0, 25.0, 3.0, 17.0,
                                rmax * 1.0001, rmax * 5.0, rmax * 2.0, rmax * 1.2]))
    if roll == "linear" and ppc > 2 * rmax:
        ppc = rmax * draw(st.sampled_from([1.5, 2.0, 1.01]))     # factor >= 3: see part 'linroll'
    return {"sig": spec, "sr": sr, "ratios": ratios, "Q": draw(st.sampled_from([0.5001, 1.0, 10.0, 25.0, 50.0])),
            "ppc": float(ppc), "stype": stype, "ic": ic, "peak": peak, "time": time, "rolloff": roll}


def enum_roll_short(shard, nshards, tier):
    """records of one, two and three samples through every roll-off function (the one-sample record is documented:
    "any length >= 1"), under-sampled (sr / fmax < ppc) so that the roll function is asked, every response type and
    initial-condition rule, zero / total windows"""
    k = 0
    for roll in ("none", None, "linear", "lanczos", "fft"):
        for N in (1, 2, 3):
            for stype in STYPES:
                for ic in ICS:
                    for time in ("primary", "total"):
                        k += 1
                        if k % nshards != shard:
                            continue
                        yield {"sig": {"N": N, "cols": [{"kind": "randint", "amp": 8, "p": 3, "off": 3}] * (1 + k % 2),
                                       "seed": 900 + k, "scale": 1.0},
                               "sr": 100.0, "ratios": [2.5, 20.0], "Q": 10.0, "ppc": 12.0, "stype": stype, "ic": ic,
                               "peak": PEAKS[k % len(PEAKS)], "time": time, "rolloff": roll}


# ---------------------------------------------------------------------- linear roll function itself

def oracle_linroll(case, R):
    """srs.linroll: 'Increase sample rate using linear interpolation': sample k of the result is the
    linear interpolant of the input at t = k / srnew"""
    from pyyeti import srs
    sig = build_sig(case["sig"])
    N, H = sig.shape
    sr = float(case["sr"])
    frq = sr / float(case["ratio"])
    ppc = float(case["ppc"])
    fac_set = _factor_alternatives(sr, ppc, frq)
    new, srn = srs.linroll(sig.copy(), sr, ppc, frq)
    new = np.asarray(new)
    fac = int(round(srn / sr))
    R.label(f"factor={min(fac, 4)}{'+' if fac >= 4 else ''}", "N=1" if N == 1 else "N>1")
    R.nontrivial(N >= 3 and fac >= 2)
    if N == 1:
        R.check(np.array_equal(new, sig) and srn == sr, "linroll_len1", "")
        return
    R.check(fac in fac_set and srn == sr * fac, "linroll_factor", f"srn={srn} sr={sr} factors {fac_set}")
    R.check(srn / frq >= ppc * (1 - 1e-12), "linroll_ppc", f"{srn / frq} < {ppc}")
    # samples at k/srn for as long as they fall inside the record [0, (N-1)/sr]
    K = new.shape[0]
    tk = np.arange(K) / srn
    told = np.arange(N) / sr
    span_ok = tk[-1] <= told[-1] * (1 + 1e-12)
    exp = np.column_stack([np.interp(np.minimum(tk, told[-1]), told, sig[:, h]) for h in range(H)])
    a = max(np.abs(sig).max(), 1e-300)
    e = np.abs(new - exp).max() / a
    _m(R, "linroll_values/eps", e / EPS)
    # both sides interpolate on rounded time grids k/srn and i/sr: the position inside an interval carries
    # eps * t/dt = eps * N, i.e. eps * N * |step| in value (1.45e-14 seen for N = 54 with 64 eps as limit)
    R.check(e <= (64 + 4 * N) * EPS, "linroll_not_linear_interpolation",
            f"N={N} factor={fac}: {K} samples returned at sr*{fac} (expected (N-1)*factor+1 = {(N - 1) * fac + 1}); "
            f"max deviation from the interpolant at k/srnew = {e:.3g} of the input level; span_ok={span_ok}")


@st.composite
def linroll_cases(draw):
    spec = draw(sig_specs(nmin=1, nmax=60, hmax=2))
    ratio = draw(st.sampled_from([2.5, 3.0, 4.0, 6.0]))
    return {"sig": spec, "sr": draw(st.sampled_from([1200.0, 1000.0, 96.0])), "ratio": ratio,
            "ppc": float(ratio * draw(st.sampled_from([1.5, 2.0, 2.5, 3.0, 4.5, 7.7])))}


# ====================================================================== srs_frf

def oracle_frf(case, R):
    from pyyeti import srs
    rng = np.random.default_rng(int(case["seed"]))
    nf = int(case["nf"])
    frf_frq = np.cumsum(np.array(case["steps"][:nf], float)) / 8.0 + float(case["f0"])
    ncol = int(case["ncol"])
    mag = rng.integers(0, 17, (nf, ncol)) / 4.0
    if case["complex"]:
        ph = rng.integers(0, 8, (nf, ncol)) * (math.pi / 4)
        frf = mag * np.exp(1j * ph)
    else:
        frf = mag * rng.choice([1.0, -1.0], (nf, ncol)) if case["signed"] else mag
    Q = float(case["Q"])
    pp = sx.p_peak(Q)
    mode = case["srs_mode"]
    if mode == "none":
        srs_in = None
    elif mode == "match":          # peak frequencies coincide with FRF frequencies (near-duplicates)
        srs_in = frf_frq[::2] / pp
    else:
        srs_in = np.sort(rng.integers(4, 8 * 60, int(case["nsrs"])) / 8.0 + float(case["f0"]) * 0.5)
    sbq = bool(case["sbq"])
    getresp = bool(case["getresp"])
    rsf = case["rsf"]
    oneD = bool(case["oneD"]) and ncol == 1
    frf_arg = frf[:, 0].copy() if oneD else frf.copy()
    R.label(f"srs_frq={mode}", f"sbq={sbq}", f"getresp={getresp}", f"rsf={rsf}", "complex" if case["complex"] else "real")
    R.nontrivial(nf >= 3 and np.count_nonzero(mag) >= 2)
    kw = dict(getresp=getresp, return_srs_frq=rsf, scale_by_Q_only=sbq)
    if getresp and sbq:
        try:
            srs.srs_frf(frf_arg, frf_frq, srs_in, Q, **kw)
            R.fail("no_error_getresp_and_scale_by_Q_only", "")
        except ValueError:
            R.label("documented_error")
        return
    out = srs.srs_frf(frf_arg, frf_frq, srs_in, Q, **kw)
    want_frq = (srs_in is None) if rsf is None else bool(rsf)
    nret = 1 + int(want_frq) + int(getresp)
    if nret == 1:
        ok_struct = isinstance(out, np.ndarray)
        out = (out,)
    else:
        ok_struct = isinstance(out, tuple) and len(out) == nret
    if not R.check(ok_struct, "return_structure", f"{type(out)} len {len(out) if isinstance(out, tuple) else '-'} want {nret}"):
        return
    sh = out[0]
    srs_frq = (frf_frq.copy() if sbq else frf_frq / pp) if srs_in is None else srs_in
    if want_frq:
        e = np.abs(np.asarray(out[1]) - srs_frq).max() / srs_frq.max()
        # p_peak = Q sqrt(sqrt(1 + 2/Q^2) - 1) evaluated in double cancels like eps*Q^2
        _m(R, "srs_frq/(eps*(1+Q^2))", e / (EPS * (1 + Q * Q)))
        R.check(np.asarray(out[1]).shape == srs_frq.shape and e <= 8 * EPS * (1 + Q * Q), "srs_frq",
                f"{out[1][:3]} vs {srs_frq[:3]} relerr {e:.3g}")
        if np.asarray(out[1]).shape == srs_frq.shape:
            srs_frq = np.asarray(out[1], float)       # closed forms below are evaluated at the returned frequencies
    ns = len(srs_frq)
    if not R.check(sh.shape == (ns, ncol), "sh_shape", f"{sh.shape} vs {(ns, ncol)}"):
        return
    A = np.abs(frf)
    amax = max(A.max(), 1e-300)
    if sbq:
        exp = Q * sx.lin_interp_zero(frf_frq, A, srs_frq)
        e = np.abs(sh - exp).max() / (Q * amax)
        _m(R, "frf_scale_by_Q/eps", e / EPS)
        R.check(e <= 16 * EPS, "scale_by_Q_only", f"relerr {e:.3g}")
        return
    # sh must be the same with and without getresp; the closed form is checked through resp
    if not getresp:
        out2 = srs.srs_frf(frf_arg, frf_frq, srs_in, Q, getresp=True, return_srs_frq=False)
        R.check(np.array_equal(out2[0], sh), "sh_getresp_differs", "")
        resp = out2[1]
    else:
        resp = out[-1]
    f = np.asarray(resp["freq"])
    frfs = np.asarray(resp["frfs"])
    used = np.asarray(resp["srs_frq"], float)
    if want_frq:
        R.check(np.array_equal(used, np.asarray(out[1])), "resp_srs_frq", "resp['srs_frq'] differs from the returned srs_frq")
    e = np.abs(used - srs_frq).max() / srs_frq.max() if used.shape == srs_frq.shape else np.inf
    if not R.check(e <= 8 * EPS * (1 + Q * Q), "resp_srs_frq_value", f"relerr {e:.3g}"):
        return
    srs_frq = used                # closed forms below are evaluated at the frequencies actually used
    union = np.sort(np.hstack((frf_frq, pp * srs_frq)))
    R.check(np.all(np.diff(f) > 0), "resp_freq_not_increasing", "")
    # every analysis frequency is one of the requested ones (to rounding of p_peak*srs_frq) ...
    d_in = np.array([np.abs(union - fi).min() / fi for fi in f])
    R.check(np.all(d_in <= 8 * EPS * (1 + Q * Q)), "resp_freq_not_in_union", f"max rel distance {d_in.max():.3g}")
    # ... and every requested one is present up to the near-duplicate merge (1e-5 Hz)
    d_out = np.array([np.abs(f - ui).min() for ui in union])
    R.check(np.all(d_out <= 1.0e-5 * (1 + 1e-9) + 8 * EPS * (1 + Q * Q) * union), "resp_freq_misses_requested",
            f"max distance {d_out.max():.3g} Hz")
    if not R.check(frfs.shape == (len(f), ncol, ns), "frfs_shape", f"{frfs.shape} vs {(len(f), ncol, ns)}"):
        return
    Af = sx.lin_interp_zero(frf_frq, A, f)                                  # (nfreq, ncol)
    Hm = np.column_stack([sx.frf_transfer(f / fn, Q) for fn in srs_frq])    # (nfreq, ns)
    exp = Af[:, :, None] * Hm[:, None, :]
    # |H| <= ~Q and dH = H^2 d(1 - p^2): round-off of the resonance denominator is amplified by Q^2
    e = np.abs(frfs - exp).max() / (amax * (1 + Q) ** 2)
    _m(R, "frfs/(eps*(1+Q)^2)", e / EPS)
    R.check(e <= CFRF * EPS, "frfs_closed_form", f"normalised {e / EPS:.3g} Q={Q}")
    exp_sh = np.abs(frfs).max(axis=0).T
    R.check(np.array_equal(sh, exp_sh), "sh_ne_max_abs_frfs", f"{sh.ravel()[:3]} vs {exp_sh.ravel()[:3]}")
    e = np.abs(sh - np.abs(exp).max(axis=0).T).max() / (amax * (1 + Q) ** 2)
    R.check(e <= CFRF * EPS, "sh_closed_form", f"normalised {e / EPS:.3g}")


@st.composite
def frf_cases(draw):
    nf = draw(st.integers(2, 12))
    return {"seed": draw(st.integers(0, 2 ** 31)), "nf": nf,
            "steps": draw(st.lists(st.sampled_from([1, 2, 4, 8, 16, 40, 3]), min_size=12, max_size=12)),
            "f0": draw(st.sampled_from([1.0, 5.0, 20.0, 0.5])), "ncol": draw(st.integers(1, 3)),
            "complex": draw(st.booleans()), "signed": draw(st.booleans()),
            "Q": draw(st.sampled_from([0.6, 1.0, 5.0, 10.0, 20.0, 50.0, 7.3])),
            "srs_mode": draw(st.sampled_from(["none", "match", "random", "random"])), "nsrs": draw(st.integers(1, 8)),
            "sbq": draw(st.integers(0, 3)) == 0, "getresp": draw(st.booleans()),
            "rsf": draw(st.sampled_from([None, True, False])), "oneD": draw(st.booleans())}


# ====================================================================== vrs

def oracle_vrs(case, R):
    from pyyeti import srs
    rng = np.random.default_rng(int(case["seed"]))
    nb = int(case["nb"])
    Fs = float(case["fs0"]) * np.cumprod(np.array(case["fratio"][:nb], float))
    ncol = int(case["ncol"])
    P = 2.0 ** rng.integers(-6, 3, (nb, ncol)) * rng.integers(1, 4, (nb, ncol))
    form = case["form"]
    one = form == "tuple1d"
    if one:
        ncol = 1
        P = P[:, :1]
    spec = np.column_stack([Fs, P]) if form == "array" else ((Fs, P[:, 0].copy()) if one else (Fs, P))
    n = int(case["n"])
    if case["grid"] in ("uniform", "edge"):
        freq = float(case["g0"]) + float(case["dg"]) * np.arange(n)
    else:
        freq = float(case["g0"]) * float(case["gr"]) ** np.arange(n)
    edge = case["grid"] == "edge"
    if edge:
        # analysis frequencies one ulp outside the two ends of the specification
        freq = np.unique(np.r_[freq, np.nextafter(Fs[0], 0.0), np.nextafter(Fs[-1], np.inf)])
        n = len(freq)
    Q = float(case["Q"])
    linear = bool(case["linear"])
    offgrid = False
    if case["fn_idx"] is None:
        Fn_arg, Fn = None, freq
    else:
        idx = sorted(set(int(i) % n for i in case["fn_idx"]))
        Fn = freq[idx]
        # response frequencies between the points of `freq` are merged into the integration grid (documented:
        # `freq` defines the integration step; Fn defines where the response is computed)
        off = case.get("fn_off") or []
        if off and not edge:
            extra = [freq[i % (n - 1)] + fr * (freq[i % (n - 1) + 1] - freq[i % (n - 1)]) for i, fr in off]
            Fn = np.unique(np.r_[Fn, extra])
            offgrid = not np.all(np.isin(Fn, freq))
        # response frequencies in the caller's own order (descending, shuffled): every output follows that order
        fo = case.get("fn_order", "asc")
        if fo == "desc":
            Fn = Fn[::-1].copy()
        elif fo == "shuffled" and len(Fn) > 1:
            Fn = Fn[np.random.default_rng(int(case["seed"]) + 17).permutation(len(Fn))]
        Fn_arg = Fn.copy()
        if offgrid:
            freq = np.unique(np.r_[freq, Fn])
            n = len(freq)
    getmiles, getresp = bool(case["getmiles"]), bool(case["getresp"])
    if edge:
        getresp = True
    outside = (freq < Fs[0]) | (freq > Fs[-1])
    near = (np.abs(freq / Fs[0] - 1) < 1e-12) | (np.abs(freq / Fs[-1] - 1) < 1e-12)
    if not edge and not bool(case["linear"]) and np.any(outside & near):
        # psd.interp(linear=False) returns log(PSD) instead of 0 there: input class isolated in part 'vrs_edge'
        R.label("skipped:grid_point_1ulp_outside_spec")
        return
    R.label(f"grid={case['grid']}", f"linear={linear}", f"form={form}",
            "Fn=None" if Fn_arg is None else ("Fn_offgrid" if offgrid else "Fn_subset"),
            f"getmiles={getmiles}", f"getresp={getresp}")
    R.nontrivial(n >= 3 and nb >= 2)
    if case.get("badQ"):
        try:
            srs.vrs(spec, freq, 0.5, linear)
            R.fail("no_error_Q_le_half", "")
        except ValueError:
            R.label("documented_error")
        return
    out = srs.vrs(spec, freq, Q, linear, Fn=Fn_arg, getmiles=getmiles, getresp=getresp)
    nret = 3 if getresp else (2 if getmiles else 1)
    if nret == 1:
        ok = isinstance(out, np.ndarray)
        out = (out,)
    else:
        ok = isinstance(out, tuple) and len(out) == nret
    if not R.check(ok, "return_structure", f"{type(out)} want {nret}"):
        return
    z = np.asarray(out[0])
    if edge:
        # 'Zeros are used to fill in PSD values for frequencies outside the specification(s)' (psd.interp)
        pr = np.asarray(out[2]["psd"])
        bad = pr[:, :, outside] != 0
        if bad.any():
            R.fail("psd_nonzero_outside_spec",
                   f"freq={freq[outside][np.argwhere(bad)[0][2]]!r} (spec {Fs[0]}..{Fs[-1]}): response psd "
                   f"{pr[:, :, outside][bad][0]!r} instead of 0 (ln of the end PSD value leaks through), z_vrs={z.ravel()[:3]}")
            return
    shape = (len(Fn),) if one else (len(Fn), ncol)
    if not R.check(z.shape == shape, "z_shape", f"{z.shape} vs {shape}"):
        return
    z = z.reshape(len(Fn), ncol)
    psdfull = (sx.lin_interp_zero if linear else sx.loglog_interp_zero)(Fs, P, freq)        # (n, ncol)
    gain = np.array([sx.vrs_gain(freq, fn, Q) for fn in Fn])                                 # (nFn, n)
    t = gain[:, None, :] * psdfull.T[None, :, :]                                            # (nFn, ncol, n)
    gaps = np.diff(freq)
    if case["grid"] == "uniform" and not offgrid:
        df = np.full(n, float(case["dg"]))
        zz = np.sqrt(np.sum(t * df, axis=2))
        sc = np.where(zz > 0, zz, 1.0)
        e = np.abs(z - zz) / sc
        _m(R, "vrs/(eps*(1+Q))", e.max() / (EPS * (1 + Q)))
        R.check(np.all(e <= CVRS * EPS * (1 + Q)), "vrs_sum", f"relerr {e.max():.3g} Q={Q}")
    else:
        lo = np.empty(n)
        hi = np.empty(n)
        lo[0] = hi[0] = gaps[0]
        lo[-1] = hi[-1] = gaps[-1]
        lo[1:-1] = np.minimum(gaps[:-1], gaps[1:])
        hi[1:-1] = np.maximum(gaps[:-1], gaps[1:])
        zlo = np.sqrt(np.sum(t * lo, axis=2)) * (1 - 1e-9)
        zhi = np.sqrt(np.sum(t * hi, axis=2)) * (1 + 1e-9)
        R.check(np.all((z >= zlo) & (z <= zhi)), "vrs_sum_outside_step_bracket",
                f"z={z.ravel()[:3]} lo={zlo.ravel()[:3]} hi={zhi.ravel()[:3]}")
        # the mean-square response is the area under the response PSD curve (the curve getresp returns on
        # resp['f']): trapezoidal area of the samples, the two end points carrying between nothing and a full
        # step beyond it.  A step rule that is not centred on the sample (forward / backward differences) leaves
        # this band as soon as the curve varies over unequal neighbouring steps.
        area = np.sum((t[:, :, :-1] + t[:, :, 1:]) * gaps / 2, axis=2)
        ends = t[:, :, 0] * gaps[0] + t[:, :, -1] * gaps[-1]
        z2 = z ** 2
        slack = 1e-9 * (area + ends)
        R.check(np.all((z2 >= area - slack) & (z2 <= area + ends + slack)), "vrs_not_area_under_response_psd",
                f"z^2={z2.ravel()[:3]} trapezoidal area={area.ravel()[:3]} end cells={ends.ravel()[:3]}")
        _m(R, "vrs_area_excess/end_cells", float(np.max((z2 - area) / np.where(ends > 0, ends, 1.0))))
    if nret >= 2:
        mi = np.asarray(out[1])
        if R.check(mi.shape == shape, "miles_shape", f"{mi.shape} vs {shape}"):
            psd_fn = (sx.lin_interp_zero if linear else sx.loglog_interp_zero)(Fs, P, Fn)
            exp = np.sqrt(math.pi / 2 * Fn[:, None] * Q * psd_fn)
            e = np.abs(mi.reshape(len(Fn), ncol) - exp) / np.where(exp > 0, exp, 1.0)
            _m(R, "miles/eps", e.max() / EPS)
            R.check(np.all(e <= CVRS * EPS), "miles", f"relerr {e.max():.3g}")
    if nret == 3:
        resp = out[2]
        R.check(np.array_equal(np.asarray(resp["f"]), freq), "resp_f", "")
        pr = np.asarray(resp["psd"])
        if R.check(pr.shape == (len(Fn), ncol, n), "resp_psd_shape", f"{pr.shape}"):
            scl = np.where(t > 0, t, 1.0)
            e = (np.abs(pr - t) / scl).max()
            _m(R, "vrs_resp_psd/(eps*(1+Q))", e / (EPS * (1 + Q)))
            R.check(e <= CVRS * EPS * (1 + Q), "resp_psd", f"relerr {e:.3g}")


@st.composite
def vrs_cases(draw, edge=False):
    n = draw(st.integers(3, 60))
    fn_idx = draw(st.one_of(st.none(), st.lists(st.integers(0, 59), min_size=1, max_size=4)))
    return {"seed": draw(st.integers(0, 2 ** 31)), "nb": draw(st.integers(2, 6)),
            "fs0": draw(st.sampled_from([5.0, 20.0, 12.5])),
            "fratio": [1.0] + draw(st.lists(st.sampled_from([2.0, 1.5, 4.0, 1.25, 7.5]), min_size=5, max_size=5)),
            "ncol": draw(st.integers(1, 3)), "form": draw(st.sampled_from(["array", "tuple2d", "tuple1d"])),
            "n": n, "grid": "edge" if edge else draw(st.sampled_from(["uniform", "uniform", "geometric"])),
            "g0": draw(st.sampled_from([4.0, 10.0, 25.0, 20.0])), "dg": draw(st.sampled_from([0.5, 2.0, 5.0, 1.25])),
            "gr": draw(st.sampled_from([1.05, 1.1, 2.0 ** 0.25])), "Q": draw(st.sampled_from([0.6, 1.0, 10.0, 25.0, 50.0, 7.3])),
            "linear": False if edge else draw(st.booleans()), "fn_idx": fn_idx, "getmiles": draw(st.booleans()),
            "getresp": draw(st.booleans()), "badQ": (not edge) and draw(st.sampled_from([False] * 24 + [True])),
            "fn_order": draw(st.sampled_from(["asc", "asc", "desc", "shuffled"])),
            "fn_off": draw(st.one_of(st.just([]), st.just([]), st.lists(
                st.tuples(st.integers(0, 58), st.sampled_from([0.5, 0.25, 0.9, 0.001])), min_size=1, max_size=3)))}


REQUIRED_CLASSES = {
    "quick": [f"grid:{s}|{i}|{p}|{t}" for s, i, p, t in COMBOS],
    "thorough": [f"grid:{s}|{i}|{p}|{t}" for s, i, p, t in COMBOS] + [f"hist:{s}|{i}|{p}|{t}" for s, i, p, t in COMBOS]
    + [f"rolloff:roll={r}" for r in ROLLS] + ["hist:N=1", "hist:fn0", "hist:mp_crosscheck", "rolloff:ppc_met",
                                             "rolloff:ppc_not_met", "relations:sr_none"],
}

PARTS = [
    Part("hist", oracle_hist, strategy=hist_cases, quick=(8, 200), thorough=(16, 1300)),
    Part("grid", oracle_hist, enum=enum_grid, quick=(4, None), thorough=(16, None), exhaustive=True),
    Part("relations", oracle_rel, strategy=rel_cases, quick=(4, 60), thorough=(16, 190)),
    Part("rolloff", oracle_roll, strategy=roll_cases, quick=(4, 100), thorough=(16, 320)),
    Part("rolloff_short", oracle_roll, enum=enum_roll_short, quick=(4, None), thorough=(4, None), exhaustive=True),
    Part("srs_frf", oracle_frf, strategy=frf_cases, quick=(1, 300), thorough=(8, 450)),
    Part("vrs", oracle_vrs, strategy=vrs_cases, quick=(1, 300), thorough=(8, 450)),
    # input classes that fail on the unchanged tree (genuine defects, see report / known_findings):
    # srs.linroll mis-spaces its samples for up-sampling factors >= 3
    Part("linroll", oracle_linroll, strategy=linroll_cases, quick=(1, 60), thorough=(2, 400)),
    # psd.interp(linear=False), used by vrs, returns ln(PSD) for a frequency one ulp outside the specification
    Part("vrs_edge", oracle_vrs, strategy=lambda: vrs_cases(edge=True), quick=(1, 30), thorough=(1, 200)),
    # documented defaults: leaving a keyword out = passing its documented value (vlib/defaults.py)
    Part("defaults", defaults.make_oracle("C03"), enum=defaults.make_enum(), quick=(1, None), thorough=(1, None),
         exhaustive=True),
]
