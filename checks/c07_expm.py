"""C07 - matrix exponential, its integrals, getEPQ variants, c2d/d2c."""
import warnings

import numpy as np
import scipy.linalg as la
from hypothesis import strategies as st

from refs import expm_ref
from vlib import util
from vlib import defaults
from vlib.core import Part

PROPERTY = "C07"
RULE = ("A (n=1..6) from a structure class {dense, upper-triangular, diagonal, Jordan/nilpotent, "
        "singular rank n-1, zero, stable (m,b,k) state matrix, stiff, skew} scaled so that ||Ah||_1 is "
        "log-uniform in [1e-6,1e3] with atoms just below/above the Pade switch points (0.01496, 0.2539, "
        "0.9504, 2.0978) and 4.25*2^k; h log-uniform; order in {0,1}; B None/matrix; half.  Oracle: "
        "mpmath 40-digit exponential of the augmented block matrix gives E, I1, I2; expmint, getEPQ, "
        "getEPQ1, getEPQ2, getEPQ_pow (small norm) must match to C*eps*(1+||Ah||)*scale and never "
        "tighter than 10x scipy.linalg.expm's own error on the same case; one hold step reproduced. "
        "SSModel: c2d/d2c inverse pairs for zoh/zoha/foh/tustin(+-prewarp), exact sampled response of "
        "zoh/zoha/foh models, tustin transfer-function identity.  Non-trivial: A != 0 and n >= 2.")
ASSUME = ["mpmath.expm at 40 digits is exact to double precision",
          "scipy.linalg.expm error on the same (augmented) matrix bounds the inherent difficulty of a case"]

THETAS = [1.495585217958292e-002, 2.539398330063230e-001, 9.504178996162932e-001,
          2.097847961257068e000, 4.25, 8.5, 17.0, 34.0, 68.0, 136.0, 272.0, 544.0]
C_TOL = 200.0       # calibrated: see worst_normalised_error in evidence (typically < 5)


def build_A(case):
    n = case["n"]
    rng = util.rng_of(case["seed"])
    kind = case["kind"]
    if kind == "dense":
        A = rng.standard_normal((n, n))
    elif kind == "upper":
        A = np.triu(rng.standard_normal((n, n)))
    elif kind == "diag":
        A = np.diag(rng.standard_normal(n))
    elif kind == "jordan":
        lam = rng.choice([0.0, -1.0, 0.5])
        A = lam * np.eye(n) + np.diag(np.ones(n - 1), 1)
    elif kind == "nilpotent_dense":
        Q, _ = np.linalg.qr(rng.standard_normal((n, n)))
        A = Q @ np.diag(np.ones(n - 1), 1) @ Q.T
    elif kind == "singular":
        A = rng.standard_normal((n, n))
        u, s, vt = np.linalg.svd(A)
        s[-1] = 0.0
        A = (u * s) @ vt
    elif kind == "singular_upper":
        A = np.triu(rng.standard_normal((n, n)))
        A[rng.integers(0, n), :] *= 1.0
        k = rng.integers(0, n)
        A[k, k] = 0.0
    elif kind == "zero":
        A = np.zeros((n, n))
    elif kind in ("mbk", "stiff"):
        n2 = max(1, n // 2)
        w = 2 * np.pi * (rng.uniform(0.5, 3, n2) if kind == "mbk" else
                         10.0 ** rng.uniform(-1, 4, n2))
        z = rng.uniform(0.0, 1.5, n2)
        A = np.zeros((2 * n2, 2 * n2))
        A[:n2, n2:] = np.eye(n2)
        A[n2:, :n2] = -np.diag(w ** 2)
        A[n2:, n2:] = -np.diag(2 * z * w)
        if rng.random() < 0.5 and n2 > 1:       # couple through a similarity transform
            T = np.eye(2 * n2) + 0.3 * rng.standard_normal((2 * n2, 2 * n2))
            A = la.solve(T, A @ T)
    elif kind == "skew":
        S = rng.standard_normal((n, n))
        A = S - S.T
    elif kind == "integer":
        # whole-number matrix held in an integer array and an integer step (a caller's A = [[0, 1], [-4, -1]], h = 1):
        # no rescaling; shifted so that exp() stays moderate
        A = rng.integers(-3, 4, (n, n)).astype(float)
        A -= np.diag(np.ceil(np.maximum(np.linalg.eigvals(A).real.max(), 0.0)) * np.ones(n))
        return A, float(case["hint"])
    else:
        raise ValueError(kind)
    n = A.shape[0]
    h = case["h"]
    nrm = np.linalg.norm(A, 1)
    if nrm > 0:
        A = A * (case["norm"] / (nrm * h))
        # keep exp() from overflowing: shift spectrum so that max Re(lambda*h) <= 3
        mx = np.linalg.eigvals(A).real.max() * h
        if mx > 3.0:
            A = A - ((mx - 3.0) / h) * np.eye(n)
    return A, h


def norm_label(x):
    names = ["p3", "p5", "p7", "p9"]
    for nm, t in zip(names, THETAS[:4]):
        if x < t:
            return nm
    s = max(int(np.ceil(np.log2(x / 4.25))), 0)
    return f"p13_s{min(s, 9)}"


def nerr(got, ref, scale):
    return util.relerr(got, ref, scale) / util.EPS


def oracle_expm(case, R):
    from pyyeti import expmint
    A, h = build_A(case)
    n = A.shape[0]
    order = case["order"]
    nrmAh = np.linalg.norm(A * h, 1)
    sv = la.svdvals(A) if n else np.array([1.0])
    singular = bool(sv.max() == 0 or sv.min() <= 1e-12 * sv.max())
    illc = singular or (sv.max() / sv.min() > 100.0)
    f11 = illc and nrmAh > THETAS[3]
    R.label(f"kind={case['kind']}", f"branch={norm_label(nrmAh)}", f"order={order}",
            "singular" if singular else "regular", "F11-domain" if f11 else "not-F11", "getEPQ1side" if nrmAh <= THETAS[3] else "getEPQ2side")
    R.nontrivial(n >= 2 and np.any(A != 0))
    E, I1, I2 = expm_ref.expm_integrals(A, h)
    # inherent difficulty: scipy's own error on E and on the augmented matrix
    es = la.expm(A * h)
    err_s = np.abs(es - E).max()
    M = np.zeros((3 * n, 3 * n))
    M[:n, :n] = A * h
    M[:n, n:2 * n] = h * np.eye(n)
    M[n:2 * n, 2 * n:] = h * np.eye(n)
    X = la.expm(M)
    err_i1 = np.abs(X[:n, n:2 * n] - I1).max()
    err_i2 = np.abs(h * X[:n, n:2 * n] - X[:n, 2 * n:] - I2).max()
    kappa = 1.0 + nrmAh
    # strongly non-normal matrices (dense nilpotent / Jordan blocks with a large norm): the relative condition
    # number of the exponential itself grows like ||Ah||^(n-1); measured errors of pyyeti AND of scipy follow
    # eps * kappa_exp there (<= ~100 eps kappa_exp), while scipy's own error is no yardstick (the two
    # algorithms differ by factors of 300 either way on such inputs)
    try:
        kexp = float(la.expm_cond(A * h)) if n and np.any(A) else 1.0
    except Exception:
        kexp = 1.0
    if not np.isfinite(kexp):
        kexp = 1.0
    R.metric("kappa_exp/(1+||Ah||)", kexp / kappa)
    sE = max(np.abs(E).max(), 1.0)
    sI1 = max(np.abs(I1).max(), h)
    sI2 = max(np.abs(I2).max(), h * h / 2)
    tolE = max(C_TOL * util.EPS * max(kappa, kexp) * sE, 10 * err_s)
    # (the integrals inherit the sensitivity of exp(At), 0 <= t <= h: kappa_exp of Ah itself; the condition
    # number of the exponential of the augmented matrix would also count perturbations of its constant blocks)
    tolI1 = max(C_TOL * util.EPS * max(kappa, kexp) * sI1, 10 * max(err_i1, err_s * h))
    tolI2 = max(C_TOL * util.EPS * max(kappa, kexp) * sI2, 10 * max(err_i2, err_i1 * h, err_s * h * h))
    # F11 domain: I2 beyond Pade-9 comes from A^-1 formulas (or a raw power series when the
    # LU check fails); measured error grows like cond(A)^2*eps -> known finding for cond > 100
    # (F11's error law is cond(A)^2 * eps: its domain is where that exceeds the tolerance of this check - cond > 100
    # always, and somewhat lower when exp(Ah) itself is well conditioned: cond = 59 gave 1.2x the tolerance)
    illcond = singular or (sv.max() / sv.min() > 100.0) or (sv.max() / sv.min()) ** 2 > C_TOL * max(kappa, kexp)
    f11 = illcond and nrmAh > THETAS[3]
    if f11:
        R.label("F11-domain(by error law)")
    tag = "[pade13-illcond] " if f11 else ""
    # F40 domain: strongly non-normal A (condition number of the exponential far above its norm) with a large
    # norm: the classic scaling-and-squaring of expmint over-scales (no Al-Mohy/Higham norm estimates) and
    # loses accuracy far beyond eps*kappa_exp; scipy.linalg.expm is itself 1e3 eps*kappa_exp off there
    f40 = nrmAh > 50.0 and kexp > 1e3 * kappa
    if f40:
        R.label("F40-domain")
    info = f"{tag}kind={case['kind']} n={n} ||Ah||1={nrmAh:.4g} h={h:.3g}"

    def cmp(got, ref, tol, scale, kind):
        got = np.asarray(got)
        if got.shape != ref.shape:
            R.fail(kind, f"{info} shape {got.shape} vs {ref.shape}")
            return
        e = np.abs(got - ref).max() if got.size else 0.0
        if not np.isfinite(e):
            e = np.inf
        if not (f11 and ("I2" in kind or "_i2" in kind)):
            R.metric(kind + "/tol", e / tol)
            R.metric(kind + "/eps_kappa_scale", e / (util.EPS * kappa * scale))
        t40 = "[nonnormal-overscaling] " if (f40 and tol < e <= 10 * tol) else ""
        R.check(e <= tol, kind, f"{t40}{info} err={e:.3e} tol={tol:.3e} scipy_err={err_s:.2e}")

    Afloat = A
    A, lab_ = util.repack(Afloat, case.get("apack", "same"))      # documented: 2d ndarray (any dtype / layout)
    if case["kind"] == "integer":
        A, lab_ = util.repack(Afloat, "int")
        h = int(h)                                                # an integer step with an integer matrix
    R.label("A:" + lab_)
    with warnings.catch_warnings(record=True) as wl:
        warnings.simplefilter("always")
        e2, i2 = expmint.expmint(A, h)
        cmp(e2, E, tolE, sE, "expmint_E")
        cmp(i2, I1, tolI1, sI1, "expmint_I1")
        try:
            e3, i3, j3 = expmint.expmint(A, h, geti2=True)
            cmp(e3, E, tolE, sE, "expmint_E")
            cmp(i3, I1, tolI1, sI1, "expmint_I1")
            cmp(j3, I2, tolI2, sI2, "expmint_I2")
            # memory layout is not an input: the same numbers held column-major give the same I2 - also where I2
            # itself is covered by known finding F11 (singular A: both layouts run the same power series)
            if singular or not f11:
                with warnings.catch_warnings():
                    warnings.simplefilter("ignore")
                    try:
                        _, _, jF = expmint.expmint(np.asfortranarray(np.array(Afloat, dtype=float)), h, geti2=True)
                        _, _, jC = expmint.expmint(np.ascontiguousarray(np.array(Afloat, dtype=float)), h, geti2=True)
                        dlay = float(np.abs(np.asarray(jF) - np.asarray(jC)).max())
                        R.check(dlay <= 1e-6 * max(float(np.abs(np.asarray(jC)).max()), sI2),
                                "expmint_I2_depends_on_memory_layout",
                                f"{info}: column-major vs row-major A differ by {dlay:.3e} (scale {sI2:.3e})")
                    except RuntimeError:
                        pass
        except RuntimeError as ex:
            R.fail("expmint_I2_runtimeerror", f"{info} {ex}")
    if any("power series" in str(w.message) for w in wl):
        R.label("i2route=series")
    elif nrmAh > THETAS[3]:
        R.label("i2route=inverse")
    else:
        R.label("i2route=pade")

    # E, P, Q through every variant
    rng = util.rng_of(case["seed"] + 1)
    Bm = None
    half = False
    if case["B"] == "matrix":
        Bm = rng.standard_normal((n, case["ncolB"]))
        # documented: "If `B` is a 2d ndarray, `half` is ignored" -> passing both must not change anything
        half = bool(case.get("half_with_B"))
        if half:
            R.label("B_and_half")
    elif case["B"] == "half" and n % 2 == 0:
        half = True
    Bfull = Bm if Bm is not None else (np.eye(n)[:, :n // 2] if half else np.eye(n))
    if Bm is not None and half and n % 2:
        half = False        # (half=True with odd n raises when B is None; with B given it is just ignored,
        #                      but keep the request legal for every variant)
    if order == 1:
        Pref = (I2 / h) @ Bfull
        Qref = (I1 - I2 / h) @ Bfull
        tolP = tolQ = (tolI2 / h + tolI1) * max(1.0, np.abs(Bfull).sum(axis=0).max())
        sP = (sI2 / h + sI1)
    else:
        Pref = I1 @ Bfull
        Qref = None
        tolP = tolI1 * max(1.0, np.abs(Bfull).sum(axis=0).max())
        sP = sI1
    variants = [("getEPQ", expmint.getEPQ), ("getEPQ1", expmint.getEPQ1), ("getEPQ2", expmint.getEPQ2)]
    if nrmAh <= 1.0:
        variants.append(("getEPQ_pow", expmint.getEPQ_pow))
    outs = {}
    for nm, fn in variants:
        try:
            with warnings.catch_warnings():
                warnings.simplefilter("ignore")
                Ev, Pv, Qv = fn(A, h, order=order, B=Bm, half=half)
        except RuntimeError as ex:
            R.fail(f"{nm}_runtimeerror", f"{info} order={order} {ex}")
            continue
        k1 = f"{nm}_E"
        cmp(Ev, E, tolE, sE, k1)
        cmp(Pv, Pref, tolP, sP, f"{nm}_P" if not (f11 and nm == "getEPQ1" and order == 1) else f"{nm}_P_i2")
        if order == 1:
            cmp(Qv, Qref, tolQ, sP, f"{nm}_Q" if not (f11 and nm == "getEPQ1") else f"{nm}_Q_i2")
        else:
            R.check(np.isscalar(Qv) and Qv == 0.0, f"{nm}_Q_order0", f"{info} Q={Qv!r}")
        outs[nm] = (Ev, Pv, Qv)
    # one hold step: x1 = E x0 + P u0 + Q u1 is the exact solution for constant / linear input
    if "getEPQ" in outs:
        Ev, Pv, Qv = outs["getEPQ"]
        x0 = rng.standard_normal(n)
        u0 = rng.standard_normal(Bfull.shape[1])
        u1 = rng.standard_normal(Bfull.shape[1]) if order == 1 else u0
        x1 = Ev @ x0 + Pv @ u0 + (Qv @ u1 if order == 1 else 0.0)
        if order == 1:
            x1ref = E @ x0 + Pref @ u0 + Qref @ u1
        else:
            x1ref = E @ x0 + Pref @ u0
        sc = sE * np.abs(x0).max() + sP * (np.abs(u0).max() + np.abs(u1).max())
        tol = (tolE * np.abs(x0).sum() + tolP * (np.abs(u0).sum() + np.abs(u1).sum()))
        e = np.abs(x1 - x1ref).max()
        R.metric("step/tol", e / tol)
        R.check(e <= tol, "hold_step", f"{info} order={order} err={e:.3e} tol={tol:.3e} scale={sc:.3e}")


def KNOWN_F11(case, kind, detail):
    return "[pade13-illcond]" in detail and kind in (
        "expmint_I2", "expmint_I2_runtimeerror", "getEPQ1_P_i2", "getEPQ1_Q_i2", "getEPQ1_runtimeerror")


def KNOWN_F40(case, kind, detail):
    """accuracy failures (never exceptions, never shape errors) within 10x the tolerance - i.e. within 100x the
    error of scipy.linalg.expm on the same input - on strongly non-normal matrices with ||Ah||_1 > 50"""
    return "[nonnormal-overscaling]" in detail and not kind.startswith("exc:")


KNOWN = {"F11": KNOWN_F11, "F40": KNOWN_F40}


@st.composite
def expm_cases(draw):
    kind = draw(st.sampled_from(["dense", "dense", "upper", "diag", "jordan", "nilpotent_dense",
                                 "singular", "singular_upper", "zero", "mbk", "stiff", "skew", "integer"]))
    n = draw(st.integers(1, 6) if kind not in ("mbk", "stiff") else st.sampled_from([2, 4, 6]))
    if kind in ("jordan", "nilpotent_dense", "singular", "singular_upper", "skew"):
        n = max(n, 2)
    mode = draw(st.sampled_from(["log", "log", "atom"]))
    if mode == "log":
        norm = 10.0 ** draw(st.floats(-6, 3))
    else:
        norm = draw(st.sampled_from(THETAS)) * draw(st.sampled_from([0.9, 0.999, 1.001, 1.1, 1.5]))
    if kind in ("singular", "singular_upper", "jordan", "nilpotent_dense") and draw(st.booleans()):
        norm = min(norm, 10.0 ** draw(st.floats(-3, 1.0)))     # keep most of them below F11 land
    return {"kind": kind, "n": n, "seed": draw(st.integers(0, 2 ** 31)), "norm": norm, "hint": draw(st.sampled_from([1, 2, 3])),
            # any step: usually 1e-4 .. 1e2, sometimes the steps of slow dynamics in small units (years in
            # seconds: the entries of A are then far below 1e-8 in absolute terms) or of very fast ones
            "h": (10.0 ** draw(st.floats(-4, 2)) if draw(st.integers(0, 4)) else
                  draw(st.sampled_from([1e4, 1e6, 3.15e7, 1e9, 1e12, 1e-6, 1e-9]))),
            "order": draw(st.sampled_from([0, 1])),
            "B": draw(st.sampled_from(["none", "matrix", "half"])), "ncolB": draw(st.integers(1, 3)),
            "half_with_B": draw(st.booleans()),
            "apack": draw(st.sampled_from(["same", "same", "same", "int", "fortran", "readonly"]))}


# ---------------------------------------------------------------- SSModel

def build_ss(case):
    rng = util.rng_of(case["seed"])
    n, ni, no = case["n"], case["ni"], case["no"]
    h = case["h"]
    # diagonalisable A with well conditioned eigenvectors, |Im(lambda)| h < pi, Re < 0
    lam = []
    k = 0
    while k < n:
        if n - k >= 2 and rng.random() < 0.5:
            re = -rng.uniform(0.05, 2.0) / h
            im = rng.uniform(0.1, 2.5) / h
            lam.append(np.array([[re, im], [-im, re]]))
            k += 2
        else:
            lam.append(np.array([[-rng.uniform(0.05, 2.5) / h]]))
            k += 1
    L = la.block_diag(*lam)
    Q, _ = np.linalg.qr(rng.standard_normal((n, n)))
    T = Q @ np.diag(rng.uniform(0.5, 2.0, n))
    A = T @ L @ la.inv(T)
    B = rng.standard_normal((n, ni))
    C = rng.standard_normal((no, n))
    D = rng.standard_normal((no, ni))
    return A, B, C, D, h


def oracle_ss(case, R):
    from pyyeti import ssmodel
    A, B, C, D, h = build_ss(case)
    n = A.shape[0]
    method = case["method"]
    pw = case["prewarp"] / h if method == "tustin" else 0
    R.label(f"method={method}", "prewarp" if pw else "noprewarp")
    R.nontrivial(n >= 2)
    S = ssmodel.SSModel(A, B, C, D)
    Z = S.c2d(h, method=method, prewarp=pw)
    R.check(Z.h == h, "c2d_h")
    S2 = Z.d2c(method=method, prewarp=pw)
    Z2 = S2.c2d(h, method=method, prewarp=pw)
    # every converted model records how it was made ("For discrete or continuous models ... the method used to
    # convert from the other form", "... the prewarp frequency used in the Tustin transformation"), so that the way
    # back can be driven by the model's own attributes - pyyeti's own tests use m.d2c(method=m.method,
    # prewarp=m.prewarp)
    R.check(S2.h is None and Z2.h == h, "conversion_record_h", f"{S2.h!r} {Z2.h!r}")
    for nm_, mdl_ in (("c2d", Z), ("d2c", S2), ("c2d_again", Z2)):
        R.check(mdl_.method == method, "conversion_record_method", f"{nm_}: {mdl_.method!r} for {method}")
        if method == "tustin":
            R.check(mdl_.prewarp is not None and float(mdl_.prewarp) == float(pw), "conversion_record_prewarp",
                    f"{nm_}: prewarp={mdl_.prewarp!r}, converted with {pw!r}")
    # a converted model is a model of its own: editing its matrices in place leaves the model it came from alone
    # (every branch of c2d / d2c copies what it carries over)
    srcs = {nm_: np.array(getattr(S, nm_), copy=True) for nm_ in "ABCD"}
    zsrc = {nm_: np.array(getattr(Z, nm_), copy=True) for nm_ in "ABCD"}
    Zs = S.c2d(h, method=method, prewarp=pw)
    Sd = Z.d2c(method=method, prewarp=pw)
    for nm_ in "ABCD":
        getattr(Zs, nm_)[...] = 123.0
        getattr(Sd, nm_)[...] = -9.0
    for nm_ in "ABCD":
        R.check(np.array_equal(getattr(S, nm_), srcs[nm_]), "c2d_result_aliases_source_model",
                f"method={method}: editing {nm_} of the discrete model changed the continuous one")
        R.check(np.array_equal(getattr(Z, nm_), zsrc[nm_]), "d2c_result_aliases_source_model",
                f"method={method}: editing {nm_} of the continuous model changed the discrete one")
    S3 = Z.d2c(method=Z.method, prewarp=Z.prewarp)
    Z3 = S2.c2d(h, method=S2.method, prewarp=S2.prewarp)
    for nm in "ABCD":
        for a, b, kind in ((getattr(S2, nm), getattr(S3, nm), "d2c"), (getattr(Z2, nm), getattr(Z3, nm), "c2d")):
            e = util.relerr(b, a, max(np.abs(a).max(), 1e-3))
            R.check(e <= 1e-11, f"{kind}_by_own_attributes_{nm}", f"method={method} prewarp={pw!r} relerr={e:.2e}")
    scale = max(1.0, np.abs(A).max() * h)
    tol = 1e-11      # inverse via eig/log: cond(V) <= ~50, |lambda h| <= 3.5 (observed <= 2e-14)
    for nm in "ABCD":
        a, b = getattr(S, nm), getattr(S2, nm)
        e = util.relerr(b, a, max(np.abs(a).max(), 1e-3))
        R.metric("d2c(c2d)", e)
        R.check(e <= tol, f"d2c_c2d_{nm}", f"method={method} n={n} relerr={e:.2e}")
        a, b = getattr(Z, nm), getattr(Z2, nm)
        e = util.relerr(b, a, max(np.abs(a).max(), 1e-3))
        R.metric("c2d(d2c)", e)
        R.check(e <= tol, f"c2d_d2c_{nm}", f"method={method} n={n} relerr={e:.2e}")
    R.check(S2.h is None, "d2c_h")
    E, I1, I2 = expm_ref.expm_integrals(A, h)
    rng = util.rng_of(case["seed"] + 7)
    nt = case["nt"]
    u = rng.integers(-3, 4, (B.shape[1], nt)).astype(float)
    if method in ("zoh", "zoha", "foh"):
        # exactly sampled response; discrete state xi = x - Qh u (documented transformed state)
        if method == "zoh":
            P, Qh = I1 @ B, np.zeros_like(B)
            ueff = [u[:, k] for k in range(nt)]
            Pu = lambda k: P @ u[:, k]                      # noqa: E731
        elif method == "zoha":
            P = Qh = I1 @ B / 2
            Pu = lambda k: (I1 @ B) @ ((u[:, k] + u[:, k + 1]) / 2)   # noqa: E731
        else:
            Qh = (I1 - I2 / h) @ B
            P = (I2 / h) @ B
            Pu = lambda k: P @ u[:, k] + Qh @ u[:, k + 1]   # noqa: E731
        # continuous-time truth, x(0) = Qh u0  (i.e. discrete state starts at zero)
        x = Qh @ u[:, 0]
        y_true = []
        for k in range(nt - 1):
            y_true.append(C @ x + D @ u[:, k])
            x = E @ x + Pu(k)
        # discrete model from zero state
        xi = np.zeros(n)
        y_disc = []
        for k in range(nt - 1):
            y_disc.append(Z.C @ xi + Z.D @ u[:, k])
            xi = Z.A @ xi + Z.B @ u[:, k]
        y_true = np.array(y_true)
        y_disc = np.array(y_disc)
        e = util.relerr(y_disc, y_true, max(np.abs(y_true).max(), 1.0))
        R.metric("sampled_response", e / (util.EPS * nt))
        R.check(e <= 2000 * util.EPS * nt, f"sampled_response_{method}",
                f"n={n} nt={nt} relerr={e:.2e}")
    else:
        k = 2 / h if not pw else pw / np.tan(pw * h / 2)
        I = np.eye(n)
        for zz in case["z"]:
            z = complex(zz[0], zz[1])
            if abs(z + 1) < 0.2:
                continue
            s = k * (z - 1) / (z + 1)
            try:
                Hc = C @ la.solve(s * I - A, B) + D
                Hd = Z.C @ la.solve(z * I - Z.A, Z.B) + Z.D
            except la.LinAlgError:
                continue
            cnd = np.linalg.cond(s * I - A) + np.linalg.cond(z * I - Z.A)
            e = util.relerr(Hd, Hc, max(np.abs(Hc).max(), 1.0))
            R.metric("tustin_tf", e / (util.EPS * cnd))
            R.check(e <= 1000 * util.EPS * cnd, "tustin_tf", f"n={n} z={z} relerr={e:.2e} cond={cnd:.1e}")
        if pw:
            # prewarp: frequency response matches exactly at the prewarp frequency
            z = np.exp(1j * pw * h)
            Hc = C @ la.solve(1j * pw * I - A, B) + D
            Hd = Z.C @ la.solve(z * I - Z.A, Z.B) + Z.D
            e = util.relerr(Hd, Hc, max(np.abs(Hc).max(), 1.0))
            R.check(e <= 1e-9, "tustin_prewarp_freq", f"relerr={e:.2e}")


@st.composite
def ss_cases(draw):
    return {"n": draw(st.integers(1, 5)), "ni": draw(st.integers(1, 3)), "no": draw(st.integers(1, 3)),
            "h": 10.0 ** draw(st.floats(-3, 1)), "seed": draw(st.integers(0, 2 ** 31)),
            "method": draw(st.sampled_from(["zoh", "zoha", "foh", "tustin", "tustin"])),
            "prewarp": draw(st.sampled_from([0, 0.5, 1.0, 2.0])), "nt": draw(st.integers(3, 30)),
            "z": draw(st.lists(st.tuples(st.floats(-2, 2), st.floats(-2, 2)), min_size=1, max_size=4))}


def enum_switch(shard, nshards, tier):
    """every matrix class on both sides of the getEPQ1 / getEPQ2 switch (||Ah||_1 = 2.0978) and well above it,
    order 0/1, B none / matrix / half: getEPQ must stay accurate where getEPQ1's I2 route is not (F11)"""
    k = 0
    for kind in ("dense", "upper", "jordan", "nilpotent_dense", "singular", "singular_upper", "mbk", "stiff", "skew"):
        for norm in (2.0, 2.2, 5.0, 20.0, 100.0, 200.0, 250.0):
            if kind in ("jordan", "nilpotent_dense") and norm > 20.0:
                continue                    # (F40 land: strongly non-normal with a large norm)
            for order in (0, 1):
                for B in ("none", "matrix", "half"):
                    for seed in ((11, 12, 13) if tier == "thorough" else (11,)):
                        # h = 0.5: ||A|| above ||Ah||;  h = 40: ||A||_1 itself below the switch while ||Ah||_1 is
                        # above it (the switch is on ||Ah||_1: slow dynamics, long step)
                        for h in (0.5, 40.0):
                            n = 4 if kind in ("mbk", "stiff") else 3
                            case = {"kind": kind, "n": n, "seed": seed, "norm": norm, "h": h, "order": order,
                                    "B": B, "ncolB": 2, "half_with_B": False}
                            if k % nshards == shard:
                                yield case
                            k += 1


PARTS = [
    Part("switch_grid", oracle_expm, enum=enum_switch, quick=(8, None), thorough=(8, None), exhaustive=True),
    Part("expm", oracle_expm, strategy=expm_cases, quick=(16, 40), thorough=(16, 1500)),
    Part("ssmodel", oracle_ss, strategy=ss_cases, quick=(8, 60), thorough=(16, 1500)),
    # documented defaults: leaving a keyword out = passing its documented value (vlib/defaults.py)
    Part("defaults", defaults.make_oracle("C07"), enum=defaults.make_enum(), quick=(1, None), thorough=(1, None),
         exhaustive=True),
]
