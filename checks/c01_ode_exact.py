"""C01 - exact time-domain solvers (SolveUnc, SolveExp2, SolveExp1) vs closed-form solution."""
import numpy as np
import scipy.linalg as la
from hypothesis import strategies as st

from refs import ode_exact
from vlib import util
from vlib import defaults
from vlib.core import Part

PROPERTY = "C01"
RULE = ("systems drawn in modal space as lists of modes with a regime label (undamped/damped rigid body "
        "around both documented cut-offs, underdamped, near-critical on both sides of the 1e-8 switch, "
        "critical, overdamped up to zeta=1e3, residual flexibility), w*h log-uniform in [1e-3,50], "
        "m None/1-D/2-D, order 0/1, explicit/auto rb, permuted mode order, d0/v0 or static_ic; forms: "
        "diagonal (uncoupled path), modal with non-proportional damping on the elastic block, physical "
        "coupled via a random well-conditioned Phi (with/without pre_eig).  Oracle: 40-digit mpmath "
        "one-step map of the augmented linear system propagated in mpmath (refs/ode_exact), compared on "
        "d, v, a in physical coordinates; equation-of-motion residual; SolveUnc == SolveExp2 == SolveExp1. "
        "Tolerances graded by the documented conditioning (w_d*h, eigenvector cond, damped-rb cut-offs). "
        "The eigen path also gets a zero-stiffness damped mode that is not declared rigid-body (eigenvalues 0 and "
        "-b/m with |lambda| h on both sides of the 5e-5 zero-eigenvalue switch, small steps) and free-decay cases "
        "(zero force, random initial state: only exp(lambda h) is exercised, so the eps/|lambda h|^2 cancellation "
        "of the forcing coefficients does not enter the tolerance); rbd_grid enumerates damped rigid-body modes "
        "across both damping cut-offs x step x order x forced/free.  "
        "Non-trivial: nt>=3, >=1 dynamic mode and a non-zero force after t=0 or a non-zero initial state.")
ASSUME = ["mpmath expm at 40 digits", "repeated eigenvalues are not generated for the complex-eigen path "
          "(documented limitation)"]
KNOWN = {}

EPS = util.EPS


def mode_params(md, h):
    """-> m, b, k of one mode"""
    m = md["m"]
    reg = md["reg"]
    if reg == "rb":
        return m, 0.0, 0.0
    if reg in ("rbd", "slow"):
        return m, 2.0 * md["C"] * m, 0.0
    if "k_exact" in md:            # stiffness given to the bit (threshold cases); md["wh"] is then only descriptive
        k = md["k_exact"]
        w = float(np.sqrt(k / m))
        return m, 2.0 * md["zeta"] * w * m, k
    w = md["wh"] / h
    return m, 2.0 * md["zeta"] * w * m, m * w * w


def build(case):
    h = case["h"]
    modes = case["modes"]
    n = len(modes)
    m = np.array([mode_params(md, h)[0] for md in modes])
    b = np.array([mode_params(md, h)[1] for md in modes])
    k = np.array([mode_params(md, h)[2] for md in modes])
    rb = [i for i, md in enumerate(modes) if md["reg"] in ("rb", "rbd")]
    rf = [i for i, md in enumerate(modes) if md["reg"] == "rf"]
    el = [i for i in range(n) if i not in rb and i not in rf]
    rng = util.rng_of(case["seed"])
    nt = case["nt"]
    F = rng.integers(-4, 5, (n, nt)).astype(float) * case["fscale"]
    if case.get("f0zero"):
        F[:, 0] = 0
    d0 = rng.integers(-3, 4, n).astype(float) * case["icscale"]
    v0 = rng.integers(-3, 4, n).astype(float) * case["icscale"] / h
    if case.get("icform") == "only_d0":
        v0[:] = 0.0
    elif case.get("icform") == "only_v0":
        d0[:] = 0.0
    Bm = np.diag(b)
    if (case["form"] == "nonprop" or case.get("physnonprop")) and len(el) >= 2:
        # SPD perturbation of the damping on the elastic block only
        X = rng.standard_normal((len(el), len(el)))
        P = X @ X.T
        P *= case["cpl"] * np.sqrt(np.outer(b[el] + 1e-3, b[el] + 1e-3)) / np.abs(P).max()
        Bm[np.ix_(el, el)] += P
        if case.get("bgyro"):
            # gyroscopic (skew-symmetric) part: the damping matrix is then not symmetric
            Y = util.rng_of(case["seed"] + 93).standard_normal((len(el), len(el)))
            G = Y - Y.T
            Bm[np.ix_(el, el)] += float(case["bgyro"]) * np.abs(P).max() * G / max(np.abs(G).max(), 1e-300)
    return dict(n=n, m=m, b=b, k=k, Bm=Bm, rb=rb, rf=rf, el=el, F=F, d0=d0, v0=v0, h=h, nt=nt)


def cond_factors(case, S):
    """Conditioning of SolveUnc's closed-form (uncoupled) coefficients, per case.

    Measured on the unchanged tree (DESIGN 3/C01): the coefficients A, B, Ap, Bp carry a relative
    error of about c*eps/x^3, x = h * min(|p1|, |p2|, |p1-p2|/2) over the two poles of the mode
    (x = w_d*h for underdamped modes), c ~ 0.01 for the under/overdamped formulas and ~ 6 for the
    critically damped ones.  x < 1e-3 is out of scope (property statement).
    """
    h = case["h"]
    kap = 1.0
    model = 0.0
    scope = True
    rbd_model = False
    for md in case["modes"]:
        reg = md["reg"]
        if reg in ("under", "over", "nearcrit", "crit"):
            z = md["zeta"]
            wh = md["wh"]
            rat = 1.0 - z * z
            if abs(rat) < 1e-8:              # critical branch (+ model error of the switch itself)
                model = max(model, abs(rat) * max(1.0, wh ** 2))
                x, c = wh, 6.0
            elif z < 1:
                x, c = wh * np.sqrt(rat), 0.01
            else:
                wd = wh * np.sqrt(-rat)
                x, c = min(wh * z - wd, wd), 0.01
            if x < 1e-3:
                scope = False
            kap = max(kap, c / x ** 3)
        elif reg == "rbd":
            C = md["C"]
            bh = 2 * C * h
            if C <= 1e-5 / np.sqrt(h):       # damping ignored (documented cut-off)
                model = max(model, 2 * C * h * case["nt"])
                rbd_model = True
            elif C <= 10 * (1e-10 / h) ** (1 / 3):   # damping ignored for displacement only
                model = max(model, C * h)
                rbd_model = True
                kap = max(kap, 1.0 / bh ** 2)
            else:
                kap = max(kap, 1.0 / bh ** 3)
    return kap, model, scope, rbd_model


def oracle(case, R):
    from pyyeti import ode
    S = build(case)
    n, h, nt, order = S["n"], S["h"], S["nt"], case["order"]
    rb, rf, el = S["rb"], S["rf"], S["el"]
    dyn = [i for i in range(n) if i not in rf]
    form = case["form"]
    for md in case["modes"]:
        R.label("reg=" + md["reg"])
    R.label(f"form={form}", f"order={order}", f"m={case['mform']}", "pre_eig" if case.get("pre_eig") else "no_pre_eig",
            "rb_given" if case.get("rb_given") else "rb_auto", f"ic={case['ic']}")
    free = not np.any(S["F"])
    R.nontrivial(nt >= 3 and len(dyn) >= 1 and
                 (np.any(S["F"][:, 1:] != 0) or (case["ic"] == "random" and (np.any(S["d0"]) or np.any(S["v0"])))))
    if free:
        R.label("free_decay")
    if any(md["reg"] == "slow" for md in case["modes"]):
        R.label("reg=slow:|lambda|h<5e-5" if any(md["reg"] == "slow" and 2 * md["C"] * h < 5e-5 for md in case["modes"])
                else "reg=slow:|lambda|h>=5e-5")

    # ---------- exact modal reference
    Mm, Bm, Km = np.diag(S["m"]), S["Bm"], np.diag(S["k"])
    kfull = False
    if case.get("kskew") and form == "nonprop" and len(el) >= 2:
        # circulatory (non-symmetric) part in the stiffness of the elastic block: follower loads, feedback terms.
        # Small against the softest mode, so that the generated systems stay (nearly) stable
        rk_ = util.rng_of(case["seed"] + 91)
        Y_ = rk_.standard_normal((len(el), len(el)))
        G_ = Y_ - Y_.T
        Km = Km.copy()
        Km[np.ix_(el, el)] += float(case["kskew"]) * np.abs(S["k"][el]).min() * G_ / max(np.abs(G_).max(), 1e-300)
        kfull = True
        R.label("stiffness:nonsymmetric")
    ic = case["ic"]
    d0 = S["d0"].copy() if ic == "random" else None
    v0 = S["v0"].copy() if ic == "random" else None
    if d0 is not None:
        d0[rf] = 0.0
        v0[rf] = 0.0
    F = S["F"]
    dref = np.zeros((n, nt))
    vref = np.zeros((n, nt))
    aref = np.zeros((n, nt))
    d0r = np.zeros(n) if d0 is None else d0
    v0r = np.zeros(n) if v0 is None else v0
    if ic == "static":
        d0r = np.zeros(n)
        if el:
            d0r[el] = la.solve(Km[np.ix_(el, el)], F[el, 0])
    if dyn:
        ix = np.ix_(dyn, dyn)
        dd, vv, aa = ode_exact.exact_history(Mm[ix], Bm[ix], Km[ix], F[dyn], d0r[dyn], v0r[dyn], h, order)
        dref[dyn], vref[dyn], aref[dyn] = dd, vv, aa
    for i in rf:
        dref[i] = F[i] / S["k"][i]

    # ---------- hand the problem to the solvers
    kapPhi = 1.0
    Phi = None
    if form == "physical":
        rng = util.rng_of(case["seed"] + 5)
        Q1, _ = np.linalg.qr(rng.standard_normal((n, n)))
        Q2, _ = np.linalg.qr(rng.standard_normal((n, n)))
        s = 10.0 ** rng.uniform(-0.5, 0.5, n)
        Phi = Q1 @ np.diag(s) @ Q2.T
        iP = la.inv(Phi)
        M_in = iP.T @ Mm @ iP
        B_in = iP.T @ Bm @ iP
        K_in = iP.T @ Km @ iP
        if not np.array_equal(Bm, Bm.T):
            Bs_, Bk_ = iP.T @ ((Bm + Bm.T) / 2) @ iP, iP.T @ ((Bm - Bm.T) / 2) @ iP
            B_in = (Bs_ + Bs_.T) / 2 + (Bk_ - Bk_.T) / 2       # symmetric and skew parts cleaned of round-off separately
            R.label("damping:nonsymmetric")
        else:
            B_in = (B_in + B_in.T) / 2
        M_in, K_in = (M_in + M_in.T) / 2, (K_in + K_in.T) / 2
        F_in = iP.T @ F
        kapPhi = np.linalg.cond(Phi) ** 2
        if case.get("pre_eig"):
            # eigenvectors of (K, M) are accurate to eps*|K|/gap: forces leak between modes by that
            # angle (matters for soft modes next to rigid-body modes, e.g. static initial conditions)
            lam_ = np.sort(np.where(S["k"] == 0, 0.0, S["k"] / S["m"]))
            gaps = np.diff(np.unique(lam_))
            if len(gaps):
                kapPhi *= 1.0 + lam_.max() / gaps.min()
        tr = lambda q: Phi @ q                     # noqa: E731
        d0_in = None if d0 is None else Phi @ d0
        v0_in = None if v0 is None else Phi @ v0
        rb_in = rf_in = None
        if not case.get("pre_eig"):
            # physical matrices without pre_eig: no rb/rf modes are generated; the documented
            # auto-detection (|k| < 0.005) must not be left to guess from physical stiffness values
            rb_in = []
        if rf:
            # after pre_eig modes are sorted by eigenvalue: rf modes are the highest ones
            lam = np.where(S["k"] == 0, 0, S["k"] / S["m"])
            orderidx = np.argsort(lam, kind="stable")
            rf_in = sorted(int(np.nonzero(orderidx == i)[0][0]) for i in rf)
    else:
        perm = np.arange(n)
        if case.get("perm"):
            perm = util.rng_of(case["seed"] + 9).permutation(n)
        inv = np.argsort(perm)
        pm = np.ix_(perm, perm)
        mv, Bp, kv = S["m"][perm], Bm[pm], S["k"][perm]
        F_in = F[perm]
        # force samples in the caller's own container: integer-valued histories as an integer array or nested
        # lists (the solvers must compute in floating point whatever the dtype of the samples)
        F_call, lab_ = util.repack(F_in, case.get("fpack", "same"))
        R.label("force:" + lab_)
        d0_in = None if d0 is None else d0[perm]
        v0_in = None if v0 is None else v0[perm]
        tr = lambda q: q                           # noqa: E731
        diagB = bool(np.all(Bp == np.diag(np.diag(Bp))))
        mform = case["mform"]
        if mform == "none":
            M_in = None          # masses are 1 in this case (generator guarantees it)
        elif mform == "vec":
            M_in = mv
        else:
            M_in = np.diag(mv)
        B_in = np.diag(Bp).copy() if (diagB and case.get("bvec", True)) else Bp
        K_in = kv if case.get("kvec", True) else np.diag(kv)
        if kfull:
            K_in = Km[pm]
        rb_in = sorted(int(inv[i]) for i in rb) if case.get("rb_given") else None
        rf_in = sorted(int(inv[i]) for i in rf) if rf else None
        dref, vref, aref = dref[perm], vref[perm], aref[perm]
        if case.get("rb_given") and not rb:
            rb_in = []
    if "F_call" not in locals():
        F_call = F_in
    # equivalent ways of stating the initial conditions: None ("zero ic's are used") or an explicit zero vector,
    # one of the two left out when it is zero
    icf = case.get("icform", "asis")
    if ic == "zero" and icf in ("zeros_d0", "zeros_both"):
        d0_in = np.zeros(n)
    if ic == "zero" and icf in ("zeros_v0", "zeros_both"):
        v0_in = np.zeros(n)
    if ic == "random" and icf == "only_d0":
        v0_in = None
    if ic == "random" and icf == "only_v0":
        d0_in = None
    R.label("icform:" + (icf if ic != "static" else "static"))
    pre_eig = bool(case.get("pre_eig"))
    dphys, vphys, aphys = tr(dref), tr(vref), tr(aref)
    sc_d = max(np.abs(dphys).max(), 1e-300)
    sc_v = max(np.abs(vphys).max(), 1e-300)
    sc_a = max(np.abs(aphys).max(), 1e-300)
    kap_unc, model, scope, rbd_model = cond_factors(case, S)
    coupled = form != "diag"
    if coupled and el:
        # eigenvector conditioning of the elastic state matrix (complex-eigen path)
        ix = np.ix_(el, el)
        A = np.block([[-la.solve(Mm[ix], Bm[ix]), -la.solve(Mm[ix], Km[ix])],
                      [np.eye(len(el)), np.zeros((len(el), len(el)))]]) * h
        lam, V = la.eig(A)
        V = V / np.linalg.norm(V, axis=0)
        # an exactly zero eigenvalue (zero-stiffness mode with damping, e.g. a damped rigid-body motion handed
        # to the eigen path) is integrated exactly; eigenvalues with 0 < |lambda| < 5e-5 are treated as zero by
        # the code (documented trial-and-error switch): keep a decade away from it
        nz = np.abs(lam) > 1e-13 * max(1.0, np.abs(lam).max())
        xmin = np.abs(lam[nz]).min() if np.any(nz) else 1.0
        if xmin / h < 5e-4:
            R.label("out_of_domain:eig_path_near_rb_switch")
            return
        # the forcing coefficients of the eigen path cancel like eps/|lambda h|^2; the homogeneous part
        # (exp(lambda h)) does not, so free decay is held to the eigenvector conditioning alone
        kap_eig = np.linalg.cond(V) * (1.0 + np.abs(lam).max()) / (1.0 if free else min(1.0, xmin ** 2))
        gap = np.min(np.abs(lam[:, None] - lam[None, :]) + np.eye(len(lam)) * 1e9) / max(1.0, np.abs(lam).max())
        if gap < 1e-6:
            R.label("out_of_domain:repeated_roots")
            return
    else:
        kap_eig = 1.0

    # natural magnitudes: the acceleration is recovered from equilibrium, so its error scales with
    # the size of the terms |M^-1|(|F| + |B||v| + |K||d|); a velocity changes by h times that per step
    Mo_ = np.eye(n) if M_in is None else (np.diag(M_in) if np.ndim(M_in) == 1 else np.asarray(M_in))
    Bo_ = np.diag(B_in) if np.ndim(B_in) == 1 else np.asarray(B_in)
    Ko_ = np.diag(K_in) if np.ndim(K_in) == 1 else np.asarray(K_in)
    iMo = np.abs(la.inv(Mo_))
    term_a = (iMo @ (np.abs(F_in) + np.abs(Bo_) @ np.abs(vphys) + np.abs(Ko_) @ np.abs(dphys))).max()
    sc_a = max(sc_a, term_a)
    sc_v = max(sc_v, h * term_a)
    sc_d = max(sc_d, h * h * term_a * 1e-3)
    if rbd_model:
        T = h * (nt - 1)
        sc_v = max(sc_v, T * term_a)
        sc_d = max(sc_d, T * T * term_a)

    whmax = max([md.get("wh", 0.0) for md in case["modes"]] + [1.0])
    nat0 = (np.abs(d0r).max() + h * np.abs(v0r).max()
            + h * h * np.abs(F / np.where(S["m"] > 0, S["m"], 1.0)[:, None]).max())
    nat_in = {"d": nat0 * kapPhi, "v": nat0 * whmax / h * kapPhi, "a": nat0 * (whmax / h) ** 2 * kapPhi}

    def compare(sol, name, kap, extra_rel=0.0):
        # documented: "t : Time vector: np.arange(d.shape[1])*h" (one time stamp per column, exactly these)
        if hasattr(sol, "t"):
            t_ = np.asarray(sol.t)
            R.check(t_.shape == (nt,) and np.array_equal(t_, h * np.arange(nt)) and sol.h == h, f"{name}_time_vector",
                    f"h={h!r} nt={nt}: len(t)={t_.shape} t[-1]={t_[-1] if t_.size else None!r}")
        for q, ref, sc in (("d", dphys, sc_d), ("v", vphys, sc_v), ("a", aphys, sc_a)):
            got = np.asarray(getattr(sol, q))
            if got.shape != ref.shape:
                R.fail(f"{name}_{q}_shape", f"{got.shape} vs {ref.shape}")
                continue
            e = np.abs(got - ref).max() / sc
            if not np.isfinite(e):
                e = np.inf
            # noise floor CTOL for well-conditioned cases; the graded part (kappa >> 1) is measured
            # to stay below ~10*kappa*eps*nt, so it gets the smaller constant CKAP
            cfac = (CTOL + CKAP * (kap - 1.0)) * (10.0 if form == "physical" else 1.0)
            # the model error (critical-damping switch, documented rigid-body damping cut-offs) is relative to the
            # magnitude of what goes in - initial state and force - not to a response that may nearly cancel
            mrel = extra_rel * max(1.0, nat_in[q] / sc) if extra_rel else 0.0
            tol = cfac * EPS * nt * kapPhi + 3 * mrel
            R.metric(f"{name}_{q}/(eps*nt*kappa)", (e - 3 * mrel) / (EPS * nt * kap * kapPhi))
            R.check(e <= tol, f"{name}_{q}",
                    f"form={form} order={order} regs={[m_['reg'] for m_ in case['modes']]} relerr={e:.3e} "
                    f"tol={tol:.3e} kappa={kap:.3g} kapPhi={kapPhi:.3g} model={extra_rel:.2e}")
        # equation of motion on the dynamic rows, original matrices, physical coordinates
        if pre_eig or form == "physical":
            Mo, Bo, Ko = M_in, B_in, K_in
            if not rf:
                res = Mo @ sol.a + Bo @ sol.v + Ko @ sol.d - F_in
                mag = (np.abs(Mo) @ np.abs(sol.a) + np.abs(Bo) @ np.abs(sol.v) + np.abs(Ko) @ np.abs(sol.d)
                       + np.abs(F_in)).max()
                r = np.abs(res).max() / max(mag, 1e-300)
                R.metric(f"{name}_eom/eps", r / (EPS * kapPhi))
                R.check(r <= 1000 * EPS * kapPhi, f"{name}_eom", f"residual={r:.2e}")
        else:
            Mo = np.diag(np.ones(n) if M_in is None else (M_in if np.ndim(M_in) == 1 else np.diag(M_in)))
            Bo = np.diag(B_in) if np.ndim(B_in) == 1 else B_in
            Ko = np.diag(K_in) if np.ndim(K_in) == 1 else K_in
            rows = [i for i in range(n) if rf_in is None or i not in rf_in]
            res = (Mo @ sol.a + Bo @ sol.v + Ko @ sol.d - F_in)[rows]
            mag = (np.abs(Mo) @ np.abs(sol.a) + np.abs(Bo) @ np.abs(sol.v) + np.abs(Ko) @ np.abs(sol.d)
                   + np.abs(F_in))[rows].max() if rows else 1.0
            r = np.abs(res).max() / max(mag, 1e-300) if rows else 0.0
            R.metric(f"{name}_eom/eps", r / EPS)
            R.check(r <= 1000 * EPS, f"{name}_eom", f"residual={r:.2e}")

    static_ic = ic == "static"
    # "index or bool partition vector": the same sets as list / array / listed in another order / mask
    rb_call, l1 = util.partition_form(rb_in, n, case.get("ppack", "list"), case["seed"] + 31)
    rf_call, l2 = util.partition_form(rf_in, n, case.get("ppack", "list"), case["seed"] + 32)
    if case.get("rb_perm") and rb_in:
        rb_call, l1 = np.array(rb_in)[case["rb_perm"]], "listed"
    if case.get("rf_perm") and rf_in:
        rf_call, l2 = np.array(rf_in)[case["rf_perm"]], "listed"
    R.label("partition:" + (l1 if l1 != "asis" else l2))
    kw = dict(rb=rb_call, rf=rf_call, order=order, pre_eig=pre_eig)
    sols = {}
    # SolveExp2: any step size
    ts2 = ode.SolveExp2(M_in, B_in, K_in, h, **kw)
    sols["se2"] = ts2.tsolve(F_call, d0_in, v0_in, static_ic=static_ic)
    nrmA = max(1.0, h * np.linalg.norm(np.block([[-la.solve(Mo_, Bo_), -la.solve(Mo_, Ko_)],
                                                  [np.eye(n), np.zeros((n, n))]]), 1))
    compare(sols["se2"], "SolveExp2", nrmA * (kap_eig if coupled else 1.0) ** 0)
    # SolveUnc
    tsu = ode.SolveUnc(M_in, B_in, K_in, h, **kw)
    sols["su"] = tsu.tsolve(F_call, d0_in, v0_in, static_ic=static_ic)
    R.label("su_unc" if tsu.unc else "su_coupled")
    # a solver object is reusable: a second, different load case on the SAME instances equals the answer of
    # fresh instances (no state may leak from one solve into the next)
    if case.get("reuse"):
        F2 = np.asarray(F_in, float)[:, ::-1] * 0.5 + 1.0
        for nm_, old_, cls_ in (("SolveExp2", ts2, ode.SolveExp2), ("SolveUnc", tsu, ode.SolveUnc)):
            again = old_.tsolve(F2, d0_in, v0_in, static_ic=static_ic)
            fresh = cls_(M_in, B_in, K_in, h, **kw).tsolve(F2, d0_in, v0_in, static_ic=static_ic)
            R.check(all(np.array_equal(getattr(again, q_), getattr(fresh, q_)) for q_ in "dva"),
                    f"{nm_}_second_solve_differs_from_fresh_instance")
        R.label("reuse")
    if tsu.unc and any(md["reg"] == "slow" for md in case["modes"]):
        R.label("out_of_domain:undeclared_zero_stiffness_mode_on_uncoupled_path")
    elif tsu.unc and tsu.systype is float:
        if scope:
            compare(sols["su"], "SolveUnc_unc", kap_unc, model)
        else:
            R.label("su_out_of_scope(wdh<1e-3)")
    else:
        compare(sols["su"], "SolveUnc_eig", kap_eig)
    # SolveExp1 on the dynamic part (no rf, no rb partition needed)
    if not rf and form != "physical" and ic != "static":
        A = ode.make_A(M_in, B_in, K_in)
        ts1 = ode.SolveExp1(A, h, order=order)
        Fm = F_in if M_in is None else (F_in / M_in[:, None] if np.ndim(M_in) == 1 else la.solve(M_in, F_in))
        f1 = np.vstack((Fm, np.zeros_like(Fm)))
        if M_in is None and F_call is not F_in:
            f1 = np.vstack((np.asarray(F_call), np.zeros_like(np.asarray(F_call))))   # dtype of the samples
            if isinstance(F_call, list):
                f1 = f1.tolist()
            elif not np.asarray(F_call).flags.writeable:
                f1.flags.writeable = False
        y0 = np.r_[np.zeros(n) if v0_in is None else v0_in, np.zeros(n) if d0_in is None else d0_in]
        s1 = ts1.tsolve(f1, y0)
        from types import SimpleNamespace
        compare(SimpleNamespace(d=s1.d[n:], v=s1.d[:n], a=s1.v[:n], t=s1.t, h=s1.h), "SolveExp1", nrmA)


CKAP = 1000.0
CTOL = 3000.0    # calibrated: worst normalised error on the unchanged tree ~10 in general (see evidence) and 1350
#                  where the terms of one step nearly cancel (zero initial state, F0 = -1, F1 = 2 under first-order
#                  hold: A F0 + B F1 with A ~ 2 B), the response being its own scale; regress chk-one-step-cancellation


REGS = ["under", "under", "over", "crit", "nearcrit", "rb", "rbd", "rf"]
# "slow": zero stiffness + damping, NOT declared rigid-body (eigen path: eigenvalues 0 and -b/m), b/m from just
# above the zero-eigenvalue switch (5e-5) upwards, i.e. |lambda| h on both sides of 5e-5 for small steps


@st.composite
def mode(draw, h, allow, mass_one):
    reg = draw(st.sampled_from([r for r in REGS + ["slow"] if r in allow]))
    md = {"reg": reg, "m": 1.0 if mass_one else draw(st.sampled_from([1.0, 0.5, 2.0, 10.0, 0.1]))}
    if reg in ("under", "over", "crit", "nearcrit", "rf"):
        md["wh"] = 10.0 ** draw(st.floats(-2, 1.7)) if draw(st.integers(0, 4)) else 10.0 ** draw(st.floats(-3, -2))
    if reg == "under":
        md["zeta"] = draw(st.sampled_from([0.0, 1e-4, 0.01, 0.02, 0.1, 0.5, 0.9, 0.99]))
    elif reg == "over":
        md["zeta"] = 1.0 + 10.0 ** draw(st.floats(-3, 3))
    elif reg == "crit":
        md["zeta"] = 1.0
    elif reg == "nearcrit":
        dlt = draw(st.sampled_from([0.5e-8, 0.99e-8, 1.01e-8, 1e-6, 1e-4])) * draw(st.sampled_from([1, -1]))
        md["zeta"] = float(np.sqrt(1.0 - dlt))
        md["wh"] = 10.0 ** draw(st.floats(-1, 1.5))
    elif reg == "rf":
        md["zeta"] = draw(st.sampled_from([0.0, 0.05, 2.0]))
        md["wh"] = 10.0 ** draw(st.floats(0.5, 2))
    elif reg == "slow":
        # lambda = -2C with |lambda| h on both sides of 5e-5 (atoms next to it), |lambda| >= 1e-3
        x = 5e-5 * draw(st.sampled_from([0.03, 0.1, 0.3, 0.6, 0.9, 0.99, 1.01, 1.1, 2.0, 5.0, 20.0, 100.0, 1e3, 1e4]))
        md["C"] = float(0.5 * max(x / h, 1e-3))
    elif reg == "rbd":
        c1 = 1e-5 / np.sqrt(h)
        c2 = 10 * (1e-10 / h) ** (1 / 3)
        md["C"] = float(draw(st.sampled_from([c1, c1, c2, c2, (c1 * c2) ** 0.5, c1 * 5, c1 * 30, 1.0, 10.0]))
                        * draw(st.sampled_from([0.5, 0.99, 1.01, 2.0])))
    return md


@st.composite
def cases(draw, form):
    h = 10.0 ** draw(st.floats(-3, 0))
    mform = draw(st.sampled_from(["none", "vec", "mat"])) if form != "physical" else "mat"
    if form == "diag":
        allow = REGS
        nmax = 6
    elif form == "nonprop":
        allow = ["under", "over", "rb", "rf"]
        nmax = 4
        slow = draw(st.integers(0, 3)) == 0
        if slow:
            h = 10.0 ** draw(st.floats(-3, -1.5))      # small steps: |lambda| h < 5e-5 with |lambda| >= 1e-3
    else:
        allow = ["under", "over", "rb", "rf"]
        nmax = 4
    n = draw(st.integers(1, nmax))
    modes = [draw(mode(h, allow, mform == "none")) for _ in range(n)]
    if form != "diag" and n >= 2 and draw(st.integers(0, 3)):
        # make sure the complex-eigen path usually has something to couple
        for i in (0, 1):
            if modes[i]["reg"] not in ("under", "over"):
                modes[i] = draw(mode(h, ["under", "over"], mform == "none"))
    has_slow = False
    if form == "nonprop" and slow and n >= 3:
        # one zero-stiffness damped mode in the elastic block of a system that takes the eigen path (two
        # coupled elastic modes besides it; on the uncoupled path such a mode has to be declared rigid-body:
        # regime "rbd").  Auto-detection of rigid-body modes (|k| and |b| < 0.005) must not claim it:
        # b = 2 C m >= 0.02 unless the rb set is given explicitly
        for i in (0, 1):
            if modes[i]["reg"] not in ("under", "over"):
                modes[i] = draw(mode(h, ["under", "over"], mform == "none"))
        modes[-1] = draw(mode(h, ["slow"], mform == "none"))
        has_slow = True
    rb_given = draw(st.booleans()) if form != "physical" else False
    if has_slow and 2.0 * modes[-1]["C"] * modes[-1]["m"] < 0.02:
        rb_given = True
    # auto-detection of rb needs elastic k >= 0.005 (documented rule): keep k >= 0.02
    if not rb_given or form == "physical":
        for md in modes:
            if "wh" in md:
                w = md["wh"] / h
                # (after pre_eig the modal stiffness is w^2, otherwise it is m*w^2)
                mk = 1.0 if form == "physical" else md["m"]
                if mk * w * w < 0.02:
                    md["wh"] = float(np.sqrt(0.02 / mk) * h * 1.5)
    if form in ("nonprop", "physical"):
        # distinct frequencies (documented: repeated roots are a problem for the eigen path)
        seen = []
        for md in modes:
            if "wh" in md:
                while any(abs(md["wh"] / s - 1) < 0.05 for s in seen):
                    md["wh"] *= 1.13
                seen.append(md["wh"])
        if form == "physical":
            # rf after pre_eig must be the highest modes
            mx = max([md["wh"] for md in modes if md["reg"] != "rf" and "wh" in md] + [0.0])
            for md in modes:
                if md["reg"] == "rf" and md["wh"] <= mx * 1.2:
                    md["wh"] = mx * 1.5
                    mx = md["wh"]
    has_rb = any(md["reg"] in ("rb", "rbd") for md in modes)
    has_rf = any(md["reg"] == "rf" for md in modes)
    pre_eig = (form == "physical") and (has_rb or has_rf or draw(st.booleans()))
    ic = draw(st.sampled_from(["zero", "random", "random", "static"]))
    fscale = draw(st.sampled_from([1.0, 1e-3, 1e3, 1.0, 0.0, 1e-10, 1e9]))
    if has_slow and ic == "static":
        ic = "random"
    if has_slow and draw(st.booleans()):
        fscale = 0.0
    if fscale == 0.0:
        ic = "random"
    return {"ppack": draw(st.sampled_from(util.PART_FORMS)),
            "icform": draw(st.sampled_from(["asis", "asis", "zeros_d0", "zeros_v0", "zeros_both", "only_d0", "only_v0"])),
            "kskew": draw(st.sampled_from([0.0, 0.0, 0.1, 0.3])) if form == "nonprop" else 0.0,
            "bgyro": draw(st.sampled_from([0.0, 0.0, 0.5, 2.0])) if form in ("nonprop", "physical") else 0.0,
            "form": form, "h": h, "modes": modes, "nt": draw(st.integers(2, 40)),
            "order": draw(st.sampled_from([0, 1])), "seed": draw(st.integers(0, 2 ** 31)),
            "mform": mform, "rb_given": rb_given, "perm": draw(st.booleans()),
            "bvec": draw(st.booleans()), "kvec": draw(st.booleans()), "pre_eig": pre_eig, "ic": ic,
            "fscale": fscale, "icscale": draw(st.sampled_from([1.0, 1e-2])),
            "f0zero": draw(st.booleans()), "cpl": draw(st.sampled_from([0.05, 0.3, 0.8])),
            "physnonprop": form == "physical" and draw(st.booleans()),
            "fpack": draw(st.sampled_from(util.PACKS)), "reuse": draw(st.integers(0, 2)) == 0}


def enum_rbd(shard, nshards, tier):
    """damped rigid-body modes on a grid across both documented cut-offs (C = b/2m relative to
    c1 = 1e-5/sqrt(h) and c2 = 10 (1e-10/h)^(1/3)) x step x order x forced / free decay, alone and next to an
    elastic mode"""
    k = 0
    for h in (1e-3, 1e-2, 0.1, 1.0):
        c1 = 1e-5 / np.sqrt(h)
        c2 = 10 * (1e-10 / h) ** (1 / 3)
        for C in [c1 * f for f in (0.5, 0.99, 1.01, 2.0, 5.0, 30.0, 100.0, 300.0)] + \
                 [c2 * f for f in (0.5, 0.99, 1.01, 2.0, 10.0)] + [1.0, 10.0]:
            for order in (0, 1):
                for fscale in (1.0, 0.0):
                    for extra in (False, True):
                        modes = [{"reg": "rbd", "m": 2.0, "C": float(C)}]
                        if extra:
                            modes.append({"reg": "under", "m": 1.0, "wh": 0.3, "zeta": 0.02})
                        case = {"form": "diag", "h": h, "modes": modes, "nt": 40, "order": order, "seed": 1000 + k,
                                "mform": "vec", "rb_given": True, "perm": False, "bvec": True, "kvec": True,
                                "pre_eig": False, "ic": "random", "fscale": fscale, "icscale": 1.0, "f0zero": False,
                                "cpl": 0.05, "physnonprop": False}
                        if k % nshards == shard:
                            yield case
                        k += 1


def enum_partitions(shard, nshards, tier):
    """every listing order of a 4-mode residual-flexibility set (and both of a 2-mode rigid-body set) x the three
    blocks in every order (all partitions contiguous) and interleaved, uncoupled and coupled damping: the order in
    which the caller lists the modes of a set does not change the answer"""
    import itertools
    k = 0
    blocks = {"rb": [{"reg": "rb", "m": 1.0}, {"reg": "rb", "m": 0.5}],
              "el": [{"reg": "under", "m": 1.0, "wh": 0.3, "zeta": 0.02}, {"reg": "over", "m": 2.0, "wh": 0.9, "zeta": 1.6}],
              "rf": [{"reg": "rf", "m": 1.0, "wh": 20.0 * (1 + 0.37 * j), "zeta": 0.05} for j in range(4)]}
    layouts = [list(p) for p in itertools.permutations(["rb", "el", "rf"])] + [["mixed"]]
    for form in ("diag", "nonprop"):
        for lay in layouts:
            if lay == ["mixed"]:
                modes = [blocks["rf"][0], blocks["rb"][0], blocks["el"][0], blocks["rf"][1], blocks["rf"][2],
                         blocks["el"][1], blocks["rb"][1], blocks["rf"][3]]
            else:
                modes = [md for b_ in lay for md in blocks[b_]]
            for rfp in itertools.permutations(range(4)):
                for rbp in ([0, 1], [1, 0]):
                    k += 1
                    if tier == "quick" and k % 5 and tuple(rfp) not in ((0, 2, 1, 3), (3, 1, 2, 0), (1, 0, 3, 2)):
                        continue                      # quick tier: a fifth of the grid + the nearly sorted orders
                    if k % nshards != shard:
                        continue
                    mform = ["vec", "mat", "none"][k % 3]
                    yield {"form": form, "h": 0.05,
                           "modes": [dict(md, m=1.0) if mform == "none" else dict(md) for md in modes], "nt": 8,
                           "order": k % 2, "seed": 9000 + k, "mform": mform, "rb_given": True, "perm": False,
                           "bvec": bool(k % 2), "kvec": bool((k // 2) % 2), "pre_eig": False,
                           "ic": ["zero", "random", "static"][k % 3], "fscale": 1.0, "icscale": 1.0, "f0zero": False,
                           "cpl": 0.3, "physnonprop": False, "fpack": "same", "reuse": False, "ppack": "list",
                           "rf_perm": list(rfp), "rb_perm": rbp}


def enum_rb_threshold(shard, nshards, tier):
    """the documented automatic rigid-body rule is strict: rb = nonzero(abs(k) < 0.005).  A mode whose stiffness is
    0.005 exactly (or one ulp above) is elastic; uncoupled systems, rb not given, every mass form, order, kind of
    initial condition, alone or next to a true rigid-body mode and an elastic mode"""
    k = 0
    for kx in (0.005, float(np.nextafter(0.005, 1.0))):
        for h in (1.0, 0.5):
            for zeta in (0.0, 0.05):
                for order in (0, 1):
                    for ic in ("zero", "random", "static"):
                        for extra in (False, True):
                            for mform in ("none", "vec", "mat"):
                                md = {"reg": "under", "m": 1.0, "zeta": zeta, "k_exact": kx,
                                      "wh": float(np.sqrt(kx)) * h}
                                modes = [md]
                                if extra:
                                    modes = [{"reg": "rb", "m": 1.0}, md,
                                             {"reg": "under", "m": 1.0, "wh": 0.8, "zeta": 0.02}]
                                case = {"form": "diag", "h": h, "modes": [dict(x) for x in modes], "nt": 40,
                                        "order": order, "seed": 7000 + k, "mform": mform, "rb_given": False,
                                        "perm": False, "bvec": bool(k % 2), "kvec": bool((k // 2) % 2),
                                        "pre_eig": False, "ic": ic, "fscale": 1.0, "icscale": 1.0, "f0zero": False,
                                        "cpl": 0.05, "physnonprop": False, "fpack": "same", "reuse": False,
                                        "ppack": "list"}
                                if k % nshards == shard:
                                    yield case
                                k += 1


@st.composite
def long_cases(draw, form):
    """histories longer than any plausible internal block (4096 / 8192 steps)"""
    c = draw(cases(form))
    c.update(nt=draw(st.sampled_from([4097, 5000, 8193, 12289])), reuse=False)
    c["modes"] = c["modes"][:3]
    return c


def enum_nt(shard, nshards, tier):
    """every history length 2..24 x order x the three model forms (physical with and without the modal
    pre-transformation) x rb / rf present: nothing may depend on the number of samples"""
    k = 0
    for form in ("diag", "nonprop", "physical"):
        for nt in range(2, 25):
            for order in (0, 1):
                for extra in ("none", "rb", "rf"):
                    modes = [{"reg": "under", "m": 1.0, "wh": 0.3, "zeta": 0.02},
                             {"reg": "over", "m": 2.0 if form != "physical" else 1.0, "wh": 0.9, "zeta": 1.6},
                             {"reg": "under", "m": 1.0, "wh": 2.1, "zeta": 0.1}]
                    if extra == "rb":
                        modes.insert(1, {"reg": "rb", "m": 1.0})
                    elif extra == "rf":
                        modes.append({"reg": "rf", "m": 1.0, "wh": 40.0, "zeta": 0.05})
                    case = {"form": form, "h": 0.05, "modes": modes, "nt": nt, "order": order, "seed": 5000 + k,
                            "mform": "mat" if form == "physical" else ["vec", "mat", "none"][k % 3],
                            "rb_given": form != "physical" and bool(k % 2), "perm": False, "bvec": bool(k % 2),
                            "kvec": bool((k // 2) % 2),
                            "pre_eig": form == "physical" and (extra != "none" or bool(k % 2)),
                            "ic": ["zero", "random", "static"][k % 3], "fscale": 1.0, "icscale": 1.0,
                            "f0zero": False, "cpl": 0.3, "physnonprop": form == "physical" and bool((k // 3) % 2),
                            "fpack": "same", "reuse": False, "ppack": "list"}
                    if case["mform"] == "none":
                        for md in modes:
                            md["m"] = 1.0
                    if k % nshards == shard:
                        yield case
                    k += 1


# ---------------------------------------------------------------------------------------------------------
# SolveExp1 on general first-order systems  yd - A y = f  (A need not come from a second-order system)
FO_KINDS = ["dense", "dense", "upper", "upper", "lower", "diag", "scalar", "jordan", "cascade", "zero"]


def _fo_matrix(case):
    rng = util.rng_of(case["seed"])
    n, kind = case["n"], case["kind"]
    if kind == "scalar":
        n = 1
    if kind in ("dense", "scalar"):
        A = rng.standard_normal((n, n))
    elif kind == "upper":
        A = np.triu(rng.standard_normal((n, n)))
    elif kind == "lower":
        A = np.tril(rng.standard_normal((n, n)))
    elif kind == "diag":
        A = np.diag(rng.standard_normal(n))
    elif kind == "jordan":
        A = float(rng.choice([0.0, -1.0, -0.3])) * np.eye(n) + np.diag(np.ones(n - 1), 1)
    elif kind == "cascade":       # chain of first-order lags feeding each other (bidiagonal, upper)
        A = -np.diag(rng.uniform(0.2, 3.0, n)) + np.diag(rng.uniform(0.2, 3.0, n - 1), 1)
    else:
        A = np.zeros((n, n))
    h = case["h"]
    nrm = np.linalg.norm(A, 1)
    if nrm > 0:
        A = A * (case["norm"] / (nrm * h))
        mx = np.linalg.eigvals(A).real.max() * h          # growth per step at most e^0.25
        if mx > 0.25:
            A = A - ((mx - 0.25) / h) * np.eye(n)
    return A, h


def oracle_first_order(case, R):
    from pyyeti import ode
    from refs import expm_ref
    A, h = _fo_matrix(case)
    n = A.shape[0]
    order, nt = case["order"], case["nt"]
    rng = util.rng_of(case["seed"] + 5)
    F = rng.integers(-4, 5, (n, nt)).astype(float) * (1.0 if case["fint"] else rng.uniform(0.1, 2.0))
    if case["zero_force"]:
        F[:] = 0.0
    y0 = rng.standard_normal(n) if case["y0"] else None
    nrmAh = np.linalg.norm(A * h, 1)
    tri = "upper" if np.array_equal(A, np.triu(A)) else ("lower" if np.array_equal(A, np.tril(A)) else "full")
    R.label(f"kind={case['kind']}", f"order={order}", "tri=" + tri, "pade_side" if nrmAh <= 2.0978 else "getEPQ2_side",
            "y0" if case["y0"] else "y0=None", f"n={n}")
    R.nontrivial(np.any(F) and np.any(A))
    E, I1, I2 = expm_ref.expm_integrals(A, h)
    try:
        kexp = float(la.expm_cond(A * h)) if np.any(A) else 1.0
    except Exception:
        kexp = 1.0
    if not np.isfinite(kexp):
        kexp = 1.0
    kap = max(1.0 + nrmAh, kexp)
    if order == 1:
        P, Q = I2 / h, I1 - I2 / h
    else:
        P, Q = I1, np.zeros_like(I1)
    sE = max(np.abs(E).max(), 1.0)
    sP = max(np.abs(P).max() + np.abs(Q).max(), h)
    nE = np.abs(E).sum(axis=1).max()
    delta = 50.0 * EPS * kap        # calibrated: worst measured error/(eps*kappa*scale) on the unchanged tree < 1
    yref = np.zeros((n, nt))
    bound = np.zeros(nt)
    if y0 is not None:
        yref[:, 0] = y0
    for j in range(1, nt):
        yref[:, j] = E @ yref[:, j - 1] + P @ F[:, j - 1] + Q @ F[:, j]
        bound[j] = nE * bound[j - 1] + delta * (sE * np.abs(yref[:, j - 1]).sum()
                                                + sP * (np.abs(F[:, j - 1]).sum() + np.abs(F[:, j]).sum()))
    Acall, lab_ = util.repack(A, case.get("apack", "same"))
    R.label("A:" + lab_)
    ts = ode.SolveExp1(Acall, h, order=order)
    Fcall, flab = util.repack(F, case.get("fpack", "same"))
    sol = ts.tsolve(Fcall, y0)
    R.check(np.array_equal(np.asarray(Fcall, float), F), "SolveExp1_modifies_force")
    R.check(np.array_equal(np.asarray(Acall, float), A), "SolveExp1_modifies_A")
    d = np.asarray(sol.d)
    if d.shape != yref.shape:
        R.fail("SolveExp1_general_shape", f"{d.shape} vs {yref.shape}")
        return
    info = f"kind={case['kind']} tri={tri} n={n} order={order} ||Ah||1={nrmAh:.3g} h={h:.3g} nt={nt}"
    floor = 16 * EPS * max(np.abs(yref).max(), 1e-300)
    err = np.abs(d - yref).max(axis=0)
    worst = float((err / (bound + floor)).max())
    R.metric("SolveExp1_general_d/tol", worst)
    if worst > 1:
        j = int(np.argmax(err / (bound + floor)))
        R.fail("SolveExp1_general_d", f"{info} step {j}: err={err[j]:.3e} tol={bound[j] + floor:.3e}")
    # v is the derivative: yd = A y + f
    vref = A @ yref + F
    nA = np.abs(A).sum(axis=1).max()
    tolv = nA * (bound + floor) + 16 * EPS * np.maximum(np.abs(A) @ np.abs(yref) + np.abs(F), 1e-300).max(axis=0)
    errv = np.abs(np.asarray(sol.v) - vref).max(axis=0)
    wv = float((errv / tolv).max())
    R.metric("SolveExp1_general_v/tol", wv)
    R.check(wv <= 1, "SolveExp1_general_v", f"{info}: worst err/tol={wv:.3g}")
    R.check(np.array_equal(np.asarray(sol.t), h * np.arange(nt)) and sol.h == h, "SolveExp1_general_t")
    # a second solve with the same object gives the same answer
    again = ts.tsolve(Fcall, y0)
    R.check(np.array_equal(again.d, sol.d) and np.array_equal(again.v, sol.v), "SolveExp1_second_solve_differs")


@st.composite
def first_order_cases(draw):
    kind = draw(st.sampled_from(FO_KINDS))
    return {"kind": kind, "n": draw(st.integers(2, 5)), "seed": draw(st.integers(0, 2 ** 31)),
            "h": draw(st.sampled_from([1.0, 0.5, 0.01, 1e-3, 7.0])),
            "norm": draw(st.sampled_from([0.01, 0.2, 0.9, 1.5, 2.0, 2.2, 4.0, 9.0])),
            "order": draw(st.sampled_from([0, 1])), "nt": draw(st.integers(1, 14)),
            "fint": draw(st.booleans()), "zero_force": draw(st.integers(0, 9)) == 0,
            "y0": draw(st.booleans()), "apack": draw(st.sampled_from(["same", "same", "fortran", "strided", "readonly"])),
            "fpack": draw(st.sampled_from(["same", "same", "int", "list", "fortran", "strided", "readonly"]))}


PARTS = [
    Part("rbd_grid", oracle, enum=enum_rbd, quick=(4, None), thorough=(4, None), exhaustive=True),
    Part("nt_grid", oracle, enum=enum_nt, quick=(4, None), thorough=(4, None), exhaustive=True),
    Part("partition_grid", oracle, enum=enum_partitions, quick=(8, None), thorough=(8, None), exhaustive=True),
    Part("rb_threshold_grid", oracle, enum=enum_rb_threshold, quick=(4, None), thorough=(4, None), exhaustive=True),
    Part("diag", oracle, strategy=lambda: cases("diag"), quick=(8, 120), thorough=(16, 2500)),
    Part("nonprop", oracle, strategy=lambda: cases("nonprop"), quick=(8, 80), thorough=(16, 1000)),
    Part("physical", oracle, strategy=lambda: cases("physical"), quick=(8, 80), thorough=(16, 1000)),
    Part("long_diag", oracle, strategy=lambda: long_cases("diag"), quick=(4, 6), thorough=(8, 30)),
    Part("long_nonprop", oracle, strategy=lambda: long_cases("nonprop"), quick=(4, 6), thorough=(8, 30)),
    Part("first_order", oracle_first_order, strategy=first_order_cases, quick=(4, 100), thorough=(16, 1500)),
    # documented defaults: leaving a keyword out = passing its documented value (vlib/defaults.py)
    Part("defaults", defaults.make_oracle("C01"), enum=defaults.make_enum(), quick=(1, None), thorough=(1, None),
         exhaustive=True),
]
