#!/venv/bin/python
"""Entry point.  ./vcheck <Cxx> <quick|thorough>   |   ./vcheck --replay <file>

exit 0: property held on everything explored (known findings are printed)
exit 1: VIOLATION lines printed
exit 2: harness error (never a VIOLATION)
"""
import os
import sys
import traceback

sys.path.insert(0, os.path.dirname(os.path.abspath(__file__)))
os.environ.setdefault("PYTHONHASHSEED", "0")
for _v in ("OMP_NUM_THREADS", "OPENBLAS_NUM_THREADS", "MKL_NUM_THREADS"):
    os.environ.setdefault(_v, "1")

from vlib import core, env  # noqa: E402


def main(argv):
    try:
        if argv and argv[0] == "--worker":
            if str(env.DEPS) not in sys.path:
                sys.path.insert(0, str(env.DEPS))
            return core.worker_main(argv[1:])
        if argv and argv[0] == "--replay":
            return core.replay_file(argv[1])
        if len(argv) != 2 or argv[1] not in ("quick", "thorough"):
            print(__doc__)
            return 2
        return core.parent_main(argv[0].upper(), argv[1])
    except env.HarnessError as e:
        print(f"HARNESS-ERROR {e}")
        return 2
    except Exception:
        print("HARNESS-ERROR unexpected exception in runner")
        traceback.print_exc()
        return 2


if __name__ == "__main__":
    sys.exit(main(sys.argv[1:]))
