"""Environment set-up shared by every check: paths, offline deps, C build.

Nothing here imports pyyeti; `setup_paths()` must run before pyyeti is
imported so that the tree named by VERIF_REPO (default /repo) is the one
under test and so that the rainflow C extension is the one compiled from
that tree's `c_rain.c`.
"""
import hashlib
import importlib.machinery
import importlib.util
import os
import subprocess
import sys
import sysconfig
from pathlib import Path

VERIF = Path(__file__).resolve().parent.parent
REPO = Path(os.environ.get("VERIF_REPO", "/repo")).resolve()
DEPS = VERIF / ".deps"
BUILD = VERIF / ".build"
SCRATCH = VERIF / ".scratch"
WHEELS = "/opt/veriftools/wheels"
PY = "/venv/bin/python"
NPROC = int(os.environ.get("VERIF_NPROC", "16"))


class HarnessError(Exception):
    """Infrastructure problem: exit code 2, never a VIOLATION."""


def ensure_deps(pkgs=("mpmath",)):
    """Install pure offline extras into .deps/ if they are not importable."""
    DEPS.mkdir(exist_ok=True)
    if str(DEPS) not in sys.path:
        sys.path.insert(0, str(DEPS))
    missing = []
    for p in pkgs:
        if importlib.util.find_spec(p) is None:
            missing.append(p)
    if missing:
        cmd = [PY, "-m", "pip", "install", "-q", "--no-index", "--find-links",
               WHEELS, "--target", str(DEPS)] + missing
        r = subprocess.run(cmd, capture_output=True, text=True)
        importlib.invalidate_caches()
        for p in missing:
            if importlib.util.find_spec(p) is None:
                raise HarnessError(
                    f"cannot install {p} offline: {r.stdout}\n{r.stderr}")


def c_rain_source():
    return REPO / "pyyeti" / "rainflow" / "c_rain.c"


def build_c_rain(variant="plain"):
    """Compile c_rain.c of the tree under test; returns the .so path.

    variant: 'plain' (setuptools-like flags), 'asan' (address+UB sanitizer),
    'twopass' (USE_FASTER_RAINFLOW_ROUTINE undefined), 'asan_twopass'.
    """
    import numpy
    src = c_rain_source()
    if not src.exists():
        raise HarnessError(f"{src} not found")
    text = src.read_bytes()
    if "twopass" in variant:
        needle = b"#define USE_FASTER_RAINFLOW_ROUTINE"
        if needle not in text:
            raise HarnessError("macro USE_FASTER_RAINFLOW_ROUTINE not found")
        text = text.replace(needle, b"/* two-pass variant for verification */")
    h = hashlib.sha256(text + variant.encode()).hexdigest()[:16]
    BUILD.mkdir(exist_ok=True)
    so = BUILD / f"c_rain-{variant}-{h}.so"
    if so.exists():
        return so
    csrc = BUILD / f"c_rain-{variant}-{h}.c"
    csrc.write_bytes(text)
    inc = sysconfig.get_paths()["include"]
    flags = ["-O2", "-fPIC", "-shared", "-fwrapv", "-Wall"]
    if "asan" in variant:
        flags = ["-O1", "-g", "-fPIC", "-shared", "-fno-omit-frame-pointer",
                 "-fsanitize=address,undefined",
                 "-fno-sanitize-recover=undefined"]
    tmp = so.with_suffix(f".{os.getpid()}.tmp")
    cmd = ["gcc"] + flags + ["-I", inc, "-I", numpy.get_include(),
                             str(csrc), "-o", str(tmp), "-lm"]
    r = subprocess.run(cmd, capture_output=True, text=True)
    if r.returncode != 0:
        raise HarnessError("c_rain.c does not compile:\n" + r.stderr[-3000:])
    os.replace(tmp, so)
    return so


def load_c_rain(so, name="pyyeti.rainflow.c_rain"):
    loader = importlib.machinery.ExtensionFileLoader(name, str(so))
    spec = importlib.util.spec_from_file_location(name, str(so), loader=loader)
    mod = importlib.util.module_from_spec(spec)
    loader.exec_module(mod)
    return mod


_done = False


def setup_paths(c_variant="plain"):
    """Make `import pyyeti` resolve to REPO with a freshly compiled c_rain."""
    global _done
    if _done:
        return
    for p in (str(VERIF), str(DEPS), str(REPO)):
        if p in sys.path:
            sys.path.remove(p)
        sys.path.insert(0, p)
    if "pyyeti" in sys.modules:
        raise HarnessError("pyyeti imported before setup_paths()")
    so = build_c_rain(c_variant)
    sys.modules["pyyeti.rainflow.c_rain"] = load_c_rain(so)
    import pyyeti  # noqa
    got = Path(pyyeti.__file__).resolve().parent.parent
    if got != REPO:
        raise HarnessError(f"pyyeti imported from {got}, expected {REPO}")
    import pyyeti.rainflow
    pyyeti.rainflow.c_rain = sys.modules["pyyeti.rainflow.c_rain"]
    _done = True
