"""Documented defaults: a call that leaves a keyword out gives, bit for bit, what the same call gives with the
documented value passed explicitly.

Every check has a small enumerated part `defaults` built from this module.  The explicit values below are the ones
the docstrings / signatures of the pinned pyyeti state (they are the *documentation*, hard-coded here on purpose: a
changed default in the code then differs from them).  A scenario returns a list of (label, default_result,
explicit_result); results are compared with `same_bits` (arrays: shape, dtype, every bit; frames: index/columns too).
"""
import io
import os
from types import SimpleNamespace

import numpy as np

from vlib import util


def same_bits(a, b):
    """bit-identical comparison of arbitrary result objects -> (ok, why)"""
    import pandas as pd
    import scipy.sparse as sp
    if isinstance(a, (pd.DataFrame, pd.Series)):
        if type(a) is not type(b) or a.shape != b.shape:
            return False, "frame type/shape"
        if not a.index.equals(b.index):
            return False, "index"
        if isinstance(a, pd.DataFrame) and not a.columns.equals(b.columns):
            return False, "columns"
        return same_bits(a.values, b.values)
    if sp.issparse(a) or sp.issparse(b):
        if not (sp.issparse(a) and sp.issparse(b)) or a.shape != b.shape or a.format != b.format:
            return False, "sparse kind/shape"
        return same_bits(a.toarray(), b.toarray())
    if isinstance(a, np.ndarray):
        if not isinstance(b, np.ndarray) or a.shape != b.shape or a.dtype != b.dtype:
            return False, f"array shape/dtype {getattr(b, 'shape', None)} {getattr(b, 'dtype', None)} vs {a.shape} {a.dtype}"
        if a.dtype.kind in "fc":
            eq = (a == b) | (np.isnan(a) & np.isnan(b))
            return bool(eq.all()), f"{int((~eq).sum())} of {a.size} values differ"
        if a.dtype.kind == "O":
            return same_bits(a.tolist(), b.tolist())
        return bool(np.array_equal(a, b)), "values differ"
    if isinstance(a, SimpleNamespace) or (hasattr(a, "__dict__") and not callable(a) and type(a).__module__ != "builtins"
                                            and not isinstance(a, type)):
        if type(a) is not type(b):
            return False, f"type {type(a).__name__} vs {type(b).__name__}"
        da = {k: v for k, v in vars(a).items() if not k.startswith("_") and not callable(v)}
        db = {k: v for k, v in vars(b).items() if not k.startswith("_") and not callable(v)}
        return same_bits(da, db)
    if isinstance(a, dict):
        if not isinstance(b, dict) or list(a) != list(b):
            return False, f"dict keys {list(a)[:6]} vs {list(b)[:6] if isinstance(b, dict) else type(b)}"
        for k in a:
            ok, why = same_bits(a[k], b[k])
            if not ok:
                return False, f"[{k}] {why}"
        return True, ""
    if isinstance(a, (list, tuple)):
        if not isinstance(b, (list, tuple)) or len(a) != len(b):
            return False, "length/type"
        for i, (x, y) in enumerate(zip(a, b)):
            ok, why = same_bits(x, y)
            if not ok:
                return False, f"[{i}] {why}"
        return True, ""
    if isinstance(a, float) and isinstance(b, float) and np.isnan(a) and np.isnan(b):
        return True, ""
    try:
        return bool(a == b), f"{a!r} vs {b!r}"
    except Exception:      # noqa: BLE001
        return False, "not comparable"


def _sys(rng, n=4, nrb=1):
    """free-free-like modal system with full (coupled) damping: m, b, k 2-d"""
    w = 2 * np.pi * np.sort(rng.uniform(0.8, 6.0, n))
    w[:nrb] = 0.0
    m = np.eye(n)
    k = np.diag(w ** 2)
    b = np.diag(2 * 0.03 * w)
    X = rng.standard_normal((n - nrb, n - nrb))
    P = X @ X.T
    b[nrb:, nrb:] += 0.02 * P / np.abs(P).max() * np.sqrt(np.outer(np.diag(b)[nrb:], np.diag(b)[nrb:]))
    return m, b, k


def _text(fn):
    f = io.StringIO()
    fn(f)
    return f.getvalue()


# ------------------------------------------------------------------------------------------- scenarios
def s_c01(k):
    from pyyeti import ode
    rng = util.rng_of(100 + k)
    m, b, kk = _sys(rng, 4, 1 if k % 2 else 0)
    h = 0.01
    F = rng.integers(-4, 5, (4, 12)).astype(float)
    out = []
    for nm, cls in (("SolveUnc", ode.SolveUnc), ("SolveExp2", ode.SolveExp2)):
        kw = dict(rb=None, rf=None, order=1, pre_eig=False)
        if nm == "SolveUnc":
            kw["cd_as_force"] = False
        a = cls(m, b, kk, h).tsolve(F)
        e = cls(m, b, kk, h, **kw).tsolve(F, d0=None, v0=None, static_ic=False)
        out.append((nm, a, e))
        md, bd, kd = np.diag(m).copy(), np.diag(b).copy(), np.diag(kk).copy()
        out.append((nm + "_diag", cls(md, bd, kd, h).tsolve(F), cls(md, bd, kd, h, **kw).tsolve(F, None, None, False)))
    A = ode.make_A(m, b, kk)
    f1 = np.vstack((F, np.zeros_like(F)))
    out.append(("SolveExp1", ode.SolveExp1(A, h).tsolve(f1), ode.SolveExp1(A, h, order=1).tsolve(f1, d0=None)))
    return out


def s_c02(k):
    from pyyeti import ode
    rng = util.rng_of(200 + k)
    m, b, kk = _sys(rng, 4, 1)
    freq = np.array([0.0, 0.5, 1.3, 4.0, 9.0])[(k % 2):]
    F = rng.integers(-4, 5, (4, len(freq))) + 1j * rng.integers(-4, 5, (4, len(freq)))
    out = []
    su = ode.SolveUnc(m, b, kk)
    out.append(("SolveUnc.fsolve", su.fsolve(F, freq), su.fsolve(F, freq, incrb="dva", rf_disp_only=False)))
    if 0.0 not in freq:
        fd = ode.FreqDirect(m, b, kk)
        out.append(("FreqDirect.fsolve", fd.fsolve(F, freq), fd.fsolve(F, freq, incrb="dva", rf_disp_only=False)))
        out.append(("FreqDirect()", ode.FreqDirect(m, b, kk).fsolve(F, freq),
                    ode.FreqDirect(m, b, kk, rb=None, rf=None).fsolve(F, freq)))
    fq = np.array([0.5, 1.0, 2.0, 3.0, 5.0])
    fpsd = np.abs(rng.standard_normal((2, len(fq)))) + 0.1
    T = rng.standard_normal((4, 2))
    drm = rng.standard_normal((3, 4))
    a = ode.solvepsd(ode.SolveUnc(m, b, kk), fpsd, T, fq, [[drm, None, None, None]])
    e = ode.solvepsd(ode.SolveUnc(m, b, kk), fpsd, T, fq, [[drm, None, None, None]], rbduf=1.0, elduf=1.0)
    out.append(("solvepsd", a, e))
    return out


def s_c03(k):
    from pyyeti import srs
    rng = util.rng_of(300 + k)
    sr = 1000.0
    sig = rng.standard_normal((400, 2 if k % 2 else 1))
    if k % 3 == 0:
        sig = sig[:, 0]
    freq = np.array([10.0, 35.0, 80.0, 120.0, 200.0])     # sr / max(freq) = 5 < 12: the roll-off default matters
    Q = 10
    out = [("srs", srs.srs(sig, sr, freq, Q),
            srs.srs(sig, sr, freq, Q, ic="zero", stype="absacce", peak="abs", ppc=12, rolloff="lanczos", eqsine=False,
                    time="primary", getresp=False, parallel="auto", maxcpu=14)),
           ("srs_getresp", srs.srs(sig, sr, freq, Q, getresp=True, parallel="no"),
            srs.srs(sig, sr, freq, Q, ic="zero", stype="absacce", peak="abs", ppc=12, rolloff="lanczos", eqsine=False,
                    time="primary", getresp=True, parallel="no"))]
    ff = np.arange(1.0, 300.0, 3.0)
    frf = 1.0 / (1 + 1j * ff / 50.0) * (1 + 0.1 * rng.standard_normal(len(ff)))
    sf = np.array([5.0, 20.0, 77.0, 150.0])
    out.append(("srs_frf", srs.srs_frf(frf, ff, sf, Q),
                srs.srs_frf(frf, ff, sf, Q, getresp=False, return_srs_frq=None, scale_by_Q_only=False)))
    spec = np.array([[20.0, 0.0053], [150.0, 0.04], [600.0, 0.04], [2000.0, 0.0036]])
    fr = np.arange(20.0, 2000.0, 10.0)
    out.append(("vrs", srs.vrs(spec, fr, Q, False), srs.vrs(spec, fr, Q, False, Fn=None, getmiles=False, getresp=False)))
    return out


def s_c04(k):
    from pyyeti.nastran import op4
    import scipy.sparse as sp
    rng = util.rng_of(400 + k)
    A = rng.standard_normal((5, 4))
    B = (rng.standard_normal((3, 3)) + 1j * rng.standard_normal((3, 3)))
    C = sp.random(8, 6, 0.3, random_state=int(rng.integers(0, 10 ** 6))).tocsr()
    names, mats = ["a", "b", "c"], [A, B, C]
    p1, p2 = util.tmpfile(f"dflt{k}_1.op4"), util.tmpfile(f"dflt{k}_2.op4")
    op4.write(p1, names, mats)
    op4.write(p2, names, mats, binary=True, digits=16, endian="=", sparse="auto", forms=None)
    b1, b2 = open(p1, "rb").read(), open(p2, "rb").read()
    out = [("op4.write", b1, b2),
           ("op4.load", op4.load(p1), op4.load(p1, namelist=None, into="dct", justmatrix=False, sparse=False)),
           ("op4.read", op4.read(p1), op4.read(p1, namelist=None, into="dct", justmatrix=True, sparse=False)),
           ("op4.write(dict)", None, None)]
    p3 = util.tmpfile(f"dflt{k}_3.op4")
    op4.write(p3, dict(zip(names, mats)))
    out[-1] = ("op4.write(dict)", open(p3, "rb").read(), b2)
    for p in (p1, p2, p3):
        try:
            os.remove(p)
        except OSError:
            pass
    return out


def s_c05(k):
    from pyyeti import cyclecount
    from pyyeti.rainflow import c_rain, py_rain
    rng = util.rng_of(500 + k)
    x = np.round(rng.standard_normal(40) * 8, 2)
    return [("cyclecount.rainflow", cyclecount.rainflow(x), cyclecount.rainflow(x, getoffsets=False, use_pandas=True)),
            ("py_rain.rainflow", py_rain.rainflow(x), py_rain.rainflow(x, getoffsets=False)),
            ("c_rain.rainflow", c_rain.rainflow(x), c_rain.rainflow(x, getoffsets=False))]


def s_c06(k):
    from pyyeti import cb
    from pyyeti.nastran import n2p
    rng = util.rng_of(600 + k)
    # single-point Craig-Bampton model: 6 boundary DOF + 4 modal DOF, mass / stiffness from a rigid body + modes
    nq = 4
    rbm = np.eye(6)
    mbb = np.diag([10.0, 10.0, 10.0, 4.0, 5.0, 6.0])
    L = rng.standard_normal((nq, 6)) * 0.5
    M = np.block([[mbb + L.T @ L, L.T], [L, np.eye(nq)]])
    K = np.zeros((6 + nq, 6 + nq))
    K[6:, 6:] = np.diag((2 * np.pi * np.array([3.0, 5.0, 8.0, 13.0])) ** 2)
    b = np.arange(6)
    out = [("cbconvert", cb.cbconvert(M, b), cb.cbconvert(M, b, conv="m2e", drm=False)),
           ("cbreorder", cb.cbreorder(M, b[::-1].copy()), cb.cbreorder(M, b[::-1].copy(), drm=False, last=False)),
           ("cgmass", cb.cgmass(mbb), cb.cgmass(mbb, all6=False))]
    freq = np.array([1.0, 4.0, 9.0])
    a = np.ones((6, 3)) * np.arange(1, 7)[:, None]
    B = 0.01 * K
    out.append(("cbtf", cb.cbtf(M, B, K, a, freq, b), cb.cbtf(M, B, K, a, freq, b, save=None)))
    uset = n2p.addgrid(None, 1, "b", 0, [0, 0, 0], 0)

    def rep(**kw):
        f = io.StringIO()
        o = cb.cbcheck(f, M, K, b, b, uset, **kw)
        return [f.getvalue(), o.m, o.k, o.bset, o.rbs, o.rbg, o.rbe]
    out.append(("cbcheck", rep(), rep(uref=(0, 0, 0), conv=None, em_filt=0, rb_norm=None, reorder=True,
                                      n_freefree_modes=25)))
    return out


def s_c07(k):
    from pyyeti import expmint, ssmodel
    rng = util.rng_of(700 + k)
    n = 4
    A = rng.standard_normal((n, n)) - 1.5 * np.eye(n)
    h = [0.1, 1.0, 3.0][k % 3]          # both sides of the norm switch
    out = [("expmint", expmint.expmint(A, h), expmint.expmint(A, h, geti2=False))]
    for nm in ("getEPQ", "getEPQ1", "getEPQ2", "getEPQ_pow"):
        fn = getattr(expmint, nm)
        if nm == "getEPQ_pow" and np.linalg.norm(A * h, 1) > 1:
            continue
        out.append((nm, fn(A, h), fn(A, h, order=1, B=None, half=False)))
    S = ssmodel.SSModel(A, rng.standard_normal((n, 2)), rng.standard_normal((1, n)), np.zeros((1, 2)))
    z1, z2 = S.c2d(0.1), S.c2d(0.1, method="foh", prewarp=0)
    out.append(("c2d", z1, z2))
    out.append(("d2c", z1.d2c(), z1.d2c(method="foh", prewarp=0)))
    return out


def s_c08(k):
    from pyyeti import ode
    rng = util.rng_of(800 + k)
    n, nt, h = 3, 8, 0.02
    md = np.ones(n)
    w = 2 * np.pi * np.array([0.0, 1.5, 4.0])
    bd, kd = 2 * 0.05 * w, w ** 2
    F = rng.integers(-4, 5, (n, nt)).astype(float)
    out = []
    for nm, cls in (("SolveUnc", ode.SolveUnc), ("SolveExp2", ode.SolveExp2)):
        res = []
        for kw in ({}, dict(d0=None, v0=None, static_ic=False)):
            ts = cls(md, bd, kd, h)
            gen, d, v = ts.generator(nt, F[:, 0], **kw)
            for i in range(1, nt):
                gen.send((i, F[:, i]))
            res.append(ts.finalize())
        out.append((nm + ".generator", res[0], res[1]))
        ts = cls(md, bd, kd, h)
        gen, d, v = ts.generator(nt, F[:, 0])
        for i in range(1, nt):
            gen.send((i, F[:, i]))
        out.append((nm + ".finalize", ts.finalize(), res[1]))
    return out


def s_c09(k):
    from pyyeti import srs
    rng = util.rng_of(900 + k)
    sig = rng.standard_normal(600)
    freq = np.array([10.0, 30.0, 60.0, 90.0])
    return [("srs parallel", srs.srs(sig, 1000.0, freq, 10, parallel="yes"),
             srs.srs(sig, 1000.0, freq, 10, parallel="yes", maxcpu=14))]


def s_c10(k):
    from pyyeti import cyclecount, fdepsd
    rng = util.rng_of(1000 + k)
    y = np.round(rng.standard_normal(60) * 5, 3)
    y[10:13] = y[10]
    rf = cyclecount.rainflow(y[cyclecount.findap(y)], use_pandas=False)
    out = [("findap", cyclecount.findap(y), cyclecount.findap(y, tol=1e-6)),
           ("binify", cyclecount.binify(rf),
            cyclecount.binify(rf, ampbins=10, meanbins=1, right=True, precision=3, retbins=False, use_pandas=True,
                              check_bounds=True)),
           ("sigcount", cyclecount.sigcount(y),
            cyclecount.sigcount(y, ampbins=10, meanbins=1, right=True, precision=3, retbins=False, use_pandas=True)),
           ("getbins", cyclecount.getbins(4, 7.0, -1.0), cyclecount.getbins(4, 7.0, -1.0, right=True, check_bounds=False))]
    sr = 400.0
    t = np.arange(2000) / sr
    sig = np.sin(2 * np.pi * 22 * t) + 0.3 * rng.standard_normal(len(t))
    fq = np.array([15.0, 22.0, 40.0])
    a = fdepsd.fdepsd(sig, sr, fq, 10, parallel="no")
    e = fdepsd.fdepsd(sig, sr, fq, 10, resp="absacce", detrend=True, winends="auto", hpfilter=5.0, nbins=300, T0=60.0,
                      rolloff="lanczos", ppc=12, parallel="no", maxcpu=14, verbose=False)
    out.append(("fdepsd", a, e))
    return out


def s_c11(k):
    from pyyeti.nastran import op2, op4
    from refs import op2enc
    rng = util.rng_of(1100 + k)
    out = []
    # (op4 readers: C04's scenario covers load / read; here the sparse default of the list interface)
    A = rng.standard_normal((4, 3))
    p = util.tmpfile(f"dflt11_{k}.op4")
    op4.write(p, ["a"], [A], sparse="bigmat")
    out.append(("op4.load(list)", op4.load(p, into="list"), op4.load(p, namelist=None, into="list", sparse=False)))
    os.remove(p)
    data = np.array([3, 1, 4, 1, 5, 9, 2, 6], dtype=np.int32) + k
    blob, info = op2enc.encode([dict(kind="table", name="GEOM1", trailer=(101, 1, 2, 3, 4, 5, 6), name2="GEOM1",
                                     records=[dict(dtype="int", data=data, cuts=[])])],
                               dict(endian="<", bit64=False, header=dict(date=(1, 2, 24), label="XXXXXXXX"), eof=True))
    path = util.tmpfile(f"dflt11_{k}.op2")
    with open(path, "wb") as fh:
        fh.write(blob)
    res = []
    for kw in ({}, dict(form=None, N=0)):
        with op2.OP2(path) as o:
            o.set_position("GEOM1") if hasattr(o, "set_position") else None
            o.rdop2nt()
            o.rdop2record()              # header record (the name again)
            res.append(o.rdop2record(**kw))
    out.append(("rdop2record", res[0], res[1]))
    os.remove(path)
    return out


def s_c12(k):
    from pyyeti import nastran
    txt = ("GRID    1       0       1.0     2.0     3.0     0\n"
           "GRID*                  2               0      4.50000000      5.50000000\n*             6.50000000               0\n"
           "$ comment\n"
           "GRID,3,,7.,8.,9.\n")
    a = nastran.rdcards(io.StringIO(txt), "grid")
    e = nastran.rdcards(io.StringIO(txt), "grid", blank=None, return_var="array", dtype=float, no_data_return=None,
                        regex=False, keep_name=False, keep_comments=False, follow_includes=True, include_symbols=None,
                        include_root_dirs=None)
    b = nastran.rdcards(io.StringIO(txt), "grid", return_var="list")
    e2 = nastran.rdcards(io.StringIO(txt), "grid", blank=None, return_var="list", dtype=float, no_data_return=None,
                         regex=False, keep_name=False, keep_comments=False)
    return [("rdcards(array)", a, e), ("rdcards(list)", b, e2)]


def s_c13(k):
    from pyyeti import nastran
    rng = util.rng_of(1300 + k)
    g = np.array([10, 20, 31])
    t = np.arange(6) * 0.1
    d = np.round(rng.standard_normal(6), 4)
    import pandas as pd
    idx = pd.MultiIndex.from_tuples([(1, 1), (1, 2), (2, 3)], names=["id", "dof"])
    dm = pd.DataFrame(np.round(rng.standard_normal((3, 3)), 3), index=idx, columns=idx)
    dm = (dm + dm.T) / 2
    txt = _text(lambda f: nastran.wtdmig(f, {"kaa": dm}))
    return [("wtgrids", _text(lambda f: nastran.wtgrids(f, g)),
             _text(lambda f: nastran.wtgrids(f, g, cp=0, xyz=np.array([[0.0, 0.0, 0.0]]), cd=0, ps="", seid="",
                                             form="{:16.8f}"))),
            ("wttabled1", _text(lambda f: nastran.wttabled1(f, 5, t, d)),
             _text(lambda f: nastran.wttabled1(f, 5, t, d, title=None, form="{:16.9E}{:16.9E}", tablestr="TABLED1"))),
            ("wtset", _text(lambda f: nastran.wtset(f, 3, list(range(1, 40)) + [77, 90])),
             _text(lambda f: nastran.wtset(f, 3, list(range(1, 40)) + [77, 90], max_length=72))),
            ("rddmig", nastran.rddmig(io.StringIO(txt)),
             nastran.rddmig(io.StringIO(txt), dmig_names=None, expanded=False, square=False, follow_includes=True,
                            include_symbols=None)),
            ("rdgrids", nastran.rdgrids(io.StringIO(_text(lambda f: nastran.wtgrids(f, g)))),
             nastran.rdgrids(io.StringIO(_text(lambda f: nastran.wtgrids(f, g))), follow_includes=True,
                             include_symbols=None))]


def s_c14(k):
    from pyyeti.nastran import n2p
    rng = util.rng_of(1400 + k)
    cyl = np.array([[7, 2, 0], [1.0, 2.0, 0.5], [1.0, 2.0, 3.0], [4.0, 2.5, 0.5]])
    uset = n2p.addgrid(None, 1, "b", 0, [1.0, 2.0, 3.0], 0)
    uset = n2p.addgrid(uset, 2, "b", cyl, [2.0, 30.0, 1.0], cyl)
    uset = n2p.addgrid(uset, 3, "b", 0, rng.uniform(-3, 3, 3).round(3).tolist(), 0)
    grids = uset.iloc[::6, 1:].values
    out = [("rbgeom_uset", n2p.rbgeom_uset(uset), n2p.rbgeom_uset(uset, refpoint=np.array([[0, 0, 0]]))),
           ("rbgeom", n2p.rbgeom(grids), n2p.rbgeom(grids, refpoint=np.array([[0, 0, 0]]))),
           ("formrbe3", n2p.formrbe3(uset, 1, 123456, [123, [2, 3]]),
            n2p.formrbe3(uset, 1, 123456, [123, [2, 3]], UM_List=None)),
           ("getcoordinates", n2p.getcoordinates(uset, 2, 0), n2p.getcoordinates(uset, 2, 0, coordref=None)),
           ("addgrid", n2p.addgrid(None, 5, "b", 0, [1.0, 0.0, 2.0], 0),
            n2p.addgrid(None, 5, "b", 0, [1.0, 0.0, 2.0], 0, coordref=None))]
    return out


def s_c15(k):
    from pyyeti import frclim
    rng = util.rng_of(1500 + k)
    m = np.diag([10.0, 4.0, 3.0])
    kk = 5000.0 * np.array([[1, -1, 0], [-1, 2, -1], [0, -1, 1.0]])
    c = 0.002 * kk
    T = np.zeros((1, 3))
    T[0, 2] = 1.0
    freq = np.array([0.5, 3.0, 8.0, 20.0])
    return [("calcAM", frclim.calcAM([m, c, kk, T], freq), frclim.calcAM([m, c, kk, T], freq, fs=None))]


def s_c16(k):
    from pyyeti import cla
    rng = util.rng_of(1600 + k)
    resp = np.round(rng.standard_normal((4, 9)), 3)
    x = np.arange(9) * 0.5
    mm = cla.maxmin(resp, x)
    n = 3
    m_, b_, k_ = np.ones(n), np.r_[0.0, 0.4, 0.9], np.r_[0.0, 30.0, 90.0]
    sol = SimpleNamespace(a=rng.standard_normal((n, 5)), v=rng.standard_normal((n, 5)), d=rng.standard_normal((n, 5)))
    uf = (1.2, 1.1, 1.3, 1.05)
    return [("apply_uf", cla.apply_uf(sol, uf, m_, b_, k_, 1, None), cla.apply_uf(sol, uf, m_, b_, k_, 1, None, save=None)),
            ("maxmin", mm, cla.maxmin(resp, x))]


def s_c17(k):
    from pyyeti import ode
    rng = util.rng_of(1700 + k)
    m, b, kk = _sys(rng, 3, 0)
    h = 0.01
    F = rng.integers(-4, 5, (3, 10)).astype(float)
    out = [("SolveNewmark", ode.SolveNewmark(m, b, kk, h).tsolve(F),
            ode.SolveNewmark(m, b, kk, h, rf=None).tsolve(F, d0=None, v0=None))]
    md, kd = np.diag(m).copy(), np.diag(kk).copy()
    out.append(("SolveCDF", ode.SolveCDF(md, b, kd, h).tsolve(F),
                ode.SolveCDF(md, b, kd, h, rb=None, rf=None, order=1, pre_eig=False).tsolve(F, d0=None, v0=None,
                                                                                              static_ic=False)))
    return out


def s_c18(k):
    from pyyeti import locate
    from pyyeti.nastran import n2p
    rng = util.rng_of(1800 + k)
    D1 = rng.integers(0, 4, (6, 2))
    D2 = rng.integers(0, 4, (7, 2))
    v = rng.integers(0, 5, 9)
    uset = n2p.addgrid(None, [1, 2], "b", 0, [[0, 0, 0], [1, 1, 1]], 0)
    return [("mat_intersect", locate.mat_intersect(D1, D2), locate.mat_intersect(D1, D2, keep=0)),
            ("find_duplicates", locate.find_duplicates(v), locate.find_duplicates(v, tol=0.0)),
            ("index2slice", locate.index2slice([3, 5, 8]), locate.index2slice([3, 5, 8], strict=False)),
            ("mkdofpv", n2p.mkdofpv(uset, "p", [1, 2]), n2p.mkdofpv(uset, "p", [1, 2], strict=True, grids_only=True)),
            ("expanddof", n2p.expanddof([[1, 123], [2, 0]]), n2p.expanddof([[1, 123], [2, 0]], grids_only=True)),
            ("make_uset", n2p.make_uset([[1, 123456], [2, 0]]), n2p.make_uset([[1, 123456], [2, 0]], nasset=0, xyz=None))]


def s_c19(k):
    from pyyeti import dsp, psd
    rng = util.rng_of(1900 + k)
    spec = np.array([[20.0, 0.0053], [150.0, 0.04], [600.0, 0.04], [2000.0, 0.0036]])
    fq = np.array([10.0, 33.0, 150.0, 700.0, 2500.0])
    P = np.abs(rng.standard_normal(200)) + 0.05
    F = np.arange(200) * 2.0 + 10.0
    x = rng.standard_normal(120)
    t = np.arange(40) * 0.01
    t[7] += 0.003
    t[20] = t[19]
    y = rng.standard_normal(40)
    import contextlib
    buf = io.StringIO()
    with contextlib.redirect_stdout(buf):
        f1 = dsp.fixtime((t, y), sr=100.0)
        f2 = dsp.fixtime((t, y), sr=100.0, negmethod="sort", deldrops=True, dropval=-1.40130E-45, delouttimes=True,
                         delspikes=False, base=None, hold_previous_value=False, previous_value_tol=0.001, getall=False,
                         verbose=True)
    return [("psd.interp", psd.interp(spec, fq), psd.interp(spec, fq, linear=False)),
            ("psd.rescale", psd.rescale(P, F), psd.rescale(P, F, n_oct=3, freq=None, extendends=True, frange=None)),
            ("dsp.resample", dsp.resample(x, 3, 2), dsp.resample(x, 3, 2, axis=-1, beta=14, pts=10, t=None, getfir=False)),
            ("dsp.fixtime", f1, f2)]


def s_c20(k):
    from pyyeti import stats
    p, c, n = [0.9, 0.99, 0.95][k % 3], [0.9, 0.5, 0.95][k % 3], [5, 12, 40][k % 3]
    return [("kdouble", stats.kdouble(p, c, n), stats.kdouble(p, c, n, tol=1e-12))]


SCENARIOS = {"C01": s_c01, "C02": s_c02, "C03": s_c03, "C04": s_c04, "C05": s_c05, "C06": s_c06, "C07": s_c07,
             "C08": s_c08, "C09": s_c09, "C10": s_c10, "C11": s_c11, "C12": s_c12, "C13": s_c13, "C14": s_c14,
             "C15": s_c15, "C16": s_c16, "C17": s_c17, "C18": s_c18, "C19": s_c19, "C20": s_c20}
NCASES = 3


def make_oracle(prop):
    def oracle(case, R):
        import warnings
        with warnings.catch_warnings():
            warnings.simplefilter("ignore")
            trip = SCENARIOS[prop](int(case["k"]))
        R.nontrivial(bool(trip))
        for label, dflt, expl in trip:
            ok, why = same_bits(dflt, expl)
            R.label("defaults:" + label)
            R.check(ok, "default_differs_from_documented_value",
                    f"{label}: the call that leaves the keywords out differs from the call that passes the documented "
                    f"defaults explicitly ({why})")
    return oracle


def make_enum():
    def enum(shard, nshards, tier):
        for k in range(NCASES):
            if k % nshards == shard:
                yield {"k": k}
    return enum
