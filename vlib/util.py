"""Small helpers shared by checks (no pyyeti import)."""
import atexit
import os
import shutil
import tempfile

import numpy as np

_tmp = None


def workdir():
    """per-process scratch directory, removed at exit"""
    global _tmp
    if _tmp is None or not os.path.isdir(_tmp):
        base = "/dev/shm" if os.path.isdir("/dev/shm") and os.access("/dev/shm", os.W_OK) else None
        _tmp = tempfile.mkdtemp(prefix="verif-", dir=base)
        atexit.register(shutil.rmtree, _tmp, ignore_errors=True)
    return _tmp


def tmpfile(name):
    return os.path.join(workdir(), name)


EPS = 2.0 ** -52


def relerr(got, ref, scale=None):
    """max |got-ref| / scale, scale defaults to max|ref| (1 if zero)"""
    got = np.asarray(got)
    ref = np.asarray(ref)
    if got.shape != ref.shape:
        return np.inf
    if got.size == 0:
        return 0.0
    if scale is None:
        scale = np.abs(ref).max()
    if not np.isfinite(scale) or scale == 0:
        scale = 1.0
    d = np.abs(got - ref).max()
    return float(d / scale) if np.isfinite(d) else np.inf


def rng_of(seed):
    return np.random.default_rng(int(seed))
