"""Small helpers shared by checks (no pyyeti import)."""
import atexit
import os
import shutil
import tempfile

import numpy as np

_tmp = None


def workdir():
    """per-process scratch directory, removed at exit"""
    global _tmp
    if _tmp is None or not os.path.isdir(_tmp):
        base = "/dev/shm" if os.path.isdir("/dev/shm") and os.access("/dev/shm", os.W_OK) else None
        _tmp = tempfile.mkdtemp(prefix="verif-", dir=base)
        atexit.register(shutil.rmtree, _tmp, ignore_errors=True)
    return _tmp


def tmpfile(name):
    return os.path.join(workdir(), name)


EPS = 2.0 ** -52


def relerr(got, ref, scale=None):
    """max |got-ref| / scale, scale defaults to max|ref| (1 if zero)"""
    got = np.asarray(got)
    ref = np.asarray(ref)
    if got.shape != ref.shape:
        return np.inf
    if got.size == 0:
        return 0.0
    if scale is None:
        scale = np.abs(ref).max()
    if not np.isfinite(scale) or scale == 0:
        scale = 1.0
    d = np.abs(got - ref).max()
    return float(d / scale) if np.isfinite(d) else np.inf


def rng_of(seed):
    return np.random.default_rng(int(seed))


PACKS = ["same", "same", "int", "list", "fortran", "strided", "readonly"]


def repack(arr, mode):
    """The same numbers in another container / dtype / memory layout, as a caller might hold them.

    mode: same | int (only if every value is an integer < 2**40, else unchanged) | list (nested lists; ints where
    integer-valued) | fortran (column-major copy) | strided (view of every other element of a larger buffer along the
    last axis) | readonly (writeable flag cleared: a routine that only reads its input must not notice).
    -> (object to hand over, label actually applied)"""
    a = np.asarray(arr)
    if mode in ("int", "list"):
        intval = a.dtype.kind in "iu" or (a.dtype.kind == "f" and a.size > 0 and np.all(np.isfinite(a))
                                          and np.all(a == np.round(a)) and np.abs(a).max() < 2 ** 40)
        if mode == "int":
            return (a.astype(np.int64), "int") if intval else (arr, "same")
        return (a.astype(np.int64).tolist() if intval else a.tolist()), "list"
    if mode == "fortran" and a.ndim >= 2:
        return np.asfortranarray(a.copy()), "fortran"
    if mode == "strided" and a.ndim >= 1 and a.shape[-1] > 0:
        big = np.full(a.shape[:-1] + (2 * a.shape[-1],), 7.5, dtype=a.dtype)
        big[..., ::2] = a
        return big[..., ::2], "strided"
    if mode == "readonly":
        b = a.copy()
        b.flags.writeable = False
        return b, "readonly"
    return arr, "same"


PART_FORMS = ["list", "list", "array", "shuffled", "shuffled", "bool", "int32"]


def partition_form(idx, n, mode, seed=0):
    """An index partition vector (rb / rf ...) in another of its documented forms ("index or bool partition
    vector"): list | array | shuffled (the same DOF listed in another order) | bool (mask of length n) | int32.
    None and the empty list (which carry a meaning of their own) are returned unchanged.  -> (object, label)"""
    if idx is None or len(idx) == 0:
        return idx, "asis"
    a = np.asarray(idx, dtype=np.int64)
    if mode == "array":
        return a.copy(), "array"
    if mode == "int32":
        return a.astype(np.int32), "int32"
    if mode == "shuffled":
        if len(a) < 2:
            return a.copy(), "array"
        p = rng_of(seed).permutation(len(a))
        if np.all(p == np.arange(len(a))):
            p = p[::-1]
        return a[p], "shuffled"
    if mode == "bool":
        m = np.zeros(n, bool)
        m[a] = True
        return m, "bool"
    return list(idx), "list"
