"""Runner core: parts, per-case results, workers, merge, evidence, exit codes.

A check module (checks/cXX_*.py) defines

    PROPERTY = "C05"
    RULE     = "how cases are generated; what makes one non-trivial"
    ASSUME   = [...]                       # trusted base / assumptions
    PARTS    = [Part(...), ...]
    KNOWN    = {"F7": predicate(case, kind, detail) -> bool, ...}

A Part couples a case source with an oracle:

    Part(name, oracle, strategy=<callable returning a hypothesis strategy>,
         quick=(shards, examples_per_shard), thorough=(shards, examples))
    Part(name, oracle, enum=<callable (shard, nshards, tier) -> iterator of cases>,
         quick=(shards, None), thorough=(shards, None), exhaustive=True)

Cases are plain JSON-able values (dict/list/str/int/float/bool/None), so a
failing case is its own replay file.  `oracle(case, R)` reports through R:
R.label(), R.nontrivial(), R.fail(kind, detail), R.metric(name, value).
"""
import hashlib
import json
import math
import os
import subprocess
import sys
import time
import traceback
import warnings
from collections import Counter
from pathlib import Path

from . import env

MAX_KEEP = 3          # failing cases kept per bucket and worker


class Part:
    def __init__(self, name, oracle, strategy=None, enum=None,
                 quick=(4, 100), thorough=(16, 1000), exhaustive=False,
                 tmax_quick=300.0, tmax_thorough=1500.0, c_variant="plain",
                 preload_asan=False, tiers=("quick", "thorough"), fuzz=None):
        self.name = name
        self.oracle = oracle
        self.strategy = strategy
        self.enum = enum
        self.quick = quick
        self.thorough = thorough
        self.exhaustive = exhaustive
        self.tmax = {"quick": tmax_quick, "thorough": tmax_thorough}
        self.c_variant = c_variant
        self.preload_asan = preload_asan
        self.tiers = tiers
        # fuzz = dict(modules=[...], runs=N, time=seconds): coverage-guided (atheris/libFuzzer) driving
        # of the SAME hypothesis strategy + oracle through test.hypothesis.fuzz_one_input
        self.fuzz = fuzz

    def plan(self, tier):
        return self.quick if tier == "quick" else self.thorough


class Result:
    """What one oracle execution reports."""

    def __init__(self):
        self.labels = []
        self.nontriv = False
        self.fails = []
        self.metrics = {}

    def label(self, *names):
        self.labels.extend(str(n) for n in names)

    def nontrivial(self, flag=True):
        self.nontriv = self.nontriv or bool(flag)

    def fail(self, kind, detail=""):
        self.fails.append((str(kind), str(detail)[:600]))

    def metric(self, name, value):
        try:
            v = float(value)
        except Exception:
            return
        if math.isnan(v):
            v = math.inf
        if v > self.metrics.get(name, -math.inf):
            self.metrics[name] = v

    def check(self, ok, kind, detail=""):
        if not ok:
            self.fail(kind, detail)
        return ok


def canon(case):
    return json.dumps(case, sort_keys=True, allow_nan=True, default=_jdefault)


def _jdefault(o):
    import numpy as np
    if isinstance(o, np.generic):
        return o.item()
    if isinstance(o, np.ndarray):
        return o.tolist()
    if isinstance(o, complex):
        return {"re": o.real, "im": o.imag}
    if isinstance(o, (set, frozenset, tuple)):
        return list(o)
    return repr(o)


def _finite(o):
    """strict-JSON form: non-finite floats become strings"""
    if isinstance(o, float) and not math.isfinite(o):
        return repr(o)
    if isinstance(o, dict):
        return {k: _finite(v) for k, v in o.items()}
    if isinstance(o, list):
        return [_finite(v) for v in o]
    return o


def chash(case):
    return hashlib.blake2b(canon(case).encode(), digest_size=8).hexdigest()


def where_in_pyyeti(tb):
    """innermost frame that lies in the pyyeti package (bucketing key)"""
    hit = None
    for fr in traceback.extract_tb(tb):
        if "/pyyeti/" in fr.filename and "/verif/" not in fr.filename:
            hit = f"{Path(fr.filename).name}:{fr.name}"
    return hit


def run_oracle(part, case, known_preds):
    """Execute the oracle on one case -> (Result, unknown_fails, known_ids)"""
    R = Result()
    try:
        with warnings.catch_warnings():
            warnings.simplefilter("ignore")
            part.oracle(case, R)
    except Exception as e:  # an escaping exception is a failure of the case
        w = where_in_pyyeti(e.__traceback__)
        last = traceback.extract_tb(e.__traceback__)[-1]
        R.fail(f"exc:{type(e).__name__}@{w or 'oracle:' + last.name}",
               f"{e!r} at {Path(last.filename).name}:{last.lineno}")
    unknown, known = [], []
    for kind, detail in R.fails:
        kid = None
        for fid, pred in known_preds.items():
            try:
                if pred(case, kind, detail):
                    kid = fid
                    break
            except Exception:
                pass
        if kid is None:
            unknown.append((kind, detail))
        else:
            known.append(kid)
    return R, unknown, known


class Recorder:
    def __init__(self):
        self.evaluations = 0
        self.hashes = set()
        self.classes = Counter()
        self.known_hits = Counter()
        self.buckets = {}      # kind -> list of [size, case, detail]
        self.bucket_n = Counter()
        self.samples = []
        self.metrics = {}
        self.skipped_time = 0
        self.t0 = time.time()

    def add(self, case, R, unknown, known):
        self.evaluations += 1
        for lb in R.labels:
            self.classes[lb] += 1
        if R.nontriv:
            h = chash(case)
            if h not in self.hashes:
                self.hashes.add(h)
                if len(self.samples) < 4 and (len(canon(case)) <= 1500
                                              or not self.samples):
                    self.samples.append(case)
        for k in known:
            self.known_hits[k] += 1
        for m, v in R.metrics.items():
            if v > self.metrics.get(m, -math.inf):
                self.metrics[m] = v
        seen = set()
        for kind, detail in unknown:
            if kind in seen:
                continue
            seen.add(kind)
            self.bucket_n[kind] += 1
            lst = self.buckets.setdefault(kind, [])
            lst.append([len(canon(case)), case, detail])
            lst.sort(key=lambda x: x[0])
            del lst[MAX_KEEP:]

    def dump(self, path, extra=None):
        out = dict(
            evaluations=self.evaluations, hashes=sorted(self.hashes),
            classes=dict(self.classes), known_hits=dict(self.known_hits),
            buckets=self.buckets, bucket_n=dict(self.bucket_n),
            samples=self.samples, metrics=self.metrics,
            skipped_time=self.skipped_time, wall=time.time() - self.t0)
        if extra:
            out.update(extra)
        tmp = str(path) + ".tmp"
        with open(tmp, "w") as f:
            json.dump(out, f, default=_jdefault, allow_nan=True)
        os.replace(tmp, path)


def load_module(prop):
    import importlib
    hits = sorted((env.VERIF / "checks").glob(f"{prop.lower()}_*.py"))
    if not hits:
        raise env.HarnessError(f"no check module for {prop}")
    return importlib.import_module(f"checks.{hits[0].stem}")


def known_preds_for(mod, prop):
    """predicates of findings that the committed file lists as status=known"""
    kf = json.loads((env.VERIF / "known_findings.json").read_text())
    active = {}
    listed = []
    for f in kf["findings"]:
        if f["property"] != prop:
            continue
        listed.append(f)
        if f["status"] == "known":
            pred = getattr(mod, "KNOWN", {}).get(f["id"])
            if pred is None:
                raise env.HarnessError(
                    f"known finding {f['id']} has no predicate in {mod.__name__}")
            active[f["id"]] = pred
    return active, listed


# ---------------------------------------------------------------- worker

def worker_main(argv):
    """run_check.py --worker prop part shard nshards n seed tier out [bucket]"""
    prop, pname, shard, nshards, n, seed, tier, out = argv[:8]
    bucket = argv[8] if len(argv) > 8 else None
    shard, nshards, seed = int(shard), int(nshards), int(seed)
    n = None if n == "None" else int(n)
    if pname.startswith("fuzz_") and bucket is None:
        shift_bounded_integers()       # before the check module builds its module-level strategies
    mod = load_module(prop)
    part = next(p for p in mod.PARTS if p.name == pname)
    env.setup_paths(part.c_variant)
    preds, _ = known_preds_for(mod, prop)
    rec = Recorder()
    tmax = float(os.environ.get("VERIF_TMAX", part.tmax[tier]))
    tend = time.time() + tmax
    shrink_out = {"case": None, "detail": None}

    def one(case):
        if bucket is None and time.time() > tend:
            rec.skipped_time += 1
            return
        R, unknown, known = run_oracle(part, case, preds)
        rec.add(case, R, unknown, known)
        if bucket is not None:
            for kind, detail in unknown:
                if kind == bucket:
                    shrink_out["case"], shrink_out["detail"] = case, detail
                    with open(out, "w") as f:
                        json.dump(shrink_out, f, default=_jdefault)
                    raise AssertionError(kind)

    if part.fuzz is not None and bucket is None:
        return fuzz_worker(part, one, rec, out, seed, shard, n, tier)
    if part.enum is not None:
        for case in part.enum(shard, nshards, tier):
            one(case)
    else:
        import hypothesis
        from hypothesis import HealthCheck, Phase, given, settings
        phases = [Phase.generate] if bucket is None else \
            [Phase.generate, Phase.shrink]
        st = settings(max_examples=n, database=None, deadline=None,
                      derandomize=False, report_multiple_bugs=False,
                      print_blob=False, phases=phases,
                      suppress_health_check=list(HealthCheck))

        import zlib
        pseed = seed * 1000 + shard + (zlib.crc32(pname.encode()) % 9973) * 1000003

        @hypothesis.seed(pseed)
        @st
        @given(part.strategy())
        def test(case):
            one(case)

        try:
            test()
        except AssertionError:
            if bucket is None:
                raise
        except hypothesis.errors.Unsatisfiable as e:
            raise env.HarnessError(f"generator unsatisfiable: {e}")
    if bucket is None:
        rec.dump(out)
    return 0


def shift_bounded_integers():
    """Work-around for the byte-string provider of hypothesis 6.168 (used by fuzz_one_input): draw_integer
    compares the raw bits with [min_value, max_value] without adding min_value, so integers(101, 110) is
    never satisfied (the buffer overruns) and integers(-5, 5) never yields a negative value.  Under the
    fuzz tier bounded integers(lo, hi) with lo != 0 are drawn as lo + integers(0, hi - lo)."""
    import hypothesis.strategies as hst
    orig = hst.integers
    if getattr(orig, "_verif_shifted", False):
        return

    def integers(min_value=None, max_value=None):
        if min_value is not None and max_value is not None and min_value != 0:
            lo = int(min_value)
            return orig(0, int(max_value) - lo).map(lambda v, lo=lo: v + lo)
        return orig(min_value, max_value)
    integers._verif_shifted = True
    hst.integers = integers


def fuzz_worker(part, one, rec, out, seed, shard, n, tier="quick"):
    """coverage-guided tier: libFuzzer mutates the byte stream that Hypothesis turns into cases.

    atheris.Fuzz() never returns (libFuzzer exits the process, atexit handlers do not run), so the
    recorder is dumped from inside the callback; the oracle runs in collect mode (never raises), the
    saved failing cases are plain JSON like everywhere else.
    """
    import importlib
    import shutil
    import tempfile
    env.ensure_deps(("atheris",))
    import atheris
    from hypothesis import HealthCheck, given, settings
    with atheris.instrument_imports(include=list(part.fuzz.get("modules", []))):
        for m in part.fuzz.get("modules", []):
            importlib.import_module(m)
    runs = int(n or part.fuzz.get("runs", 20000))
    state = {"k": 0}
    shift_bounded_integers()

    def cb(case):
        one(case)
        state["k"] += 1
        k = state["k"]
        if k in (1, 5, 20, 100) or k % 250 == 0 or k >= runs - 1:
            rec.dump(out, extra={"fuzz_runs": k})

    test = settings(database=None, deadline=None, suppress_health_check=list(HealthCheck))(
        given(part.strategy())(cb))
    corpus = tempfile.mkdtemp(prefix="verif-corpus-")
    # starting corpus: a few pseudo-random byte strings long enough for Hypothesis to build whole
    # cases from (an empty corpus leaves libFuzzer with buffers too short for structured cases)
    import numpy as np
    srng = np.random.default_rng(seed * 1000 + shard)
    for i in range(24):
        ln = int(srng.choice([64, 256, 1024, 4096]))
        with open(os.path.join(corpus, f"seed{i:02d}"), "wb") as f:
            f.write(srng.integers(0, 256, ln, dtype=np.uint8).tobytes())
    rec.dump(out, extra={"fuzz_runs": 0})
    argv = [sys.argv[0], corpus, f"-runs={runs}", f"-max_total_time={int(part.fuzz.get('time_thorough', 300) if tier == 'thorough' else part.fuzz.get('time', 30))}",
            f"-seed={seed * 1000 + shard + 1}", "-max_len=4096", "-print_final_stats=0", "-verbosity=0"]
    try:
        atheris.Setup(argv, test.hypothesis.fuzz_one_input)
        atheris.Fuzz()
    finally:
        shutil.rmtree(corpus, ignore_errors=True)
    return 0


# ---------------------------------------------------------------- parent

def _spawn(prop, part, shard, nshards, n, seed, tier, out, bucket=None):
    cmd = [env.PY, str(env.VERIF / "run_check.py"), "--worker", prop,
           part.name, str(shard), str(nshards), str(n), str(seed), tier,
           str(out)]
    if bucket:
        cmd.append(bucket)
    e = dict(os.environ)
    e.setdefault("PYTHONHASHSEED", "0")
    e["OMP_NUM_THREADS"] = e["OPENBLAS_NUM_THREADS"] = e["MKL_NUM_THREADS"] = "1"
    if part.preload_asan:
        lib = subprocess.run(["gcc", "-print-file-name=libasan.so"],
                             capture_output=True, text=True).stdout.strip()
        e["LD_PRELOAD"] = lib
        e["ASAN_OPTIONS"] = "detect_leaks=0:abort_on_error=0:exitcode=66"
        e["UBSAN_OPTIONS"] = "halt_on_error=1:exitcode=66"
    log = open(str(out) + ".log", "w")
    return subprocess.Popen(cmd, stdout=log, stderr=subprocess.STDOUT, env=e,
                            cwd=str(env.VERIF))


def run_jobs(jobs, nproc):
    """jobs: list of dict(args for _spawn). returns list of (job, rc)"""
    pending = list(jobs)
    running = []
    done = []
    while pending or running:
        while pending and len(running) < nproc:
            j = pending.pop(0)
            running.append((j, _spawn(**j["spawn"]), time.time()))
        time.sleep(0.05)
        still = []
        for j, p, t0 in running:
            rc = p.poll()
            if rc is None:
                if time.time() - t0 > j["hard_timeout"]:
                    p.kill()
                    p.wait()
                    done.append((j, -999))
                else:
                    still.append((j, p, t0))
            else:
                done.append((j, rc))
        running = still
    return done


def save_replay(prop, part, kind, case, detail):
    d = out_dir() / "replays" / prop
    d.mkdir(parents=True, exist_ok=True)
    h = chash([kind, case])
    safe = "".join(c if c.isalnum() else "_" for c in kind)[:60]
    path = d / f"{part}-{safe}-{h}.json"
    with open(path, "w") as f:
        json.dump(dict(property=prop, part=part, kind=kind, detail=detail,
                       case=case), f, default=_jdefault, indent=1)
    return relpath(path)


def out_dir():
    return Path(os.environ.get("VERIF_OUT_DIR", str(env.VERIF)))


def relpath(path):
    try:
        return Path(path).relative_to(env.VERIF)
    except ValueError:
        return Path(path)


def replay_file(path):
    env.ensure_deps()
    data = json.loads(Path(path).read_text())
    prop = data["property"]
    mod = load_module(prop)
    part = next(p for p in mod.PARTS if p.name == data["part"])
    env.setup_paths(part.c_variant)
    preds, _ = known_preds_for(mod, prop)
    R, unknown, known = run_oracle(part, data["case"], preds)
    for kind, detail in R.fails:
        print(f"  fail kind={kind} detail={detail}")
    if known:
        print(f"  (matches known finding(s) {sorted(set(known))})")
    if unknown:
        print(f"VIOLATION property={prop} replay={path}")
        return 1
    print(f"replay {path}: property held "
          f"(labels={R.labels[:8]} nontrivial={R.nontriv})")
    return 0


def regress_cases(prop):
    d = env.VERIF / "regress" / prop
    return sorted(d.glob("*.json")) if d.exists() else []


def trunc_sample(case, limit=1500):
    s = canon(case)
    if len(s) <= limit:
        return case
    return {"truncated_json": s[:limit] + "...", "json_length": len(s)}


def parent_main(prop, tier):
    t0 = time.time()
    seed = int(os.environ.get("VERIF_SEED", "1"))
    env.ensure_deps()
    mod = load_module(prop)
    # compile before fan-out so that a compile error is one harness error
    for v in sorted({p.c_variant for p in mod.PARTS}):
        env.build_c_rain(v)
    preds, listed = known_preds_for(mod, prop)
    scratch = env.SCRATCH / f"{prop}-{os.getpid()}"
    scratch.mkdir(parents=True, exist_ok=True)
    jobs = []
    only = os.environ.get("VERIF_PARTS")
    for part in mod.PARTS:
        if tier not in part.tiers:
            continue
        if only and part.name not in only.split(","):
            continue
        shards, n = part.plan(tier)
        scale = float(os.environ.get("VERIF_SCALE", "1"))
        if n is not None:
            n = max(1, int(n * scale))
        for s in range(shards):
            out = scratch / f"{part.name}-{s}.json"
            jobs.append(dict(
                part=part, shard=s, out=out,
                hard_timeout=part.tmax[tier] * 2 + 120,
                spawn=dict(prop=prop, part=part, shard=s, nshards=shards,
                           n=n, seed=seed, tier=tier, out=out)))
    done = run_jobs(jobs, env.NPROC)

    evaluations = 0
    hashes = set()
    classes = Counter()
    known_hits = Counter()
    metrics = {}
    samples = []
    skipped = 0
    per_part = {}
    buckets = {}           # (part, kind) -> [size, case, detail, job]
    bucket_n = Counter()
    harness_errors = []
    crash_violations = []
    for j, rc in done:
        part = j["part"]
        logtxt = ""
        try:
            logtxt = Path(str(j["out"]) + ".log").read_text()[-3000:]
        except Exception:
            pass
        if rc == 66 and part.preload_asan:
            crash_violations.append((part, j, logtxt))
            continue
        if rc != 0 or not j["out"].exists():
            if rc < 0 and rc != -999 and getattr(mod, "CRASH_IS_VIOLATION", False):
                crash_violations.append((part, j, logtxt))
            else:
                harness_errors.append(
                    f"worker {part.name}#{j['shard']} rc={rc}\n{logtxt}")
            continue
        d = json.loads(j["out"].read_text())
        evaluations += d["evaluations"]
        pp = per_part.setdefault(part.name, dict(evaluations=0, nontrivial=set(),
                                                 wall=0.0))
        pp["evaluations"] += d["evaluations"]
        pp["nontrivial"].update(d["hashes"])
        pp["wall"] = max(pp["wall"], d["wall"])
        hashes.update(part.name + ":" + h for h in d["hashes"])
        classes.update({f"{part.name}:{k}": v for k, v in d["classes"].items()})
        known_hits.update(d["known_hits"])
        skipped += d["skipped_time"]
        for m, v in d["metrics"].items():
            key = f"{part.name}:{m}"
            if v > metrics.get(key, -math.inf):
                metrics[key] = v
        for c in d["samples"]:
            if sum(1 for s in samples if s["part"] == part.name) < 3:
                samples.append(dict(part=part.name, case=trunc_sample(c)))
        for kind, lst in d["buckets"].items():
            bucket_n[(part.name, kind)] += d["bucket_n"][kind]
            for size, case, detail in lst:
                cur = buckets.get((part.name, kind))
                if cur is None or size < cur[0]:
                    buckets[(part.name, kind)] = [size, case, detail, j]

    # regression tier: literal replays that must hold on a correct tree
    reg_n = 0
    violations = []
    for path in regress_cases(prop):
        data = json.loads(path.read_text())
        part = next((p for p in mod.PARTS if p.name == data["part"]), None)
        if part is None:
            harness_errors.append(f"regress file {path} names unknown part")
            continue
        r = subprocess.run([env.PY, str(env.VERIF / "run_check.py"),
                            "--replay", str(path)], capture_output=True,
                           text=True, cwd=str(env.VERIF))
        reg_n += 1
        evaluations += 1
        expect = data.get("expect", "pass")
        if r.returncode == 1 and expect == "pass":
            violations.append((f"regress:{path.stem}",
                               path.relative_to(env.VERIF), r.stdout[-400:]))
        elif r.returncode not in (0, 1):
            harness_errors.append(f"replay of {path} failed:\n{r.stdout}{r.stderr}")

    # shrink one representative of each unknown bucket
    do_shrink = os.environ.get("VERIF_NOSHRINK") is None
    cap = 45 if tier == "quick" else 280
    shr_jobs = []
    for (pname, kind), (size, case, detail, j) in sorted(buckets.items())[:6]:
        part = j["part"]
        if part.strategy is None or not do_shrink:
            continue
        out = scratch / f"shrink-{pname}-{chash(kind)}.json"
        sp = dict(j["spawn"])
        sp.update(out=out, bucket=kind)
        shr_jobs.append(dict(part=part, shard=j["shard"], out=out,
                             hard_timeout=cap, spawn=sp, key=(pname, kind)))
    if shr_jobs:
        run_jobs(shr_jobs, env.NPROC)
        for sj in shr_jobs:
            try:
                d = json.loads(sj["out"].read_text())
                if d.get("case") is not None and \
                        len(canon(d["case"])) <= buckets[sj["key"]][0]:
                    buckets[sj["key"]][1] = d["case"]
                    buckets[sj["key"]][2] = d["detail"]
            except Exception:
                pass
    for (pname, kind), (size, case, detail, j) in sorted(buckets.items()):
        path = save_replay(prop, pname, kind, case, detail)
        violations.append((f"{pname}:{kind} x{bucket_n[(pname, kind)]}",
                           path, detail))
    for part, j, logtxt in crash_violations:
        d = out_dir() / "replays" / prop
        d.mkdir(parents=True, exist_ok=True)
        path = d / f"{part.name}-crash-shard{j['shard']}.log"
        path.write_text(logtxt)
        violations.append((f"{part.name}:crash/sanitizer",
                           relpath(path), logtxt[-300:]))

    distinct = len(hashes)
    wall = time.time() - t0
    ev = dict(
        property_id=prop, tier=tier, seed=seed, level="exploration",
        coverage=dict(
            evaluations=evaluations, distinct_nontrivial=distinct,
            rule=mod.RULE, samples=samples[:10],
            exhaustive=bool(any(p.exhaustive and tier in p.tiers
                                for p in mod.PARTS)),
            exhaustive_parts=[p.name for p in mod.PARTS
                              if p.exhaustive and tier in p.tiers],
            per_part={k: dict(evaluations=v["evaluations"],
                              distinct_nontrivial=len(v["nontrivial"]),
                              wall_s=round(v["wall"], 1))
                      for k, v in per_part.items()},
            classes=dict(sorted(classes.items())),
            worst_normalised_error={k: v for k, v in sorted(metrics.items())},
            known_finding_hits=dict(known_hits),
            regress_replayed=reg_n,
            skipped_by_time_budget=skipped,
            violation_buckets={f"{p}:{k}": n for (p, k), n in bucket_n.items()},
        ),
        assumptions=list(getattr(mod, "ASSUME", [])),
        wall_s=round(wall, 2), violations=len(violations))
    (out_dir() / "evidence").mkdir(parents=True, exist_ok=True)
    with open(out_dir() / "evidence" / f"{prop}.json", "w") as f:
        json.dump(_finite(json.loads(json.dumps(ev, default=_jdefault))), f, indent=1,
                  allow_nan=False)

    # tidy scratch
    import shutil
    shutil.rmtree(scratch, ignore_errors=True)

    if harness_errors:
        print(f"HARNESS-ERROR property={prop}")
        for h in harness_errors[:5]:
            print(h)
        return 2
    req = getattr(mod, "REQUIRED_CLASSES", {}).get(tier, [])
    missing = [c for c in req if classes.get(c, 0) == 0]
    if missing and not violations and not os.environ.get("VERIF_PARTS") and skipped == 0 \
            and float(os.environ.get("VERIF_SCALE", "1")) >= 1:
        print(f"HARNESS-ERROR property={prop} generator never produced "
              f"required classes {missing}")
        return 2
    for f in listed:
        if f["status"] == "known":
            print(f"KNOWN-FINDING: property={prop} {f['id']}: {f['what']} "
                  f"(hit {known_hits.get(f['id'], 0)} times in this run)")
    print(f"{prop} {tier} seed={seed}: evaluations={evaluations} "
          f"distinct_nontrivial={distinct} wall={wall:.1f}s "
          f"violations={len(violations)}")
    if violations:
        for what, path, detail in violations:
            print(f"  {what}: {detail}")
            print(f"VIOLATION property={prop} replay={path}")
        return 1
    return 0
