#!/bin/bash
# MANIFEST.setup_cmd: offline install of extras into .deps/, compile c_rain once.
cd "$(dirname "$(readlink -f "$0")")" || exit 2
export PIP_NO_INDEX=1
/venv/bin/python - <<'PY'
import sys
sys.path.insert(0, '.')
from vlib import env
env.ensure_deps(("mpmath",))
try:
    env.ensure_deps(("atheris",))
except env.HarnessError as e:
    print("note: atheris not installable:", e)
print("c_rain built:", env.build_c_rain("plain"))
PY
