"""ASTM E1049-85 section 5.4.4 rainflow, written from the text of the standard.

    X = range under consideration, Y = previous range adjacent to X,
    S = starting point in the history.
    (1) Read next peak or valley.  If out of data, go to Step 6.
    (2) If there are less than three points, go to Step 1.  Form ranges X
        and Y using the three most recent peaks and valleys that have not
        been discarded.
    (3) Compare |X| and |Y|: (a) X < Y -> Step 1; (b) X >= Y -> Step 4.
    (4) If range Y contains the starting point S, go to Step 5; otherwise
        count range Y as one cycle; discard the peak and valley of Y; go to
        Step 2.
    (5) Count range Y as one-half cycle; discard the first point in range Y;
        move the starting point to the second point in range Y; go to Step 2.
    (6) Count each range that has not been previously counted as one-half
        cycle.

No import of pyyeti.  The starting point is tracked as an explicit marker
(the original index of S), not inferred from the stack depth.
"""


def rainflow(points):
    """-> list of (amp, mean, count, start_index, stop_index), extraction order"""
    pts = [float(p) for p in points]
    if len(pts) < 2:
        raise ValueError("need at least two points")
    live = []                 # (original index, value) not yet discarded
    S = 0                     # original index of the starting point
    out = []

    def emit(a, b, count):
        (ia, va), (ib, vb) = a, b
        out.append((abs(va - vb) / 2, (va + vb) / 2, count, ia, ib))

    for k, v in enumerate(pts):            # step 1
        live.append((k, v))
        while len(live) >= 3:               # step 2
            p0, p1, p2 = live[-3], live[-2], live[-1]
            Y = abs(p0[1] - p1[1])
            X = abs(p1[1] - p2[1])
            if X < Y:                       # step 3a
                break
            if p0[0] == S:                  # step 4: Y contains S
                emit(p0, p1, 0.5)           # step 5
                del live[-3]
                S = p1[0]
            else:
                emit(p0, p1, 1.0)           # step 4
                del live[-3:-1]
    for a, b in zip(live[:-1], live[1:]):   # step 6
        emit(a, b, 0.5)
    return out
