"""Reference model of the Nastran DOF-set hierarchy and DOF requests (C18).

Plain Python sets only; nothing here imports pyyeti.  Source of the model: the
set diagram printed in the docstrings of pyyeti.nastran.n2p.mkusetmask /
mksetpv / addgrid

     m  -------------------------------------\\
     s  ------------------------------\\       > g --\\
     o  -----------------------\\       > n --/       \\
     q  ----------------\\       > f --/       \\       \\
     r  ---------\\       > a --/       \\       \\       > p
     c  --\\       > t --/       \\       > fe    > ne  /
     b  ---> l --/               > d   /       /     /
     e  ------------------------/-----/-------/-----/

i.e. eight mutually exclusive base sets and ten supersets, each the disjoint
union of exactly two documented members, plus six user sets u1..u6 that are
independent tags.  A DOF is modelled by its *atoms*: the one base letter it
was assigned to and the user sets it was tagged with.  A set expression
('a', 'b+q', 'fe+u1' ...) denotes a set of atoms; a DOF belongs to the
expression iff one of its atoms does.
"""
import itertools

BASE = ("m", "s", "o", "q", "r", "c", "b", "e")
USER = ("u1", "u2", "u3", "u4", "u5", "u6")

# superset -> its two documented members (read off the diagram)
MEMBERS = {
    "l": ("c", "b"),
    "t": ("l", "r"),
    "a": ("t", "q"),
    "d": ("a", "e"),
    "f": ("a", "o"),
    "fe": ("f", "e"),
    "n": ("f", "s"),
    "ne": ("n", "e"),
    "g": ("n", "m"),
    "p": ("g", "e"),
}
SUPER = tuple(MEMBERS)
NAMES = BASE + SUPER            # the 18 names of the diagram


class NotContained(Exception):
    """minor set has a DOF (on this table) that is not in the major set"""


def atoms(name):
    """base letters (or user tag) that make up one named set"""
    if name in BASE or name in USER:
        return frozenset([name])
    a, b = MEMBERS[name]
    return atoms(a) | atoms(b)


def expr_atoms(expr):
    """'a+o+u1' -> frozenset of atoms"""
    out = frozenset()
    for nm in expr.split("+"):
        out |= atoms(nm)
    return out


def membership(rows, expr):
    """rows: list of atom collections (one per DOF, table order) -> list of bool"""
    at = expr_atoms(expr)
    return [bool(at & frozenset(r)) for r in rows]


def partition(rows, major, minor):
    """Defining answer of mksetpv: one bool per DOF of `major` (table order),
    True iff the DOF is in `minor`; NotContained iff some DOF of the table is
    in `minor` but not in `major`."""
    ma = membership(rows, major)
    mi = membership(rows, minor)
    if any(b and not a for a, b in zip(ma, mi)):
        raise NotContained(f"{minor} not within {major}")
    return [b for a, b in zip(ma, mi) if a]


def expressions(maxn):
    """all '+' expressions over 1..maxn distinct names of the diagram (as
    unordered selections; the spelling order alternates so that both 'x+y' and
    'y+x' style spellings occur)"""
    out = []
    k = 0
    for n in range(1, maxn + 1):
        for combo in itertools.combinations(NAMES, n):
            k += 1
            out.append("+".join(combo if k % 2 else combo[::-1]))
    return out


# ---------------------------------------------------------------- bit words
# Bit positions of the USET word as given by the MSC Nastran NDDL (quoted in
# the comments of mkusetmask).  Used only to *build* tables that look like the
# ones Nastran writes (superset bits set as well); the answers always come
# from the atom model above.
NDDL_BIT = {"m": 0, "s": 1, "o": 2, "r": 3, "g": 4, "n": 5, "f": 6, "a": 7,
            "l": 8, "sg": 9, "sb": 10, "e": 11, "p": 12, "ne": 13, "fe": 14,
            "d": 15, "c": 20, "b": 21, "q": 22, "t": 23,
            "u6": 26, "u5": 27, "u4": 28, "u3": 29, "u2": 30, "u1": 31}


def nddl_word(base, users=(), full=False, variant=0):
    """USET word of one DOF that sits in base set `base`.

    full=False: only the base set's own bit(s); full=True: also the bit of
    every superset that contains the DOF (what Nastran writes).  `variant`
    selects the documented machine dependent spellings: the s-set is flagged
    by sg (variant 0), sb (1) or both (2) - bit 1 is cleared for s-set DOF by
    the op2 reader per the mkusetmask docstring; the b-set has bit 21 and, for
    odd variants, also bit 1."""
    w = 0
    if base == "s":
        w |= {0: 1 << 9, 1: 1 << 10, 2: (1 << 9) | (1 << 10)}[variant % 3]
    elif base == "b":
        w |= 1 << 21
        if variant % 2:
            w |= 2
    else:
        w |= 1 << NDDL_BIT[base]
    if full:
        for s in SUPER:
            if base in atoms(s):
                w |= 1 << NDDL_BIT[s]
    for u in users:
        w |= 1 << NDDL_BIT[u]
    return w


# ---------------------------------------------------------------- DOF requests

class BadComponent(Exception):
    """component list contains a digit > 6"""


def expand_request(req, grids_only=True):
    """Documented expansion of a DOF request (n2p.expanddof docstring).

    req: list of ids (1-D form) -> every id with components 1..6 (grids_only)
    or 0..6; or list of [id, comp] (2-D form) where comp is 0 or any
    combination of the digits 1-6 written as one integer (123456, 1346, ...)
    -> one (id, digit) pair per digit in the order written."""
    out = []
    if not req:
        return out
    if not isinstance(req[0], (list, tuple)):
        comps = range(1, 7) if grids_only else range(0, 7)
        for i in req:
            out.extend((int(i), c) for c in comps)
        return out
    for i, comp in req:
        for ch in str(int(comp)):
            d = int(ch)
            if d > 6:
                raise BadComponent(f"{comp}")
            out.append((int(i), d))
    return out


def lookup(table_pairs, wanted):
    """positions (in table_pairs, a list of unique (id, dof)) of the wanted
    pairs, in request order; None where a pair is absent"""
    pos = {}
    for k, p in enumerate(table_pairs):
        pos[tuple(p)] = k
    return [pos.get(tuple(w)) for w in wanted]
