"""Independent model of a Nastran real-number field (no pyyeti import).

parse_exact(text)  -> Fraction, and whether the text is a syntactically legal
                      Nastran real (has a decimal point; E/D or sign-only exponent)
best_digits(...)   -> the largest number of significant digits any normalised
                      legal rendering of that sign/exponent can carry in the width
"""
import re
from decimal import Decimal
from fractions import Fraction

_REAL = re.compile(r"^([+-]?)(\d*)(\.?)(\d*)(?:(?:[EeDd]([+-]?\d+))|([+-]\d+))?$")


def parse_exact(text):
    """-> (Fraction value, is_real_syntax) ; raises ValueError if not numeric"""
    s = text.strip()
    m = _REAL.match(s)
    if not m or (m.group(2) == "" and m.group(4) == ""):
        raise ValueError(f"not a Nastran number: {text!r}")
    sign, ip, point, fp, e1, e2 = m.groups()
    exp = int(e1 if e1 is not None else (e2 if e2 is not None else 0))
    digits = int((ip + fp) or "0")
    val = Fraction(digits, 10 ** len(fp)) * Fraction(10) ** exp
    if sign == "-":
        val = -val
    return val, point == "."


def exponent10(x):
    """floor(log10|x|), exact"""
    return Decimal(abs(x)).adjusted()


def best_digits(width, style, negative, e):
    """style: 'e' (fixed notation or mantissa+signed exponent) or 'd' (mantissa D+-exp)"""
    sign = 1 if negative else 0
    ne = len(str(abs(e)))
    cands = []
    if style == "e":
        if e >= 0:
            q = e + 1
            if width - sign - q - 1 >= 0:
                cands.append(width - sign - 1)
        else:
            z = -e - 1
            cands.append(width - sign - 1 - z)
        cands.append(width - sign - 2 - ne)
    else:
        cands.append(width - sign - 3 - ne)
    return max(1, min(max(cands), 17))


def half_unit(x, width, style):
    e = exponent10(x)
    D = best_digits(width, style, x < 0, e)
    return Fraction(1, 2) * Fraction(10) ** (e - D + 1), D, e
