"""Independent references for pyyeti.stats (property C20).  No pyyeti, no scipy.

* normal quantile / cdf, chi-square quantile: mpmath (erfinv, incomplete gamma)
* non-central t CDF (and density) by the defining integral over the chi
  variable:  T = (Z + delta) / (S / sqrt(nu)),  S ~ chi(nu)

      P[T <= t] = int_0^inf  Phi(t s / sqrt(nu) - delta)  f_chi_nu(s) ds
      d/dt      = int_0^inf  phi(t s / sqrt(nu) - delta) s / sqrt(nu)  f_chi_nu(s) ds

  evaluated with mpmath.quad (tanh-sinh) on intervals split at the mode of
  the chi density and at the point where the Phi argument changes sign
* exact binomial upper tails P[Bin(n, q) >= r] for binary-rational q (every
  float is one) in integer arithmetic
"""
from fractions import Fraction

import mpmath
from mpmath import mp, mpf

DPS = 25


# ------------------------------------------------------------------ normal

def z_of(p, dps=DPS):
    """standard normal quantile of the float p"""
    with mp.workdps(dps):
        p = mpf(p)
        if p < 0.5:
            return -mp.sqrt(2) * mp.erfinv(1 - 2 * p)
        return mp.sqrt(2) * mp.erfinv(2 * p - 1)


def z_two_sided(p, dps=DPS):
    """z with Phi(z) - Phi(-z) = p, i.e. erf(z / sqrt 2) = p"""
    with mp.workdps(dps):
        return mp.sqrt(2) * mp.erfinv(mpf(p))


# ------------------------------------------------------------------ non-central t

def nct_cdf_pdf(t, nu, delta, dps=DPS, width=11):
    """(P[T <= t], density at t) of the non-central t with nu dof, nc delta.

    One complex-valued tanh-sinh quadrature: real part integrates the CDF
    integrand, imaginary part the density integrand.  The chi density is
    integrated over [mode - width, mode + width] (its standard deviation is
    <= 1/sqrt(2) for every nu, and its upper tail is lighter than
    exp(-(s - mode)^2 / 2): the neglected mass is < 1e-24 for width 11)."""
    with mp.workdps(dps):
        t = mpf(t)
        delta = mpf(delta)
        nu = int(nu)
        snu = mp.sqrt(nu)
        a = t / snu
        lognorm = (1 - mpf(nu) / 2) * mp.log(2) - mp.loggamma(mpf(nu) / 2)
        num1 = nu - 1

        def f(s):
            if s <= 0:
                return mpf(0)
            w = mp.exp(lognorm + num1 * mp.log(s) - s * s / 2)
            x = a * s - delta
            return mp.mpc(mp.ncdf(x) * w, mp.npdf(x) * (s / snu) * w)

        s0 = mp.sqrt(max(nu - 1, 0))          # mode of the chi density
        lo = max(mpf(0), s0 - width)
        hi = s0 + width
        pts = {lo, hi}
        if s0 > lo:
            pts.add(s0)
        if a != 0:
            sx = delta / a                    # Phi argument changes sign here
            hw = 1 / abs(a)                   # transition half width in s
            for m in (-3, 0, 3):
                q = sx + m * hw
                if lo < q < hi:
                    pts.add(q)
        val = mp.quad(f, sorted(pts), maxdegree=8)
        return val.real, val.imag


def nct_cdf(t, nu, delta, dps=DPS):
    return nct_cdf_pdf(t, nu, delta, dps)[0]


# ------------------------------------------------------------------ two-sided factor

def _newton_bracketed(f, df, lo, hi, dps):
    """root of the increasing function f in [lo, hi] (f(lo) <= 0 <= f(hi)):
    Newton steps, replaced by bisection whenever they leave the bracket"""
    x = (lo + hi) / 2
    eps = mpf(10) ** (-(dps - 4))
    for _ in range(400):
        fx = f(x)
        if fx == 0:
            return x
        if fx < 0:
            lo = x
        else:
            hi = x
        d = df(x)
        xn = x - fx / d if d > 0 else None
        if xn is None or not (lo < xn < hi):
            xn = (lo + hi) / 2
        if abs(xn - x) <= eps * abs(xn) or hi - lo <= eps * abs(hi):
            return xn
        x = xn
    raise ArithmeticError("reference root finder did not converge")


def gamma_p(a, x):
    """regularised lower incomplete gamma P(a, x) by its all-positive series
    x^a e^-x / Gamma(a+1) * sum_k x^k / ((a+1)...(a+k))   (call inside workdps)"""
    a = mpf(a)
    x = mpf(x)
    if x <= 0:
        return mpf(0)
    eps = mpf(10) ** (-(mp.dps + 3))
    term = mpf(1)
    tot = mpf(1)
    k = 0
    while True:
        k += 1
        term = term * x / (a + k)
        tot += term
        if a + k > x and term < eps * tot:
            break
    return mp.exp(a * mp.log(x) - x - mp.loggamma(a + 1)) * tot


def chi2_cdf(x, nu, dps=DPS):
    with mp.workdps(dps):
        return gamma_p(mpf(nu) / 2, mpf(x) / 2)


def chi2_ppf(q, nu, dps=DPS):
    """x with P[chi2_nu <= x] = q"""
    with mp.workdps(dps):
        q = mpf(q)
        a = mpf(nu) / 2
        lg = mp.loggamma(a)

        def f(x):
            return gamma_p(a, x / 2) - q

        def df(x):
            return mp.exp((a - 1) * mp.log(x / 2) - x / 2 - lg) / 2

        # bracket from the Wilson-Hilferty approximation (only a start)
        z = z_of(q, dps)
        wh = nu * (1 - mpf(2) / (9 * nu) + z * mp.sqrt(mpf(2) / (9 * nu))) ** 3
        if wh <= 0:
            wh = mpf(nu) / 1000
        lo, hi = wh * mpf("0.99"), wh * mpf("1.01")
        while f(lo) > 0:
            lo = lo / 2
        while f(hi) < 0:
            hi = hi * 2
        return _newton_bracketed(f, df, lo, hi, dps)


def getr(p, n, dps=DPS):
    """R with Phi(1/sqrt(n) + R) - Phi(1/sqrt(n) - R) = p   (R > 0)"""
    with mp.workdps(dps):
        p = mpf(p)
        sn = 1 / mp.sqrt(n)

        def g(r):
            return mp.ncdf(sn + r) - mp.ncdf(sn - r) - p

        def dg(r):
            return mp.npdf(sn + r) + mp.npdf(sn - r)

        hi = mpf(1)
        while g(hi) < 0:
            hi *= 2
        return _newton_bracketed(g, dg, mpf(0), hi, dps)


def kdouble_ref(p, c, n, dps=DPS):
    """two-sided factor from its documented equations (Wald-Wolfowitz)"""
    with mp.workdps(dps):
        chi = chi2_ppf(1 - mpf(c), n - 1, dps)
        r = getr(p, n, dps)
        return mp.sqrt((n - 1) / chi) * r, r, chi


# ------------------------------------------------------------------ exact binomial tails

def _binary(q):
    """float or Fraction with power-of-two denominator -> (a, k): q = a / 2**k"""
    f = Fraction(q)
    d = f.denominator
    if d & (d - 1):
        raise ValueError("not a binary rational")
    return f.numerator, d.bit_length() - 1


def tail_ge_scaled(n, r, p):
    """exact P[Bin(n, 1-p) >= r] = N / 2**e for the float p; returns (N, e).

    1 - sum_{j<r} C(n,j) (1-p)^j p^(n-j), all in integers over 2**(k n);
    no gcd normalisation (that would dominate the cost for large n)."""
    n = int(n)
    r = int(r)
    if r <= 0:
        return 1, 0
    if r > n:
        return 0, 0
    a, k = _binary(p)              # p = a / 2^k
    b = (1 << k) - a               # 1-p = b / 2^k
    if a <= 0:
        return 1, 0
    # term_j = C(n,j) b^j a^(n-j), j = 0..r-1;  a^(n-r+1) is common to all
    coeffs = []
    cnj = 1
    bj = 1
    for j in range(r):
        coeffs.append(cnj * bj)
        cnj = cnj * (n - j) // (j + 1)
        bj *= b
    s = 0
    for j in range(r):             # Horner in a: sum_j coeffs[j] a^(r-1-j)
        s = s * a + coeffs[j]
    below = s * pow(a, n - r + 1)  # = 2^(k n) * P[X <= r-1]
    return (1 << (k * n)) - below, k * n


def tail_ge(n, r, p):
    """the same tail as a Fraction (small n only: normalising is expensive)"""
    N, e = tail_ge_scaled(n, r, p)
    return Fraction(N, 1 << e)


def tail_minus(n, r, p, c, dps=30):
    """exact comparison of P[Bin(n, 1-p) >= r] with the float c.

    Returns (sign, within, diff): sign of tail - c (exact, -1/0/1); within(w)
    tells exactly whether |tail - c| <= w for a Fraction w; diff is tail - c
    rounded to an mpf."""
    N, e = tail_ge_scaled(n, r, p)
    ca, ck = _binary(c)
    d = (N << ck) - (ca << e)      # (tail - c) * 2^(e + ck)
    sh = e + ck
    sign = (d > 0) - (d < 0)

    def within(w):
        w = Fraction(w)
        return abs(d) * w.denominator <= (w.numerator << sh)

    with mp.workdps(dps):
        diff = mp.ldexp(mpf(d), -sh)
    return sign, within, diff


def tail_ge_mp(n, r, p, dps=40):
    """the same tail for real (non-integer-free) use in mp arithmetic, with
    its derivative with respect to p: returns (tail, dtail/dp)"""
    with mp.workdps(dps):
        n = int(n)
        r = int(r)
        p = mpf(p)
        q = 1 - p
        if r <= 0:
            return mpf(1), mpf(0)
        if r > n:
            return mpf(0), mpf(0)
        s = mpf(0)
        term = p ** n
        for j in range(r):
            s += term
            term = term * (n - j) / (j + 1) * q / p
        # d/dq P[X >= r] = n C(n-1, r-1) q^(r-1) p^(n-r)
        d = n * mp.binomial(n - 1, r - 1) * q ** (r - 1) * p ** (n - r)
        return 1 - s, -d
