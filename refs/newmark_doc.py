"""Literal dense transcription of the documented SolveNewmark recurrence (no pyyeti import).

    A u_{n+2} = (F_{n+2} + F_{n+1} + F_n)/3 + N_{n+1} + A1 u_{n+1} + A0 u_n
    A  = M/h^2 + B/(2h) + K/3,  A1 = 2M/h^2 - K/3,  A0 = -M/h^2 + B/(2h) - K/3
    start-up:  u_{-1} = u_0 - h v_0,  F_{-1} = K u_{-1} + B v_0,  F_0 := K u_0 + B v_0
    v_n = (u_{n+1} - u_{n-1})/(2h),  a_n = (u_{n+1} - 2u_n + u_{n-1})/h^2
    last step: one more step with the linearly extrapolated force F_e = 2F_{last} - F_{last-1}
    v_0 is the given initial velocity; rf rows are solved statically (v = a = 0).

Nonlinear terms: list of (fn, T) with fn(u_j, u_jm1, h) -> 1d array; N_j = sum T @ fn(...).
"""
import numpy as np


def newmark(M, B, K, h, F, d0=None, v0=None, rf=(), nonlin=()):
    M, B, K = (np.atleast_2d(np.asarray(x, float)) for x in (M, B, K))
    F = np.atleast_2d(np.asarray(F, float))
    n, nt = F.shape
    rf = list(rf)
    dyn = [i for i in range(n) if i not in rf]
    d = np.zeros((n, nt))
    v = np.zeros((n, nt))
    a = np.zeros((n, nt))
    if rf:
        d[rf] = np.linalg.solve(K[np.ix_(rf, rf)], F[rf])
    zs = [None] * len(nonlin)
    if not dyn:
        return d, v, a, zs
    ix = np.ix_(dyn, dyn)
    Mk, Bk, Kk = M[ix], B[ix], K[ix]
    Fk = F[dyn].copy()
    u0 = np.zeros(len(dyn)) if d0 is None else np.asarray(d0, float)[dyn]
    w0 = np.zeros(len(dyn)) if v0 is None else np.asarray(v0, float)[dyn]
    A = Mk / h ** 2 + Bk / (2 * h) + Kk / 3
    A1 = 2 * Mk / h ** 2 - Kk / 3
    A0 = -Mk / h ** 2 + Bk / (2 * h) - Kk / 3
    um1 = u0 - h * w0
    Fm1 = Kk @ um1 + Bk @ w0
    Fk[:, 0] = Kk @ u0 + Bk @ w0

    def N(uj, ujm1, j):
        tot = np.zeros(len(dyn))
        for q, (fn, T) in enumerate(nonlin):
            z = np.asarray(fn(uj, ujm1, h), float)
            if zs[q] is None:
                zs[q] = np.zeros((z.shape[0], nt))
            zs[q][:, j] = z
            tot = tot + np.asarray(T, float) @ z
        return tot

    U = np.zeros((len(dyn), nt + 1))      # U[:, j] = u_j, extra column for the extrapolated step
    U[:, 0] = u0
    solve = lambda rhs: np.linalg.solve(A, rhs)          # noqa: E731
    U[:, 1] = solve((Fk[:, 1] + Fk[:, 0] + Fm1) / 3 + N(u0, um1, 0) + A1 @ u0 + A0 @ um1)
    for j in range(2, nt):
        U[:, j] = solve((Fk[:, j] + Fk[:, j - 1] + Fk[:, j - 2]) / 3 + N(U[:, j - 1], U[:, j - 2], j - 1)
                        + A1 @ U[:, j - 1] + A0 @ U[:, j - 2])
    Fe = 2 * Fk[:, nt - 1] - Fk[:, nt - 2]
    U[:, nt] = solve((Fe + Fk[:, nt - 1] + Fk[:, nt - 2]) / 3 + N(U[:, nt - 1], U[:, nt - 2], nt - 1)
                     + A1 @ U[:, nt - 1] + A0 @ U[:, nt - 2])
    Um = np.column_stack((um1, U))        # Um[:, j+1] = u_j
    d[dyn] = U[:, :nt]
    v[dyn] = (Um[:, 2:nt + 2] - Um[:, 0:nt]) / (2 * h)
    v[dyn, 0] = w0
    a[dyn] = (Um[:, 2:nt + 2] - 2 * Um[:, 1:nt + 1] + Um[:, 0:nt]) / h ** 2
    return d, v, a, zs
