"""Independent references for C10 (cycle-count pipeline, fatigue-damage PSD).  No pyyeti import.

* reversal selection: exact reference for signals whose steps are all exactly 0 or above the
  tolerance, and a validity predicate (what any tolerant selection must satisfy);
* bin edges as documented in getbins and brute-force placement of cycles in half-open bins;
* SDOF base-drive response to a piecewise-linear input (exact discretisation, matrix exponential),
  Rayleigh-peak test damage indicators of the fdepsd references.
"""
import math

import numpy as np


# ------------------------------------------------------------------ reversal points

def stol_of(y, tol):
    """the documented absolute tolerance: tol * max|successive difference|"""
    d = np.diff(np.asarray(y, float))
    return abs(tol * np.abs(d).max()) if d.size else 0.0


def substol_steps(y, tol):
    """number of non-zero steps with |dy| <= stol (signals without any are 'exact plateau'
    signals: every step is either exactly zero or a real change)"""
    d = np.diff(np.asarray(y, float))
    if d.size == 0:
        return 0
    st = abs(tol * np.abs(d).max())
    return int(np.count_nonzero((d != 0) & (np.abs(d) <= st)))


def findap_exact(y):
    """reversal mask when equality is exact: first sample; first sample of every plateau that is
    a strict local extremum of the de-duplicated sequence; the last sample iff it differs from
    its predecessor.  Plain loop, no tolerance."""
    y = [float(v) for v in y]
    n = len(y)
    mask = [False] * n
    if n == 0:
        return np.array(mask, bool)
    mask[0] = True
    # de-duplicated sequence with the index of the first sample of each plateau
    idx = [0]
    for i in range(1, n):
        if y[i] != y[i - 1]:
            idx.append(i)
    for k in range(1, len(idx) - 1):
        a, b, c = y[idx[k - 1]], y[idx[k]], y[idx[k + 1]]
        if (b > a and b > c) or (b < a and b < c):
            mask[idx[k]] = True
    if len(idx) >= 2 and idx[-1] >= 1:
        # the last run: its first sample is the end point of the de-duplicated sequence; it is
        # a reversal ("last point is a peak iff it differs from the one before it": for a
        # trailing plateau the first sample of the plateau takes that role)
        mask[idx[-1]] = True
    return np.array(mask, bool)


def findap_violations(y, mask, stol, k=2.0):
    """validity predicate of a tolerant reversal selection -> list of (kind, detail).

    first sample selected; selected values strictly alternate; every unselected sample lies
    within k*stol of the interval spanned by its neighbouring selected values (hence global
    max / min are reached within k*stol); last sample: not selected when equal to its
    predecessor, selected when it differs from it by more than stol."""
    y = np.asarray(y, float)
    mask = np.asarray(mask)
    out = []
    n = y.size
    if mask.shape != (n,) or mask.dtype != np.bool_:
        return [("mask_shape_or_dtype", f"shape {mask.shape} dtype {mask.dtype} for n={n}")]
    if not mask[0]:
        out.append(("first_not_selected", ""))
        return out
    sel = np.flatnonzero(mask)
    v = y[sel]
    d = np.diff(v)
    if d.size:
        if np.any(d == 0):
            j = int(np.flatnonzero(d == 0)[0])
            out.append(("not_alternating", f"selected values {v[j]!r}, {v[j + 1]!r} at "
                        f"{int(sel[j])}, {int(sel[j + 1])} are equal"))
        elif np.any(d[1:] * d[:-1] > 0):
            j = int(np.flatnonzero(d[1:] * d[:-1] > 0)[0])
            out.append(("not_alternating", f"selected values {v[j:j + 3].tolist()} at "
                        f"{sel[j:j + 3].tolist()} are monotone"))
    # containment of the unselected samples
    slack = k * stol
    pos = np.searchsorted(sel, np.arange(n), side="right") - 1      # selected at or before
    left = v[pos]
    right = v[np.minimum(pos + 1, len(sel) - 1)]
    lo = np.minimum(left, right) - slack
    hi = np.maximum(left, right) + slack
    bad = (y < lo) | (y > hi)
    if bad.any():
        i = int(np.flatnonzero(bad)[np.argmax(np.maximum(lo - y, y - hi)[bad])])
        ex = float(max(lo[i] + slack - y[i], y[i] - hi[i] + slack))
        out.append(("extreme_lost", f"sample {i} = {y[i]!r} lies {ex:.6g} outside "
                    f"[{min(left[i], right[i])!r}, {max(left[i], right[i])!r}] spanned by its "
                    f"selected neighbours; stol={stol:.6g} ({ex / stol if stol else math.inf:.3g} stol)"))
    if v.max() < y.max() - slack or v.min() > y.min() + slack:
        out.append(("global_extreme_missed", f"selected range [{v.min()!r}, {v.max()!r}] signal "
                    f"range [{y.min()!r}, {y.max()!r}] stol={stol:.6g}"))
    if n >= 2:
        if y[-1] == y[-2] and mask[-1]:
            out.append(("last_selected_though_equal", f"y[-2:]={y[-2:].tolist()}"))
        if abs(y[-1] - y[-2]) > stol and not mask[-1]:
            out.append(("last_not_selected", f"y[-2:]={y[-2:].tolist()} stol={stol:.6g}"))
    return out


# ------------------------------------------------------------------ bins

def bin_edges(bins, vals, right):
    """documented getbins: scalar -> linspace(mn, mx, bins+1) widened by 0.1 % of the range at
    the open end (mx == mn: +-0.5); vector -> taken as is.  -> (edges, automatic)"""
    if np.ndim(bins) == 0:
        nb = int(bins)
        mx, mn = float(np.max(vals)), float(np.min(vals))
        if mx == mn:
            mx, mn = mx + 0.5, mn - 0.5
        bb = np.linspace(mn, mx, nb + 1)
        p = 0.001 * (mx - mn)
        # the widening must actually move the end (documented guarantee: automatic bins cover the
        # data); when p is below round-off of the edge, one ulp is the smallest move that does
        if right:
            bb[0] = min(bb[0] - p, np.nextafter(bb[0], -np.inf))
        else:
            bb[-1] = max(bb[-1] + p, np.nextafter(bb[-1], np.inf))
        return bb, True
    return np.array(bins, dtype=float), False


def place(v, edges, right):
    """index of the documented half-open bin that contains v, or -1 (brute force)"""
    for i in range(len(edges) - 1):
        if right:
            if edges[i] < v <= edges[i + 1]:
                return i
        else:
            if edges[i] <= v < edges[i + 1]:
                return i
    return -1


def binify_ref(rf, ampb, aveb, right):
    """-> (table, dropped count, number of cycles dropped)"""
    table = np.zeros((len(aveb) - 1, len(ampb) - 1))
    dropped = 0.0
    ndrop = 0
    for amp, mean, cnt in rf:
        j = place(amp, ampb, right)
        i = place(mean, aveb, right)
        if i < 0 or j < 0:
            dropped += cnt
            ndrop += 1
        else:
            table[i, j] += cnt
    return table, dropped, ndrop


def labels(edges, right, precision):
    f = "{:." + str(precision) + "f}"
    form = ("(" + f + ", " + f + "]") if right else ("[" + f + ", " + f + ")")
    return [form.format(a, b) for a, b in zip(edges[:-1], edges[1:])]


# ------------------------------------------------------------------ SDOF response

def sdof_response(sig, sr, freq, Q, resp):
    """response of a base-driven single-DOF oscillator (at rest, input 0 before the first
    sample) to the piecewise-linear input `sig`: exact state propagation with the matrix
    exponential of the augmented system (input value and slope as extra states).

    resp 'absacce': absolute acceleration -(2 zeta wn z' + wn^2 z) ... returned with the sign
    convention x'' = u'' + z''; 'pvelo': wn * z with z the relative displacement."""
    from scipy.linalg import expm
    sig = np.asarray(sig, float)
    wn = 2 * math.pi * freq
    zeta = 1.0 / (2.0 * Q)
    dt = 1.0 / sr
    # states: z, z', u, u'   (z'' = -2 zeta wn z' - wn^2 z - u ; u' = slope ; slope' = 0)
    A = np.array([[0.0, 1.0, 0.0, 0.0],
                  [-wn * wn, -2 * zeta * wn, -1.0, 0.0],
                  [0.0, 0.0, 0.0, 1.0],
                  [0.0, 0.0, 0.0, 0.0]])
    E = expm(A * dt)
    n = sig.size
    # input before the first sample is 0 and ramps to sig[0] over one step (what a digital
    # filter started at rest represents)
    u = np.concatenate(([0.0], sig))
    slope = np.diff(u) / dt
    z = 0.0
    zd = 0.0
    e00, e01, e02, e03 = E[0]
    e10, e11, e12, e13 = E[1]
    out = np.empty(n)
    c1, c2 = 2 * zeta * wn, wn * wn
    for k in range(n):
        u0, s = u[k], slope[k]
        z, zd = (e00 * z + e01 * zd + e02 * u0 + e03 * s,
                 e10 * z + e11 * zd + e12 * u0 + e13 * s)
        out[k] = -(c1 * zd + c2 * z) if resp == "absacce" else wn * z
    return out


# ------------------------------------------------------------------ damage indicators

def di_test_ref(freq, T0, b, resp):
    """test damage indicator per unit variance**(b/2): N0 cycles with Rayleigh distributed
    peaks, for 'absacce' truncated at the expected maximum sqrt(2 ln N0) sigma:
    N0 * 2**(b/2) * lower_gamma(b/2 + 1, ln N0); for 'pvelo' untruncated (Gamma(b/2 + 1))."""
    from scipy.special import gammainc
    N0 = float(freq) * float(T0)
    g = math.gamma(b / 2 + 1)
    if resp == "absacce":
        return N0 * 2.0 ** (b / 2) * g * float(gammainc(b / 2 + 1, math.log(N0)))
    return N0 * 2.0 ** (b / 2) * g
