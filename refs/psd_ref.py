"""Independent reference models for C19 (psd.area / interp / rescale / get_freq_oct,
dsp.resample, dsp.fixtime).  No pyyeti import; numpy + mpmath only.

Everything here is written from the docstrings (the contract), not from the
implementation:

* constant-dB/octave segment  p(x) = p1 (x/f1)^s,  s = ln(p2/p1)/ln(f2/f1);
  area = p1 f1 ln(f2/f1) when s = -1, else (f2 p2 - f1 p1)/(s+1)  (mpmath)
* centre-band PSD: band edges half a step either side (linear scale) or at the
  geometric means / half a ratio either side (logarithmic scale); the mean
  square an output band receives is  sum_i P_i * |band_i  intersect  out-band|
* Lanczos resampling with a Kaiser(beta) window over `pts` coarse samples
  either side: worst-case deviation of a sampled sinusoid from its analytic
  value, from the frequency response of the documented kernel
* fixtime: sample bookkeeping (sort, drop-outs, 3-sigma outlier times) and the
  nearest / previous sample acceptance sets
"""
import math

import numpy as np

EPS = 2.0 ** -52
MPDPS = 60


def _mp():
    import mpmath
    mpmath.mp.dps = MPDPS
    return mpmath


# ------------------------------------------------------------------ area / interp

def seg_area_mp(f1, p1, f2, p2):
    """closed-form area of one constant-dB/octave segment -> (area, s, ln(f2/f1)) as mpf"""
    mp = _mp()
    f1, p1, f2, p2 = (mp.mpf(float(v)) for v in (f1, p1, f2, p2))
    lnr = mp.log(f2 / f1)
    if p2 * f2 == p1 * f1:                 # s == -1 exactly (products of doubles are exact here)
        return p1 * f1 * lnr, mp.mpf(-1), lnr
    s = mp.log(p2 / p1) / lnr
    return (f2 * p2 - f1 * p1) / (s + 1), s, lnr


def area_ref(freq, col):
    """-> (area as float, absolute tolerance as float, list of per-segment slopes s)

    Tolerance = sum over segments of  area_seg * rel_seg  with

      rel_seg = 16 eps (2+|s|) (1 + 1/(|ln r| |s+1|))        conditioning of the
                double-precision evaluation of (f2 p2 - f1 p1)/(s+1): the numerator
                cancels to ~|s+1| ln r of its terms and s itself carries an absolute
                error ~eps (1+|s|)/ln r
      rel_seg = 0.55 |s+1| ln r + 16 eps (2+ln r) + 4 eps/ln r   when |s+1| <= 1.01e-5:
                a neighbourhood of s = -1 may be evaluated with the s = -1 form
                p1 f1 ln r, whose truncation error is (s+1) ln r / 2 (10 % margin)
    """
    mp = _mp()
    tot = mp.mpf(0)
    tol = mp.mpf(0)
    slopes = []
    for i in range(len(freq) - 1):
        a, s, lnr = seg_area_mp(freq[i], col[i], freq[i + 1], col[i + 1])
        s1 = abs(s + 1)
        lr = abs(lnr)
        if s1 <= mp.mpf("1.01e-5"):
            # (ln r itself comes from the rounded quotient f2/f1: relative error eps / ln r for close frequencies)
            rel = mp.mpf("0.55") * s1 * lr + 16 * EPS * (2 + lr) + 4 * EPS / lr
            if s1 >= mp.mpf("0.99e-5"):     # either evaluation allowed at the switch-over
                rel = max(rel, 16 * EPS * (2 + abs(s)) * (1 + 1 / (lr * s1)))
        else:
            rel = 16 * EPS * (2 + abs(s)) * (1 + 1 / (lr * s1))
        tot += a
        tol += abs(a) * rel
        slopes.append(float(s))
    return float(tot), float(tol), slopes


def loglog_point(f1, p1, f2, p2, f):
    """own log-log interpolation p1 (f/f1)^s in mpmath -> float"""
    mp = _mp()
    f1, p1, f2, p2, f = (mp.mpf(float(v)) for v in (f1, p1, f2, p2, f))
    s = mp.log(p2 / p1) / mp.log(f2 / f1)
    return float(p1 * (f / f1) ** s)


def interp_ref(freq, col, fq, linear=False):
    """value of the specification at the frequencies fq; 0 outside [freq[0], freq[-1]]"""
    freq = [float(v) for v in freq]
    out = []
    for f in fq:
        f = float(f)
        if f < freq[0] or f > freq[-1]:
            out.append(0.0)
            continue
        i = 0
        while i < len(freq) - 2 and f > freq[i + 1]:
            i += 1
        f1, f2, p1, p2 = freq[i], freq[i + 1], float(col[i]), float(col[i + 1])
        if f == f1:
            out.append(p1)
        elif f == f2:
            out.append(p2)
        elif linear:
            out.append(p1 + (p2 - p1) * ((f - f1) / (f2 - f1)))
        else:
            out.append(loglog_point(f1, p1, f2, p2, f))
    return np.array(out)


def gauss_panels(f1, f2, s_abs, nodes=12):
    """Gauss-Legendre nodes/weights in x for integrating a power law of exponent
    up to |s| over [f1, f2]: panels in u = ln x with (|s|+1) du <= 1.5"""
    x, w = np.polynomial.legendre.leggauss(nodes)
    u1, u2 = math.log(f1), math.log(f2)
    npan = max(1, int(math.ceil((s_abs + 1.0) * (u2 - u1) / 1.5)))
    xs, ws = [], []
    for k in range(npan):
        a = u1 + (u2 - u1) * k / npan
        b = u1 + (u2 - u1) * (k + 1) / npan
        u = 0.5 * (b - a) * x + 0.5 * (b + a)
        xx = np.exp(u)
        xs.append(xx)
        ws.append(0.5 * (b - a) * w * xx)      # dx = x du
    return np.concatenate(xs), np.concatenate(ws)


# ------------------------------------------------------------------ rescale

def band_edges(fc, kind):
    """lower/upper edges of centre-band scale fc; kind 'lin' or 'log'"""
    fc = np.asarray(fc, float)
    if kind == "lin":
        d = (fc[-1] - fc[0]) / (len(fc) - 1)
        return fc - d / 2, fc + d / 2
    mid = np.sqrt(fc[:-1] * fc[1:])
    lo0 = fc[0] * math.sqrt(fc[0] / fc[1])        # half a ratio below the first centre
    hi1 = fc[-1] * math.sqrt(fc[-1] / fc[-2])     # half a ratio above the last centre
    return np.concatenate(([lo0], mid)), np.concatenate((mid, [hi1]))


def select_bands(FL, FU, f_first, f_last, rel=1e-9):
    """documented trimming: keep bands from the first with FU >= F[0] to the last with
    FL <= F[-1].  -> (lo, hi, ambiguous): slice [lo:hi]; ambiguous when a comparison is
    within round-off of equality"""
    FL = np.asarray(FL)
    FU = np.asarray(FU)
    up = np.nonzero(FU >= f_first)[0]
    dn = np.nonzero(FL <= f_last)[0]
    if up.size == 0 or dn.size == 0:
        return None, None, False
    scale = max(abs(f_first), abs(f_last), float(np.max(np.abs(FU))))
    amb = bool(np.any(np.abs(FU - f_first) <= rel * scale) or
               np.any(np.abs(FL - f_last) <= rel * scale))
    return int(up.min()), int(dn.max()) + 1, amb


def overlap_ms(FLin, FUin, P, FL, FU):
    """direct band-overlap sums: ms[j, c] = sum_i P[i, c] * |[FLin_i, FUin_i] ^ [FL_j, FU_j]|
    and cum[j, c] = sum_i P[i, c] * |[FLin_i, FUin_i] ^ (-inf, FU_j]| (conditioning)"""
    P = np.asarray(P, float)
    m = len(FL)
    ms = np.zeros((m, P.shape[1]))
    cum = np.zeros((m, P.shape[1]))
    for j in range(m):
        ov = np.minimum(FUin, FU[j]) - np.maximum(FLin, FL[j])
        ov = np.where(ov > 0, ov, 0.0)
        ms[j] = ov @ P
        below = np.minimum(FUin, FU[j]) - FLin
        below = np.where(below > 0, below, 0.0)
        cum[j] = below @ np.abs(P)
    return ms, cum


def rescale_ref(P, FLin, FUin, FL, FU, extendends):
    """-> (Pout, ms, msv, cum).  Band j receives the input mean square that falls inside
    it; with `extendends` the first / last band is scaled up by (its width) / (the part of
    it covered by the input range) when it reaches beyond the input range."""
    FL = np.array(FL, float)
    FU = np.array(FU, float)
    ms, cum = overlap_ms(FLin, FUin, P, FL, FU)
    width = (FU - FL).reshape(-1, 1)
    cov = width.copy()
    if extendends:
        lo = max(FL[0], FLin[0])
        cov[0, 0] = cov[0, 0] - (lo - FL[0])
        hi = min(FU[-1], FUin[-1])
        cov[-1, 0] = cov[-1, 0] - (FU[-1] - hi)
    with np.errstate(divide="ignore", invalid="ignore"):
        Pout = ms / cov
    Pout = np.where(ms == 0, 0.0, Pout)
    ms2 = Pout * width
    return Pout, ms2, ms2.sum(axis=0), cum


def octave_bands(n, s, e, anchor=1000.0):
    """exact octave scale anchor*2^(i/n); every band that contains part of [s, e]
    ('first band includes s and last band includes e') -> (F, FL, FU, ambiguous)"""
    half = 2.0 ** (1.0 / (2 * n))
    i0 = int(math.floor(math.log2(s / anchor) * n)) - 2
    i1 = int(math.ceil(math.log2(e / anchor) * n)) + 2
    idx = np.arange(i0, i1 + 1)
    F = anchor * 2.0 ** (idx / n)
    FL, FU = F / half, F * half
    keep = (FU >= s) & (FL <= e)
    amb = bool(np.any(np.abs(FU / s - 1) < 1e-9) or np.any(np.abs(FL / e - 1) < 1e-9))
    return F[keep], FL[keep], FU[keep], amb


# ------------------------------------------------------------------ resample

def kaiser_window(M, beta):
    """Kaiser window with M+1 points: I0(beta sqrt(1-(2k/M-1)^2))/I0(beta)"""
    k = np.arange(M + 1)
    if M == 0:
        return np.ones(1)
    v = 2.0 * k / M - 1.0
    return np.i0(beta * np.sqrt(np.clip(1 - v * v, 0, None))) / np.i0(beta)


def lanczos_gain(p, q, pts, beta, nu):
    """frequency response (real, zero-phase) of the documented interpolation kernel at
    frequencies nu in cycles per sample of the p-times up-sampled stream, normalised to
    unit pass-band gain.  p, q reduced.  Kernel: sinc at cut-off min(old, new)/2 times a
    Kaiser(beta) window spanning `pts` samples of the coarser rate either side."""
    big = max(p, q)
    M = 2 * pts * big
    k = np.arange(M + 1) - M / 2.0
    h = kaiser_window(M, beta) * np.sinc(k / big) / big      # sums to ~1
    nu = np.atleast_1d(np.asarray(nu, float))
    return np.cos(2 * np.pi * np.outer(nu, k)) @ h


def resample_bound(p, q, pts, beta, f):
    """worst-case |resampled - analytic| for a unit sinusoid of frequency f (cycles per
    ORIGINAL sample) away from the record ends: pass-band droop |1 - H(f/p)| plus the
    p-1 zero-stuffing images |H((k+f)/p)| that the anti-imaging filter lets through."""
    k = np.arange(p)
    H = lanczos_gain(p, q, pts, beta, (k + f) / p)
    return float(abs(1 - H[0]) + np.abs(H[1:]).sum())


# ------------------------------------------------------------------ fixtime

def is_drop(y, dropval):
    """NaN and inf are always drop-outs; finite dropval marks values within 1 % of it"""
    y = np.asarray(y, float)
    bad = ~np.isfinite(y)
    if np.isfinite(dropval):
        with np.errstate(invalid="ignore"):
            bad = bad | (np.abs(y - dropval) < abs(dropval) / 100)
    return bad


def fixtime_kept(t, y, dropval, deldrops, delouttimes):
    """samples that take part in the nearest-sample map, sorted by time.
    -> (t_kept, y_kept, info) or (None, None, reason) when a 3-sigma comparison is
    within round-off of equality (no verdict possible)."""
    t = np.asarray(t, float)
    y = np.asarray(y, float)
    order = np.argsort(t, kind="stable")
    t, y = t[order], y[order]
    keep = np.ones(len(t), bool)
    ndrop = 0
    if deldrops:
        d = is_drop(y, dropval)
        ndrop = int(d.sum())
        keep &= ~d
    nout = 0
    if keep.sum() >= 2:
        tk = t[keep]
        mn = tk.mean()
        sig = 3 * tk.std(ddof=1)
        dev = np.abs(tk - mn)
        if np.any(np.abs(dev - sig) <= 1e-9 * max(sig, 1e-300)):
            return None, None, "outtime_borderline"
        out = dev > sig
        nout = int(out.sum())
        if delouttimes and nout:
            idx = np.nonzero(keep)[0]
            keep[idx[out]] = False
    return t[keep], y[keep], dict(ndrop=ndrop, nout=nout)


def _same(a, b):
    return a == b or (a != a and b != b)


def nearest_violation(told, yold, tnew, ynew, eps, strict_ties):
    """every ynew[k] must be the value of an input sample at minimal |told - tnew[k]|
    (within eps).  With strict_ties (exact arithmetic) an exact tie between two different
    times must resolve to the earlier time; duplicates of one time -> any of them.
    -> None or (k, expected values, got)"""
    told = np.asarray(told, float)
    for k in range(len(tnew)):
        d = np.abs(told - tnew[k])
        dmin = d.min()
        ok = d <= dmin + eps
        if strict_ties:
            first = told[ok].min()
            ok = ok & (told == first)
        vals = yold[ok]
        if not any(_same(v, ynew[k]) for v in vals):
            return k, vals[:4].tolist(), float(ynew[k])
    return None


def previous_violation(told, yold, tnew, ynew, thr_off, eps):
    """hold-previous rule: ynew[k] is the value of the latest sample whose time is not
    later than tnew[k] + thr_off; a sample within eps of that threshold may or may not
    count; before the first sample the first sample is used.
    -> None or (k, expected values, got)"""
    told = np.asarray(told, float)
    for k in range(len(tnew)):
        thr = tnew[k] + thr_off
        sure = told <= thr - eps if eps > 0 else told <= thr
        maybe = told <= thr + eps
        a = told[sure].max() if sure.any() else told.min()
        ok = (told == a) | (maybe & (told >= a))
        vals = yold[ok]
        if not any(_same(v, ynew[k]) for v in vals):
            return k, vals[:4].tolist(), float(ynew[k])
    return None
