"""Independent Nastran OUTPUT2 encoder (reference model for C11).

Written from the record layout notes at the top of pyyeti/nastran/op2.py and
from token dumps of the Nastran-written sample files (single_le.op2,
double_be.op2, tugd_2020_64bit.op2, nas2cam_notall6_msc2017_b.op2,
cant_beam.op2 ...).  Uses only struct/numpy and never imports pyyeti.

Physical elements (I = 4-byte integer, or 8-byte in 64-bit files; a word is
one I; the Fortran record markers are always 4-byte byte counts)

    KEY(v)  : [len(I)] [v as I] [len(I)]
    REC(p)  : [len(p)] [p] [len(p)]

File header (optional, "label" records)

    KEY 3, REC date(3 I), KEY 7, REC "NASTRAN FORT TAPE ID CODE - " (7 words),
    KEY 2, REC label (2 words), KEY -1, KEY 0

Every data block

    KEY 2, REC name (2 words), KEY -1,
    KEY 7, REC trailer (7 I), KEY -2, KEY 1, KEY 0,
    KEY n, REC header record (n words: name + ...), KEY -3, KEY 1, KEY t
        t = 0: table, t = 1: matrix

Table (t = 0), record k = 1, 2, ...

    KEY n1, REC part 1 [, KEY n2, REC part 2 ...], KEY -(3 + k), KEY 1, KEY 0
    ...
    KEY 0                                     end of data block

Matrix (t = 1), column j = 1 .. ncols

    [KEY nw, REC (irow (I), nw words of reals)] per string,
    KEY -(3 + j), KEY 1, KEY (1 if j < ncols else 0)
    ...
    KEY 0                                     end of data block
    reals: single precision = 1 word (4 bytes / 8 bytes in 64-bit files),
    double precision = 8 bytes (2 words / 1 word); complex = (re, im) pairs,
    irow counts complex entries.

Text in 64-bit files: 4 characters per 8-byte word, blank padded.
End of file: optional KEY 0.
"""
import struct

import numpy as np


class Writer:
    def __init__(self, endian, bit64):
        self.e = endian
        self.W = 8 if bit64 else 4
        self.i = "q" if bit64 else "i"
        self.bit64 = bit64
        self.buf = bytearray()

    def tell(self):
        return len(self.buf)

    def key(self, v):
        m = struct.pack(self.e + "i", self.W)
        self.buf += m + struct.pack(self.e + self.i, v) + m

    def rec(self, payload):
        m = struct.pack(self.e + "i", len(payload))
        self.buf += m + payload + m

    def ints(self, *v):
        return struct.pack(self.e + f"{len(v)}{self.i}", *v)

    def text(self, s, nwords):
        """`s` laid out 4 characters per word"""
        s = s.ljust(4 * nwords)[:4 * nwords]
        if not self.bit64:
            return s.encode()
        return "".join(s[k:k + 4].ljust(8) for k in range(0, len(s), 4)).encode()


DTYPES = {"int": "i", "uint": "u", "single": "f4", "double": "f8"}


def record_bytes(W, endian, dtype, data):
    """typed record content -> bytes in file byte order"""
    if dtype == "bytes":
        b = bytes(data)
    elif dtype in ("int", "uint"):
        b = np.asarray(data).astype(f"{endian}{DTYPES[dtype]}{W}").tobytes()
    else:
        b = np.asarray(data).astype(endian + DTYPES[dtype]).tobytes()
    if len(b) % W:
        raise ValueError("record is not a whole number of words")
    return b


def encode(blocks, enc):
    """-> (file bytes, info)

    enc: dict(endian="<"|">", bit64=bool, header=None | dict(date=(m, d, y), label=str),
              eof=bool)
    blocks: list of
      dict(kind="matrix", name, trailer=(7 ints: id, cols, rows, form, mtype, x, y),
           columns=[(j, [(i0, vals), ...]), ...])    (0-based, as in op4enc)
      dict(kind="table", name, trailer=(7 ints), header_words=bytes (after the name)
           or name2=str, records=[dict(dtype, data, cuts=[word offsets])...])
    info: dict(header_end, eof_pos, size, blocks=[dict(name, kind, start, stop,
          data_start, trailer, size, records=[dict(start, next, parts=[(head3, nbytes)],
          bytes)])])
    """
    w = Writer(enc.get("endian", "<"), enc.get("bit64", False))
    W, e = w.W, w.e
    hdr = enc.get("header")
    if hdr:
        w.key(3)
        w.rec(w.ints(*hdr.get("date", (1, 2, 24))))
        w.key(7)
        w.rec(w.text("NASTRAN FORT TAPE ID CODE - ", 7))
        w.key(2)
        w.rec(w.text(hdr.get("label", "XXXXXXXX"), 2))
        w.key(-1)
        w.key(0)
    info = dict(header_end=w.tell(), blocks=[])
    for b in blocks:
        start = w.tell()
        name = b["name"]
        trailer = tuple(int(t) for t in b["trailer"])
        w.key(2)
        w.rec(w.text(name, 2))
        w.key(-1)
        w.key(7)
        w.rec(w.ints(*trailer))
        w.key(-2)
        w.key(1)
        w.key(0)
        bi = dict(name=name, kind=b["kind"], start=start, trailer=trailer, records=[])
        if b["kind"] == "matrix":
            hrec = w.text(b.get("name2", name), 2) + w.ints(170, 170)
            w.key(len(hrec) // W)
            w.rec(hrec)
            w.key(-3)
            w.key(1)
            w.key(1)
            bi["data_start"] = w.tell()
            cols, rows, mtype = trailer[1], trailer[2], trailer[4]
            cplx = mtype > 2
            if (mtype & 1) and W == 4:
                rdt, wpr = np.dtype(e + "f4"), 1
            else:
                rdt, wpr = np.dtype(e + "f8"), 8 // W
            bycol = dict(b["columns"])
            written = []
            for j in range(cols):
                wstr = []
                for i0, vals in bycol.get(j, []):
                    if cplx:
                        v = np.asarray(vals, dtype=np.complex128)
                        a = np.empty(2 * len(v))
                        a[0::2], a[1::2] = v.real, v.imag
                    else:
                        a = np.asarray(vals, dtype=np.float64)
                    a = a.astype(rdt)
                    w.key(len(a) * wpr)
                    w.rec(w.ints(i0 + 1) + a.tobytes())
                    a64 = a.astype(np.float64)
                    wstr.append((i0, a64[0::2] + 1j * a64[1::2] if cplx else a64))
                if wstr:
                    written.append((j, wstr))
                w.key(-(4 + j))
                w.key(1)
                w.key(1 if j + 1 < cols else 0)
            w.key(0)
            bi["written"] = written
            bi["size"] = (rows, cols)
        else:
            hrec = w.text(b.get("name2", name), 2) + bytes(b.get("header_words", b""))
            w.key(len(hrec) // W)
            w.rec(hrec)
            w.key(-3)
            w.key(1)
            w.key(0)
            bi["data_start"] = w.tell()
            for k, r in enumerate(b["records"]):
                data = record_bytes(W, e, r["dtype"], r["data"])
                nwords = len(data) // W
                cuts = sorted(set(c for c in r.get("cuts", []) if 0 < c < nwords))
                edges = [0] + cuts + [nwords]
                ri = dict(start=w.tell(), parts=[], bytes=data)
                for a, z in zip(edges[:-1], edges[1:]):
                    part = data[a * W:z * W]
                    w.key(z - a)
                    w.rec(part)
                    # what a 3-word peek at the start of the part sees (short parts
                    # run into the record marker / next key: left to the caller)
                    head = struct.unpack(e + f"3{w.i}", part[:3 * W]) if z - a >= 3 else None
                    ri["parts"].append((head, len(part)))
                w.key(-(4 + k))
                w.key(1)
                w.key(0)
                ri["next"] = w.tell()
                bi["records"].append(ri)
            w.key(0)
            bi["size"] = (0, 0)
        bi["stop"] = w.tell()
        info["blocks"].append(bi)
    info["eof_pos"] = w.tell()
    if enc.get("eof", True):
        w.key(0)
    info["size"] = w.tell()
    return bytes(w.buf), info
