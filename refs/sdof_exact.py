"""Exact base-excited single-DOF response for sampled input (no pyyeti import).

    u'' + (w/Q) u' + w^2 u = -zdd(t),     zdd piece-wise linear through the samples

Non-dimensional form (time unit = one sample dT = 1/sr, x = w*dT, U = u/dT^2, V = u'/dT,
f = -zdd):

    d/dtau [U, V, f, D] = [[0, 1, 0, 0], [-x^2, -x/Q, 1, 0], [0, 0, 0, 1], [0, 0, 0, 0]] [U, V, f, D]

so one step is  s_{n+1} = E s_n + P1 f_n + P2 (f_{n+1} - f_n)  with E, P1, P2 read from the
exponential of that 4x4 matrix (scipy.linalg.expm in double precision for the bulk, mpmath at 40
digits for the cross-check; refs/ode_exact.py is the same construction for general M, B, K).

Response types (from the srs docstring): relative displacement u, relative velocity u',
relative acceleration u'', absolute acceleration u'' + zdd, pseudo velocity w*u, pseudo
acceleration w^2*u.

Initial-condition rules (srs docstring):
    zero    rest one time step BEFORE the first sample, where the input is taken as zero
    shift   subtract the first sample from each signal, then as 'zero'
    mshift  subtract the mean of each signal, then as 'zero'
    steady  the oscillator is in the steady state belonging to a constant input equal to
            the first sample when the record starts (u = -s1/w^2, u' = 0); the input itself
            is not modified (zeros follow the record in the residual window)

Windows: primary = the N input samples; residual/total: the record is followed by
ceil(sr / lowest positive frequency) zero samples; residual = only those.
"""
import math

import mpmath
import numpy as np
import scipy.linalg as sla

STYPES = ("absacce", "relacce", "reldisp", "relvelo", "pvelo", "pacce")
ICS = ("zero", "shift", "mshift", "steady")
PEAKS = ("abs", "pos", "neg", "poss", "negs", "rms")
TIMES = ("primary", "residual", "total")


# ------------------------------------------------------------------ one-step maps

def step_double(x, Q):
    """E (2x2), P1 (2,), P2 (2,) of the non-dimensional oscillator, double precision"""
    Z = np.zeros((4, 4))
    Z[0, 1] = 1.0
    Z[1, 0] = -x * x
    Z[1, 1] = -x / Q
    Z[1, 2] = 1.0
    Z[2, 3] = 1.0
    X = sla.expm(Z)
    return X[:2, :2].copy(), X[:2, 2].copy(), X[:2, 3].copy()


def step_mp(fn, sr, Q, dps=40):
    """same in mpmath; x = 2 pi fn / sr is formed in mpmath from the double inputs"""
    with mpmath.workdps(dps):
        x = 2 * mpmath.pi * mpmath.mpf(float(fn)) / mpmath.mpf(float(sr))
        q = mpmath.mpf(float(Q))
        Z = mpmath.zeros(4)
        Z[0, 1] = 1
        Z[1, 0] = -x * x
        Z[1, 1] = -x / q
        Z[1, 2] = 1
        Z[2, 3] = 1
        X = mpmath.expm(Z, method="taylor")
        return x, X[0:2, 0:2], X[0:2, 2], X[0:2, 3]


# ------------------------------------------------------------------ windows / peaks

def pad_count(sr, freqs):
    """number of zero samples that follow the record (one cycle of the lowest positive frequency)"""
    f = np.asarray(freqs, float)
    f = f[f > 0]
    if f.size == 0:
        return 0
    return int(math.ceil(sr / f.min()))


def pad_count_alternatives(sr, freqs):
    """acceptable counts when sr/fmin sits on an integer to rounding"""
    f = np.asarray(freqs, float)
    f = f[f > 0]
    if f.size == 0:
        return {0}
    r = sr / f.min()
    out = {int(math.ceil(r))}
    if abs(r - round(r)) <= 1e-9 * max(1.0, abs(r)):
        out |= {int(round(r)), int(round(r)) + 1}
    return out


def peak_stat(h, peak):
    """documented peak statistics of a history block (time x ...), along axis 0"""
    if peak == "abs":
        return np.abs(h).max(axis=0)
    if peak == "pos":
        return np.abs(h.max(axis=0))
    if peak == "neg":
        return np.abs(h.min(axis=0))
    if peak == "poss":
        return h.max(axis=0)
    if peak == "negs":
        return h.min(axis=0)
    if peak == "rms":
        return np.sqrt(np.mean(h * h, axis=0))
    raise ValueError(peak)


def apply_ic(sig, ic):
    """-> (input record actually driving the oscillator, first sample s1)"""
    sig = np.asarray(sig, float)
    s1 = sig[0].copy()
    if ic == "shift":
        return sig - s1, s1
    if ic == "mshift":
        return sig - sig.mean(axis=0), s1
    return sig.copy(), s1


def _outputs(stype, U, V, zdd, x, Q, dT):
    """response of the requested type from the non-dimensional state"""
    if stype == "reldisp":
        return U * (dT * dT)
    if stype == "relvelo":
        return V * dT
    if stype == "pvelo":
        return (x * dT) * U           # w * u = (x/dT) * U dT^2
    if stype == "pacce":
        return (x * x) * U
    racc = -zdd - (x / Q) * V - (x * x) * U
    if stype == "relacce":
        return racc
    if stype == "absacce":
        return -(x / Q) * V - (x * x) * U
    raise ValueError(stype)


# ------------------------------------------------------------------ histories

def history(sig, sr, freqs, Q, stype, ic="zero", npad=0):
    """Exact response histories, double-precision recurrence.

    sig : (N, H) raw base acceleration; freqs : (LF,) Hz (0 allowed except for ic='steady')
    returns hist (N + npad, H, LF) -- total window; slice [:N] primary, [N:] residual
    """
    sig = np.asarray(sig, float)
    if sig.ndim == 1:
        sig = sig.reshape(-1, 1)
    N, H = sig.shape
    freqs = np.atleast_1d(np.asarray(freqs, float))
    LF = len(freqs)
    dT = 1.0 / sr
    drv, s1 = apply_ic(sig, ic)
    zdd = np.vstack((drv, np.zeros((npad, H))))          # input over the total window
    nt = N + npad
    hist = np.empty((nt, H, LF))
    for j, fn in enumerate(freqs):
        x = 2.0 * math.pi * fn / sr
        E, P1, P2 = step_double(x, Q)
        if ic == "steady":
            if fn == 0:
                raise ValueError("steady state undefined for fn = 0")
            U = -s1 / (x * x)
            V = np.zeros(H)
        else:
            # rest one step before the first sample, input ramps from 0 to zdd[0]
            f1 = -zdd[0]
            U = P2[0] * f1
            V = P2[1] * f1
        hist[0, :, j] = _outputs(stype, U, V, zdd[0], x, Q, dT)
        for n in range(1, nt):
            f0 = -zdd[n - 1]
            df = -zdd[n] - f0
            U, V = (E[0, 0] * U + E[0, 1] * V + P1[0] * f0 + P2[0] * df,
                    E[1, 0] * U + E[1, 1] * V + P1[1] * f0 + P2[1] * df)
            hist[n, :, j] = _outputs(stype, U, V, zdd[n], x, Q, dT)
    return hist


def history_mp(sig1, sr, fn, Q, stype, ic="zero", npad=0, nmax=None, dps=40):
    """Same for ONE signal (N,) and ONE frequency, everything in mpmath; returns floats.

    Only the first `nmax` samples of the total window are produced.
    """
    sig1 = np.asarray(sig1, float).ravel()
    N = len(sig1)
    nt = N + npad
    if nmax is not None:
        nt = min(nt, nmax)
    out = np.empty(nt)
    with mpmath.workdps(dps):
        mpf = mpmath.mpf
        x, E, P1, P2 = step_mp(fn, sr, Q, dps)
        q = mpf(float(Q))
        dT = 1 / mpf(float(sr))
        raw = [mpf(float(v)) for v in sig1]
        s1 = raw[0]
        if ic == "shift":
            drv = [v - s1 for v in raw]
        elif ic == "mshift":
            mean = sum(raw) / N
            drv = [v - mean for v in raw]
        else:
            drv = raw
        zdd = drv + [mpf(0)] * npad

        def outp(U, V, z):
            if stype == "reldisp":
                return U * dT * dT
            if stype == "relvelo":
                return V * dT
            if stype == "pvelo":
                return x * dT * U
            if stype == "pacce":
                return x * x * U
            racc = -z - (x / q) * V - x * x * U
            return racc if stype == "relacce" else racc + z

        if ic == "steady":
            U, V = -s1 / (x * x), mpf(0)
        else:
            f1 = -zdd[0]
            U, V = P2[0] * f1, P2[1] * f1
        out[0] = float(outp(U, V, zdd[0]))
        for n in range(1, nt):
            f0 = -zdd[n - 1]
            df = -zdd[n] - f0
            U, V = (E[0, 0] * U + E[0, 1] * V + P1[0] * f0 + P2[0] * df,
                    E[1, 0] * U + E[1, 1] * V + P1[1] * f0 + P2[1] * df)
            out[n] = float(outp(U, V, zdd[n]))
    return out


# ------------------------------------------------------------------ frequency-domain closed forms

def frf_transfer(p, Q):
    """absolute-acceleration transmissibility (1 + i p/Q) / (1 - p^2 + i p/Q)"""
    p = np.asarray(p, float)
    return (1.0 + 1j * p / Q) / (1.0 - p * p + 1j * p / Q)


def p_peak(Q):
    """maximiser of |H(p)|: Q sqrt(sqrt(1 + 2/Q^2) - 1), evaluated without cancellation"""
    with mpmath.workdps(40):
        q = mpmath.mpf(float(Q))
        return float(q * mpmath.sqrt(mpmath.sqrt(1 + 2 / q ** 2) - 1))


def lin_interp_zero(xp, fp, x):
    """piece-wise linear interpolation of columns fp (n, m) at x, 0 outside [xp[0], xp[-1]]"""
    xp = np.asarray(xp, float)
    fp = np.asarray(fp, float)
    x = np.asarray(x, float)
    out = np.zeros((len(x),) + fp.shape[1:])
    for i, xi in enumerate(x):
        if xi < xp[0] or xi > xp[-1]:
            continue
        k = int(np.searchsorted(xp, xi, side="right")) - 1
        if k >= len(xp) - 1:
            out[i] = fp[-1]
            continue
        t = (xi - xp[k]) / (xp[k + 1] - xp[k])
        out[i] = fp[k] + t * (fp[k + 1] - fp[k])
    return out


def loglog_interp_zero(xp, fp, x):
    """interpolation linear in (log f, log psd), 0 outside the specification"""
    xp = np.asarray(xp, float)
    fp = np.asarray(fp, float)
    x = np.asarray(x, float)
    out = np.zeros((len(x),) + fp.shape[1:])
    for i, xi in enumerate(x):
        if xi < xp[0] or xi > xp[-1]:
            continue
        k = int(np.searchsorted(xp, xi, side="right")) - 1
        if k >= len(xp) - 1:
            out[i] = fp[-1]
            continue
        t = math.log(xi / xp[k]) / math.log(xp[k + 1] / xp[k])
        out[i] = fp[k] * (fp[k + 1] / fp[k]) ** t
    return out


def vrs_gain(freq, fn, Q):
    """(1 + (p/Q)^2) / ((1 - p^2)^2 + (p/Q)^2), p = freq/fn"""
    p = np.asarray(freq, float) / fn
    return (1.0 + (p / Q) ** 2) / ((1.0 - p * p) ** 2 + (p / Q) ** 2)
