"""Helper models for the bulk-data round-trip check (C13).  No pyyeti import.

* precision of a Python format field ("f" with d decimals / "e" with p decimals)
* value generators that stay inside what such a field can hold
* DOF expansion (0 or any combination of the digits 1-6)
* the index a DMIG reader has to produce: the sorted set of (id, dof) pairs
  that the cards reference
"""
import math
from decimal import Decimal

import numpy as np

EPS = 2.0 ** -52

# ---------------------------------------------------------------- number fields
# a field spec is (format text, width, style, decimals):
#   style "f": fixed, `decimals` digits after the point  -> absolute half unit 0.5*10^-d
#   style "e": scientific, `decimals` digits after the point -> half unit 0.5*10^(e-d)

FIELDS = {
    "8.1f": ("{:8.1f}", 8, "f", 1),
    "8.2f": ("{:8.2f}", 8, "f", 2),
    "8.3f": ("{:8.3f}", 8, "f", 3),
    "8.4f": ("{:8.4f}", 8, "f", 4),
    "8.5f": ("{:8.5f}", 8, "f", 5),
    "#8.0f": ("{:#8.0f}", 8, "f", 0),
    "8.1E": ("{:8.1E}", 8, "e", 1),
    "16.2f": ("{:16.2f}", 16, "f", 2),
    "16.4f": ("{:16.4f}", 16, "f", 4),
    "16.5f": ("{:16.5f}", 16, "f", 5),
    "16.8f": ("{:16.8f}", 16, "f", 8),
    "16.10f": ("{:16.10f}", 16, "f", 10),
    "16.6E": ("{:16.6E}", 16, "e", 6),
    "16.9E": ("{:16.9E}", 16, "e", 9),
    "16.9e": ("{:16.9e}", 16, "e", 9),
    "16.8e": ("{:16.8e}", 16, "e", 8),
}


def half_unit(field, x):
    """half a unit of the last digit the field writes for the value x"""
    _, _, style, d = FIELDS[field]
    if style == "f":
        return 0.5 * 10.0 ** (-d)
    if x == 0:
        return 0.0
    e = Decimal(abs(float(x))).adjusted()
    return 0.5 * 10.0 ** (e - d)


def field_err(field, got, want):
    """(ok, error in half units) for one number read back from `field`"""
    got = float(got)
    want = float(want)
    hu = half_unit(field, want)
    err = abs(got - want)
    if hu == 0.0:
        return err == 0.0, 0.0 if err == 0.0 else math.inf
    tol = hu * (1 + 1e-6) + 4 * EPS * abs(want)
    return err <= tol, err / hu


def fits(field, x):
    """does the value occupy exactly the announced width?"""
    fmt, width, _, _ = FIELDS[field]
    return len(fmt.format(float(x))) == width


def draw_field_values(rng, field, n):
    """n values that the field can hold (any sign), mixing generic values,
    values on the field's own grid, integers and zeros"""
    fmt, width, style, d = FIELDS[field]
    if style == "f":
        ndig = width - d - 2            # integer digits available to a negative number
        top = 0.9 * 10.0 ** ndig
        kind = rng.integers(0, 5)
        if kind == 0:
            v = rng.uniform(-top, top, n)
        elif kind == 1:                 # small numbers: the leading zeros matter
            v = rng.uniform(-1, 1, n)
        elif kind == 2:                 # exactly on the grid of the field
            q = 10.0 ** d
            v = np.round(rng.uniform(-top, top, n) * q) / q
        elif kind == 3:
            v = np.floor(rng.uniform(-min(top, 1e6), min(top, 1e6), n))
        else:
            v = rng.uniform(-top, top, n) * (rng.random(n) < 0.7)
        return v
    # scientific: two-digit exponents (what fits with a sign)
    kind = rng.integers(0, 4)
    if kind == 0:
        v = rng.uniform(-1, 1, n)
    elif kind == 1:
        v = np.sign(rng.uniform(-1, 1, n)) * rng.uniform(1, 10, n) * 10.0 ** rng.integers(-90, 90, n)
    elif kind == 2:
        v = np.sign(rng.uniform(-1, 1, n)) * 9.99999999999 * 10.0 ** rng.integers(-20, 20, n)
    else:
        v = rng.integers(-999, 1000, n).astype(float)
    v = np.asarray(v, float)
    for i in range(n):
        if not fits(field, v[i]):
            v[i] = abs(v[i])
        if not fits(field, v[i]):
            v[i] = 1.0
    return v


# ---------------------------------------------------------------- DOF

def expand_dof(pairs):
    """[[id, dof], ...] with dof 0 or digits 1..6 -> one row per (id, single dof)"""
    out = []
    for nid, dof in pairs:
        if dof == 0:
            out.append([int(nid), 0])
        else:
            for ch in str(int(dof)):
                out.append([int(nid), int(ch)])
    return out


# ---------------------------------------------------------------- DMIG

E16 = "{:16.9E}"


def dmig_representable(x):
    """'%16.9E' renders the value in the 16 characters of the field"""
    return len(E16.format(float(x))) == 16


def dmig_make_representable(a):
    """flip the sign of real values whose '%16.9E' text is 17 characters long
    (negative numbers with a three-digit exponent)"""
    a = np.array(a, float)
    flat = a.ravel()
    big = (flat < 0) & ((np.abs(flat) >= 9.9e99) | (np.abs(flat) < 1.1e-99))
    for k in np.nonzero(big)[0]:
        if not dmig_representable(flat[k]):
            flat[k] = -flat[k]
    return flat.reshape(a.shape)


def dmig_draw(rng, vclass, n):
    if vclass == "unit":
        return rng.uniform(-1, 1, n)
    if vclass == "int":
        v = rng.integers(-9, 10, n).astype(float)
        v[v == 0] = 3.0
        return v
    if vclass == "wide":          # two-digit exponents, both signs
        return np.sign(rng.uniform(-1, 1, n)) * rng.uniform(1, 10, n) * 10.0 ** rng.integers(-99, 99, n)
    if vclass == "wide32":        # inside the float32 range
        return np.sign(rng.uniform(-1, 1, n)) * rng.uniform(1, 10, n) * 10.0 ** rng.integers(-30, 30, n)
    if vclass == "exp3":          # three-digit exponents: only positive numbers fit the field
        return rng.uniform(1, 10, n) * 10.0 ** (rng.choice([-1, 1], n) * rng.integers(100, 300, n))
    if vclass == "nines":         # mantissas that round up to the next decade
        return dmig_make_representable(
            np.sign(rng.uniform(-1, 1, n)) * 9.99999999996 * 10.0 ** rng.choice(
                [99, -100, 0, 9, -10, 5, -1, 98], n))
    if vclass == "mixed":         # several magnitudes in one matrix
        return np.sign(rng.uniform(-1, 1, n)) * rng.uniform(1, 10, n) * 10.0 ** rng.integers(-12, 12, n)
    raise ValueError(vclass)


def dmig_mask(rng, pattern, nr, nc):
    M = np.zeros((nr, nc), bool)
    if pattern == "dense":
        M[:] = True
    elif pattern == "sparse":
        M = rng.random((nr, nc)) < 0.3
    elif pattern == "diag":
        M |= np.eye(nr, nc, dtype=bool)
    elif pattern == "band":
        for k in (-1, 0, 1):
            M |= np.eye(nr, nc, k, dtype=bool)
    elif pattern == "single":
        M[rng.integers(0, nr), rng.integers(0, nc)] = True
    elif pattern == "offdiag":      # zero diagonal
        M[:] = True
        M &= ~np.eye(nr, nc, dtype=bool)
    elif pattern == "zero_rc":      # whole rows and columns absent
        M[:] = True
        kr = rng.random(nr) < 0.4
        kc = kr if nr == nc else rng.random(nc) < 0.4
        M[kr, :] = False
        M[:, kc] = False
    elif pattern == "lastcol":      # only the last column / first row
        M[:, -1] = True
        M[0, :] = True
    else:
        raise ValueError(pattern)
    return M


def expand_labels(labels):
    out = set()
    for nid, dof in labels:
        if dof > 0:
            out.update((nid, k) for k in range(1, 7))
        else:
            out.add((nid, 0))
    return out


def dmig_expected_labels(rows, cols, nz, form, expanded=False, square=False, ncol=None):
    """index the reader has to return: sorted set of the (id, dof) pairs that
    appear on the cards.  A column card exists for every column with a non-zero
    term, a row term for every non-zero term (lower triangle only for form 6,
    whose index is the union of both)."""
    nz = np.asarray(nz, bool)
    rused = nz.any(axis=1)
    cused = nz.any(axis=0)
    rset = {tuple(rows[i]) for i in np.nonzero(rused)[0]}
    if form == 9:
        if expanded:
            rset = expand_labels(rset)
            return sorted(rset), list(range(1, int(ncol) + 1))
        return sorted(rset), sorted(int(cols[j]) for j in np.nonzero(cused)[0])
    cset = {tuple(cols[j]) for j in np.nonzero(cused)[0]}
    if expanded:
        rset = expand_labels(rset)
        cset = expand_labels(cset)
    if form == 6 or (form == 1 and square):
        rset = cset = rset | cset
    return sorted(rset), sorted(cset)


# ---------------------------------------------------------------- id lists

def run_structure(ids):
    """lengths of the maximal runs (consecutive increasing by one) of the list, in order"""
    runs = []
    k = 0
    n = len(ids)
    while k < n:
        j = k
        while j + 1 < n and ids[j + 1] == ids[j] + 1:
            j += 1
        runs.append(j - k + 1)
        k = j + 1
    return runs
