"""Independent Nastran OUTPUT4 encoder (reference model for C11).

Written from the record layouts of the OUTPUT4 module as documented in
pyyeti/nastran/op4.py's comments and as observed in the Nastran-written sample
files of pyyeti/tests/nastran_op4_data (hex dumps).  Uses only struct/numpy and
never imports pyyeti.

Logical content of one matrix
-----------------------------
    dict(name=str, rows=int, cols=int, form=int, mtype=1..4,
         layout="dense" | "bigmat" | "nonbigmat",
         columns=[(j, [(i0, vals), (i1, vals), ...]), ...])

`columns` lists, in increasing 0-based column order, the columns that are
physically present; each has its *strings* (0-based first row, 1-D array of
the stored entries, complex for mtype 3/4).  Dense layout: exactly one string
per present column.  Which entries are stored (zeros inside strings, splits of
a non-zero run into adjacent strings, untrimmed leading/trailing zeros) is the
caller's choice: that is the "string partition" of the physical encoding.

Binary layout (all integers `I`: 4 bytes, or 8 bytes in "64-bit key" files;
record markers are always 4-byte byte counts before and after each record;
a "word" is 4 bytes in 32-bit files and 8 bytes in 64-bit files)

    header record : ncols, nrows (negated for bigmat), form, mtype  (4 I)
                    name: 8 characters (32-bit) / 2 words holding 4
                    characters each, blank padded to 8 (64-bit)
    column record : icol, irow, nwords (3 I) followed by
        dense     : irow = first row (1-based), nwords = words of data, data
        bigmat    : irow = 0, nwords = sum(L + 2); per string: L+1, irow (2 I), data
        nonbigmat : irow = 0, nwords = sum(L + 1); per string:
                    IS = irow + ((L + 1) << 16) (1 I), data
                    with L = words of data in the string
    last record   : icol = ncols + 1, irow = 1, nwords = 1 and one real 1.0
    reals         : single precision (mtype 1, 3) = 1 word; double precision
                    (mtype 2, 4) = 8 bytes = 2 words (32-bit) / 1 word (64-bit)

ASCII layout

    header line   : 4I8 (ncols, nrows, form, mtype), A8 name, format such as
                    "1P,3E23.16"; when a dimension does not fit in I8 the first
                    two integers are I16 and the line ends in "|I16"
    column line   : 3I8 (icol, irow, nwords); for the dense layout nwords is the
                    count of numbers that follow; bigmat/nonbigmat as binary with
                    32-bit word counting; string lines "2I8" (L+1, irow) or one
                    integer IS
    numbers       : `perline` per line in Ew.d / Dw.d
"""
import struct

import numpy as np


def is_complex(mtype):
    return mtype > 2


def is_single(mtype):
    return bool(mtype & 1)


# ----------------------------------------------------------------- binary

class _Bin:
    def __init__(self, endian, bit64):
        self.e = endian
        self.W = 8 if bit64 else 4
        self.i = "q" if bit64 else "i"
        self.bit64 = bit64

    def ints(self, *v):
        return struct.pack(self.e + f"{len(v)}{self.i}", *v)

    def rec(self, payload):
        m = struct.pack(self.e + "i", len(payload))
        return m + payload + m

    def name(self, name):
        if not self.bit64:
            return name[:8].ljust(8).encode()
        return (name[:4].ljust(8) + name[4:8].ljust(8)).encode()

    def real_dtype(self, mtype):
        if is_single(mtype) and self.W == 4:
            return np.dtype(self.e + "f4")
        return np.dtype(self.e + "f8")

    def words_per_real(self, mtype):
        if is_single(mtype):
            return 1
        return 8 // self.W


def _flat(vals, cplx):
    """entries -> 1-D float64 array of numbers (re, im interleaved)"""
    if cplx:
        v = np.asarray(vals, dtype=np.complex128)
        out = np.empty(2 * len(v), dtype=np.float64)
        out[0::2] = v.real
        out[1::2] = v.imag
        return out
    return np.asarray(vals, dtype=np.float64)


def _unflat(nums, cplx):
    nums = np.asarray(nums, dtype=np.float64)
    if cplx:
        return nums[0::2] + 1j * nums[1::2]
    return nums


def _encode_binary_matrix(m, B, term):
    mtype = m["mtype"]
    cplx = is_complex(mtype)
    layout = m["layout"]
    rdt = B.real_dtype(mtype)
    wpr = B.words_per_real(mtype)
    rows = -m["rows"] if m.get("neg_rows", layout == "bigmat") else m["rows"]
    out = [B.rec(B.ints(m["cols"], rows, m["form"], mtype) + B.name(m["name"]))]
    written = []
    for j, strings in m["columns"]:
        wstr = []
        datas = []
        for i0, vals in strings:
            a = _flat(vals, cplx).astype(rdt)
            datas.append((i0, a))
            wstr.append((i0, _unflat(a.astype(np.float64), cplx)))
        written.append((j, wstr))
        if layout == "dense":
            if len(datas) != 1:
                raise ValueError("dense layout: one string per column")
            i0, a = datas[0]
            payload = B.ints(j + 1, i0 + 1, len(a) * wpr) + a.tobytes()
        elif layout == "bigmat":
            nwords = sum(len(a) * wpr + 2 for _, a in datas)
            payload = B.ints(j + 1, 0, nwords)
            for i0, a in datas:
                payload += B.ints(len(a) * wpr + 1, i0 + 1) + a.tobytes()
        elif layout == "nonbigmat":
            nwords = sum(len(a) * wpr + 1 for _, a in datas)
            payload = B.ints(j + 1, 0, nwords)
            for i0, a in datas:
                L = len(a) * wpr
                if L + 1 > 32767 or i0 + 1 > 65535:
                    raise ValueError("nonbigmat: L or irow does not fit in 16 bits")
                payload += B.ints((i0 + 1) + ((L + 1) << 16)) + a.tobytes()
        else:
            raise ValueError(layout)
        out.append(B.rec(payload))
    tv = np.array([term.get("value", 1.0)], dtype=rdt)
    out.append(B.rec(B.ints(m["cols"] + 1, 1, term.get("nwords", 1)) + tv.tobytes()))
    return b"".join(out), written


# ----------------------------------------------------------------- ascii

def fortran_e(x, width, digits, onep=True, letter="E"):
    """Fortran (1P,)Ew.d edit descriptor, two-digit exponent"""
    x = float(x)
    if onep:
        s = "%.*E" % (digits, x)
        mant, ex = s.split("E")
        ex = int(ex)
    else:
        if x == 0.0:
            mant, ex = "0." + "0" * digits, 0
        else:
            s = "%.*E" % (digits - 1, x)
            mant, ex = s.split("E")
            ex = int(ex) + 1
            neg = mant.startswith("-")
            dig = mant.lstrip("-").replace(".", "")
            mant = ("-" if neg else "") + "0." + dig
    if abs(ex) > 99:
        raise ValueError("three-digit exponent is outside the supported ASCII domain")
    s = f"{mant}{letter}{'-' if ex < 0 else '+'}{abs(ex):02d}"
    if len(s) > width:
        raise ValueError("field too narrow")
    return s.rjust(width)


def ascii_format(fmt):
    """normalise an ASCII format dict -> (width, digits, perline, onep, letter, header text)"""
    if fmt.get("nofmt"):
        # no format on the header line: the OUTPUT4 default 5E16.9
        return 16, 9, 5, True, fmt.get("exp", "E"), ""
    width, digits, perline = fmt["width"], fmt["digits"], fmt["perline"]
    onep = fmt.get("onep", True)
    letter = fmt.get("exp", "E")
    text = ("1P," if onep else "") + f"{perline}{letter.upper()}{width}.{digits}"
    if fmt.get("lower"):
        text = text.lower()
        letter = letter.lower()
    return width, digits, perline, onep, letter, text


def _encode_ascii_matrix(m, fmt, term, iswidth):
    mtype = m["mtype"]
    cplx = is_complex(mtype)
    layout = m["layout"]
    wpr = 1 if is_single(mtype) else 2
    width, digits, perline, onep, letter, ftext = ascii_format(fmt)
    rows = -m["rows"] if m.get("neg_rows", layout == "bigmat") else m["rows"]
    wide = fmt.get("wide")
    if wide is None:
        wide = len(str(rows)) > 8 or len(str(m["cols"])) > 8
    iw = 16 if wide else 8
    lines = [f"{m['cols']:{iw}d}{rows:{iw}d}{m['form']:8d}{mtype:8d}{m['name'][:8]:<8s}{ftext}"
             + ("|I16" if wide else "")]
    if fmt.get("nofmt"):
        lines[0] = lines[0].rstrip()

    def numbers(a):
        txt = [fortran_e(x, width, digits, onep, letter) for x in a]
        for k in range(0, len(txt), perline):
            lines.append("".join(txt[k:k + perline]))
        return np.array([float(t.upper().replace("D", "E")) for t in txt], dtype=np.float64)

    written = []
    for j, strings in m["columns"]:
        wstr = []
        flats = [(i0, _flat(vals, cplx)) for i0, vals in strings]
        if layout == "dense":
            if len(flats) != 1:
                raise ValueError("dense layout: one string per column")
            i0, a = flats[0]
            lines.append(f"{j + 1:8d}{i0 + 1:8d}{len(a):8d}")
            wstr.append((i0, _unflat(numbers(a), cplx)))
        elif layout == "bigmat":
            nwords = sum(len(a) * wpr + 2 for _, a in flats)
            lines.append(f"{j + 1:8d}{0:8d}{nwords:8d}")
            for i0, a in flats:
                lines.append(f"{len(a) * wpr + 1:8d}{i0 + 1:8d}")
                wstr.append((i0, _unflat(numbers(a), cplx)))
        elif layout == "nonbigmat":
            nwords = sum(len(a) * wpr + 1 for _, a in flats)
            lines.append(f"{j + 1:8d}{0:8d}{nwords:8d}")
            for i0, a in flats:
                L = len(a) * wpr
                if L + 1 > 32767 or i0 + 1 > 65535:
                    raise ValueError("nonbigmat: L or irow does not fit in 16 bits")
                lines.append(f"{(i0 + 1) + ((L + 1) << 16):{iswidth}d}")
                wstr.append((i0, _unflat(numbers(a), cplx)))
        else:
            raise ValueError(layout)
        written.append((j, wstr))
    lines.append(f"{m['cols'] + 1:8d}{1:8d}{term.get('nwords', 1):8d}")
    lines.append(fortran_e(term.get("value", 1.0), width, digits, onep, letter))
    return ("\n".join(lines) + "\n").encode(), written


# ----------------------------------------------------------------- driver

def encode(mats, enc):
    """-> (file bytes, info)

    enc: dict(binary=True, endian="<"|">", bit64=bool) or
         dict(binary=False, fmt={exp, width, digits, perline, onep, lower, wide, nofmt},
              iswidth=8|11)            (a matrix may override with its own "fmt")
    optional enc["term"] = dict(nwords=1, value=1.0): the closing record.
    info: per matrix dict(name, rows, cols, form, mtype, start, stop, written)
    where `written` has the structure of `columns` with the values as they are
    represented in the file (float32-rounded / rounded to the written digits).
    """
    term = enc.get("term", {})
    chunks = []
    info = []
    pos = 0
    B = _Bin(enc.get("endian", "<"), enc.get("bit64", False)) if enc["binary"] else None
    for m in mats:
        if enc["binary"]:
            data, written = _encode_binary_matrix(m, B, term)
        else:
            fmt = dict(enc.get("fmt", {}))
            fmt.update(m.get("fmt", {}))
            data, written = _encode_ascii_matrix(m, fmt, term, enc.get("iswidth", 8))
        chunks.append(data)
        info.append(dict(name=m["name"], rows=m["rows"], cols=m["cols"], form=m["form"],
                         mtype=m["mtype"], layout=m["layout"], start=pos, stop=pos + len(data),
                         written=written))
        pos += len(data)
    return b"".join(chunks), info


def dense_of(rows, cols, mtype, columns):
    """dense ndarray (float64 / complex128) represented by a column/string list"""
    A = np.zeros((rows, cols), dtype=np.complex128 if is_complex(mtype) else np.float64)
    for j, strings in columns:
        for i0, vals in strings:
            A[i0:i0 + len(vals), j] = vals
    return A


# ------------------------------------------------- string partitions of a matrix

def partition(A, layout, rng, mode="natural", trim=True, maxlen=None):
    """columns/strings structure for the dense array `A`.

    mode "natural": what Nastran writes - dense: first..last non-zero of each
      column; sparse layouts: maximal runs of non-zeros.
    mode "split": every run additionally cut at random places into adjacent
      strings (sparse layouts only).
    mode "zeros": runs separated by short gaps are merged, i.e. zeros are stored
      inside strings; random extra zeros are attached before/after.
    `trim` False (dense): the full column is stored.
    `maxlen`: upper bound for the entries of one string (16-bit L of nonbigmat).
    Null columns are always omitted.
    """
    rows, cols = A.shape
    out = []
    for j in range(cols):
        nz = np.nonzero(A[:, j])[0]
        if len(nz) == 0:
            continue
        if layout == "dense":
            if trim:
                a, b = nz[0], nz[-1] + 1
                if mode == "zeros":
                    a = int(rng.integers(0, a + 1))
                    b = int(rng.integers(b, rows + 1))
            else:
                a, b = 0, rows
            runs = [(int(a), int(b))]
        else:
            brk = np.nonzero(np.diff(nz) != 1)[0]
            starts = np.r_[nz[0], nz[brk + 1]]
            stops = np.r_[nz[brk] + 1, nz[-1] + 1]
            runs = [(int(a), int(b)) for a, b in zip(starts, stops)]
            if mode == "zeros":
                merged = []
                for a, b in runs:
                    if merged and a - merged[-1][1] <= 2 and rng.random() < 0.6:
                        merged[-1] = (merged[-1][0], b)
                    else:
                        merged.append((a, b))
                runs = []
                prev = 0
                for k, (a, b) in enumerate(merged):
                    nxt = merged[k + 1][0] if k + 1 < len(merged) else rows
                    a2 = int(rng.integers(max(prev, a - 2), a + 1))
                    b2 = int(rng.integers(b, min(nxt, b + 2) + 1))
                    if k + 1 < len(merged) and b2 == nxt and rng.random() < 0.5:
                        b2 = b      # keep some gaps
                    runs.append((a2, b2))
                    prev = b2
            if mode in ("split", "zeros"):
                cut = []
                for a, b in runs:
                    n = b - a
                    k = int(rng.integers(0, min(3, n - 1) + 1)) if n > 1 else 0
                    pts = sorted(set(int(p) for p in rng.integers(a + 1, b, k))) if k else []
                    edges = [a] + pts + [b]
                    cut += list(zip(edges[:-1], edges[1:]))
                runs = cut
        if maxlen:
            lim = []
            for a, b in runs:
                while b - a > maxlen:
                    lim.append((a, a + maxlen))
                    a += maxlen
                lim.append((a, b))
            runs = lim
        out.append((j, [(a, A[a:b, j].copy()) for a, b in runs]))
    return out
