"""Exact solution of  M q'' + B q' + K q = F(t)  for sampled forcing (no pyyeti import).

Force is linear between samples (order 1) or constant over each step (order 0).
The one-step map is the matrix exponential of the augmented system

    d/dt [x; f; D] = [[A, Bf, 0], [0, 0, I/h], [0, 0, 0]] [x; f; D],   x = [q; q'],
    A = [[0, I], [-M^-1 K, -M^-1 B]],  Bf = [0; M^-1],  D = f1 - f0

evaluated with mpmath (default 40 digits), and the recurrence is propagated in
mpmath as well.  Independent connected components of (M, B, K) are solved
separately (a diagonal system costs one 4x4 exponential per mode).
"""
import mpmath
import numpy as np


def _components(n, *mats):
    adj = np.zeros((n, n), bool)
    for X in mats:
        adj |= (np.asarray(X) != 0)
    adj |= adj.T
    seen = np.zeros(n, bool)
    comps = []
    for s in range(n):
        if seen[s]:
            continue
        stack, comp = [s], []
        seen[s] = True
        while stack:
            i = stack.pop()
            comp.append(i)
            for j in np.nonzero(adj[i])[0]:
                if not seen[j]:
                    seen[j] = True
                    stack.append(j)
        comps.append(sorted(comp))
    return comps


def _mp(X):
    return mpmath.matrix([[mpmath.mpf(float(v)) for v in row] for row in np.atleast_2d(X)])


def step_maps(M, B, K, h, order, dps=40):
    """-> (E, P1, P2, Minv) as mpmath matrices for x=[q; q'] (P2 None for order 0)"""
    n = M.shape[0]
    with mpmath.workdps(dps):
        Mi = _mp(M) ** -1
        MiK = Mi * _mp(K)
        MiB = Mi * _mp(B)
        hh = mpmath.mpf(float(h))
        nb = 4 * n if order == 1 else 3 * n
        Z = mpmath.zeros(nb)
        for i in range(n):
            Z[i, n + i] = hh
            for j in range(n):
                Z[n + i, j] = -MiK[i, j] * hh
                Z[n + i, n + j] = -MiB[i, j] * hh
                Z[n + i, 2 * n + j] = Mi[i, j] * hh
            if order == 1:
                Z[2 * n + i, 3 * n + i] = mpmath.mpf(1)
        X = mpmath.expm(Z, method="taylor")
        E = X[0:2 * n, 0:2 * n]
        P1 = X[0:2 * n, 2 * n:3 * n]
        P2 = X[0:2 * n, 3 * n:4 * n] if order == 1 else None
        return E, P1, P2, Mi, MiB, MiK


def exact_history(M, B, K, F, d0, v0, h, order, dps=40):
    """Dense float inputs (n x n, n x nt); returns d, v, a as float arrays (n x nt)."""
    M = np.atleast_2d(np.asarray(M, float))
    B = np.atleast_2d(np.asarray(B, float))
    K = np.atleast_2d(np.asarray(K, float))
    F = np.atleast_2d(np.asarray(F, float))
    n, nt = F.shape
    d = np.zeros((n, nt))
    v = np.zeros((n, nt))
    a = np.zeros((n, nt))
    d0 = np.zeros(n) if d0 is None else np.asarray(d0, float)
    v0 = np.zeros(n) if v0 is None else np.asarray(v0, float)
    Moff = M - np.diag(np.diag(M))
    for comp in _components(n, Moff, B - np.diag(np.diag(B)), K - np.diag(np.diag(K))):
        ix = np.ix_(comp, comp)
        nc = len(comp)
        with mpmath.workdps(dps):
            E, P1, P2, Mi, MiB, MiK = step_maps(M[ix], B[ix], K[ix], h, order, dps)
            x = mpmath.matrix([mpmath.mpf(float(t)) for t in list(d0[comp]) + list(v0[comp])])
            Fm = [mpmath.matrix([mpmath.mpf(float(F[c, i])) for c in comp]) for i in range(nt)]
            for i in range(nt):
                acc = Mi * Fm[i] - MiB * x[nc:2 * nc] - MiK * x[0:nc]
                for k_, c in enumerate(comp):
                    d[c, i] = float(x[k_])
                    v[c, i] = float(x[nc + k_])
                    a[c, i] = float(acc[k_])
                if i + 1 < nt:
                    xn = E * x + P1 * Fm[i]
                    if order == 1:
                        xn = xn + P2 * (Fm[i + 1] - Fm[i])
                    x = xn
    return d, v, a
