"""High-precision references for exp(Ah) and its integrals (no pyyeti import).

    E  = exp(A h)
    I1 = int_0^h exp(A t) dt
    I2 = int_0^h t exp(A t) dt

from the exponential of the block matrix [[A, I, 0], [0, 0, I], [0, 0, 0]] * h
evaluated with mpmath at `dps` digits: top block row = [E, I1, h*I1 - I2].
"""
import mpmath
import numpy as np


def _to_np(M, r0, r1, c0, c1):
    out = np.empty((r1 - r0, c1 - c0))
    for i in range(r0, r1):
        for j in range(c0, c1):
            out[i - r0, j - c0] = float(M[i, j])
    return out


def expm_integrals(A, h, dps=40):
    A = np.asarray(A, dtype=float)
    n = A.shape[0]
    with mpmath.workdps(dps):
        M = mpmath.zeros(3 * n)
        hh = mpmath.mpf(float(h))
        for i in range(n):
            for j in range(n):
                M[i, j] = mpmath.mpf(float(A[i, j])) * hh
            M[i, n + i] = hh
            M[n + i, 2 * n + i] = hh
        # mpmath.expm (taylor + scaling/squaring) at high working precision
        X = mpmath.expm(M, method="taylor")
        E = _to_np(X, 0, n, 0, n)
        I1 = _to_np(X, 0, n, n, 2 * n)
        D = X[0:n, 2 * n:3 * n]
        I2m = hh * X[0:n, n:2 * n] - D
        I2 = _to_np(I2m, 0, n, 0, n)
    return E, I1, I2


def expm_only(A, dps=40):
    A = np.asarray(A, dtype=float)
    n = A.shape[0]
    with mpmath.workdps(dps):
        M = mpmath.matrix(A.tolist())
        X = mpmath.expm(M, method="taylor")
        return _to_np(X, 0, n, 0, n)
