"""Reference free 3-D structure and its Craig-Bampton reduction (no pyyeti import).

Physical model (all in the *basic* rectangular system first):

* N grids at locations x_k; every grid has 6 DOF (u, theta).
* A rigid link from grid i to grid j maps the motion of i to the motion a rigidly
  attached point at x_j would have:   R(r) = [[I, -[r]x], [0, I]],  r = x_j - x_i
  (u_j = u_i + theta_i x r).  R(a) R(b) = R(a + b).
* Joint element between i and j:  delta = d_j - R(r_ij) d_i,  strain energy
  1/2 delta^T k_e delta with k_e SPD (6x6)  ->  K_e = B^T k_e B,  B = [-R_ij, I].
  A rigid motion about any point P has d_k = R(x_k - P) c, hence delta = 0 and
  K rb = 0 exactly; for a connected graph the null space is exactly these 6 vectors.
* Lumped mass at grid k: mass m_k, inertia Ic_k (SPD, about its own centre of gravity,
  basic axes), centre of gravity at x_k + d_k:
      M_k = R(d_k)^T diag(m_k I3, Ic_k) R(d_k)
* Grids may have a local output frame G_k (3x3, columns = local displacement directions
  expressed in basic):  d_basic = blkdiag(G_k, G_k) d_local.  The matrices handed to the
  code under test are in local coordinates:  K = T^T K_basic T,  M = T^T M_basic T.

Analytic rigid-body mass properties come straight from the lumped data (never from the
assembled matrices):  total mass, CG, inertia about the CG (parallel axis sum) and the
6x6 rigid mass about a point P,  sum_k R(x_k + d_k - P)^T diag(m_k I, Ic_k) R(x_k + d_k - P).

Craig-Bampton reduction for boundary grids (ordered list) with the lowest nq
fixed-interface modes:
    Psi = -Kii^-1 Kib,  (Kii - lam Mii) Phi = 0,  Phi^T Mii Phi = I
    u = [[I, 0], [Psi, Phi]] [u_b; q]
    Mcb = [[Mbb + Mbi Psi + Psi^T Mib + Psi^T Mii Psi, (Mbi + Psi^T Mii) Phi], [sym, I]]
    Kcb = [[Kbb + Kbi Psi, 0], [0, diag(lam)]]
"""
import math

import numpy as np
import scipy.linalg as la

from . import coordsys as cs


def skew(r):
    return cs.skew(r)


def rlink(r):
    """6x6 rigid link: motion at offset r from the motion of the origin point"""
    R = np.eye(6)
    R[:3, 3:] = -skew(r)
    return R


def random_rotation(rng):
    q, r = np.linalg.qr(rng.standard_normal((3, 3)))
    q = q * np.sign(np.diag(r))
    if np.linalg.det(q) < 0:
        q[:, 0] = -q[:, 0]
    return q


def random_spd(rng, n, spread):
    """SPD matrix with eigenvalues log-uniform in [1, spread]"""
    q, _ = np.linalg.qr(rng.standard_normal((n, n)))
    lam = spread ** rng.uniform(0.0, 1.0, n)
    a = (q * lam) @ q.T
    return (a + a.T) / 2


def mass6(m, Ic, d):
    """6x6 mass about the grid of a body (m, Ic about its CG) whose CG is at offset d"""
    R = rlink(d)
    D = np.zeros((6, 6))
    D[:3, :3] = m * np.eye(3)
    D[3:, 3:] = Ic
    M = R.T @ D @ R
    return (M + M.T) / 2


def mass6_general(mxyz, I, d):
    """The 6x6 matrix printed in the cgmass documentation (masses may differ per axis);
    I is the 3x3 inertia matrix at the CG *as a matrix* (off-diagonals = -I_xy ...)."""
    mx, my, mz = (float(t) for t in mxyz)
    dx, dy, dz = (float(t) for t in d)
    M = np.zeros((6, 6))
    M[0, 0], M[1, 1], M[2, 2] = mx, my, mz
    M[0, 4], M[0, 5] = mx * dz, -mx * dy
    M[1, 3], M[1, 5] = -my * dz, my * dx
    M[2, 3], M[2, 4] = mz * dy, -mz * dx
    M[3:, :3] = M[:3, 3:].T
    J = np.array([[mz * dy ** 2 + my * dz ** 2, -mz * dx * dy, -my * dx * dz],
                  [-mz * dx * dy, mz * dx ** 2 + mx * dz ** 2, -mx * dy * dz],
                  [-my * dx * dz, -mx * dy * dz, mx * dy ** 2 + my * dx ** 2]])
    M[3:, 3:] = np.asarray(I, float) + J
    return M


class Structure:
    """free structure: xyz (N,3), frames [G_k], edges [(i, j, k_e)], masses [(m, Ic, d)]"""

    def __init__(self, xyz, frames, edges, masses):
        self.xyz = np.asarray(xyz, float)
        self.frames = [np.asarray(g, float) for g in frames]
        self.edges = [(int(i), int(j), np.asarray(k, float)) for i, j, k in edges]
        self.masses = [(float(m), np.asarray(Ic, float), np.asarray(d, float)) for m, Ic, d in masses]
        self.n = self.xyz.shape[0]

    # ---- assembled matrices
    def k_basic(self):
        K = np.zeros((6 * self.n, 6 * self.n))
        for i, j, ke in self.edges:
            B = np.zeros((6, 6 * self.n))
            B[:, 6 * i:6 * i + 6] = -rlink(self.xyz[j] - self.xyz[i])
            B[:, 6 * j:6 * j + 6] = np.eye(6)
            K += B.T @ ke @ B
        return (K + K.T) / 2

    def m_basic(self):
        M = np.zeros((6 * self.n, 6 * self.n))
        for k, (m, Ic, d) in enumerate(self.masses):
            M[6 * k:6 * k + 6, 6 * k:6 * k + 6] = mass6(m, Ic, d)
        return M

    def t_local(self):
        """d_basic = T d_local"""
        T = np.zeros((6 * self.n, 6 * self.n))
        for k, G in enumerate(self.frames):
            T[6 * k:6 * k + 3, 6 * k:6 * k + 3] = G
            T[6 * k + 3:6 * k + 6, 6 * k + 3:6 * k + 6] = G
        return T

    def km_local(self):
        T = self.t_local()
        K = T.T @ self.k_basic() @ T
        M = T.T @ self.m_basic() @ T
        return (K + K.T) / 2, (M + M.T) / 2

    # ---- rigid-body geometry
    def rb_local(self, P, grids=None):
        """rigid-body vectors (rows: 6 local DOF per grid) for unit motions of point P in basic"""
        grids = range(self.n) if grids is None else grids
        P = np.asarray(P, float)
        return np.vstack([cs.rigid_rows(self.frames[k], self.xyz[k] - P) for k in grids])

    # ---- analytic mass properties (from the lumped data only)
    def total_mass(self):
        return float(sum(m for m, _, _ in self.masses))

    def cg(self):
        s = np.zeros(3)
        for k, (m, _, d) in enumerate(self.masses):
            s += m * (self.xyz[k] + d)
        return s / self.total_mass()

    def inertia_about(self, P):
        """3x3 inertia matrix about point P (basic axes): sum Ic + m (|r|^2 I - r r^T)"""
        P = np.asarray(P, float)
        J = np.zeros((3, 3))
        for k, (m, Ic, d) in enumerate(self.masses):
            r = self.xyz[k] + d - P
            J += Ic + m * (float(r @ r) * np.eye(3) - np.outer(r, r))
        return J

    def inertia_cg(self):
        return self.inertia_about(self.cg())

    def rigid_mass(self, P):
        """6x6 mass of the whole structure moving rigidly, reference point P, basic axes"""
        P = np.asarray(P, float)
        M = np.zeros((6, 6))
        for k, (m, Ic, d) in enumerate(self.masses):
            R = rlink(self.xyz[k] + d - P)
            D = np.zeros((6, 6))
            D[:3, :3] = m * np.eye(3)
            D[3:, 3:] = Ic
            M += R.T @ D @ R
        return (M + M.T) / 2

    def grid_rigid_mass(self, grids, P):
        """same, only the lumped masses of the listed grids"""
        P = np.asarray(P, float)
        M = np.zeros((6, 6))
        for k in grids:
            m, Ic, d = self.masses[k]
            R = rlink(self.xyz[k] + d - P)
            D = np.zeros((6, 6))
            D[:3, :3] = m * np.eye(3)
            D[3:, 3:] = Ic
            M += R.T @ D @ R
        return (M + M.T) / 2

    def length_scale(self, P=None):
        P = np.zeros(3) if P is None else np.asarray(P, float)
        return max(1e-12, float(np.abs(self.xyz - P).max()))

    # ---- modifications
    def scaled_stiffness(self, s):
        return Structure(self.xyz, self.frames, [(i, j, ke * s) for i, j, ke in self.edges], self.masses)

    def with_frames(self, frames):
        return Structure(self.xyz, frames, self.edges, self.masses)

    def in_units(self, L, mc):
        """the same structure described in a unit system with length' = L length, mass' = mc mass
        (time unchanged): stiffness tt -> mc, tr -> mc L, rr -> mc L^2; inertia -> mc L^2"""
        s = np.array([1.0, 1.0, 1.0, L, L, L])
        edges = [(i, j, mc * ke * np.outer(s, s)) for i, j, ke in self.edges]
        masses = [(m * mc, Ic * mc * L * L, d * L) for m, Ic, d in self.masses]
        return Structure(self.xyz * L, self.frames, edges, masses)

    def freefree(self):
        """eigenvalues (rad/s)^2 of the free structure, ascending (first six ~ 0)"""
        K, M = self.km_local()
        return la.eigh(K, M, eigvals_only=True)


def build(seed, ngrids, nextra, length, kspread, offsets, f1):
    """Random free structure (basic output frames), first elastic free-free frequency = f1 Hz.

    seed, ngrids (3..10), nextra (edges beyond the spanning tree), length (half box size),
    kspread (eigenvalue spread of each joint stiffness), offsets (bool: CG offsets), f1 (Hz).
    """
    rng = np.random.default_rng(int(seed))
    N = int(ngrids)
    xyz = rng.uniform(-1.0, 1.0, (N, 3)) * length
    pairs = set()
    edges = []
    for i in range(1, N):
        j = int(rng.integers(0, i))
        pairs.add((j, i))
    allp = [(a, b) for a in range(N) for b in range(a + 1, N) if (a, b) not in pairs]
    order = rng.permutation(len(allp)) if allp else []
    for t in order[:int(nextra)]:
        pairs.add(allp[int(t)])
    sl = np.array([1.0, 1.0, 1.0, length, length, length])
    for a, b in sorted(pairs):
        if rng.integers(0, 2):
            a, b = b, a
        ke = random_spd(rng, 6, kspread) * np.outer(sl, sl)
        edges.append((a, b, ke))
    masses = []
    for k in range(N):
        m = float(rng.uniform(0.5, 5.0))
        rho = float(rng.uniform(0.05, 0.3)) * length
        Ic = m * rho * rho * random_spd(rng, 3, 4.0)
        d = rng.uniform(-1.0, 1.0, 3) * 0.2 * length if offsets else np.zeros(3)
        masses.append((m, Ic, d))
    S = Structure(xyz, [np.eye(3)] * N, edges, masses)
    lam = S.freefree()
    lam1 = float(lam[6])
    return S.scaled_stiffness((2.0 * math.pi * f1) ** 2 / lam1)


def dofs(grids):
    return np.array([6 * g + d for g in grids for d in range(6)], dtype=int)


def cb_reduce(S, bgrids, nq=None, dK=None):
    """Craig-Bampton reduction; b-set = 6 local DOF of each grid of `bgrids` in that order,
    interior grids in ascending order.  nq None = keep all fixed-interface modes.
    dK: optional symmetric matrix (local physical DOF) added to the stiffness before the
    reduction (grounding springs).
    Returns dict(M, K, nb, nq, psi, phi, lam, T, b, i, igrids, ...)."""
    K, M = S.km_local()
    if dK is not None:
        K = K + dK
    bgrids = [int(g) for g in bgrids]
    igrids = [g for g in range(S.n) if g not in bgrids]
    b = dofs(bgrids)
    i = dofs(igrids)
    nb, ni = len(b), len(i)
    nq = ni if nq is None else min(int(nq), ni)
    Kbb, Kbi, Kii = K[np.ix_(b, b)], K[np.ix_(b, i)], K[np.ix_(i, i)]
    Mbb, Mbi, Mii = M[np.ix_(b, b)], M[np.ix_(b, i)], M[np.ix_(i, i)]
    if ni:
        psi = -la.solve(Kii, Kbi.T, assume_a="pos")
        lam, phi = la.eigh(Kii, Mii)
        lam, phi = lam[:nq], phi[:, :nq]
    else:
        psi = np.zeros((0, nb))
        lam, phi = np.zeros(0), np.zeros((0, 0))
    mbb = Mbb + Mbi @ psi + psi.T @ Mbi.T + psi.T @ Mii @ psi
    mbq = (Mbi + psi.T @ Mii) @ phi
    kbb = Kbb + Kbi @ psi
    Mcb = np.zeros((nb + nq, nb + nq))
    Kcb = np.zeros((nb + nq, nb + nq))
    Mcb[:nb, :nb] = (mbb + mbb.T) / 2
    Mcb[:nb, nb:] = mbq
    Mcb[nb:, :nb] = mbq.T
    Mcb[nb:, nb:] = np.eye(nq)
    Kcb[:nb, :nb] = (kbb + kbb.T) / 2
    Kcb[nb:, nb:] = np.diag(lam)
    T = np.zeros((6 * S.n, nb + nq))
    T[b, :nb] = np.eye(nb)
    if ni:
        T[np.ix_(i, np.arange(nb))] = psi
        T[np.ix_(i, nb + np.arange(nq))] = phi
    return dict(M=Mcb, K=Kcb, nb=nb, nq=nq, psi=psi, phi=phi, lam=lam, T=T, b=b, i=i,
                bgrids=bgrids, igrids=igrids, Mii=Mii, Mbi=Mbi, Kii=Kii)


def participation(S, red, P):
    """L = Phi^T (M rb)_interior for rigid motion about P: (nq x 6); effective mass = L**2.
    Also returns the same for ALL fixed-interface modes (truncated ones included)."""
    _, M = S.km_local()
    rb = S.rb_local(P)
    mrb_i = (M @ rb)[red["i"]]
    L = red["phi"].T @ mrb_i
    if len(red["i"]):
        _, phi_all = la.eigh(red["Kii"], red["Mii"])
        Lall = phi_all.T @ mrb_i
    else:
        Lall = np.zeros((0, 6))
    return L, Lall


def embed(Mcb, nb, nq, bpos, qpos):
    """place a [b; q]-ordered matrix into the layout given by positions bpos (len nb), qpos (len nq)"""
    n = nb + nq
    pos = np.concatenate((np.asarray(bpos, int), np.asarray(qpos, int)))
    out = np.zeros((n, n), dtype=Mcb.dtype)
    out[np.ix_(pos, pos)] = Mcb
    return out


def layout_positions(rng, nbg, nq, kind):
    """positions of the nbg boundary grid blocks (6 consecutive DOF each, grid order kept) and of
    the nq modal DOF (order kept): 'bfirst', 'blast' or 'split' (blocks interleaved with modal DOF)"""
    n = 6 * nbg + nq
    if kind == "bfirst" or nq == 0:
        order = ["b"] * nbg + ["q"] * nq
    elif kind == "blast":
        order = ["q"] * nq + ["b"] * nbg
    else:
        order = ["b"] * nbg + ["q"] * nq
        order = [order[t] for t in rng.permutation(len(order))]
    bpos, qpos = [], []
    p = 0
    for o in order:
        if o == "b":
            bpos.extend(range(p, p + 6))
            p += 6
        else:
            qpos.append(p)
            p += 1
    assert p == n
    return np.array(bpos, int), np.array(qpos, int)


def unit_vectors(n, bpos, L, mc):
    """dimensional analysis of a CB model: x_old = C x_new, F_new = D F_old  (diagonals)
    b translations: length; b rotations: angle; modal DOF: sqrt(mass) length"""
    bpos = np.asarray(bpos, int)
    C = np.empty(n)
    D = np.empty(n)
    c = math.sqrt(mc) * L
    C[:] = 1.0 / c
    D[:] = c
    for t in range(len(bpos)):
        if t % 6 < 3:
            C[bpos[t]] = 1.0 / L
            D[bpos[t]] = mc * L
        else:
            C[bpos[t]] = 1.0
            D[bpos[t]] = mc * L * L
    return C, D


CONV = {"m2e": (1.0 / 0.0254, 0.0254 / 4.4482216152605),
        "e2m": (0.0254, 4.4482216152605 / 0.0254)}
# slinch = lbf s^2 / in = 4.4482216152605 N s^2 / 0.0254 m = 175.126835... kg
