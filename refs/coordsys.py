"""Reference model of Nastran CORD2R / CORD2C / CORD2S coordinate systems.

Written from the bulk-data definition, no pyyeti import:

* a CORD2x card gives three points A, B, C *in the coordinates of its
  reference system RID* (rectangular x,y,z / cylindrical r,theta,z /
  spherical r,theta,phi, angles in degrees; theta of the spherical system is
  measured from the +z axis, phi is the azimuth from +x towards +y);
* A is the origin, the local z axis points from A to B, C lies in the local
  x-z plane on the +x side;  y = z x (C-A) normalised, x = y x z;
* the basic system (id 0) is rectangular with origin 0 and axes = identity;
* the displacement (output) directions of a grid are the local unit vectors
  of its output system *at the grid*: (e_x,e_y,e_z), (e_r,e_theta,e_z),
  (e_r,e_theta,e_phi).

Everything is float64 numpy; matrices `T` have the local axes as columns
(local rectangular -> basic:  p = origin + T @ v).
"""
import math

import numpy as np

RECT, CYL, SPH = 1, 2, 3
D2R = math.pi / 180.0


class System:
    __slots__ = ("cid", "ctype", "origin", "T", "depth")

    def __init__(self, cid, ctype, origin, T, depth):
        self.cid = int(cid)
        self.ctype = int(ctype)
        self.origin = np.asarray(origin, float)
        self.T = np.asarray(T, float)
        self.depth = depth

    def info5x3(self):
        """the [id type 0; origin; T] table used by USET tables"""
        return np.vstack(([self.cid, self.ctype, 0.0], self.origin, self.T))


BASIC = System(0, RECT, np.zeros(3), np.eye(3), 0)


def unit(v):
    v = np.asarray(v, float)
    n = math.sqrt(float(v @ v))
    if n == 0.0:
        raise ZeroDivisionError("zero vector")
    return v / n


def to_rect(ctype, q):
    """coordinates in a system of type `ctype` -> that system's own rectangular x,y,z"""
    a, b, c = (float(t) for t in q)
    if ctype == RECT:
        return np.array([a, b, c])
    if ctype == CYL:
        return np.array([a * math.cos(b * D2R), a * math.sin(b * D2R), c])
    if ctype == SPH:
        st = math.sin(b * D2R)
        return np.array([a * st * math.cos(c * D2R), a * st * math.sin(c * D2R),
                         a * math.cos(b * D2R)])
    raise ValueError(f"unknown system type {ctype}")


def from_rect(ctype, v):
    """inverse of to_rect: r >= 0, cylindrical theta / spherical phi in (-180, 180],
    spherical theta in [0, 180] (degrees)"""
    x, y, z = (float(t) for t in v)
    if ctype == RECT:
        return np.array([x, y, z])
    if ctype == CYL:
        return np.array([math.hypot(x, y), math.atan2(y, x) / D2R, z])
    if ctype == SPH:
        rho = math.hypot(x, y)
        return np.array([math.sqrt(x * x + y * y + z * z),
                         math.atan2(rho, z) / D2R, math.atan2(y, x) / D2R])
    raise ValueError(f"unknown system type {ctype}")


def to_basic(sys, q):
    return sys.origin + sys.T @ to_rect(sys.ctype, q)


def local_rect(sys, p):
    """basic point -> rectangular components in the axes of `sys`"""
    return sys.T.T @ (np.asarray(p, float) - sys.origin)


def from_basic(sys, p):
    return from_rect(sys.ctype, local_rect(sys, p))


def define(cid, ctype, ref, A, B, C):
    """resolve one CORD2x card whose reference system `ref` is already resolved"""
    a = to_rect(ref.ctype, A)
    b = to_rect(ref.ctype, B)
    c = to_rect(ref.ctype, C)
    z = unit(b - a)
    y = unit(np.cross(z, c - a))
    x = np.cross(y, z)
    Tloc = np.column_stack((x, y, z))
    return System(cid, ctype, ref.origin + ref.T @ a, ref.T @ Tloc, ref.depth + 1)


def resolve(cards):
    """cards: iterable of dicts {cid, type, ref, A, B, C} in any order ->
    {cid: System} including the basic system 0"""
    todo = {int(c["cid"]): c for c in cards}
    out = {0: BASIC}

    def get(cid, stack=()):
        if cid in out:
            return out[cid]
        if cid in stack or cid not in todo:
            raise KeyError(f"coordinate system {cid} cannot be resolved")
        c = todo[cid]
        ref = get(int(c["ref"]), stack + (cid,))
        out[cid] = define(cid, c["type"], ref, c["A"], c["B"], c["C"])
        return out[cid]

    for cid in todo:
        get(cid)
    return out


def definition_quality(ref_ctype, A, B, C):
    """(|B-A|, |C-A|, sin of the angle between them) of a card, measured in the
    reference system's rectangular axes (lengths/angles do not depend on the frame)"""
    a = to_rect(ref_ctype, A)
    ab = to_rect(ref_ctype, B) - a
    ac = to_rect(ref_ctype, C) - a
    lab = math.sqrt(float(ab @ ab))
    lac = math.sqrt(float(ac @ ac))
    if lab == 0.0 or lac == 0.0:
        return lab, lac, 0.0
    cr = np.cross(ab, ac)
    return lab, lac, math.sqrt(float(cr @ cr)) / (lab * lac)


def axis_distance(sys, p):
    """distance of a basic point from the singular set of `sys`
    (z axis for cylindrical and spherical systems, nothing for rectangular)"""
    if sys.ctype == RECT:
        return math.inf
    v = local_rect(sys, p)
    return math.hypot(v[0], v[1])


def local_frame(sys, p):
    """3x3 matrix whose COLUMNS are the displacement directions (in basic) of a
    grid located at basic point `p` whose output system is `sys`"""
    if sys.ctype == RECT:
        return sys.T.copy()
    v = local_rect(sys, p)
    rho = math.hypot(v[0], v[1])
    if rho == 0.0:
        raise ZeroDivisionError("point on the polar axis")
    e_az = np.array([-v[1] / rho, v[0] / rho, 0.0])      # e_theta (cyl) / e_phi (sph)
    if sys.ctype == CYL:
        e_r = np.array([v[0] / rho, v[1] / rho, 0.0])
        loc = np.column_stack((e_r, e_az, [0.0, 0.0, 1.0]))
    else:
        e_r = unit(v)
        e_th = np.cross(e_az, e_r)                       # phi x r = theta
        loc = np.column_stack((e_r, e_th, e_az))
    return sys.T @ loc


def skew(r):
    x, y, z = (float(t) for t in r)
    return np.array([[0.0, -z, y], [z, 0.0, -x], [-y, x, 0.0]])


def rigid_rows(G, r):
    """6x6 rows of the rigid-body matrix for a grid with local frame G (columns
    = local directions in basic) at offset r = x_grid - x_ref from the reference
    point; columns are unit (ux,uy,uz,rx,ry,rz) of the reference point in basic:
        u_local     = G^T (u + theta x r) = G^T u - G^T [r x] theta
        theta_local = G^T theta"""
    G = np.asarray(G, float)
    out = np.zeros((6, 6))
    out[:3, :3] = G.T
    out[:3, 3:] = -G.T @ skew(r)
    out[3:, 3:] = G.T
    return out


def angle_diff_deg(a, b):
    """|a-b| modulo 360 in degrees, in [0, 180]"""
    d = math.fmod(float(a) - float(b), 360.0)
    if d < 0:
        d += 360.0
    return min(d, 360.0 - d)


def wls_rbe3(rb_ind, w, rb_dep_rows):
    """weighted least-squares interpolation: the motion d of the reference point
    that best fits independent motions u (min sum w (u - rb_ind d)^2) mapped to
    the dependent rows:  rb_dep_rows (rb_ind^T W rb_ind)^-1 rb_ind^T W"""
    rb_ind = np.asarray(rb_ind, float)
    w = np.asarray(w, float)
    A = rb_ind.T * w
    return rb_dep_rows @ np.linalg.solve(A @ rb_ind, A)
