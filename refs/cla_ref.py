"""Brute-force models for C16 (loads-analysis bookkeeping).  No pyyeti import.

Envelope model
--------------
A *leaf* is one load case (or one update of ``cla.extrema``) for one table of
``r`` rows: its per-row maximum / minimum, the label it carries for each row
and, per row, the set of abscissae at which the value is attained (``None`` =
the case has no abscissa: only NaN is admissible).  The envelope of a set of
leaves is the NaN-ignoring maximum / minimum; a reported (value, label,
abscissa) triple is *valid* when some leaf attains the envelope, carries that
label for that row and lists that abscissa.  Ties may therefore name any
attaining leaf.
"""
import numpy as np

NAN = float("nan")


def isnan(x):
    return x != x


def same(a, b):
    """NaN-aware exact equality of two scalars"""
    return bool(a == b) or (isnan(a) and isnan(b))


def close(a, b, rtol):
    if isnan(a) or isnan(b):
        return isnan(a) and isnan(b)
    if a == b:
        return True
    return abs(a - b) <= rtol * max(abs(a), abs(b))


def arr_same(a, b, rtol=0.0):
    a = np.asarray(a)
    b = np.asarray(b)
    if a.shape != b.shape:
        return False
    if rtol == 0.0:
        return bool(np.array_equal(a, b, equal_nan=True))
    na, nb = np.isnan(a), np.isnan(b)
    if not np.array_equal(na, nb):
        return False
    a = np.where(na, 0, a)
    b = np.where(nb, 0, b)
    return bool(np.all(np.abs(a - b) <= rtol * np.maximum(np.abs(a), np.abs(b))))


class Leaf:
    def __init__(self, mx, mn, lab_mx, lab_mn, x_mx=None, x_mn=None):
        self.v = (np.asarray(mx, float), np.asarray(mn, float))
        r = len(self.v[0])
        self.lab = (list(lab_mx) if not isinstance(lab_mx, str) else [lab_mx] * r,
                    list(lab_mn) if not isinstance(lab_mn, str) else [lab_mn] * r)
        # x_*: None or list (per row) of admissible abscissae (iterables)
        self.x = (x_mx, x_mn)

    def xset(self, col, i):
        xs = self.x[col]
        if xs is None:
            return [NAN]
        return list(xs[i])


def _key(v, col, absmode):
    """ordering key: the envelope is the leaf value with the largest key"""
    if isnan(v):
        return -np.inf
    k = abs(v) if absmode else v
    return k if col == 0 else -k


def envelope(leaves, absmode=False):
    """-> (r x 2) array [max, min] (absmode: value of largest / smallest magnitude; ties in
    magnitude with opposite sign: the first one found; use check_table for validity)"""
    r = len(leaves[0].v[0])
    out = np.full((r, 2), NAN)
    for i in range(r):
        for col in (0, 1):
            best = None
            for lf in leaves:
                v = lf.v[col][i]
                if isnan(v):
                    continue
                if best is None or _key(v, col, absmode) > _key(best, col, absmode):
                    best = v
            if best is not None:
                out[i, col] = best
    return out


def check_table(ext, ext_x, maxcase, mincase, leaves, rtol=0.0, absmode=False):
    """validity of a reported extreme table against the leaves -> list of (kind, detail)"""
    fails = []
    ext = np.asarray(ext, float)
    r = len(leaves[0].v[0])
    if ext.shape != (r, 2):
        return [("ext_shape", f"{ext.shape} vs {(r, 2)}")]
    if ext_x is not None and np.shape(ext_x) != (r, 2):
        return [("ext_x_shape", f"{np.shape(ext_x)} vs {(r, 2)}")]
    labs = (maxcase, mincase)
    for col, nm in ((0, "max"), (1, "min")):
        if labs[col] is None or len(labs[col]) != r:
            fails.append((f"{nm}case_length", f"{labs[col]!r}"))
            continue
        for i in range(r):
            got = float(ext[i, col])
            gx = NAN if ext_x is None else float(ext_x[i, col])
            glab = labs[col][i]
            vals = [lf.v[col][i] for lf in leaves]
            keys = [_key(v, col, absmode) for v in vals]
            kbest = max(keys)
            if kbest == -np.inf:
                # every leaf is NaN for this row
                if not isnan(got):
                    fails.append((f"ext_{nm}_value", f"row {i}: got {got}, every case is NaN"))
                elif glab not in [lf.lab[col][i] for lf in leaves]:
                    fails.append((f"{nm}case_label", f"row {i}: label {glab!r} names no case"))
                continue
            att = [lf for lf, k, v in zip(leaves, keys, vals)
                   if not isnan(v) and (k == kbest or close(k, kbest, rtol))]
            att_v = [lf for lf in att if close(got, lf.v[col][i], rtol)]
            if not att_v:
                fails.append((f"ext_{nm}_value",
                              f"row {i}: got {got!r}, envelope {[lf.v[col][i] for lf in att][:1]} "
                              f"case values {[float(v) for v in vals][:8]}"))
                continue
            att_l = [lf for lf in att_v if lf.lab[col][i] == glab]
            if not att_l:
                fails.append((f"{nm}case_label",
                              f"row {i}: label {glab!r} but the value {got!r} is attained by "
                              f"{sorted(set(lf.lab[col][i] for lf in att_v))[:6]}; case values "
                              f"{[float(v) for v in vals][:8]}"))
                continue
            if not any(any(same(gx, float(x)) or close(gx, float(x), rtol) for x in lf.xset(col, i))
                       for lf in att_l):
                fails.append((f"ext_x_{nm}",
                              f"row {i}: abscissa {gx!r} reported for case {glab!r} (value {got!r}); "
                              f"admissible {[[float(x) for x in lf.xset(col, i)][:4] for lf in att_l][:3]}"))
    return fails


def response_leaf(resp, x, label, mode="time"):
    """leaf of one case from its response matrix (rows x abscissae), NaN ignored.
    mode 'time': [max, min] of resp; mode 'frf': [max |resp|, -max |resp|], both at the
    abscissa of the maximum magnitude"""
    resp = np.asarray(resp)
    x = np.asarray(x, float)
    r = resp.shape[0]
    mag = np.abs(resp) if mode == "frf" else resp
    mx = np.full(r, NAN)
    mn = np.full(r, NAN)
    xs_mx, xs_mn = [], []
    for i in range(r):
        row = mag[i]
        ok = ~np.isnan(row)
        if not ok.any():
            xs_mx.append([NAN])
            xs_mn.append([NAN])
            continue
        hi = row[ok].max()
        lo = row[ok].min()
        mx[i] = hi
        xs_mx.append(x[ok & (row == hi)].tolist())
        if mode == "frf":
            mn[i] = -hi
            xs_mn.append(xs_mx[-1])
        else:
            mn[i] = lo
            xs_mn.append(x[ok & (row == lo)].tolist())
    return Leaf(mx, mn, label, label, xs_mx, xs_mn)


def trapz_rms(freq, psd):
    """sqrt of the trapezoid area under each row of psd"""
    freq = np.asarray(freq, float)
    psd = np.asarray(psd, float)
    area = np.zeros(psd.shape[0])
    for c in range(len(freq) - 1):
        area += (freq[c + 1] - freq[c]) * (psd[:, c] + psd[:, c + 1]) / 2
    return np.sqrt(area)


def psd_leaf(freq, psd, label, peak_factor=3.0):
    """documented PSD recovery: peak = peak_factor * rms, [pk, -pk]; abscissa = apparent
    frequency vel_rms / disp_rms (Hz) in both columns"""
    rms = trapz_rms(freq, psd)
    vrms = trapz_rms(freq, np.asarray(freq, float) ** 2 * psd)
    pk = peak_factor * rms
    with np.errstate(invalid="ignore", divide="ignore"):
        af = vrms / rms
    xs = [[float(a)] for a in af]
    return Leaf(pk, -pk, label, label, xs, xs), rms


# ------------------------------------------------------------------ apply_uf

def apply_uf_ref(a, v, d, pg, uf, M, B, K, nrb, rf):
    """transcription of the table in the apply_uf docstring.  M, B, K: full n x n; rf: index list.
    -> dict with a, v, d, d_static, d_dynamic, pg and 'dscale' (absolute scale of the
    displacement round-off: |K_ee^-1| (|M||a| + |B||v| + |K||d|))"""
    ruf, euf, duf, suf = uf
    a = np.asarray(a)
    n = a.shape[0]
    rf = [int(i) for i in rf]
    rb = list(range(nrb))
    el = [i for i in range(nrb, n) if i not in rf]
    ao = np.array(a, copy=True)
    vo = np.array(v, copy=True)
    ao[rb] = a[rb] * (ruf * suf)
    vo[rb] = np.asarray(v)[rb] * (ruf * suf)
    ao[el] = a[el] * (euf * duf)
    vo[el] = np.asarray(v)[el] * (euf * duf)
    ao[rf] = 0
    vo[rf] = 0
    ds = np.zeros_like(ao)
    dd = np.zeros_like(ao)
    dscale = 0.0
    condk = 1.0
    if el:
        ix = np.ix_(el, el)
        av = M[ix] @ a[el] + B[ix] @ np.asarray(v)[el]
        F = av + K[ix] @ np.asarray(d)[el]
        Ki = np.linalg.inv(K[ix])
        ds[el] = (euf * suf) * np.linalg.solve(K[ix], F)
        dd[el] = -(euf * duf) * np.linalg.solve(K[ix], av)
        mag = np.abs(M[ix]) @ np.abs(a[el]) + np.abs(B[ix]) @ np.abs(np.asarray(v)[el]) \
            + np.abs(K[ix]) @ np.abs(np.asarray(d)[el])
        dscale = float((np.abs(Ki) @ mag).max()) if mag.size else 0.0
        condk = float(np.linalg.cond(K[ix]))
    if rf:
        ds[rf] = (euf * suf) * np.asarray(d)[rf]
        ix = np.ix_(rf, rf)
        dscale = max(dscale, float(np.abs(np.asarray(d)[rf]).max()) if np.asarray(d)[rf].size else 0.0)
        condk = max(condk, float(np.linalg.cond(K[ix])))
    out = dict(a=ao, v=vo, d=ds + dd, d_static=ds, d_dynamic=dd, dscale=dscale, condk=condk,
               rb=rb, el=el, rf=rf)
    out["pg"] = None if pg is None else np.asarray(pg) * suf
    return out
