#!/bin/bash
# tools/try_patch.sh <Cxx> <worktree-or-patchfile> [tier]: run a check against a scratch copy of /repo/pyyeti with
# the uncommitted diff of a worktree (or a patch file) applied; the copy is removed afterwards.
ID=$1; SRC=$2; TIER=${3:-quick}
V=$(cd "$(dirname "$(readlink -f "$0")")/.." && pwd)
D=$(mktemp -d /var/tmp/pyyeti-try-XXXXXX)
cp -r /repo/pyyeti "$D/"; find "$D" -name __pycache__ -prune -exec rm -rf {} +
if [ -d "$SRC" ]; then git -C "$SRC" diff > "$D/p.diff"; else cp "$SRC" "$D/p.diff"; fi
patch -p1 -s -d "$D" -i "$D/p.diff" || { echo "patch failed"; rm -rf "$D"; exit 2; }
VERIF_REPO=$D VERIF_OUT_DIR=$D/out VERIF_NOSHRINK=1 "$V/vcheck" "$ID" "$TIER" 2>&1 | grep -v "^VIOLATION" | cut -c1-260 | tail -40
rc=${PIPESTATUS[0]}
rm -rf "$D"
echo "rc=$rc"
