#!/venv/bin/python
"""Sensitivity catalogue driver.

    tools/sensitivity.py C05 [mutant-id ...] [--tier quick] [--jobs 4] [--keep-going]
    tools/sensitivity.py --seeded [dir ...]

A mutant is {id, file, old, new[, nth][, note]} in mutants/<Cxx>.json: the
single occurrence (or the nth) of `old` in <repo>/<file> is replaced by `new`
in a scratch copy of the package under /var/tmp (never in /repo), the check
runs with VERIF_REPO pointing at the copy, and must exit 1.  Seeded changes
(seeded/<id>/patch.diff) are applied to a scratch copy with `patch -p1`.
Prints a kill matrix; exit 0 iff every mutant was killed.
"""
import json
import os
import shutil
import subprocess
import sys
import tempfile
from concurrent.futures import ThreadPoolExecutor
from pathlib import Path

VERIF = Path(__file__).resolve().parent.parent
REPO = Path(os.environ.get("VERIF_REPO", "/repo"))


def scratch_copy():
    d = Path(tempfile.mkdtemp(prefix="pyyeti-mut-", dir="/var/tmp"))
    shutil.copytree(REPO / "pyyeti", d / "pyyeti",
                    ignore=shutil.ignore_patterns("__pycache__", "*.so", "*.pyc"))
    return d


def run_check(prop, tier, repo, seed="1", scale=None):
    e = dict(os.environ, VERIF_REPO=str(repo), VERIF_SEED=seed, VERIF_NOSHRINK="1",
             VERIF_OUT_DIR=str(repo / "out"))
    if scale:
        e["VERIF_SCALE"] = scale
    r = subprocess.run([str(VERIF / "vcheck"), prop, tier], capture_output=True,
                       text=True, env=e)
    return r.returncode, r.stdout + r.stderr


def apply_mutant(root, m):
    if "edits" in m:          # a mutant made of several cooperating single replacements
        for e in m["edits"]:
            apply_mutant(root, dict(e, id=m["id"]))
        return
    p = root / m["file"]
    s = p.read_text()
    n = s.count(m["old"])
    nth = m.get("nth")
    if n == 0 or (n > 1 and nth is None):
        raise ValueError(f"mutant {m['id']}: pattern occurs {n} times in {m['file']}")
    if nth is None:
        s = s.replace(m["old"], m["new"], 1)
    else:
        parts = s.split(m["old"])
        s = m["old"].join(parts[:nth + 1]) + m["new"] + m["old"].join(parts[nth + 1:])
    p.write_text(s)


def one_mutant(prop, m, tier):
    d = scratch_copy()
    try:
        try:
            apply_mutant(d, m)
        except ValueError as e:
            return m["id"], -1, [str(e)], ""
        rc, out = run_check(prop, tier, d)
        kinds = [ln.strip() for ln in out.splitlines() if ln.startswith("  ") and ":" in ln][:3]
        return m["id"], rc, kinds, out
    finally:
        shutil.rmtree(d, ignore_errors=True)


def one_seeded(sd, tier):
    meta = json.loads((sd / "meta.json").read_text())
    d = scratch_copy()
    try:
        r = subprocess.run(["patch", "-p1", "-s", "-d", str(d), "-i", str(sd / "patch.diff")],
                           capture_output=True, text=True)
        if r.returncode != 0:
            return sd.name, -1, [r.stdout + r.stderr], ""
        res = []
        worst = 0
        for prop in meta["properties"]:
            rc, out = run_check(prop, tier, d)
            res.append(f"{prop}:rc={rc}")
            worst = max(worst, rc if rc in (0, 1) else 2)
            if rc == 1:
                res += [ln.strip() for ln in out.splitlines() if ln.startswith("  ")][:2]
        return sd.name, worst, res, ""
    finally:
        shutil.rmtree(d, ignore_errors=True)


def main(argv):
    tier = "quick"
    jobs = 3
    if "--tier" in argv:
        i = argv.index("--tier"); tier = argv[i + 1]; del argv[i:i + 2]
    if "--jobs" in argv:
        i = argv.index("--jobs"); jobs = int(argv[i + 1]); del argv[i:i + 2]
    verbose = "-v" in argv
    if verbose:
        argv.remove("-v")
    if argv and argv[0] == "--seeded":
        dirs = [VERIF / "seeded" / a for a in argv[1:]] or \
            sorted(p for p in (VERIF / "seeded").iterdir() if (p / "patch.diff").exists())
        with ThreadPoolExecutor(jobs) as ex:
            results = list(ex.map(lambda sd: one_seeded(sd, tier), dirs))
    else:
        prop = argv[0].upper()
        muts = json.loads((VERIF / "mutants" / f"{prop}.json").read_text())
        if len(argv) > 1:
            muts = [m for m in muts if m["id"] in argv[1:]]
        with ThreadPoolExecutor(jobs) as ex:
            results = list(ex.map(lambda m: one_mutant(prop, m, tier), muts))
    bad = 0
    for mid, rc, kinds, out in results:
        status = {1: "KILLED", 0: "SURVIVED", 2: "HARNESS-ERROR"}.get(rc, f"rc={rc}")
        if rc != 1:
            bad += 1
        print(f"{mid:40s} {status:14s} {' | '.join(kinds)[:200]}")
        if verbose or rc not in (0, 1):
            print(out[-1500:])
    return 1 if bad else 0


if __name__ == "__main__":
    sys.exit(main(sys.argv[1:]))
