#!/bin/bash
# tools/refresh_evidence.sh [Cxx ...]: full quick run (all parts, VERIF_SEED=1) of every (or the named) check so that
# evidence/Cxx.json describes a complete run of the committed machinery; then regenerates and validates MANIFEST.json
cd "$(dirname "$(readlink -f "$0")")/.." || exit 2
unset VERIF_PARTS VERIF_SCALE VERIF_REPO VERIF_OUT_DIR VERIF_NOSHRINK
export VERIF_SEED=1
L=${*:-C01 C02 C03 C04 C05 C06 C07 C08 C09 C10 C11 C12 C13 C14 C15 C16 C17 C18 C19 C20}
rc=0
for c in $L; do
  out=$(./vcheck $c quick 2>&1); r=$?
  echo "$c rc=$r $(echo "$out" | grep -m1 'evaluations=')"
  [ $r -ne 0 ] && { rc=1; echo "$out" | grep "VIOLATION\|HARNESS" | head -5; }
done
tools/mkmanifest.py || rc=1
exit $rc
