#!/bin/bash
# tools/seeded_intake.sh <ID> <agent-worktree> [name]
# Takes a seeded breaking change produced by a sub-agent, confirms it in a fresh scratch worktree of /repo
# (demo passes without / fails with the change; the repository's tests show no new failure) and stores it as
# /verif/seeded/<name>/{patch.diff, demo.py, meta.json}.  The scratch worktree is removed afterwards.
set -u
ID=$1; WT=$2; NAME=${3:-$ID}
V=$(cd "$(dirname "$(readlink -f "$0")")/.." && pwd)
D=$V/seeded/$NAME
mkdir -p "$D"
git -C "$WT" diff > "$D/patch.diff"
cp "$WT"/demo_*.py "$D/demo.py" 2>/dev/null
cp "$WT"/meta_*.json "$D/agent_meta.json" 2>/dev/null
[ -s "$D/patch.diff" ] || { echo "empty patch"; exit 2; }
C=/tmp/confirm-$NAME
git -C /repo worktree remove --force "$C" 2>/dev/null
git -C /repo worktree add -q "$C" HEAD || exit 2
cp /repo/pyyeti/rainflow/*.so "$C/pyyeti/rainflow/" 2>/dev/null
cp "$D/demo.py" "$C/demo.py"
( cd "$C" && timeout 900 /venv/bin/python demo.py > "$D/demo_without.log" 2>&1 ); rc0=$?
( cd "$C" && git apply "$D/patch.diff" ) || { echo "patch does not apply to /repo HEAD"; git -C /repo worktree remove --force "$C"; exit 2; }
if grep -q "c_rain.c" "$D/patch.diff"; then ( cd "$C" && /venv/bin/python setup.py build_ext --inplace > /dev/null 2>&1 ); fi
( cd "$C" && timeout 900 /venv/bin/python demo.py > "$D/demo_with.log" 2>&1 ); rc1=$?
if [ -n "${REUSE_TESTLOG:-}" ] && [ -s "$D/tests_with.log" ]; then :; else
( cd "$C" && timeout 3000 /venv/bin/python -m pytest -q -p no:cacheprovider --timeout=900 pyyeti/tests 2>&1 | tail -30 > "$D/tests_with.log" )
fi
fails=$(grep "^FAILED\|^ERROR" "$D/tests_with.log" | awk "{print \$2}" | sort)
allow="test_cbcoordchk test_cbcoordchk3 test_PSD_consistent test_transfer_orbit_cla test_era test_replace_basic_cs test_replace_basic_cs_2 test_uset2bulk test_wtrspline_rings test_newmark_nonlinear2 test_newmark_nonlinear3 test_solveunc_cd_as_force test_sparse_write test_area test_psd2time test_ksingle"
newfail=""
for f in $fails; do t=${f##*::}; case " $allow " in *" $t "*) ;; *) newfail="$newfail $f";; esac; done
# test_cbcheck_determinate is flaky at the pinned commit itself (~10 %, ARPACK start vector; DESIGN 7.5):
# it counts as a new failure only if it also fails 4 times in a row on its own
case "$newfail" in *test_cbcheck_determinate*)
  for i in 1 2 3 4; do
    if ( cd "$C" && /venv/bin/python -m pytest -q -p no:cacheprovider pyyeti/tests/test_cb.py -k cbcheck_determinate > /dev/null 2>&1 ); then
      newfail=$(echo "$newfail" | sed 's#[^ ]*test_cbcheck_determinate##'); echo "(flaky test_cbcheck_determinate passed on re-run $i)" >> "$D/tests_with.log"; break
    fi
  done;;
esac
summary=$(tail -1 "$D/tests_with.log")
/venv/bin/python - "$D" "$ID" "$rc0" "$rc1" "$newfail" "$summary" <<'PY'
import json, sys, os
D, ID, rc0, rc1, newfail, summary = sys.argv[1:7]
am = {}
try: am = json.load(open(os.path.join(D, "agent_meta.json")))
except Exception: pass
meta = dict(property=ID, properties=[ID], what_breaks=am.get("what_breaks"), needs_to_manifest=am.get("needs_to_manifest"),
            files_changed=am.get("files_changed"),
            confirmed=dict(demo_without_change_exit=int(rc0), demo_with_change_exit=int(rc1),
                           new_test_failures=newfail.split(), test_summary=summary,
                           how="fresh scratch worktree of /repo HEAD: demo.py run without and with patch.diff; full pytest run with the patch; only baseline always_fail tests may fail"))
json.dump(meta, open(os.path.join(D, "meta.json"), "w"), indent=1)
ok = int(rc0) == 0 and int(rc1) == 1 and not newfail.split()
print(("CONFIRMED " if ok else "NOT-CONFIRMED ") + ID, "demo:", rc0, rc1, "new failures:", newfail or "none", "|", summary)
PY
rm -f "$D/agent_meta.json"
git -C /repo worktree remove --force "$C"
