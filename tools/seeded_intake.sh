#!/bin/bash
# tools/seeded_intake.sh <ID> <agent-worktree> [name]
# Takes a seeded breaking change produced by a sub-agent, confirms it in a fresh scratch worktree of /repo
# (demo passes without / fails with the change; the repository's tests show no new failure) and stores it as
# /verif/seeded/<name>/{patch.diff, demo.py, meta.json}.  The scratch worktree is removed afterwards.
set -u
ID=$1; WT=$2; NAME=${3:-$ID}
V=$(cd "$(dirname "$(readlink -f "$0")")/.." && pwd)
D=$V/seeded/$NAME
mkdir -p "$D"
git -C "$WT" diff > "$D/patch.diff"
cp "$WT"/demo_*.py "$D/demo.py" 2>/dev/null
cp "$WT"/meta_*.json "$D/agent_meta.json" 2>/dev/null
[ -s "$D/patch.diff" ] || { echo "empty patch"; exit 2; }
C=/tmp/confirm-$NAME
git -C /repo worktree remove --force "$C" 2>/dev/null
git -C /repo worktree add -q "$C" HEAD || exit 2
cp /repo/pyyeti/rainflow/*.so "$C/pyyeti/rainflow/" 2>/dev/null
cp "$D/demo.py" "$C/demo.py"
( cd "$C" && timeout 900 /venv/bin/python demo.py > "$D/demo_without.log" 2>&1 ); rc0=$?
( cd "$C" && git apply "$D/patch.diff" ) || { echo "patch does not apply to /repo HEAD"; git -C /repo worktree remove --force "$C"; exit 2; }
if grep -q "c_rain.c" "$D/patch.diff"; then ( cd "$C" && /venv/bin/python setup.py build_ext --inplace > /dev/null 2>&1 ); fi
( cd "$C" && timeout 900 /venv/bin/python demo.py > "$D/demo_with.log" 2>&1 ); rc1=$?
if [ -n "${REUSE_TESTLOG:-}" ] && [ -s "$D/tests_with.log" ]; then :; else
# (the suite takes 1-10 minutes depending on load; a parallel srs test occasionally dead-locks in fork under load:
# an incomplete run is repeated, and never counts as a confirmation)
for attempt in 1 2 3; do
( cd "$C" && timeout 1500 /venv/bin/python -m pytest -q -p no:cacheprovider --timeout=900 pyyeti/tests 2>&1 | tail -30 > "$D/tests_with.log" )
grep -q " passed" "$D/tests_with.log" && break
done
fi
grep -q " passed" "$D/tests_with.log" || echo "FAILED INCOMPLETE-TEST-RUN::no_summary_line" >> "$D/tests_with.log"
fails=$(grep "^FAILED\|^ERROR" "$D/tests_with.log" | awk "{print \$2}" | sort)
allow="test_cbcoordchk test_cbcoordchk3 test_PSD_consistent test_transfer_orbit_cla test_era test_replace_basic_cs test_replace_basic_cs_2 test_uset2bulk test_wtrspline_rings test_newmark_nonlinear2 test_newmark_nonlinear3 test_solveunc_cd_as_force test_sparse_write test_area test_psd2time test_ksingle"
newfail=""
for f in $fails; do t=${f##*::}; case " $allow " in *" $t "*) ;; *) newfail="$newfail $f";; esac; done
# test_cbcheck_determinate is flaky at the pinned commit itself (~10 %, ARPACK start vector; DESIGN 7.5):
# it counts as a new failure only if it also fails 4 times in a row on its own
case "$newfail" in *test_cbcheck_determinate*)
  for i in 1 2 3 4; do
    if ( cd "$C" && /venv/bin/python -m pytest -q -p no:cacheprovider pyyeti/tests/test_cb.py -k cbcheck_determinate > /dev/null 2>&1 ); then
      newfail=$(echo "$newfail" | sed 's#[^ ]*test_cbcheck_determinate##'); echo "(flaky test_cbcheck_determinate passed on re-run $i)" >> "$D/tests_with.log"; break
    fi
  done;;
esac
# any other new failure is re-run on its own: a failure caused by the change is deterministic; tests that draw
# unseeded random data (test_fdepsd_pvelo, test_fdepsd_absacce, ...) fail a few per cent of the time on any tree.
# It is dropped from the list only if it passes three times in a row.
still=""
for f in $newfail; do
  ok=0
  for i in 1 2 3; do
    if ( cd "$C" && /venv/bin/python -m pytest -q -p no:cacheprovider "$f" > /dev/null 2>&1 ); then ok=$((ok+1)); fi
  done
  if [ $ok -eq 3 ]; then echo "(flaky $f passed 3 of 3 re-runs on its own)" >> "$D/tests_with.log"; else still="$still $f"; fi
done
newfail=$still
summary=$(grep -m1 "passed\|failed" <(tac "$D/tests_with.log") )
/venv/bin/python - "$D" "$ID" "$rc0" "$rc1" "$newfail" "$summary" <<'PY'
import json, sys, os
D, ID, rc0, rc1, newfail, summary = sys.argv[1:7]
am = {}
try: am = json.load(open(os.path.join(D, "agent_meta.json")))
except Exception: pass
meta = dict(property=ID, properties=[ID], what_breaks=am.get("what_breaks"), needs_to_manifest=am.get("needs_to_manifest"),
            files_changed=am.get("files_changed"),
            confirmed=dict(demo_without_change_exit=int(rc0), demo_with_change_exit=int(rc1),
                           new_test_failures=newfail.split(), test_summary=summary,
                           how="fresh scratch worktree of /repo HEAD: demo.py run without and with patch.diff; full pytest run with the patch; only baseline always_fail tests may fail"))
json.dump(meta, open(os.path.join(D, "meta.json"), "w"), indent=1)
ok = int(rc0) == 0 and int(rc1) == 1 and not newfail.split()
print(("CONFIRMED " if ok else "NOT-CONFIRMED ") + ID, "demo:", rc0, rc1, "new failures:", newfail or "none", "|", summary)
PY
rm -f "$D/agent_meta.json"
git -C /repo worktree remove --force "$C"
