#!/bin/bash
# tools/seeds.sh Cxx [tier] [seeds...] : the check must stay quiet on the unchanged tree at several seeds
cd "$(dirname "$(readlink -f "$0")")/.." || exit 2
p=$1; tier=${2:-quick}; shift; shift
seeds=${*:-"2 3 4 5 6"}
rc=0
for s in $seeds; do
  VERIF_OUT_DIR=.scratch/seedruns VERIF_SEED=$s ./vcheck $p $tier | tail -3 || rc=1
done
exit $rc
