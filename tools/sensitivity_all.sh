#!/bin/bash
# tools/sensitivity_all.sh [Cxx ...]: every mutant of every (or the named) check; prints survivors and a count per check
cd "$(dirname "$(readlink -f "$0")")/.." || exit 2
L=${*:-C01 C02 C03 C04 C05 C06 C07 C08 C09 C10 C11 C12 C13 C14 C15 C16 C17 C18 C19 C20}
for c in $L; do
  out=$(tools/sensitivity.py $c --jobs 4 2>&1 | grep -v "^WARNING")
  n=$(echo "$out" | grep -c "KILLED\|SURVIVED\|rc=\|HARNESS")
  k=$(echo "$out" | grep -c " KILLED ")
  echo "$c mutants=$n killed=$k"
  echo "$out" | grep -v " KILLED " | cut -c1-200
done
