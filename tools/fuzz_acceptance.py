#!/venv/bin/python
"""tools/fuzz_acceptance.py [Cxx ...]: fraction of random byte buffers that Hypothesis' fuzz_one_input turns
into a complete case, for every atheris-driven part (Part(..., fuzz=...)).  A strategy with a draw such as
st.integers(101, 110) (lower bound above 2**bits - 1) is never satisfied by the byte-string provider of
hypothesis 6.168 and would leave the coverage-guided tier empty: keep this near 100 %."""
import importlib
import sys
from pathlib import Path

VERIF = Path(__file__).resolve().parent.parent
sys.path.insert(0, str(VERIF))
sys.path.insert(0, str(VERIF / ".deps"))
import numpy as np  # noqa: E402
from hypothesis import HealthCheck, given, settings  # noqa: E402


def acceptance(strategy, nbytes=4096, N=60):
    n = [0]

    def cb(case):
        n[0] += 1
    test = settings(database=None, deadline=None, suppress_health_check=list(HealthCheck))(given(strategy)(cb))
    rng = np.random.default_rng(1)
    for _ in range(N):
        test.hypothesis.fuzz_one_input(rng.integers(0, 256, nbytes, dtype=np.uint8).tobytes())
    return n[0] / N


def main(argv):
    from vlib import core
    if "--raw" in argv:
        argv = [a for a in argv if a != "--raw"]
    else:
        core.shift_bounded_integers()      # as the fuzz tier does
    bad = 0
    mods = sorted(p.stem for p in (VERIF / "checks").glob("c*.py"))
    for m in mods:
        if argv and m[:3].upper() not in argv:
            continue
        mod = importlib.import_module("checks." + m)
        for part in mod.PARTS:
            if getattr(part, "fuzz", None):
                a = acceptance(part.strategy())
                print(f"{mod.PROPERTY} {part.name:20s} acceptance {a:.2f}")
                bad += a < 0.3
    return 1 if bad else 0


if __name__ == "__main__":
    sys.exit(main(sys.argv[1:]))
